"""C32 — Prelude string and list functions match their specification.

Proof: GardenVerif.Props.C32 over the shallow transcriptions of Model/Prelude.lean (built-ins from
src/eval.rs, Garden-source functions from src/__prelude.gdn line by line).
Tie (C): Garden programs printing `string_repr(f(args))` are run by the real `garden run` (many
independent calls per process, every process under a timeout and a 3 GB address-space limit); the
Lean driver evaluates the TRANSCRIPTION on the same arguments and renders the value the way
`string_repr` does; the two lines are compared.
Direct oracle: Python reference implementations written from the doc comments of
src/__prelude.gdn (not from the Lean) judge the implementation's output alone; a call that does
not return within the timeout is a termination violation.
"""
import os
from . import common

LEAN_MODULES = ["GardenVerif.Props.C32"]

I64_MAX = 9223372036854775807
I64_MIN = -9223372036854775808
ALPHA = ["a", "b", "\u00e9", " ", ",", "\n", "\t"]
WS = " \t\n\r"


class Some:
    def __init__(self, v):
        self.v = v

    def __eq__(self, o):
        return isinstance(o, Some) and o.v == self.v

    def __repr__(self):
        return "Some(%r)" % (self.v,)


class Exn:
    """The call is expected to raise a Garden exception."""

    def __init__(self, kind):
        self.kind = kind

    def __eq__(self, o):
        return isinstance(o, Exn) and o.kind == self.kind


# ------------------------------------------------------------------ rendering
def esc_repr(s):
    """string_repr of a string (src/values.rs escape_string_literal)."""
    return '"' + s.replace("\\", "\\\\").replace('"', '\\"').replace("\n", "\\n") + '"'


def render(v):
    """Python value -> text printed by Garden's string_repr."""
    if v is None:
        return "None"
    if isinstance(v, Some):
        return "Some(%s)" % render(v.v)
    if isinstance(v, bool):
        return "True" if v else "False"
    if isinstance(v, int):
        return str(v)
    if isinstance(v, str):
        return esc_repr(v)
    if isinstance(v, list):
        return "[" + ", ".join(render(x) for x in v) + "]"
    if isinstance(v, tuple):
        return "(" + ", ".join(render(x) for x in v) + ("," if len(v) == 1 else "") + ")"
    raise ValueError(v)


def lit_str(s):
    """Garden source literal for a string (\\r and non-ASCII are written raw)."""
    return '"' + s.replace("\\", "\\\\").replace('"', '\\"').replace("\n", "\\n").replace("\t", "\\t") + '"'


def lit_int(i):
    if i == I64_MIN:
        return "(-%d - 1)" % I64_MAX
    return str(i) if i >= 0 else "(-%d)" % -i


CLOSURES = {
    "dbl1": ("fun(x: Int) { x * 2 + 1 }", lambda x: x * 2 + 1),
    "neg": ("fun(x: Int) { x < 0 }", lambda x: x < 0),
    "pair": ("fun(x: Int) { (x, x - 1) }", lambda x: (x, x - 1)),
    "pos": ("fun(x: Int) { x > 0 }", lambda x: x > 0),
    "ne2": ("fun(x: Int) { x != 2 }", lambda x: x != 2),
    "all": ("fun(_: Int) { True }", lambda x: True),
    "nil": ("fun(_: Int) { False }", lambda x: False),
    "le1": ("fun(x: Int) { x <= 1 }", lambda x: x <= 1),
}


def lit(arg):
    t, v = arg
    if t == "s":
        return lit_str(v)
    if t == "i":
        return lit_int(v)
    if t == "li":
        return "[" + ", ".join(lit_int(x) for x in v) + "]"
    if t == "ls":
        return "[" + ", ".join(lit_str(x) for x in v) + "]"
    if t == "f":
        return CLOSURES[v][0]
    raise ValueError(arg)


def sexp(arg):
    t, v = arg
    if t == "s":
        return "(s %s)" % common.hexs(v) if v else "(s)"
    if t == "i":
        return "(i %d)" % v
    if t == "li":
        return "(li" + "".join(" %d" % x for x in v) + ")"
    if t == "ls":
        return "(ls" + "".join(" " + sexp(("s", x)) for x in v) + ")"
    if t == "f":
        return "(f %s)" % v
    raise ValueError(arg)


FREE_FUNS = {"range", "sort_nums", "min", "max"}
# driver/function name -> Garden method name
METHOD = {"list_len": "len", "list_contains": "contains", "list_index_of": "index_of"}


def garden_expr(fname, args):
    if fname in FREE_FUNS:
        return "%s(%s)" % (fname, ", ".join(lit(a) for a in args))
    return "%s.%s(%s)" % (lit(args[0]), METHOD.get(fname, fname), ", ".join(lit(a) for a in args[1:]))


def model_line(fname, args):
    return "prelude %s %s" % (fname, " ".join(sexp(a) for a in args))


# ------------------------------------------------------------------ reference implementations
# Written from the doc comments (and their examples) in src/__prelude.gdn.
def ref_lines(s):
    parts = s.split("\n")
    term = [True] * (len(parts) - 1) + [False]
    if parts[-1] == "":
        parts.pop()
        term.pop()
    return [p[:-1] if t and p.endswith("\r") else p for p, t in zip(parts, term)]


def ref_split(s, n):
    if n == "":
        return list(s)           # "If `needle` is empty, return the individual characters."
    if s == "":
        return []                # "".split(",") //-> []
    return s.split(n)


def ref_split_once(s, n):
    i = s.find(n)
    return None if i < 0 else Some((s[:i], s[i + len(n):]))


def ref_substring(s, i, j):
    if i < 0 or i > j:
        return Exn("substring")
    return s[i:j]


def ref_slice(l, i, j):
    return l[max(i, 0):j]        # Python slices already count a negative j from the end and clamp


def ref_index_of(s, n):
    i = s.find(n)
    return None if i < 0 else Some(i)


def ref_list_index_of(l, x):
    return Some(l.index(x)) if x in l else None


def ref_get(l, i):
    return Some(l[i]) if 0 <= i < len(l) else None


REF = {
    "split": ref_split,
    "split_once": ref_split_once,
    "join": lambda s, l: s.join(l),
    "replace": lambda s, b, a: s if b == "" else s.replace(b, a),
    "contains": lambda s, n: n in s,
    "starts_with": lambda s, n: s.startswith(n),
    "ends_with": lambda s, n: s.endswith(n),
    "trim_left": lambda s: s.lstrip(WS),
    "trim_right": lambda s: s.rstrip(WS),
    "trim": lambda s: s.strip(WS),
    "strip_prefix": lambda s, p: s[len(p):] if s.startswith(p) else s,
    "strip_suffix": lambda s, p: s[:len(s) - len(p)] if s.endswith(p) else s,
    "index_of": ref_index_of,
    "substring": ref_substring,
    "chars": lambda s: list(s),
    "len": lambda s: len(s),
    "lines": ref_lines,
    "slice": ref_slice,
    "get": ref_get,
    "first": lambda l: Some(l[0]) if l else None,
    "last": lambda l: Some(l[-1]) if l else None,
    "list_len": lambda l: len(l),
    "append": lambda l, x: l + [x],
    "list_contains": lambda l, x: x in l,
    "list_index_of": ref_list_index_of,
    "concat": lambda a, b: a + b,
    "enumerate": lambda l: [(i, x) for i, x in enumerate(l)],
    "map": lambda l, f: [CLOSURES[f][1](x) for x in l],
    "filter": lambda l, f: [x for x in l if CLOSURES[f][1](x)],
    "range": lambda i, j: list(range(i, j)),
    "sort_nums": lambda l: sorted(l),
    "min": lambda a, b: min(a, b),
    "max": lambda a, b: max(a, b),
}

# result a function gives when "nothing happens" (used to measure non-triviality)
TRIVIAL = {
    "split": lambda s, n: [s], "split_once": lambda s, n: None, "join": lambda s, l: "",
    "replace": lambda s, b, a: s, "contains": lambda s, n: False, "starts_with": lambda s, n: False,
    "ends_with": lambda s, n: False, "trim_left": lambda s: s, "trim_right": lambda s: s, "trim": lambda s: s,
    "strip_prefix": lambda s, p: s, "strip_suffix": lambda s, p: s, "index_of": lambda s, n: None,
    "substring": lambda s, i, j: "", "chars": lambda s: [], "len": lambda s: 0, "lines": lambda s: [s],
    "slice": lambda l, i, j: [], "get": lambda l, i: None, "first": lambda l: None, "last": lambda l: None,
    "list_len": lambda l: 0, "append": lambda l, x: [x], "list_contains": lambda l, x: False,
    "list_index_of": lambda l, x: None, "concat": lambda a, b: a, "enumerate": lambda l: [],
    "map": lambda l, f: [], "filter": lambda l, f: l, "range": lambda i, j: [], "sort_nums": lambda l: l,
    "min": lambda a, b: a, "max": lambda a, b: a,
}


def branch(fname, vals, ref):
    """A coarse label of which branch / shape of the function the case exercises."""
    if isinstance(ref, Exn):
        return "exception"
    if fname in ("split", "replace"):
        s, n = vals[0], vals[1]
        if n == "":
            return "empty-needle"
        if s == "":
            return "empty-string"
        k = s.count(n)
        occ = [i for i in range(len(s)) if s.startswith(n, i)]
        over = any(0 < i2 - i < len(n) for i in occ for i2 in occ)
        return "matches=%s%s" % (k if k < 3 else "3+", ",overlapping" if over else "")
    if fname in ("split_once", "index_of", "contains", "starts_with", "ends_with", "strip_prefix", "strip_suffix"):
        s, n = vals[0], vals[1]
        if n == "":
            return "empty-needle"
        if len(n) > len(s):
            return "needle-longer"
        i = s.find(n)
        return "absent" if i < 0 else ("at-start" if i == 0 else ("at-end" if i == len(s) - len(n) else "inside"))
    if fname in ("trim_left", "trim_right", "trim"):
        s = vals[0]
        if s != "" and s.strip(WS) == "":
            return "all-whitespace"
        if s.strip(" ") != s.strip(WS):
            return "tab-or-newline-at-edge"
        return "changed" if ref != s else "unchanged"
    if fname in ("get", "slice", "substring"):
        n = len(vals[0])
        idx = vals[1:]
        if any(i < 0 for i in idx):
            return "negative-index"
        if any(i > n for i in idx):
            return "index-beyond-end"
        return "in-range"
    if fname == "lines":
        s = vals[0]
        return ("cr," if "\r" in s else "") + ("trailing-nl" if s.endswith("\n") else "no-trailing-nl")
    if fname in ("range",):
        return "empty" if not ref else "nonempty"
    if fname == "sort_nums":
        l = vals[0]
        return "dups" if len(set(l)) < len(l) else ("sorted-already" if l == sorted(l) else "unsorted")
    if fname in ("min", "max"):
        return "equal" if vals[0] == vals[1] else ("first" if ref == vals[0] else "second")
    return "any"


# ------------------------------------------------------------------ running the implementation
def run_batch(ctx, sdir, tag, exprs, timeout):
    """Run the expressions in as few `garden run` processes as possible. Returns one outcome per
    expression: the printed line, or 'EXN <message>', 'TIMEOUT', 'CRASH <rc>', 'NOOUTPUT'.
    A call that raises ends its process, so the rest is run again; the chunk size halves after every
    failing call and doubles after a clean chunk (a function that always fails costs O(n) processes,
    not O(n^2) work)."""
    out = [None] * len(exprs)
    start = 0
    attempt = 0
    chunk = len(exprs)
    while start < len(exprs):
        stop = min(len(exprs), start + chunk)
        path = os.path.join(sdir, "%s_%d.gdn" % (tag, attempt))
        attempt += 1
        with open(path, "w", encoding="utf-8", newline="") as f:
            for k in range(start, stop):
                f.write('println("#%d " ^ string_repr(%s))\n' % (k, exprs[k]))
        rc, so, se = ctx.garden(["run", path], input=b"", timeout=timeout)
        if isinstance(so, bytes):
            so = so.decode("utf-8", "replace")
        if isinstance(se, bytes):
            se = se.decode("utf-8", "replace")
        got = start
        for line in so.split("\n"):
            pre = "#%d " % got
            if got < stop and line.startswith(pre):
                out[got] = line[len(pre):]
                got += 1
        if got >= stop:
            start = stop
            chunk = min(len(exprs), chunk * 2)
            continue
        # the call number `got` did not print
        if rc == -9999:
            out[got] = "TIMEOUT"
        elif common.crashed(rc):
            out[got] = "CRASH %d %s" % (rc, se.strip().split("\n")[0][:200] if se.strip() else "")
        elif "Exception" in se or "Error" in se:
            msg = [l for l in se.split("\n") if l.strip()]
            out[got] = "EXN " + (msg[0][:300] if msg else "")
        else:
            out[got] = "NOOUTPUT rc=%d" % rc
        start = got + 1
        chunk = max(4, chunk // 2)
    return out


def exn_kind(impl):
    if "must be greater than 0" in impl:
        return "substring-negative"
    if "cannot be greater than than the second" in impl:
        return "substring-order"
    return "other"


# ------------------------------------------------------------------ generators
def strings_upto(alpha, n):
    out = [""]
    layer = [""]
    for _ in range(n):
        layer = [s + c for s in layer for c in alpha]
        out += layer
    return out


def rand_string(rng, lo, hi, alpha=ALPHA):
    return "".join(rng.choice(alpha) for _ in range(rng.randint(lo, hi)))


def rand_needle(rng, s):
    r = rng.random()
    if s and r < 0.6:
        i = rng.randrange(len(s))
        return s[i:i + rng.randint(1, 3)]
    if r < 0.65:
        return ""
    return rand_string(rng, 1, 3)


def gen_cases(ctx):
    rng = ctx.rng
    thorough = not ctx.quick()
    cases = []

    def add(fname, *args):
        cases.append((fname, list(args)))

    S = lambda v: ("s", v)
    I = lambda v: ("i", v)
    LI = lambda v: ("li", list(v))
    LS = lambda v: ("ls", list(v))

    unary = ["trim_left", "trim_right", "trim", "chars", "len", "lines"]
    binary = ["split", "split_once", "contains", "starts_with", "ends_with", "strip_prefix", "strip_suffix",
              "index_of"]
    # unary: exhaustive to length 3 (4 at thorough) over the full alphabet
    for s in strings_upto(ALPHA, 4 if thorough else 3):
        for f in unary:
            add(f, S(s))
    for s in strings_upto(["a", "\n", "\r"], 4 if thorough else 3):
        if "\r" in s:
            add("lines", S(s))
            add("len", S(s))
    # binary: strings to length 2 x needles to length 2 over the full alphabet; strings of length 3
    # (4 at thorough) over a smaller alphabet x needles to length 2 over the same
    full2 = strings_upto(ALPHA, 2)
    small = ["a", "b", "\u00e9", ","]
    small_s = strings_upto(small, 4 if thorough else 3)
    small_n = strings_upto(small, 2)
    pairs = [(s, n) for s in full2 for n in full2] + [(s, n) for s in small_s if len(s) >= 3 for n in small_n]
    if thorough:
        pairs += [(s, n) for s in strings_upto(ALPHA, 3) if len(s) == 3 for n in full2]
    for s, n in pairs:
        for f in binary:
            add(f, S(s), S(n))
    # replace: small alphabet, needles to length 2, a few replacements (one contains the needle)
    rs = strings_upto(["a", "b", "\u00e9"], 4 if thorough else 3) + [s for s in full2 if len(s) == 2]
    for s in rs:
        for b in strings_upto(["a", "b", "\u00e9"], 2) + [" ", ","]:
            for a in ["", "x", "ab", "\u00e9" + b]:
                add("replace", S(s), S(b), S(a))
    # join
    items_pool = ["", "a", "b\u00e9", ",", " "]
    for sep in ["", ",", "\u00e9 ", "\n"]:
        for n in range(0, 4):
            for _ in range(1 if n == 0 else 6):
                add("join", S(sep), LS([rng.choice(items_pool) for _ in range(n)]))
    # substring: all index pairs from -2 .. len+2, plus i64 boundaries
    for s in strings_upto(["a", "\u00e9", "b"], 3):
        n = len(s)
        for i in range(-2, n + 3):
            for j in range(-2, n + 3):
                add("substring", S(s), I(i), I(j))
        for i, j in [(0, I64_MAX), (1, I64_MAX), (I64_MIN, 0), (I64_MAX, I64_MAX), (0, I64_MIN), (I64_MAX, I64_MIN)]:
            add("substring", S(s), I(i), I(j))
    # random longer strings, needles mostly taken from the string
    for _ in range(ctx.scale(600, 6000)):
        s = rand_string(rng, 4, 12)
        n = rand_needle(rng, s)
        for f in binary:
            add(f, S(s), S(n))
        add("replace", S(s), S(n), S(rng.choice(["", "x", n + n, "\u00e9"])))
        for f in unary:
            add(f, S(" " * rng.randint(0, 2) + s + rng.choice(["", " ", "  ", "\t", " \n"])))
        i, j = rng.randint(-1, len(s) + 1), rng.randint(-1, len(s) + 2)
        add("substring", S(s), I(i), I(j))
    # lists of small ints: exhaustive to length 3 over {-1, 0, 2}, plus random longer
    vals = [-1, 0, 2]
    lists = [[]]
    layer = [[]]
    for _ in range(3):
        layer = [l + [v] for l in layer for v in vals]
        lists += layer
    lists += [[rng.randint(-3, 3) for _ in range(rng.randint(4, 9))] for _ in range(ctx.scale(40, 400))]
    lists += [[I64_MAX, I64_MIN, 0], [5, 5, 5, 5], [3, 2, 1, 0, -1], [I64_MIN + 1, I64_MAX - 1]]
    slists = [[], ["a"], ["a", ""], ["\u00e9", "a", "\u00e9"], ["b", "a", "b", "c"]]
    for l in lists:
        n = len(l)
        for f in ["first", "last", "list_len", "enumerate", "sort_nums"]:
            add(f, LI(l))
        for i in list(range(-2, n + 3)) + [I64_MAX, I64_MIN]:
            add("get", LI(l), I(i))
        if n <= 3 or rng.random() < 0.3:
            for i in range(-n - 2, n + 3):
                for j in range(-n - 2, n + 3):
                    if n <= 2 or rng.random() < 0.35:
                        add("slice", LI(l), I(i), I(j))
        for i, j in [(0, I64_MAX), (I64_MIN, I64_MAX), (1, I64_MIN), (I64_MAX, I64_MAX), (I64_MIN, -1)]:
            add("slice", LI(l), I(i), I(j))
        for f in ["dbl1", "neg", "pair"]:
            if abs(max(l + [0])) < 10 ** 6 and abs(min(l + [0])) < 10 ** 6:
                add("map", LI(l), ("f", f))
        for f in ["pos", "ne2", "all", "nil", "le1"]:
            add("filter", LI(l), ("f", f))
        for x in [-1, 2, 7]:
            add("append", LI(l), I(x))
            add("list_contains", LI(l), I(x))
            add("list_index_of", LI(l), I(x))
        other = rng.choice(lists[:40])
        add("concat", LI(l), LI(other))
        add("concat", LI(other), LI(l))
    for l in slists:
        n = len(l)
        for f in ["first", "last", "list_len", "enumerate"]:
            add(f, LS(l))
        for i in range(-1, n + 2):
            add("get", LS(l), I(i))
            add("slice", LS(l), I(i), I(-1))
            add("slice", LS(l), I(0), I(i))
        add("concat", LS(l), LS(rng.choice(slists)))
        add("list_contains", LS(l), S("a"))
        add("list_index_of", LS(l), S("b"))
    # range, min, max
    for i in range(-3, 5):
        for j in range(-3, 5):
            add("range", I(i), I(j))
    for i, j in [(I64_MAX - 2, I64_MAX), (I64_MIN, I64_MIN + 2), (I64_MAX, I64_MIN), (I64_MAX, I64_MAX), (-40, 40)]:
        add("range", I(i), I(j))
    ints = [-2, -1, 0, 1, 2, I64_MIN, I64_MIN + 1, I64_MAX - 1, I64_MAX]
    for a in ints:
        for b in ints:
            add("min", I(a), I(b))
            add("max", I(a), I(b))
    return cases


# ------------------------------------------------------------------ the check
def classify_failure(fname, vals, ref, impl):
    """Key and description for an implementation result that differs from the reference."""
    if impl == "TIMEOUT":
        if fname in ("split", "replace") and vals[1] == "":
            return ("C32/empty-needle-nontermination",
                    "%s with an empty needle does not terminate (no result within the timeout)" % fname)
        return ("C32/%s-nontermination" % fname, "%s did not return within the timeout" % fname)
    if impl.startswith("CRASH"):
        return ("C32/%s-crash" % fname, "%s crashed the interpreter: %s" % (fname, impl))
    if fname in ("trim_left", "trim_right", "trim") and not impl.startswith(("EXN", "NOOUTPUT")):
        s = vals[0]
        space_only = {"trim_left": s.lstrip(" "), "trim_right": s.rstrip(" "), "trim": s.lstrip(" ").rstrip(" ")}[fname]
        if impl == render(space_only):
            return ("C32/trim-removes-only-space",
                    "the trim functions are documented to remove whitespace but remove only U+0020 "
                    "(tab/newline at the edge are kept)")
    if fname in ("index_of", "split_once") and vals[0] == "" and vals[1] == "" and impl == "None":
        return ("C32/empty-needle-in-empty-string",
                '"".index_of("") is None although "" occurs in "" at 0 (and "a".index_of("") is Some(0)); '
                "split_once inherits it")
    return ("C32/%s-mismatch" % fname, "%s returns something else than its reference implementation" % fname)


def run(ctx):
    cases = gen_cases(ctx)
    # dedupe, keep order
    seen = set()
    uniq = []
    for c in cases:
        k = repr(c)
        if k not in seen:
            seen.add(k)
            uniq.append(c)
    cases = uniq
    ctx.rule = ("calls f(args) for the %d listed prelude functions (+ append, List::len/contains/index_of): strings "
                "over {a, b, é, space, comma, newline, tab} exhaustively to length 3 for unary functions, strings to "
                "length 2 x needles to length 2 over the full alphabet and strings of length 3 x needles to length 2 "
                "over {a, b, é, comma} for binary ones (one more character at thorough), replace with 4 replacement "
                "texts, substring/get/slice with every index from -2 to len+2 and the i64 boundaries, lists of small "
                "ints exhaustively to length 3 plus random longer ones (duplicates, negatives, i64 extremes), random "
                "strings of length 4-12 with needles cut from the string. Non-trivial = the reference result differs "
                "from the function's do-nothing result (needle present, something trimmed, index in range, ...)."
                % len([f for f in REF if f not in ("append", "list_len", "list_contains", "list_index_of")]))
    vals_of = [[a[1] for a in args] for _, args in cases]
    refs = []
    for (fname, args), vals in zip(cases, vals_of):
        try:
            refs.append(REF[fname](*vals))
        except Exception as e:   # a reference must never fail
            raise RuntimeError("reference for %s%r failed: %r" % (fname, vals, e))

    # ---- implementation: cases expected to raise go alone, the rest in batches
    sdir = ctx.scratch("c32")
    exprs = [garden_expr(f, a) for f, a in cases]
    single = [k for k, r in enumerate(refs) if isinstance(r, Exn)]
    # calls that may hang on an unpatched tree are isolated too, so that one hang costs one timeout
    risky = [k for k, (f, a) in enumerate(cases) if f in ("split", "replace") and a[1][1] == ""]
    risky_keep = risky[:ctx.scale(6, 40)]
    alone = set(single) | set(risky)
    batched = [k for k in range(len(cases)) if k not in alone]
    bsize = 800
    jobs = [("b%d" % n, batched[p:p + bsize], 600) for n, p in enumerate(range(0, len(batched), bsize))]
    # exception cases: sample (every distinct (function, kind of index error) is kept at least 40x)
    exn_budget = ctx.scale(80, 1500)
    step = max(1, len(single) // exn_budget)
    single_run = single[::step]
    jobs += [("e%d" % k, [k], 20) for k in single_run]
    # empty needles: if the guard is there they return at once; group them after a first probe
    jobs += [("r%d" % k, [k], 10) for k in risky_keep]
    probe_hang = False

    def do(job):
        tag, ks, to = job
        return run_batch(ctx, sdir, tag, [exprs[k] for k in ks], to)

    impl = [None] * len(cases)
    for job, res in zip(jobs, common.pmap(do, jobs, workers=16)):
        for k, r in zip(job[1], res):
            impl[k] = r
    probe_hang = any(impl[k] == "TIMEOUT" for k in risky_keep)
    rest_risky = [k for k in risky if k not in set(risky_keep)]
    if not probe_hang and rest_risky:
        jobs2 = [("q%d" % n, rest_risky[p:p + bsize], 600) for n, p in enumerate(range(0, len(rest_risky), bsize))]
        for job, res in zip(jobs2, common.pmap(do, jobs2, workers=16)):
            for k, r in zip(job[1], res):
                impl[k] = r
    # A timeout on a loaded machine is not yet non-termination: every call that timed out is run again,
    # alone, with a much longer limit (a handful at most unless the tree really loops).
    slow = [k for k in range(len(cases)) if impl[k] == "TIMEOUT"]
    ctx.cov["timeouts_first_pass"] = len(slow)
    jobs3 = [("t%d" % k, [k], 120) for k in slow[:32]]
    for job, res in zip(jobs3, common.pmap(do, jobs3, workers=16)):
        for k, r in zip(job[1], res):
            impl[k] = r
    ctx.cov["timeouts_confirmed"] = len([k for k in range(len(cases)) if impl[k] == "TIMEOUT"])
    ctx.cov["garden_processes"] = len(jobs)

    # ---- model
    ran = [k for k in range(len(cases)) if impl[k] is not None]
    mlines = [model_line(*cases[k]) for k in ran]
    mres = ctx.model_batch(mlines)
    model = dict(zip(ran, mres))

    per_fn = {}
    branches = {}
    exn_kinds = {}
    n_dis = 0
    for k in ran:
        fname, args = cases[k]
        vals, ref, im = vals_of[k], refs[k], impl[k]
        expect = render(ref) if not isinstance(ref, Exn) else None
        nontrivial = isinstance(ref, Exn) or ref != TRIVIAL[fname](*vals)
        ctx.case((fname, vals), nontrivial)
        st = per_fn.setdefault(fname, {"calls": 0, "nontrivial": 0})
        st["calls"] += 1
        st["nontrivial"] += 1 if nontrivial else 0
        b = branch(fname, vals, ref)
        branches.setdefault(fname, {}).setdefault(b, 0)
        branches[fname][b] += 1
        # correspondence
        m = model[k]
        if m is not None and m.startswith("OK "):
            mtxt = common.unhex(m[3:])
            agree = (mtxt == im)
        elif m is not None and m.startswith("EXN "):
            agree = im.startswith("EXN ") and exn_kind(im) == m[4:]
            mtxt = m
        else:
            agree = False
            mtxt = m
        if im.startswith("EXN "):
            kk = exn_kind(im)
            exn_kinds[kk] = exn_kinds.get(kk, 0) + 1
        if not agree:
            n_dis += 1
            if n_dis <= 40:
                ctx.disagree("prelude " + fname, {"expr": exprs[k], "model_request": mlines[ran.index(k)] if n_dis < 5 else ""},
                             mtxt, im)
        # direct oracle (implementation vs reference written from the doc comments)
        ok = (im.startswith("EXN ") and exn_kind(im) != "other") if isinstance(ref, Exn) else (im == expect)
        if not ok:
            key, what = classify_failure(fname, vals, ref, im)
            ctx.fail(key, what, expr=exprs[k], observed=im,
                     expected=("an exception" if isinstance(ref, Exn) else expect),
                     replay_cmd="timeout 10 garden run -c 'println(string_repr(%s))'" % exprs[k].replace("'", "'\\''"))
        if len(ctx.samples) < 8 and nontrivial and k % 997 == 0:
            ctx.sample({"expr": exprs[k], "impl": im, "model": mtxt, "reference": expect})
    if n_dis > 40:
        ctx.log("%d correspondence disagreements in total (40 recorded)" % n_dis)
    ctx.cov["calls_compared"] = len(ran)
    ctx.cov["per_function"] = per_fn
    ctx.cov["branches"] = branches
    ctx.cov["exception_kinds"] = exn_kinds
    ctx.cov["functions_exercised"] = len(per_fn)
    ctx.cov["exception_cases_generated"] = len(single)
    ctx.cov["exception_cases_run"] = len(single_run)
    ctx.log("functions=%d calls=%d exceptions=%s processes=%d" % (len(per_fn), len(ran), exn_kinds, len(jobs)))
    ctx.assumptions += [
        "the transcriptions in Model/Prelude.lean are hand-written from src/__prelude.gdn and src/eval.rs; only this "
        "correspondence run ties them (text is modelled as a list of code points; byte-level Rust std calls find/"
        "starts_with/ends_with/lines are modelled at code-point level, exact for valid UTF-8)",
        "closures given to map/filter are total and pure; Garden Int arithmetic inside the functions cannot overflow "
        "(all intermediate values lie between -1 and 2*len+1 or between the two arguments of range)",
        "the model contains the empty-needle guards of patches/prelude-fix-empty-needle.diff for split and replace",
    ]


def replay(ctx, path):
    """Re-run the expression(s) of a replay file against the current build. An oracle replay fails
    again if the implementation still does not print the expected value; a correspondence replay
    fails if the implementation still differs from the recorded model output."""
    import json
    obj = json.load(open(path))
    sdir = ctx.scratch("c32-replay")
    items = []
    if obj.get("kind") == "oracle":
        items.append((obj.get("key", "C32/replay"), obj["expr"], obj.get("expected"), obj.get("what", "")))
    else:
        for b in obj.get("broken", []):
            if b.get("kind") == "correspondence" and "expr" in b.get("input", {}):
                items.append(("C32/replay-correspondence", b["input"]["expr"], b.get("model"), b.get("what", "")))
    ctx.rule = "replay of %d recorded expression(s)" % len(items)
    for n, (key, expr, expected, what) in enumerate(items):
        got = run_batch(ctx, sdir, "r%d" % n, [expr], 120)[0]
        ctx.case(expr, True)
        ctx.sample({"expr": expr, "impl": got, "expected": expected})
        ok = got.startswith("EXN ") if expected in ("an exception",) or str(expected).startswith("EXN ") else got == expected
        if not ok:
            ctx.fail(key, what or "replayed expression still differs", expr=expr, observed=got, expected=expected)
