import GardenVerif.Lemmas.BigStep
/-!
# C05 — Core-language programs behave as the reference semantics says

Reference semantics: `BigStep.eval` (Model/BigStep.lean, M5), an environment-passing definitional
interpreter that shares no evaluation code with the machine model M4 (`Machine.step`), which is
compared tick-by-tick with the real evaluator (C06/C08) — and both are compared with
`garden run` on every generated program (harness/c05.py, three-way differential).

PROVED (DESIGN §7 C05, the target, all stages):

    theorem machine_refines_bigstep (p : Program)
        (hwf : wfProgram p = true) (hex : exitsProgram p = true) (hlv : levelProgram p ≤ 2)
        (fuel : Nat) :
        match BigStep.runProgram p fuel with
        | (out, .val v) => ∃ n s, runN n (Machine.init p [] none none) = .done s v ∧ s.out = out
        | (out, .err e) => ∃ n s, runN n (Machine.init p [] none none) = .error s e ∧ s.out = out
        | _ => True          -- out of fuel / outside the fragment: nothing claimed

`runN n` = `n` iterations of `Machine.step`; `Machine.init p [] none none` = the state `garden run`
starts from (no interrupts, no tick / stack limit). The fragment predicates are decidable and are
evaluated by the driver on the REAL parser's tree of every generated program (harness/c05.py):
`wfProgram` (the parser's `value_is_used` flags), `exitsProgram` (break / continue in statement
position of a loop body), `levelProgram` (0: expressions, blocks, `let`, assignment, `+=`, `if`,
`match`, list / tuple literals, calls of built-ins and enum constructors; 1: + `while`, `for`,
`break`, `continue`; 2: + named functions, closures, `return`).

The simulation lemma (Lemmas/BigStep.lean) is stated for an arbitrary frame context — callers
`cs`, pending entries `K`, values `V`, any non-empty scopes — with one machine lemma per node
kind, and proved by induction on the big-step fuel (`Holds`, `Concl`, `sim_succ_a/b/c`, `sim2`).
Outside the fragment the implementation is known to deviate (known findings C05/exit-in-operand/*).
Nothing is claimed for runs that exhaust the fuel (non-termination) or leave the fragment.
-/
set_option linter.unusedSimpArgs false
namespace C05
open Machine BigStep BigStepLemmas

theorem level_toplevel (p : Program) (L : Nat) (h : levelProgram p ≤ L) : lvB p.toplevel ≤ L := by
  unfold levelProgram at h; omega

theorem wf_toplevel (p : Program) (h : wfProgram p = true) : wfAll p.toplevel = true := by
  unfold wfProgram at h; simp only [Bool.and_eq_true] at h; exact h.1

theorem exits_toplevel (p : Program) (h : exitsProgram p = true) : exB false false p.toplevel = true := by
  unfold exitsProgram at h; simp only [Bool.and_eq_true] at h; exact h.1

/-- **C05, the refinement theorem (all three stages).** For every program of the core fragment —
use flags as the parser sets them (`wfProgram`), `break` / `continue` in statement position of a
loop body (`exitsProgram`), node kinds of levels 0–2 (`levelProgram ≤ 2`: expressions, blocks,
`let` with destructuring, assignment, `+=`, binary operators, list / tuple literals, `if` / `else`,
`match`, built-in and constructor calls; `while`, `for`, `break`, `continue`; named functions with
recursion, function literals / closures, calls with frames, `return`) — and every fuel:
whenever the reference interpreter `BigStep.runProgram` ends with a value or an error, the machine
`Machine.step`, iterated from the state `garden run` starts in, reaches `done` with the same value,
resp. `error` with the same error kind, having printed the same output.

Proof: `sim2` (simulation for the interpreter with the fragment check made dynamic at closure
calls, by induction on the fuel, one machine lemma per node kind) and `runProgram_checked_eq` (on
programs of the fragment that interpreter is `BigStep.eval`: every closure value carries a body of
the fragment — invariant `vok`). -/
theorem machine_refines_bigstep (p : Program)
    (hwf : wfProgram p = true) (hex : exitsProgram p = true) (hlv : levelProgram p ≤ 2) (fuel : Nat) :
    match BigStep.runProgram p fuel with
    | (out, .val v) => ∃ n s, runN n (Machine.init p [] none none) = .done s v ∧ s.out = out
    | (out, .err e) => ∃ n s, runN n (Machine.init p [] none none) = .error s e ∧ s.out = out
    | _ => True := by
  have hf := funs_ok p hwf hex hlv
  rw [← runProgram_checked_eq p hf (level_toplevel p 2 hlv) (wf_toplevel p hwf) (exits_toplevel p hex) fuel]
  exact refines_of_IH (sim2 p hf fuel).1 (level_toplevel p 2 hlv) (wf_toplevel p hwf) (exits_toplevel p hex)

/-- Stage (a): expressions, blocks, `let`, assignment, `+=`, `if`, `match`, literals, built-in
calls (`levelProgram p ≤ 0`). -/
theorem machine_refines_bigstep_stage_a (p : Program)
    (hwf : wfProgram p = true) (hex : exitsProgram p = true) (hlv : levelProgram p ≤ 0) (fuel : Nat) :
    match BigStep.runProgram p fuel with
    | (out, .val v) => ∃ n s, runN n (Machine.init p [] none none) = .done s v ∧ s.out = out
    | (out, .err e) => ∃ n s, runN n (Machine.init p [] none none) = .error s e ∧ s.out = out
    | _ => True :=
  machine_refines_bigstep p hwf hex (by omega) fuel

/-- Stage (b): + `while`, `for`, `break`, `continue` (`levelProgram p ≤ 1`). -/
theorem machine_refines_bigstep_stage_b (p : Program)
    (hwf : wfProgram p = true) (hex : exitsProgram p = true) (hlv : levelProgram p ≤ 1) (fuel : Nat) :
    match BigStep.runProgram p fuel with
    | (out, .val v) => ∃ n s, runN n (Machine.init p [] none none) = .done s v ∧ s.out = out
    | (out, .err e) => ∃ n s, runN n (Machine.init p [] none none) = .error s e ∧ s.out = out
    | _ => True :=
  machine_refines_bigstep p hwf hex (by omega) fuel

/-- Stage (c): + named functions, closures, `return` (`levelProgram p ≤ 2`) — the full theorem. -/
theorem machine_refines_bigstep_stage_c (p : Program)
    (hwf : wfProgram p = true) (hex : exitsProgram p = true) (hlv : levelProgram p ≤ 2) (fuel : Nat) :
    match BigStep.runProgram p fuel with
    | (out, .val v) => ∃ n s, runN n (Machine.init p [] none none) = .done s v ∧ s.out = out
    | (out, .err e) => ∃ n s, runN n (Machine.init p [] none none) = .error s e ∧ s.out = out
    | _ => True :=
  machine_refines_bigstep p hwf hex hlv fuel

/-- Non-vacuity: a level-0 program with a `let`, an `if`/`else` block, a `match`, a built-in call
and a tuple satisfies the three fragment predicates (flags as the parser sets them). -/
def exampleA : Program :=
  { funs := [], enums := [],
    toplevel := [
      .letE 3 true (.sym "x") (.binop 2 true .add (.int 0 true 1) (.int 1 true 2)),
      .ifE 9 true (.binop 6 true .lt (.var 4 true "x") (.int 5 true 5))
        [.assign 8 false "x" (.int 7 true 7)] none,
      .call 14 true (.var 10 true "println")
        [.call 13 true (.var 11 true "string_repr") [.tuple 16 true [.var 12 true "x", .var 15 true "None"]]],
      .matchE 20 true (.call 19 true (.var 17 true "Some") [.var 18 true "x"])
        [.mk "Some" (some (.sym "y")) [.var 21 true "y"], .mk "_" none [.int 22 true 0]]] }

example : wfProgram exampleA = true ∧ exitsProgram exampleA = true ∧ levelProgram exampleA ≤ 0 := by
  refine ⟨?_, ?_, ?_⟩ <;>
    simp [exampleA, wfProgram, exitsProgram, levelProgram, wfAll, wfE, wfB, wfCases, exB, exE, exAll, exCases,
      lvB, lvE, lvCases, Expr.used]

/-- Non-vacuity for stage (b): `let i = 0  while True { i += 1  if i > 2 { break }  for x in [i] { continue } }  i`
(a loop with a `break` inside an `if` block followed by another loop, and a `continue`). -/
def exampleB : Program :=
  { funs := [], enums := [],
    toplevel := [
      .letE 1 true (.sym "i") (.int 0 true 0),
      .whileE 20 true (.var 2 true "True")
        [.update 4 false true "i" (.int 3 true 1),
         .ifE 9 false (.binop 7 true .gt (.var 5 true "i") (.int 6 true 2)) [.brk 8 false] none,
         .forE 14 false (.sym "x") (.list 11 true [.var 10 true "i"]) [.cont 12 false]],
      .var 21 true "i"] }

example : wfProgram exampleB = true ∧ exitsProgram exampleB = true ∧ levelProgram exampleB ≤ 1 := by
  refine ⟨?_, ?_, ?_⟩ <;>
    simp [exampleB, wfProgram, exitsProgram, levelProgram, wfAll, wfE, wfB, wfCases, exB, exE, exAll, exCases,
      lvB, lvE, lvCases, Expr.used]

/-- Non-vacuity for stage (c):
`fun f(n) { while True { if n > 2 { return n }  n += 1 }  0 }   let k = 10   let g = fun(x) { x + k }   g(f(1))`. -/
def exampleC : Program :=
  { funs := [{ name := "f", params := ["n"], body :=
      [.whileE 10 false (.var 1 true "True")
         [.ifE 6 false (.binop 4 true .gt (.var 2 true "n") (.int 3 true 2)) [.ret 5 false (some (.var 30 true "n"))] none,
          .update 8 false true "n" (.int 7 true 1)],
       .int 11 true 0] }],
    enums := [],
    toplevel := [
      .letE 13 true (.sym "k") (.int 12 true 10),
      .letE 19 true (.sym "g") (.lambda 18 true ["x"] [.binop 17 true .add (.var 15 true "x") (.var 16 true "k")]),
      .call 25 true (.var 20 true "g") [.call 24 true (.var 21 true "f") [.int 22 true 1]]] }

example : wfProgram exampleC = true ∧ exitsProgram exampleC = true ∧ levelProgram exampleC ≤ 2 := by
  refine ⟨?_, ?_, ?_⟩ <;>
    simp [exampleC, wfProgram, exitsProgram, levelProgram, wfAll, wfE, wfB, wfCases, exB, exE, exAll, exCases,
      lvB, lvE, lvCases, Expr.used]

/-- Both interpreters, evaluated by the kernel on the concrete programs above (a loop left by
`break` inside an `if` block and a `for` with `continue`; a named function returning from inside a
loop, a closure capturing `k`, nested calls): the same values. -/
def outInt : Outcome → Option Int64
  | .val (.int v) => some v
  | _ => none

def resInt : StepResult → Option Int64
  | .done _ (.int v) => some v
  | _ => none

set_option maxRecDepth 100000 in
example : outInt (runProgram exampleB 20).2 = some 3 := by decide
set_option maxRecDepth 100000 in
example : resInt (runN 200 (Machine.init exampleB [] none none)) = some 3 := by decide
set_option maxRecDepth 100000 in
example : outInt (runProgram exampleC 30).2 = some 13 := by decide
set_option maxRecDepth 100000 in
example : resInt (runN 300 (Machine.init exampleC [] none none)) = some 13 := by decide

end C05
