-- Root of the GardenVerif library: models, lemmas and property theorems.
import GardenVerif.Props.C01Lex
import GardenVerif.Props.C04
import GardenVerif.Props.C08
import GardenVerif.Props.C12
import GardenVerif.Props.C13
import GardenVerif.Props.C14
import GardenVerif.Props.C15
import GardenVerif.Props.C23
import GardenVerif.Props.C29
import GardenVerif.Props.C30
import GardenVerif.Props.C31
import GardenVerif.Props.C32
