import GardenVerif.Model.LspDispatch
/-!
Helper lemmas for C28 about the LSP dispatch model (`Model/LspDispatch.lean`): what one step answers,
when it stops, monotonicity of the shutdown flag, and the `run` loop by induction.
-/
set_option linter.unusedVariables false

namespace LspDispatch

theorem lookup_name {tbl : List LspMethod} {n : String} {e : LspMethod}
    (h : lookup tbl n = some e) : e.name = n := by
  unfold lookup at h
  have := List.find?_some h
  simpa using this

theorem lookup_mem {tbl : List LspMethod} {n : String} {e : LspMethod}
    (h : lookup tbl n = some e) : e ∈ tbl := by
  unfold lookup at h
  exact List.mem_of_find?_eq_some h

theorem wf_exit {tbl : List LspMethod} (wf : wfTable tbl = true) {e : LspMethod}
    (he : e ∈ tbl) (hk : e.kind = .exit) : e.name = "exit" := by
  unfold wfTable at wf
  simp only [Bool.and_eq_true, List.all_eq_true] at wf
  have := wf.1.1 e he
  simp [hk] at this
  exact this

theorem wf_has_exit {tbl : List LspMethod} (wf : wfTable tbl = true) :
    ∃ e, lookup tbl "exit" = some e ∧ e.kind = .exit := by
  unfold wfTable at wf
  simp only [Bool.and_eq_true] at wf
  have h := wf.1.2
  cases hl : lookup tbl "exit" with
  | none => simp [hl] at h
  | some e => simp [hl] at h; exact ⟨e, rfl, h⟩

theorem gardenMethods_wf : wfTable gardenMethods = true := by decide

theorem answer_respId (st : State) (e : LspMethod) (i : Id) (p : Params) :
    ∃ r, answer st e i p = .response i r := by
  unfold answer
  split
  · exact ⟨_, rfl⟩
  · exact ⟨_, rfl⟩
  · split
    · split
      · exact ⟨_, rfl⟩
      · split <;> exact ⟨_, rfl⟩
    · exact ⟨_, rfl⟩

theorem responseIds_append (a b : List Out) :
    responseIds (a ++ b) = responseIds a ++ responseIds b := by
  simp [responseIds]

/-- Known method: the responses are the id if the arm is a request arm, nothing otherwise. -/
theorem handleKnown_responseIds (st : State) (e : LspMethod) (m : Msg) :
    responseIds (handleKnown st e m).2 = (if e.isRequest then m.id else none).toList := by
  obtain ⟨n, k, d⟩ := e
  have ha := answer_respId st ⟨n, .request, d⟩
  unfold handleKnown
  cases k <;> simp only [LspMethod.isRequest] <;>
    first
    | (cases hi : m.id with
       | none => simp [responseIds, Out.respId?]
       | some i => obtain ⟨r, hr⟩ := ha i m.params; simp [responseIds, Out.respId?, hr])
    | (cases hs : m.sync <;> simp [responseIds, Out.respId?])
    | simp [responseIds, Out.respId?]

/-- The responses of one step are exactly the expected id (zero or one). -/
theorem handle_responseIds (tbl : List LspMethod) (st : State) (m : Msg) :
    responseIds (handle tbl st m).2 = (expectedId tbl m).toList := by
  unfold handle expectedId
  by_cases hE : m.envelopeOk = true
  · simp only [hE, Bool.not_true, Bool.false_eq_true, ↓reduceIte]
    cases hm : m.method with
    | none => simp [responseIds]
    | some name =>
      simp only
      cases hl : lookup tbl name with
      | none =>
        simp only
        cases hi : m.id <;> simp [responseIds, Out.respId?]
      | some e => simpa using handleKnown_responseIds st e m
  · simp only [Bool.not_eq_true] at hE
    simp only [hE, Bool.not_false, ↓reduceIte]
    cases m.rawId <;> simp [responseIds, Out.respId?]

theorem handleKnown_exited (st : State) (e : LspMethod) (m : Msg) :
    (handleKnown st e m).1.exited =
      if e.kind == .exit then some (if st.shutdown then 0 else 1) else st.exited := by
  obtain ⟨n, k, d⟩ := e
  unfold handleKnown
  cases k <;> simp only [] <;> cases m.id <;> cases m.sync <;> simp [State.insert, State.remove]

/-- The state after one step: exited iff the message is `exit` (status `0` after a `shutdown`, `1`
otherwise), else unchanged. -/
theorem handle_exited (tbl : List LspMethod) (st : State) (m : Msg) :
    (handle tbl st m).1.exited =
      if isExit tbl m then some (if st.shutdown then 0 else 1) else st.exited := by
  unfold handle
  by_cases hE : m.envelopeOk = true
  · simp only [hE, Bool.not_true, Bool.false_eq_true, ↓reduceIte]
    cases hm : m.method with
    | none => simp [isExit, hm]
    | some name =>
      simp only
      cases hl : lookup tbl name with
      | none =>
        have hx : isExit tbl m = false := by simp [isExit, hm, hl]
        simp only [hx]; cases m.id <;> simp
      | some e =>
        have hx : isExit tbl m = (e.kind == .exit) := by simp [isExit, hm, hl, hE]
        simp only [hx]
        exact handleKnown_exited st e m
  · simp only [Bool.not_eq_true] at hE
    have hx : isExit tbl m = false := by simp [isExit, hE]
    simp only [hE, Bool.not_false, ↓reduceIte, hx]
    cases m.rawId <;> simp

theorem handleKnown_shutdown (st : State) (e : LspMethod) (m : Msg) :
    (handleKnown st e m).1.shutdown = (st.shutdown || e.kind == .shutdown) := by
  obtain ⟨n, k, d⟩ := e
  unfold handleKnown
  cases k <;> simp only [] <;> cases m.id <;> cases m.sync <;> simp [State.insert, State.remove]

/-- The shutdown flag is never cleared. -/
theorem handle_shutdown_mono (tbl : List LspMethod) (st : State) (m : Msg)
    (h : st.shutdown = true) : (handle tbl st m).1.shutdown = true := by
  unfold handle
  by_cases hE : m.envelopeOk = true
  · simp only [hE, Bool.not_true, Bool.false_eq_true, ↓reduceIte]
    cases hm : m.method with
    | none => simpa
    | some name =>
      simp only
      cases hl : lookup tbl name with
      | none => simp only []; cases m.id <;> simpa
      | some e => simp [handleKnown_shutdown, h]
  · simp only [Bool.not_eq_true] at hE
    simp only [hE, Bool.not_false, ↓reduceIte]
    cases m.rawId <;> simpa

theorem run_exited_start (tbl : List LspMethod) (st : State) (ms : List Msg)
    (h : st.exited.isSome = true) : run tbl st ms = (st, []) := by
  cases ms <;> simp [run, h]

theorem run_cons (tbl : List LspMethod) (st : State) (m : Msg) (ms : List Msg)
    (h : st.exited = none) :
    run tbl st (m :: ms) =
      ((run tbl (handle tbl st m).1 ms).1,
       (handle tbl st m).2 ++ (run tbl (handle tbl st m).1 ms).2) := by
  simp [run, h]

end LspDispatch
