"""C31 — nREPL interrupt stops the running eval and no other.

Proof: GardenVerif.Props.C31 on the same model as C30 (M10): interrupt_hits_running,
close_stops_partial (run-level, via the step lemma armed_step), idle_interrupt_harmless
(clean_step), close_before_reset_unstoppable (the model run of the known finding).
Tie + oracle: as C30, with the interrupt schedules: interrupt while idle then an eval (must complete
normally), infinite loop + interrupt after the first streamed `out` (must end `interrupted` within
5 s), interrupt with a second eval queued behind (first interrupted, second runs normally), close
during an infinite loop (ends interrupted; later requests get unknown-session); each with and
without H4 delays. Known finding C31/close-before-reset: with a delay between dequeue and flag reset,
a `close` that is acknowledged does not stop the eval that was already dequeued.
"""
from . import nrepl_client as N

LEAN_MODULES = ["GardenVerif.Props.C31"]

CONFIGS = [
    ("idle_interrupt", {}), ("idle_interrupt", {"after_dequeue": 150}),
    ("idle_interrupt", {"interrupt_after_store": 60}),
    ("loop_interrupt", {}), ("loop_interrupt", {"interrupt_after_store": 80}),
    ("loop_interrupt", {"after_reset": 100, "before_done": 50}),
    ("interrupt_queued", {}), ("interrupt_queued", {"after_dequeue": 100}),
    ("close_loop", {}), ("close_loop", {"close_after_store": 80}),
    ("close_before_reset", {"after_dequeue": 300}),
    ("closed_session", {}),
    # an interrupt acknowledged after hand-over to the worker but before the interpreter loop (parse/load)
    # must stop the eval: with the H4 point `before_eval_loop` (patches/nrepl-hook-points2.diff) the worker is
    # stalled after parse/load and the interrupt is sent once the post-load diagnostic has been seen;
    # without any hook, a submission with >= 1 s of parse+load is interrupted 0.3-0.5 s after hand-over
    ("parse_window_hook", {"before_eval_loop": 1200}),
    ("parse_window_big", {}),
    # a pending interrupt (eval blocked in `shell::run("sleep", ["2"])`) must survive a completions / lookup /
    # eval request dispatched to the same session before the built-in returns
    ("pending_interrupt", {}),
]
N_BY_KIND = {"parse_window_hook": 3, "parse_window_big": 2, "pending_interrupt": 4}


def extra(kind, sc, res):
    bad = []
    if kind == "close_before_reset":
        # request "1" is the eval, "2" the close
        closed = any(m.get("id") == "2" and "session-closed" in (m.get("status") or []) for m in res["received"])
        for m in res["received"]:
            if m.get("id") == "1" and "done" in (m.get("status") or []) and "interrupted" not in m["status"] and closed:
                bad.append(("C31/close-before-reset",
                            "close was acknowledged while the eval had been dequeued but its flag reset had not "
                            "happened: the reset cleared the flag and the eval ran to completion (status %s)" % m["status"]))
    return bad


def run(ctx):
    n = ctx.scale(10, 60)
    configs = list(CONFIGS)
    if not ctx.quick():
        pts = ["after_dequeue", "after_reset", "interrupt_after_store", "close_after_store", "before_done",
               "flusher_take_send", "before_stop"]
        kinds = ["idle_interrupt", "loop_interrupt", "interrupt_queued", "close_loop"]
        for _ in range(20):
            d = {p: ctx.rng.randint(1, 200) for p in ctx.rng.sample(pts, ctx.rng.randint(1, 2))}
            if "after_dequeue" in d:
                continue   # would move the interrupt/close into the documented pre-reset window
            configs.append((ctx.rng.choice(kinds), d))
    ctx.rule = ("scripted nREPL clients: %d interrupt/close schedules (kind x H4 delay setting) x %d randomised scripts "
                "each; interrupt sent after the first streamed `out` (optionally after a random extra sleep). "
                "Non-trivial = an eval ended interrupted or streamed >=2 chunks, or a closed session is involved."
                % (len(configs), n))
    ctx.assumptions += [
        "as C30; 'promptly' is checked as: `done interrupted` arrives within 5 s of the interrupt/close",
        "the window between a request's dequeue and its flag reset is excluded from close_stops (known finding C31/close-before-reset); "
        "an interrupt landing there is by definition an idle interrupt",
    ]
    import os, re
    from . import common
    try:
        src = open(os.path.join(common.REPO, "src", "nrepl.rs")).read()
    except OSError:
        src = ""
    ctx.cov["hook_before_eval_loop_present"] = 'verif_point("before_eval_loop")' in src
    if not ctx.cov["hook_before_eval_loop_present"]:
        ctx.notes.append("H4 point before_eval_loop is not in this tree (patches/nrepl-hook-points2.diff): the "
                         "parse_window_hook probe cannot stall the worker and only the hook-free parse_window_big "
                         "probe covers the parse/load window")
    ctx.assumptions.append("parse_window_big: an idle session worker dequeues a request (and resets the flag) within "
                           "0.3 s of the reader handing it over; a miss is re-run once with 4x bounds before it is reported")
    N.run_configs(ctx, "C31", configs, n, extra_oracle=extra, n_by_kind=N_BY_KIND)
