import GardenVerif.Lemmas.Resume
/-!
Helper lemmas for C11 (incremental = batch): **definition monotonicity** of the evaluator.

`dispatch_mono_partial` (one `eval_expr` dispatch), `step_mono` (one loop iteration),
`eval_mono_partial`: an evaluation that ends with a value under program `p` ends with the same value,
after the same number of steps, in the same state, under any `p'` that adds FUNCTION definitions with
fresh names (`Ext`, `ext_of_fresh`, `freshFuns`). This is what makes "the later inputs' definitions are
loaded first" unobservable to the earlier inputs. `_partial`: added ENUM definitions are not covered
(`Ext.enums` demands equal enums: `display` looks the variant names up in the program, so it needs the
invariant that every enum value on the stacks has a defined type).
-/
set_option linter.unusedVariables false
set_option linter.unusedSimpArgs false

namespace C11
open Machine Resume ResumeL

/-- `p'` = `p` plus function definitions: same enums and toplevel; every function `p` resolves
resolves to the same definition, every name `p` resolves resolves to the same value. -/
structure Ext (p p' : Program) : Prop where
  enums : p'.enums = p.enums
  funs : ∀ n d, p.funs.find? (fun f => f.name == n) = some d → p'.funs.find? (fun f => f.name == n) = some d
  names : ∀ n v, nsLookup p n = some v → nsLookup p' n = some v

/-- Decidable freshness of added function definitions: none of the new names is already a function,
an enum variant (user or prelude) or a built-in of `p`. -/
def freshFuns (p : Program) (extra : List FunDef) : Bool :=
  extra.all fun d => (nsLookup p d.name).isNone

theorem find_append_mono (l extra : List FunDef) (n : String) (d : FunDef)
    (h : l.find? (fun f => f.name == n) = some d) :
    (l ++ extra).find? (fun f => f.name == n) = some d := by
  simp [List.find?_append, h]

/-- Adding fresh function definitions is an extension. -/
theorem ext_of_fresh (p : Program) (extra : List FunDef) (h : freshFuns p extra = true) :
    Ext p { p with funs := p.funs ++ extra } := by
  refine ⟨rfl, fun n d hd => find_append_mono _ _ _ _ hd, ?_⟩
  intro n v hv
  unfold nsLookup at hv ⊢
  cases hf : p.funs.find? (fun f => f.name == n) with
  | some d =>
    simp only [hf] at hv
    simp [List.find?_append, hf]
    simpa using hv
  | none =>
    simp only [hf] at hv
    have hn : extra.find? (fun f => f.name == n) = none := by
      rw [List.find?_eq_none]
      intro d hd hdn
      have := List.all_eq_true.mp h d hd
      have hname : d.name = n := by simpa using hdn
      unfold nsLookup at this
      rw [hname, hf] at this
      revert this hv
      cases findVariant (p.enums ++ preludeEnums) n <;> simp
      intro a _; exact a
    simp [List.find?_append, hf, hn]
    simpa using hv

theorem getVar_mono {p p' : Program} (hx : Ext p p') (f : Frame) (n : String) (v : Value)
    (h : getVar p f n = some v) : getVar p' f n = some v := by
  unfold getVar at h ⊢
  split <;> simp_all
  exact hx.names _ _ h


theorem variantName_ext (p p' : Program) (h : p'.enums = p.enums) (ty : String) (idx : Nat) :
    variantName p' ty idx = variantName p ty idx := by
  unfold variantName; rw [h]

mutual
theorem display_ext (p p' : Program) (h : p'.enums = p.enums) : (v : Value) → display p' v = display p v
  | .int v => by simp [display]
  | .str s => by simp [display]
  | .list items => by simp [display, displayList_ext p p' h items]
  | .tuple items => by simp [display, displayList_ext p p' h items]
  | .enumV ty idx none => by simp [display, variantName_ext p p' h]
  | .enumV ty idx (some v) => by simp [display, variantName_ext p p' h, display_ext p p' h v]
  | .enumC ty idx => by simp [display, variantName_ext p p' h]
  | .closure .. => by simp [display]
  | .fn n => by simp [display]
  | .builtin n => by simp [display]
theorem displayList_ext (p p' : Program) (h : p'.enums = p.enums) :
    (l : List Value) → displayList p' l = displayList p l
  | [] => by simp [displayList]
  | v :: vs => by simp [displayList, display_ext p p' h v, displayList_ext p p' h vs]
end

theorem matchCases_mono {p p' : Program} (hx : Ext p p') (f : Frame) (used : Bool) (ty : String) (idx : Nat)
    (pl : Option Value) : ∀ (cases : List Case) (f' : Frame),
    matchCases p f used ty idx pl cases = .ok f' → matchCases p' f used ty idx pl cases = .ok f' := by
  intro cases
  induction cases with
  | nil => intro f' h; simp [matchCases] at h
  | cons c rest ih =>
    intro f' h
    cases c with
    | mk variant dest body =>
      unfold matchCases at h ⊢
      by_cases hv : (variant == "_") = true
      · simp only [hv, if_true] at h ⊢; exact h
      · simp only [hv, if_false] at h ⊢
        cases hg : getVar p f variant with
        | none => simp [hg] at h
        | some pv =>
          rw [getVar_mono hx f variant pv hg]
          simp only [hg] at h ⊢
          cases hk : patKey pv with
          | none => simp [hk] at h
          | some pr =>
            obtain ⟨pty, pidx⟩ := pr
            simp only [hk] at h ⊢
            by_cases hc : (ty == pty && idx == pidx) = true
            · simp only [hc, if_true] at h ⊢
              cases hb : bindPayload pl dest with
              | none => simp only [hb] at h ⊢; exact ih _ h
              | some r =>
                cases r with
                | ok bs => simp only [hb] at h ⊢; exact h
                | error er => simp [hb] at h
            · simp only [hc, if_false] at h ⊢
              exact ih _ h

def fails : Disp → Bool
  | .err .. => true
  | .panic _ => true
  | _ => false


theorem evalCall_mono {p p' : Program} (hx : Ext p p') (f : Frame) (id : Nat) (used : Bool) (n : Nat)
    (h : fails (evalCall p f id used n) = false) : evalCall p' f id used n = evalCall p f id used n := by
  unfold evalCall at h ⊢
  cases hp : popN n f.values with
  | none => rfl
  | some pr =>
    obtain ⟨args, vals⟩ := pr
    simp only [hp] at h ⊢
    cases vals with
    | nil => rfl
    | cons recv vals =>
      simp only at h ⊢
      cases recv with
      | fn name =>
        simp only at h ⊢
        cases hf : p.funs.find? (fun d => d.name == name) with
        | none => simp [hf, fails] at h
        | some d => rw [hx.funs name d hf]
      | builtin name =>
        simp only [display_ext p p' hx.enums]
      | _ => rfl

/-- **`dispatch` is monotone in the program**: a step that neither fails nor crashes under `p` does
exactly the same under any extension `p'` of `p` by fresh function definitions. -/
theorem dispatch_mono_partial {p p' : Program} (hx : Ext p p') (f : Frame) (st : St) (e : Expr)
    (h : fails (dispatch p f st e) = false) : dispatch p' f st e = dispatch p f st e := by
  cases e
  case var id u n =>
    simp only [dispatch] at h ⊢
    cases hg : getVar p f n with
    | none => simp [hg, fails] at h
    | some v => simp [getVar_mono hx f n v hg]
  case update id u isAdd name inner =>
    simp only [dispatch] at h ⊢
    by_cases hs : (st != St.E) = true
    · simp [hs]
    · simp only [hs, if_false] at h ⊢
      cases hg : getVar p f name with
      | none => simp [hg, fails] at h
      | some v => rw [getVar_mono hx f name v hg]
  case matchE id u scrut cases =>
    simp only [dispatch] at h ⊢
    cases st <;> simp only at h ⊢
    all_goals (
      revert h
      split
      · split
        · intro h
          split at h
          · rename_i hm; rw [matchCases_mono hx _ _ _ _ _ _ _ hm]
          · simp [fails] at h
        · intro _; rfl
      · intro _; rfl)
  case call id u recv args =>
    simp only [dispatch] at h ⊢
    cases st <;> simp only at h ⊢
    exact evalCall_mono hx f _ _ _ h
  all_goals simp only [dispatch]

-- ------------------------------------------------------------------ lifting to `step` and `eval`

/-- The same machine state under another program. -/
def withProg (p' : Program) (s : State) : State := { s with prog := p' }

/-- The step neither failed, crashed nor left the fragment. -/
def okStep : StepResult → Bool
  | .cont _ => true
  | .done _ _ => true
  | _ => false

theorem stopCheck_withProg (p' : Program) (a : State) (f : Frame) (st : St) (e : Expr) :
    stopCheck (withProg p' a) f st e = C08.mapState (withProg p') (stopCheck a f st e) := by
  have hs : (withProg p' a).stopAt = a.stopAt := rfl
  unfold stopCheck
  rw [hs]
  by_cases h1 : (a.stopAt == some e.id) = true
  · rw [if_pos h1, if_pos h1]
    by_cases h2 : doneSub st e = true
    · rw [if_pos h2, if_pos h2]; cases f.values <;> simp [C08.mapState]
    · rw [if_neg h2, if_neg h2]
      split <;> (try split) <;> simp [C08.mapState]
  · rw [if_neg h1, if_neg h1]; simp [C08.mapState]

theorem setTop_withProg (p' : Program) (a : State) (f : Frame) :
    setTop (withProg p' a) f = withProg p' (setTop a f) := by
  unfold setTop withProg; cases hf : a.frames <;> simp [hf]

/-- **`step` is monotone in the program**: a step that continues or finishes under `s.prog` does the
same, with the same successor state, under any extension by fresh function definitions. -/
theorem step_mono (s : State) (p' : Program) (hx : Ext s.prog p') (h : okStep (step s) = true) :
    step (withProg p' s) = C08.mapState (withProg p') (step s) := by
  unfold step at h ⊢
  simp only [withProg] at ⊢
  match hf : s.frames with
  | [] => simp [hf, C08.mapState, withProg]
  | f :: callers =>
    simp only [hf] at h ⊢
    match he : f.exprs with
    | [] =>
      simp only [he] at h ⊢
      cases callers with
      | nil => cases hv : f.values <;> simp [hv, C08.mapState, setTop, hf, withProg]
      | cons caller rest =>
        cases hv : f.values with
        | nil => simp [hv, C08.mapState, withProg]
        | cons v vs =>
          simp only [hv]
          by_cases hc : (f.callerId.isSome && s.stopAt == f.callerId) = true <;>
            simp [hc, C08.mapState, withProg]
    | (st, e0) :: rest =>
      simp only [he] at h ⊢
      by_cases c1 : (s.interrupted || s.interruptAt.contains (s.ticks + 1)) = true
      · rw [if_pos c1] at h; simp [okStep] at h
      · rw [if_neg c1] at h
        by_cases c2 : limitReached s.tickLimit (s.ticks + 1) = true
        · rw [if_pos c2] at h; simp [okStep] at h
        · rw [if_neg c2] at h
          by_cases c3 : limitExceeded s.stackLimit (f :: callers).length = true
          · rw [if_pos c3] at h; simp [okStep] at h
          · rw [if_neg c3] at h
            simp only [c1, c2, c3, if_false, Bool.false_eq_true]
            cases hfl : fails (dispatch s.prog { f with exprs := rest } st e0) with
            | true =>
              revert h hfl
              cases dispatch s.prog { f with exprs := rest } st e0 <;> simp [fails, okStep]
            | false =>
              rw [dispatch_mono_partial hx _ _ _ hfl]
              cases hd : dispatch s.prog { f with exprs := rest } st e0 with
              | ok f' =>
                have := stopCheck_withProg p' (setTop ({ s with ticks := s.ticks + 1, interrupted := false } : State) f') f' st e0
                simpa [withProg, setTop, hf, c1] using this
              | okOut f' o =>
                have := stopCheck_withProg p' (setTop ({ s with ticks := s.ticks + 1, out := s.out ++ o, interrupted := false } : State) f') f' st e0
                simpa [withProg, setTop, hf, c1] using this
              | newFrame f' callee => simp [C08.mapState, withProg]
              | err f' st' vals er => simp [hd, fails] at hfl
              | panic site => simp [hd, fails] at hfl
              | unsupported w => simp [C08.mapState]

theorem step_cont_prog (s s' : State) (h : step s = .cont s') : s'.prog = s.prog := by
  unfold step at h
  match hf : s.frames with
  | [] => simp [hf] at h
  | f :: callers =>
    simp only [hf] at h
    match he : f.exprs with
    | [] =>
      simp only [he] at h
      cases callers with
      | nil => cases hv : f.values <;> simp [hv] at h
      | cons caller rest =>
        cases hv : f.values with
        | nil => simp [hv] at h
        | cons v vs => simp only [hv] at h; split at h <;> simp at h; subst h; rfl
    | (st, e0) :: rest =>
      simp only [he] at h
      repeat' split at h
      all_goals (try (unfold stopCheck at h; repeat' split at h))
      all_goals (try (simp at h))
      all_goals (try (subst h; simp [setTop, hf]))

/-- **`eval` is monotone in the program** (`_partial`: function definitions only): an evaluation
that ends with a value under `s.prog` ends with the same value after the same number of steps, in
the same state, under any extension of the program by fresh function definitions. -/
theorem eval_mono_partial (p' : Program) : ∀ (n : Nat) (s s' : State) (v : Value),
    Ext s.prog p' → Resume.eval n s = .done s' v →
    Resume.eval n (withProg p' s) = .done (withProg p' s') v := by
  intro n
  induction n with
  | zero => intro s s' v hx h; simp [Resume.eval] at h
  | succ n ih =>
    intro s s' v hx h
    simp only [Resume.eval] at h ⊢
    cases hs : step s with
    | cont s1 =>
      simp only [hs] at h
      have hm := step_mono s p' hx (by simp [hs, okStep])
      rw [hs] at hm
      simp only [hm, C08.mapState]
      exact ih s1 s' v (by rw [step_cont_prog s s1 hs]; exact hx) h
    | done s1 v1 =>
      simp only [hs] at h
      have hm := step_mono s p' hx (by simp [hs, okStep])
      rw [hs] at hm
      simp only [hm, C08.mapState]
      simp at h
      obtain ⟨h1, h2⟩ := h
      subst h1 h2
      rfl
    | error s1 e => simp [hs] at h
    | panic site => simp [hs] at h
    | unsupported w => simp [hs] at h

/-- Corollary for one `run` request: loading further FUNCTION definitions with fresh names before
the request does not change its value. -/
theorem request_defs_upfront_partial (fuel : Nat) (s s' : State) (exprs : List Expr) (last : Expr)
    (v : Value) (extra : List FunDef) (hfresh : freshFuns s.prog extra = true)
    (h : Resume.eval fuel { setExprs s exprs with stopAt := some last.id } = .done s' v) :
    Resume.eval fuel (withProg { s.prog with funs := s.prog.funs ++ extra }
        { setExprs s exprs with stopAt := some last.id }) =
      .done (withProg { s.prog with funs := s.prog.funs ++ extra } s') v := by
  apply eval_mono_partial
  · have : ({ setExprs s exprs with stopAt := some last.id } : State).prog = s.prog := by
      unfold setExprs; cases s.frames <;> rfl
    rw [this]; exact ext_of_fresh s.prog extra hfresh
  · exact h

end C11
