import GardenVerif.Model.Machine
import GardenVerif.Generated.Tables
import GardenVerif.Lemmas.MachineTicks
import GardenVerif.Model.TestRunner
/-!
# C25 — Sandboxed runs always finish within their step budget

Model: the evaluator machine M4 (`Machine.step` = one iteration of the loop in `eval`, src/eval.rs)
with `tickLimit` / `stackLimit` as `run_sandboxed_playground` (src/sandboxed_playground.rs) and
`sandboxed_tests_summary` (src/test_runner.rs) configure them; the configured numbers are
regenerated from those two files on every run (`Tables.sandboxConfigs`).

`bounded_run`: from EVERY state whose tick limit is `some L` — any program, any call stack, any
pending entries, with or without pending interrupts — iterating `step` reaches a terminal result
(`done`, `error` incl. `tickLimit` / `stackLimit` / `interrupted`, `panic`, `unsupported`) within
`2·(L − ticks) + frames.length + 1` steps. Reason (`MachineTicks.potential_decreases`): a step that
pops an entry increments `ticks` and the run ends when `ticks ≥ L`, so there are fewer than `L − ticks`
ticking steps; a frame-return step does not tick but removes a frame, and a frame is pushed only by a
ticking step (at most one per tick), so there are at most `frames.length + (L − ticks)` returns. The
bound does not even need the stack limit; the stack limit gives `frames_bounded`: the call stack
never exceeds `D + 1` frames (a push happens only on a tick whose check `frames.len() > D` failed).
`step` is a total Lean function: every built-in the model executes returns.

SCOPE OF THE LIMIT. `bounded_run` is a statement about ONE evaluation (`eval`); in it the limit is a
constant (`limits_constant`). A sandboxed run that evaluates SEVERAL things in sequence — `eval_tests`
over the tests of a file (`sandboxed-test` with the cursor outside every test; `playground-run` on a file
with tests) — is covered by `tests_one_budget` / `sandboxed_tests_ticks_bounded` over the runner model
`TestRunner.runTestsWith` (a transcription of `eval_tests`, src/eval.rs; the runner hook `testrun` of
src/verif_runner.rs is compared with it, including `env.ticks` at the end, by harness/c25.py and c26.py):
the tick counter is never reset and the limit never changes between tests, so the WHOLE run ticks at most
`L + #tests` times (a test started after the budget is exhausted costs the single tick on which the check
fires). A change that re-arms or extends the limit per test (`env.tick_limit = Some(env.ticks + limit)`
compounds to L·2^(n−1)) contradicts this theorem's model and is reported by the correspondence and by the
direct oracle `total ticks ≤ L + #tests` on the hook's end state.

What the model CANNOT exhibit (recorded by harness/c25.py as known findings with fixed probes, see
DESIGN §9): heap exhaustion inside the budget (`s = s ^ s` doubling: each tick is O(size of the
values)), native-stack overflow in the recursive `display`/`drop`/parser on deeply nested values or
expressions, and wall-clock time per tick. Those are probed on the real binary only.
-/
set_option linter.unusedVariables false
namespace C25
open Machine MachineTicks

/-- **Ticks never decrease**, and grow by at most one per step. -/
theorem ticks_monotone (s s' : State) (h : step s = .cont s') :
    s.ticks ≤ s'.ticks ∧ s'.ticks ≤ s.ticks + 1 := by
  obtain ⟨_, hs⟩ := step_cont_shape s s' h
  rcases hs with ⟨ht, _⟩ | ⟨ht, _⟩ <;> omega

/-- A step never changes the configured limits (nor the program). -/
theorem limits_constant (s s' : State) (h : step s = .cont s') :
    s'.tickLimit = s.tickLimit ∧ s'.stackLimit = s.stackLimit ∧ s'.prog = s.prog := by
  obtain ⟨hc, _⟩ := step_cont_shape s s' h
  exact ⟨hc.2.1, hc.2.2.1, hc.1⟩

/-- A step that continues after popping an entry stayed strictly below the tick limit: the run
cannot continue past tick `L − 1`. -/
theorem ticks_below_limit (s s' : State) (L : Nat) (hL : s.tickLimit = some L)
    (h : step s = .cont s') : s'.ticks < L ∨ (s'.ticks = s.ticks ∧ s'.frames.length + 1 = s.frames.length) := by
  obtain ⟨_, hs⟩ := step_cont_shape s s' h
  rcases hs with ⟨ht, hlim, _⟩ | ⟨ht, hl⟩
  · simp [hL, limitReached] at hlim; left; omega
  · right; exact ⟨ht, hl⟩

/-- **The call stack stays within the stack limit**: with `stackLimit = some D`, one step keeps
`frames.length ≤ D + 1` (a frame is pushed only by a step whose check `frames.len() > D` failed). -/
theorem frames_bounded (s s' : State) (D : Nat) (hD : s.stackLimit = some D)
    (hb : s.frames.length ≤ D + 1) (h : step s = .cont s') : s'.frames.length ≤ D + 1 := by
  obtain ⟨_, hs⟩ := step_cont_shape s s' h
  rcases hs with ⟨_, _, hlim, _, hlen⟩ | ⟨_, hlen⟩
  · simp [hD, limitExceeded] at hlim; omega
  · omega

/-- Run-level form of `frames_bounded`, `ticks_monotone`, `limits_constant`: every state reached
by any number of steps. -/
theorem run_invariants (n : Nat) : ∀ (s s' : State) (D : Nat), s.stackLimit = some D →
    s.frames.length ≤ D + 1 → runN n s = .cont s' →
    s'.frames.length ≤ D + 1 ∧ s.ticks ≤ s'.ticks ∧ s'.ticks ≤ s.ticks + n ∧
    s'.tickLimit = s.tickLimit ∧ s'.stackLimit = s.stackLimit := by
  induction n with
  | zero => intro s s' D hD hb h; simp [runN] at h; subst h; simp [hb]
  | succ n ih =>
    intro s s' D hD hb h
    unfold runN at h
    split at h
    · rename_i s1 hs1
      have hl := limits_constant s s1 hs1
      have ht := ticks_monotone s s1 hs1
      have hf := frames_bounded s s1 D hD hb hs1
      have := ih s1 s' D (hl.2.1.trans hD) hf h
      refine ⟨this.1, by omega, by omega, this.2.2.2.1.trans hl.1, this.2.2.2.2.trans hl.2.1⟩
    · rename_i r hr; exact absurd h (hr s')

/-- **C25 on the model.** From every state with a tick limit `L`, the run is over — value, Garden
error (tick limit, stack limit, interrupt included), or (not excluded here; see C02) panic /
leaving the fragment — after at most `2·(L − ticks) + frames.length + 1` iterations of the
evaluator loop. No hypothesis on the program, the pending entries, or pending interrupts. -/
theorem bounded_run (s : State) (L : Nat) (hL : s.tickLimit = some L) :
    StepResult.isTerminal (runN (2 * (L - s.ticks) + s.frames.length + 1) s) = true := by
  suffices H : ∀ (n : Nat) (s : State), s.tickLimit = some L → potential L s < n →
      StepResult.isTerminal (runN n s) = true from H _ s hL (by unfold potential; omega)
  intro n
  induction n with
  | zero => intro s _ h; omega
  | succ n ih =>
    intro s hL hp
    unfold runN
    split
    · rename_i s1 hs1
      have hd := potential_decreases L s s1 hL hs1
      exact ih s1 ((limits_constant s s1 hs1).1.trans hL) (by omega)
    · rename_i r hr
      cases r <;> simp [StepResult.isTerminal]
      all_goals exact absurd rfl (hr _)

/-- The same as an existence statement with the explicit bound `B(L, D) = 2·L + D + 2`
for any state whose call stack respects the stack limit. -/
theorem bounded_run_exists (s : State) (L D : Nat) (hL : s.tickLimit = some L)
    (hD : s.stackLimit = some D) (hb : s.frames.length ≤ D + 1) :
    ∃ n, n ≤ 2 * L + D + 2 ∧ StepResult.isTerminal (runN n s) = true :=
  ⟨2 * (L - s.ticks) + s.frames.length + 1, by omega, bounded_run s L hL⟩

/-- A fresh run of ANY program under limits `L`, `D` ends within `2·L + 2` loop iterations, and
(`run_invariants`) never holds more than `D + 1` frames. -/
theorem bounded_run_init (p : Program) (L D : Nat) :
    StepResult.isTerminal (runN (2 * L + 2) (init p [] (some L) (some D))) = true := by
  have := bounded_run (init p [] (some L) (some D)) L rfl
  simpa [init] using this

/-- The terminal results are exactly: a value, a Garden error, a panic of the Rust, or leaving the
modelled fragment. -/
theorem terminal_kinds (r : StepResult) : StepResult.isTerminal r = true ↔
    (∃ s v, r = .done s v) ∨ (∃ s e, r = .error s e) ∨ (∃ m, r = .panic m) ∨ (∃ w, r = .unsupported w) := by
  cases r <;> simp [StepResult.isTerminal]

/-- **The obligation on the regenerated configuration.** Every sandboxed entry point found in the
sources (there are exactly the two the property names) sets BOTH limits before evaluating, is
wired to the CLI, and therefore every program run through it ends within `2·L + 2` iterations.
Setting a limit to `None` in src/sandboxed_playground.rs or src/test_runner.rs (or dropping an
entry point from the table) makes this theorem fail to check. -/
theorem bounded_run_tables :
    Tables.sandboxConfigs.map (·.entry) = ["playground-run", "sandboxed-test"] ∧
    ∀ c ∈ Tables.sandboxConfigs, c.setBeforeEval = true ∧ c.wired = true ∧
      ∃ L D, c.tickLimit = some L ∧ c.stackLimit = some D ∧
        ∀ p : Program, StepResult.isTerminal (runN (2 * L + 2) (init p [] c.tickLimit c.stackLimit)) = true := by
  refine ⟨by decide, ?_⟩
  intro c hc
  simp [Tables.sandboxConfigs] at hc
  rcases hc with rfl | rfl
  all_goals exact ⟨rfl, rfl, _, _, rfl, rfl, fun p => bounded_run_init p _ _⟩

/-- The numbers currently configured (documentary: a change of the numbers is legitimate and only
requires this line to follow; a change to `None` breaks `bounded_run_tables`). -/
theorem configured_limits :
    Tables.sandboxConfigs.map (fun c => (c.tickLimit, c.stackLimit)) =
      [(some 100000, some 1000), (some 100000, some 1000)] := by decide

/-- **One budget for a whole multi-test run.** `eval_tests` (model `runTestsWith`, any dispatch
function, any fuel) over any list of tests from a state with tick limit `L`: when it returns, at most
`max ticks₀ L + #tests` ticks have been counted in total and the limit is still `L`. -/
theorem tests_one_budget (d : Program → Frame → St → Expr → Disp) (fuel L : Nat)
    (ts : List TestRunner.TestDef) (s s' : State) (vs : List (String × TestRunner.Verdict))
    (hL : s.tickLimit = some L) (h : TestRunner.runTestsWith d fuel s ts = .finished vs s') :
    s'.ticks ≤ max s.ticks L + ts.length ∧ s'.tickLimit = some L :=
  runTestsWith_ticks d fuel L ts s s' hL (by simp [h, finishedState])

/-- `garden sandboxed-test file` (all tests, the configured limits): the whole run counts at most
`100000 + #tests` ticks, however many of the tests are runaway loops. -/
theorem sandboxed_tests_ticks_bounded (fuel : Nat) (p : Program) (tests : List TestRunner.TestDef)
    (vs : List (String × TestRunner.Verdict)) (s' : State)
    (h : TestRunner.sandboxedTest fuel p tests = .finished vs s') :
    s'.ticks ≤ 100000 + tests.length := by
  have := tests_one_budget TestRunner.dispatchX fuel 100000 tests
    (TestRunner.baseState p (some 100000) (some 1000)) s' vs rfl h
  simpa [TestRunner.baseState] using this.1

/-- The limits `TestRunner.sandboxedTest` uses are the ones regenerated from src/test_runner.rs. -/
theorem sandboxed_test_limits_match_tables :
    ∀ c ∈ Tables.sandboxConfigs, c.entry = "sandboxed-test" →
      c.tickLimit = some 100000 ∧ c.stackLimit = some 1000 := by decide

-- Non-vacuity: `while True {}` under limits 7 / 3 — the hypotheses of `bounded_run` hold and the
-- run ends with the tick-limit error, not with a value.
def loopProg : Program :=
  { funs := [], enums := [], toplevel := [.whileE 2 false (.var 1 true "True") []] }
example : (init loopProg [] (some 7) (some 3)).tickLimit = some 7 := rfl
example : StepResult.isTerminal (runN 16 (init loopProg [] (some 7) (some 3))) = true :=
  bounded_run_init loopProg 7 3
end C25
