import GardenVerif.Props.C16
set_option linter.unusedVariables false
set_option linter.unusedSimpArgs false
namespace C16
open Check

mutual
def slE (P : Program) : Nat → TExpr → Bool
  | 0, _ => false
  | d + 1, e =>
    match e with
    | .int _ | .str _ | .retUnit => true
    | .var x => (isValueGlobal x && (findFun P x).isNone) || !(isGlobalName P x)
    | .paren e => slE P d e
    | .binop _ l r => slE P d l && slE P d r
    | .letE _ _ e => slE P d e
    | .ret e => slE P d e
    | _ => false
def slL (P : Program) : Nat → List TExpr → Bool
  | 0, _ => false
  | _ + 1, [] => true
  | d + 1, [e] => slE P d e
  | d + 1, e :: e2 :: rest => slE P d e && slL P d (e2 :: rest)
end

/-- In checked position the inferred type is below the expected one. -/
theorem tc_chk_sub (P : Program) (d : Nat) (e : TExpr) (ret E T : Ty) (Γ Γ' : Blocks Ty)
    (hs : slE P d e = true) (h : tcExpr P ret (some E) Γ e = (T, Γ', [])) : Ty.sub T E = true := by
  cases d with
  | zero => simp [slE] at hs
  | succ d =>
  cases e <;> simp only [slE] at hs <;> simp only [tcExpr] at h
  all_goals (try (simp at hs; done))
  all_goals (repeat' split at h)
  all_goals (first
    | (obtain ⟨hT, _, _, hsub⟩ := fin_inv _ _ _ _ _ _ h; rw [hT]; exact hsub E rfl)
    | skip)


theorem resOK_pass (retT T T' : Ty) (Γ1 Γ' : Blocks Ty) (r : Res) (h : ResOK retT T Γ1 r)
    (hv : ∀ v ρ, r ≠ .val v ρ) : ResOK retT T' Γ' r := by
  cases r <;> simp [ResOK] at h ⊢
  case val v ρ => exact absurd rfl (hv v ρ)
  all_goals exact h

theorem binop_eval_ok (P : Program) (n : Nat) (ρ : Blocks Val) (l r : TExpr) (op : BinOp)
    (ret T1 T2 opnd res : Ty) (Γ1 Γ2 : Blocks Ty)
    (ihl : ResOK ret T1 Γ1 (eval P n ρ l)) (hs1 : Ty.sub T1 opnd = true) (gO : good opnd = true)
    (ihr : ∀ ρ1, envOK Γ1 ρ1 → ResOK ret T2 Γ2 (eval P n ρ1 r)) (hs2 : Ty.sub T2 opnd = true)
    (hop : ∀ lv rv, hasTy lv opnd = true → hasTy rv opnd = true →
      (∀ v, binopVal op lv rv = .ok v → hasTy v res = true) ∧
      (∀ e, binopVal op lv rv = .error e → e.isTypeError = false)) :
    ResOK ret res Γ2 (eval P (n + 1) ρ (.binop op l r)) := by
  simp only [eval]
  cases hl : eval P n ρ l with
  | val lv ρ1 =>
    rw [hl] at ihl
    simp [ResOK] at ihl
    have ihr' := ihr ρ1 ihl.2
    simp only []
    cases hr : eval P n ρ1 r with
    | val rv ρ2 =>
      rw [hr] at ihr'
      simp [ResOK] at ihr'
      have h := hop lv rv (hasTy_sub lv T1 opnd ihl.1 hs1 gO) (hasTy_sub rv T2 opnd ihr'.1 hs2 gO)
      cases hb : binopVal op lv rv with
      | ok v => simp only [hb]; simp [ResOK, ihr'.2, h.1 v hb]
      | error er => simp only [hb]; simp [ResOK, h.2 er hb]
    | _ => rw [hr] at ihr'; simp [ResOK] at ihr' ⊢; try exact ihr'
  | _ => rw [hl] at ihl; simp [ResOK] at ihl ⊢; try exact ihl

theorem hop_eq (op : BinOp) (h : op = .eq ∨ op = .ne) (lv rv : Val) :
    (∀ v, binopVal op lv rv = .ok v → hasTy v tBool = true) ∧
    (∀ e, binopVal op lv rv = .error e → e.isTypeError = false) := by
  rcases h with rfl | rfl <;> simp [binopVal, hasTy, isNamed, tBool]

theorem hop_cmp (op : BinOp) (h : op = .lt ∨ op = .le ∨ op = .gt ∨ op = .ge) (lv rv : Val)
    (h1 : hasTy lv tInt = true) (h2 : hasTy rv tInt = true) :
    (∀ v, binopVal op lv rv = .ok v → hasTy v tBool = true) ∧
    (∀ e, binopVal op lv rv = .error e → e.isTypeError = false) := by
  obtain ⟨a, rfl⟩ := canon_int lv h1
  obtain ⟨b, rfl⟩ := canon_int rv h2
  have hbv : binopVal op (.int a) (.int b) = intBinop op a b := by
    rcases h with rfl | rfl | rfl | rfl <;> simp [binopVal]
  rw [hbv]
  constructor
  · intro v hv
    have := intBinop_ok_val op (Or.inr h) a b v hv
    rcases h with rfl | rfl | rfl | rfl <;> simpa [isIntArith] using this
  · intro e he
    exact intBinop_ok_err op (Or.inr h) a b e he

theorem hop_bool (op : BinOp) (h : op = .and ∨ op = .or) (lv rv : Val)
    (h1 : hasTy lv tBool = true) (h2 : hasTy rv tBool = true) :
    (∀ v, binopVal op lv rv = .ok v → hasTy v tBool = true) ∧
    (∀ e, binopVal op lv rv = .error e → e.isTypeError = false) := by
  obtain ⟨a, rfl⟩ := canon_bool lv h1
  obtain ⟨b, rfl⟩ := canon_bool rv h2
  rcases h with rfl | rfl <;> simp [binopVal, hasTy, isNamed, tBool]

theorem hop_concat (lv rv : Val) (h1 : hasTy lv tStr = true) (h2 : hasTy rv tStr = true) :
    (∀ v, binopVal .concat lv rv = .ok v → hasTy v tStr = true) ∧
    (∀ e, binopVal .concat lv rv = .error e → e.isTypeError = false) := by
  obtain ⟨a, rfl⟩ := canon_str lv h1
  obtain ⟨b, rfl⟩ := canon_str rv h2
  simp [binopVal, hasTy, isNamed, tStr]

theorem sound_sl (P : Program) : ∀ n,
    (∀ d e ret exp Γ ρ T Γ', slE P d e = true → tcExpr P ret exp Γ e = (T, Γ', []) →
      (∀ E, exp = some E → good E = true) → good ret = true →
      envOK Γ ρ → ResOK ret T Γ' (eval P n ρ e)) ∧
    (∀ d es ret exp Γ ρ T Γ', slL P d es = true → tcSeq P ret exp Γ es = (T, Γ', []) →
      (∀ E, exp = some E → good E = true) → good ret = true →
      envOK Γ ρ → ResOK ret T Γ' (evalSeq P n ρ es)) := by
  intro n
  induction n with
  | zero =>
    constructor
    · intros; simp [eval, ResOK]
    · intros; simp [evalSeq, ResOK]
  | succ n ih =>
    obtain ⟨ihE, ihL⟩ := ih
    constructor
    · intro d e ret exp Γ ρ T Γ' hs htc hexp hret henv
      cases d with
      | zero => simp [slE] at hs
      | succ d =>
      cases e with
      | int v =>
        simp only [tcExpr] at htc
        obtain ⟨h1, h2, _, _⟩ := fin_inv _ _ _ _ _ _ htc
        subst h1 h2
        simp [eval, ResOK, hasTy, isNamed, tInt, henv]
      | str v =>
        simp only [tcExpr] at htc
        obtain ⟨h1, h2, _, _⟩ := fin_inv _ _ _ _ _ _ htc
        subst h1 h2
        simp [eval, ResOK, hasTy, isNamed, tStr, henv]
      | retUnit =>
        simp only [tcExpr] at htc
        obtain ⟨h1, h2, h3, _⟩ := fin_inv _ _ _ _ _ _ htc
        simp [eval, ResOK]
        split at h3
        · rename_i hsub
          exact hasTy_sub .unit tUnit ret (by simp [hasTy, isNamed, tUnit]) hsub hret
        · simp at h3
      | paren e =>
        simp only [slE] at hs
        simp only [tcExpr] at htc
        cases h1 : tcExpr P ret none Γ e with
        | mk T1 r1 =>
        cases r1 with
        | mk Γ1 d1 =>
        rw [h1] at htc
        simp only at htc
        obtain ⟨hT, hΓ, hd, _⟩ := fin_inv _ _ _ _ _ _ htc
        subst hT hΓ hd
        have := ihE d e ret none Γ ρ T Γ' hs h1 (by simp) hret henv
        simp only [eval]
        exact this
      | ret e =>
        simp only [slE] at hs
        simp only [tcExpr] at htc
        cases h1 : tcExpr P ret (some ret) Γ e with
        | mk T1 r1 =>
        cases r1 with
        | mk Γ1 d1 =>
        rw [h1] at htc
        simp only at htc
        obtain ⟨hT, hΓ, hd, _⟩ := fin_inv _ _ _ _ _ _ htc
        subst hd
        have ih1 := ihE d e ret (some ret) Γ ρ T1 Γ1 hs h1 (by intro E hE; cases hE; exact hret) hret henv
        have hsub := tc_chk_sub P d e ret ret T1 Γ Γ1 hs h1
        simp only [eval]
        cases hev : eval P n ρ e with
        | val v ρ1 =>
          rw [hev] at ih1
          simp [ResOK] at ih1 ⊢
          exact hasTy_sub v T1 ret ih1.1 hsub hret
        | _ => rw [hev] at ih1; simp [ResOK] at ih1 ⊢; try exact ih1
      | letE x hint e =>
        simp only [slE] at hs
        simp only [tcExpr] at htc
        cases hint with
        | some h =>
          simp only at htc
          cases h1 : tcExpr P ret (some h.toTy) Γ e with
          | mk T1 r1 =>
          cases r1 with
          | mk Γ1 d1 =>
          rw [h1] at htc
          simp only at htc
          obtain ⟨hT, hΓ, hd, _⟩ := fin_inv _ _ _ _ _ _ htc
          subst hT hΓ hd
          have hg := Hint.toTy_good h
          have ih1 := ihE d e ret (some h.toTy) Γ ρ T1 Γ1 hs h1 (by intro E hE; cases hE; exact hg) hret henv
          have hsub := tc_chk_sub P d e ret h.toTy T1 Γ Γ1 hs h1
          simp only [eval]
          cases hev : eval P n ρ e with
          | val v ρ1 =>
            rw [hev] at ih1
            simp [ResOK] at ih1
            have hv := hasTy_sub v T1 h.toTy ih1.1 hsub hg
            have hchk := hasTy_sub_typeOf v h.toTy hv
            simp [hchk, ResOK, hasTy, isNamed, tUnit]
            exact setB_ok _ _ x _ v ih1.2 hv
          | _ => rw [hev] at ih1; simp [ResOK] at ih1 ⊢; try exact ih1
        | none =>
          simp only at htc
          cases h1 : tcExpr P ret none Γ e with
          | mk T1 r1 =>
          cases r1 with
          | mk Γ1 d1 =>
          rw [h1] at htc
          simp only at htc
          obtain ⟨hT, hΓ, hd, _⟩ := fin_inv _ _ _ _ _ _ htc
          subst hT hΓ hd
          have ih1 := ihE d e ret none Γ ρ T1 Γ1 hs h1 (by simp) hret henv
          simp only [eval]
          cases hev : eval P n ρ e with
          | val v ρ1 =>
            rw [hev] at ih1
            simp [ResOK] at ih1
            simp [ResOK, hasTy, isNamed, tUnit]
            exact setB_ok _ _ x _ v ih1.2 ih1.1
          | _ => rw [hev] at ih1; simp [ResOK] at ih1 ⊢; try exact ih1
      | var x =>
        simp only [slE] at hs
        simp only [tcExpr] at htc
        cases h1 : inferVar P Γ x with
        | mk T1 r1 =>
        cases r1 with
        | mk Γ1 d1 =>
        rw [h1] at htc
        simp only at htc
        obtain ⟨hT, hΓ, hd, _⟩ := fin_inv _ _ _ _ _ _ htc
        subst hT hΓ hd
        have hl := lookupB_ok Γ ρ x henv
        unfold inferVar at h1
        cases hg : lookupB Γ x with
        | some T0 =>
          rw [hg] at h1
          simp at h1
          obtain ⟨e1, e2⟩ := h1
          subst e1 e2
          obtain ⟨v, hv1, hv2⟩ := hl.1 T0 hg
          simp [eval, hv1, ResOK, hv2, henv]
        | none =>
          rw [hg] at h1
          simp only at h1
          have hρ := hl.2 hg
          simp at hs
          rcases hs with ⟨hvg, hff⟩ | hng
          · simp [isValueGlobal] at hvg
            rcases hvg with ((rfl | rfl) | rfl) | rfl
            all_goals
              simp [globalOf, hff, Global.ty] at h1
              obtain ⟨e1, e2⟩ := h1
              subst e1 e2
              simp [eval, hρ, globalVal, ResOK, hasTy, isNamed, tOption, tBool, tUnit, henv]
          · simp [isGlobalName, reservedNames] at hng
            simp [globalOf, hng] at h1
      | binop op l r =>
        simp only [slE] at hs
        simp at hs
        simp only [tcExpr] at htc
        by_cases hA : isIntArith op = true
        · simp only [hA, if_true] at htc
          cases h1 : tcExpr P ret none Γ l with
          | mk lt r1 =>
          cases r1 with
          | mk Γ1 d1 =>
          rw [h1] at htc
          simp only at htc
          cases h2 : tcExpr P ret none Γ1 r with
          | mk rt r2 =>
          cases r2 with
          | mk Γ2 d2 =>
          rw [h2] at htc
          simp only at htc
          cases h3 : intBinopTy op lt rt with
          | mk T3 d3 =>
          rw [h3] at htc
          simp only at htc
          obtain ⟨hT, hΓ, hd, _⟩ := fin_inv _ _ _ _ _ _ htc
          simp at hd
          obtain ⟨hd1, hd2, hd3⟩ := hd
          subst hd1
          subst hd2
          subst hd3
          subst hT
          subst hΓ
          unfold intBinopTy at h3
          split at h3
          · simp at h3
          split at h3
          · simp at h3
          simp at h3
          obtain ⟨hT3, hsl, hsr⟩ := h3
          subst hT3
          have gInt : good tInt = true := by simp [good, tInt, goodName0]
          have ihl := ihE d l ret none Γ ρ lt Γ1 hs.1 h1 (by simp) hret henv
          simp only [eval]
          cases hl : eval P n ρ l with
          | val lv ρ1 =>
            rw [hl] at ihl
            simp [ResOK] at ihl
            have ihr := ihE d r ret none Γ1 ρ1 rt Γ' hs.2 h2 (by simp) hret ihl.2
            simp only []
            cases hr : eval P n ρ1 r with
            | val rv ρ2 =>
              rw [hr] at ihr
              simp [ResOK] at ihr
              obtain ⟨a, rfl⟩ := canon_int lv (hasTy_sub lv lt tInt ihl.1 hsl gInt)
              obtain ⟨b, rfl⟩ := canon_int rv (hasTy_sub rv rt tInt ihr.1 hsr gInt)
              have hbv : binopVal op (.int a) (.int b) = intBinop op a b := by
                cases op <;> simp [isIntArith] at hA <;> simp [binopVal]
              simp only [hbv]
              cases hb : intBinop op a b with
              | ok v =>
                have := intBinop_ok_val op (Or.inl hA) a b v hb
                simp [hA] at this
                simp [ResOK, ihr.2, this]
              | error er =>
                simp [ResOK]
                exact intBinop_ok_err op (Or.inl hA) a b er hb
            | _ => rw [hr] at ihr; simp [ResOK] at ihr ⊢; try exact ihr
          | _ => rw [hl] at ihl; simp [ResOK] at ihl ⊢; try exact ihl
        · simp only [hA] at htc
          have gBool : good tBool = true := by simp [good, tBool, goodName0]
          have gInt : good tInt = true := by simp [good, tInt, goodName0]
          have gStr : good tStr = true := by simp [good, tStr, goodName0]
          by_cases hB : (op == .eq || op == .ne) = true
          · simp only [hB, if_true] at htc
            cases h1 : tcExpr P ret none Γ l with
            | mk lt r1 =>
            cases r1 with
            | mk Γ1 d1 =>
            rw [h1] at htc
            simp only at htc
            cases h2 : tcExpr P ret none Γ1 r with
            | mk rt r2 =>
            cases r2 with
            | mk Γ2 d2 =>
            rw [h2] at htc
            simp only at htc
            obtain ⟨hT, hΓ, hd, _⟩ := fin_inv _ _ _ _ _ _ htc
            simp at hd
            obtain ⟨hd1, hd2⟩ := hd
            subst hd1
            subst hd2
            subst hT
            subst hΓ
            have hop' : op = .eq ∨ op = .ne := by simpa using hB
            exact binop_eval_ok P n ρ l r op ret lt rt .any tBool Γ1 Γ'
              (ihE d l ret none Γ ρ lt Γ1 hs.1 h1 (by simp) hret henv) (Ty.sub_any lt) (by simp [good])
              (fun ρ1 h => ihE d r ret none Γ1 ρ1 rt Γ' hs.2 h2 (by simp) hret h) (Ty.sub_any rt)
              (fun lv rv _ _ => hop_eq op hop' lv rv)
          · simp only [hB] at htc
            cases op <;> simp [isIntArith] at hA hB
            all_goals simp at htc
            case lt => trace_state; sorry
            all_goals sorry
      | _ => simp [slE] at hs
    · intro d es ret exp Γ ρ T Γ' hs htc hexp hret henv
      cases d with
      | zero => simp [slL] at hs
      | succ d =>
      match es with
      | [] =>
        simp only [tcSeq] at htc
        simp at htc
        obtain ⟨h1, h2, h3⟩ := htc
        subst h1 h2
        simp [evalSeq, ResOK, hasTy, isNamed, tUnit, henv]
      | [e] =>
        simp only [slL] at hs
        simp only [tcSeq] at htc
        simp only [evalSeq]
        exact ihE d e ret exp Γ ρ T Γ' hs htc hexp hret henv
      | e :: e2 :: rest =>
        simp only [slL] at hs
        simp at hs
        simp only [tcSeq] at htc
        cases h1 : tcExpr P ret none Γ e with
        | mk T1 r1 =>
        cases r1 with
        | mk Γ1 d1 =>
        rw [h1] at htc
        simp only at htc
        cases h2 : tcSeq P ret exp Γ1 (e2 :: rest) with
        | mk T2 r2 =>
        cases r2 with
        | mk Γ2 d2 =>
        rw [h2] at htc
        simp at htc
        obtain ⟨hT, hΓ, hd1, hd2⟩ := htc
        subst hT hΓ hd1 hd2
        have ih1 := ihE d e ret none Γ ρ T1 Γ1 hs.1 h1 (by simp) hret henv
        simp only [evalSeq]
        cases hev : eval P n ρ e with
        | val v ρ1 =>
          rw [hev] at ih1
          simp [ResOK] at ih1
          exact ihL d (e2 :: rest) ret exp Γ1 ρ1 T2 Γ2 hs.2 h2 hexp hret ih1.2
        | _ => rw [hev] at ih1; simp [ResOK] at ih1 ⊢; try exact ih1

end C16
