"""bencode codec, TCP client and server launcher for the garden nREPL server (C30, C31).

Every server process runs under `timeout` and an address-space limit, listens on a port chosen by
the OS (`--port 0`) and is killed by `Server.stop()`.  A `Client` records, for one connection,
the exact sequence of server messages and, for each client message, how many server messages had
been *received* before it was sent (`seen`): the real-time constraint the model replay uses
(a message received before the client sent c was appended to the response queue before the
reader handled c).
"""
import os
import re
import resource
import shutil
import socket
import subprocess
import threading
import time


# --------------------------------------------------------------------------- bencode
def bencode(v):
    if isinstance(v, int):
        return b"i%de" % v
    if isinstance(v, str):
        v = v.encode("utf-8")
    if isinstance(v, bytes):
        return b"%d:%s" % (len(v), v)
    if isinstance(v, (list, tuple)):
        return b"l" + b"".join(bencode(x) for x in v) + b"e"
    if isinstance(v, dict):
        items = sorted(((k.encode("utf-8") if isinstance(k, str) else k), x) for k, x in v.items())
        return b"d" + b"".join(bencode(k) + bencode(x) for k, x in items) + b"e"
    raise TypeError(type(v))


class Incomplete(Exception):
    pass


def _dec(b, i):
    if i >= len(b):
        raise Incomplete()
    c = b[i:i + 1]
    if c == b"i":
        j = b.find(b"e", i)
        if j < 0:
            raise Incomplete()
        return int(b[i + 1:j]), j + 1
    if c == b"l":
        i += 1
        out = []
        while True:
            if i >= len(b):
                raise Incomplete()
            if b[i:i + 1] == b"e":
                return out, i + 1
            x, i = _dec(b, i)
            out.append(x)
    if c == b"d":
        i += 1
        out = {}
        while True:
            if i >= len(b):
                raise Incomplete()
            if b[i:i + 1] == b"e":
                return out, i + 1
            k, i = _dec(b, i)
            x, i = _dec(b, i)
            out[k.decode("utf-8", "replace") if isinstance(k, bytes) else k] = x
    if c.isdigit():
        j = b.find(b":", i)
        if j < 0:
            if len(b) - i > 20:
                raise ValueError("bad bencode length")
            raise Incomplete()
        n = int(b[i:j])
        if j + 1 + n > len(b):
            raise Incomplete()
        return b[j + 1:j + 1 + n], j + 1 + n
    raise ValueError("bad bencode byte %r at %d" % (c, i))


def bdecode_prefix(b):
    """Decode one value from the front of b; returns (value, rest) or raises Incomplete."""
    v, i = _dec(b, 0)
    return v, b[i:]


def textify(v):
    """bytes -> str recursively (utf-8; undecodable bytes are kept as surrogate escapes so that
    `.encode("utf-8", "surrogateescape")` gives back the exact payload bytes)."""
    if isinstance(v, bytes):
        return v.decode("utf-8", "surrogateescape")
    if isinstance(v, list):
        return [textify(x) for x in v]
    if isinstance(v, dict):
        return {k: textify(x) for k, x in v.items()}
    return v


# --------------------------------------------------------------------------- server
class Server:
    def __init__(self, garden, scratch_dir, delays=None, life_s=120, mem_gb=8):
        # The server starts ~7 threads per connection and glibc reserves a 64 MB malloc arena of
        # *address space* per thread (RSS stays < 100 MB): 10 two-session connections need 4.6 GB
        # of virtual memory.  Under a 3 GB RLIMIT_AS thread creation fails with EAGAIN and the
        # server's `expect("Could not spawn …")` aborts it, which looked like lost `done`s.  So:
        # MALLOC_ARENA_MAX=2 (allocator tuning only) and an 8 GB address-space cap; the scripts are
        # all generated here and bounded, nothing in them allocates without bound.
        self.garden = garden
        self.dir = scratch_dir
        self.delays = dict(delays or {})
        self.life_s = life_s
        self.mem_gb = mem_gb
        self.p = None
        self.port = None
        self.stderr_tail = []
        self.panic_lines = []   # `thread '…' panicked at …` lines plus the message line after each
        self.exit_status = None

    def start(self, wait_s=20):
        os.makedirs(self.dir, exist_ok=True)
        env = dict(os.environ)
        env["GARDEN_LOG"] = "info"
        env["NO_COLOR"] = "1"
        env["MALLOC_ARENA_MAX"] = "2"
        # the server unpacks its built-in files below $TMPDIR/garden-nrepl-<pid> and never removes them;
        # keep that inside the scratch directory stop() deletes
        env["TMPDIR"] = os.path.join(self.dir, "tmp")
        os.makedirs(env["TMPDIR"], exist_ok=True)
        env.pop("GARDEN_VERIF_DELAY", None)
        if self.delays:
            env["GARDEN_VERIF_DELAY"] = ",".join("%s:%d" % kv for kv in sorted(self.delays.items()))
        lim = int(self.mem_gb * (1 << 30))

        def pre():
            resource.setrlimit(resource.RLIMIT_AS, (lim, lim))
            resource.setrlimit(resource.RLIMIT_CORE, (0, 0))
            os.setsid()

        self.p = subprocess.Popen(
            ["timeout", "-k", "2", str(self.life_s), self.garden, "nrepl", "--port", "0",
             "--host", "127.0.0.1"],
            cwd=self.dir, env=env, stdin=subprocess.DEVNULL, stdout=subprocess.DEVNULL,
            stderr=subprocess.PIPE, preexec_fn=pre)
        found = threading.Event()

        def pump():
            for raw in self.p.stderr:
                line = re.sub(r"\x1b\[[0-9;]*m", "", raw.decode("utf-8", "replace"))
                self.stderr_tail.append(line.rstrip())
                del self.stderr_tail[:-50]
                if re.search(r"thread '[^']*'(?: \(\d+\))? panicked at ", line) or (
                        self.panic_lines and self.panic_lines[-1].startswith("thread '") and not line.startswith("thread '")
                        and len(self.panic_lines) % 2 == 1):
                    self.panic_lines.append(line.rstrip()[:400])
                    del self.panic_lines[20:]
                m = re.search(r"nREPL server started on 127\.0\.0\.1:(\d+)", line)
                if m and self.port is None:
                    self.port = int(m.group(1))
                    found.set()

        threading.Thread(target=pump, daemon=True).start()
        t0 = time.time()
        while time.time() - t0 < wait_s and not found.is_set():
            if self.p.poll() is not None:
                break
            pf = os.path.join(self.dir, ".nrepl-port")
            try:
                txt = open(pf).read().strip()
                if txt.isdigit():
                    self.port = int(txt)
                    found.set()
                    break
            except OSError:
                pass
            found.wait(0.02)
        if self.port is None:
            self.stop()
            raise RuntimeError("nrepl server did not report a port: " + " | ".join(self.stderr_tail[-5:]))
        return self

    def panicked(self):
        """Only a real Rust panic message counts (`thread '…' panicked at file:line:col`), or the server
        process having died by itself with an abnormal status (checked before we kill it)."""
        if self.panic_lines:
            return True
        if self.p is not None:
            rc = self.p.poll()
            if rc is not None:
                self.exit_status = rc
                # 124/137 = our own `timeout`; anything else before stop() is abnormal
                return rc not in (0, 124, 137)
        return False

    def resource_failure(self):
        """The server died of the harness's own resource limits (thread spawn / allocation failure),
        which says nothing about the property."""
        txt = " ".join(self.panic_lines + self.stderr_tail[-10:])
        return bool(re.search(r"Could not spawn|Resource temporarily unavailable|memory allocation of \d+ bytes failed|"
                              r"Cannot allocate memory", txt))

    def stop(self):
        if self.p is not None:
            try:
                os.killpg(self.p.pid, 9)
            except (ProcessLookupError, PermissionError):
                pass
            try:
                self.p.kill()
            except Exception:
                pass
            try:
                self.p.wait(timeout=5)
            except Exception:
                pass
            self.p = None
        shutil.rmtree(self.dir, ignore_errors=True)

    def __enter__(self):
        return self.start()

    def __exit__(self, *a):
        self.stop()


# --------------------------------------------------------------------------- client
class Client:
    def __init__(self, port, connect_timeout=5):
        last = None
        for attempt in range(4):
            try:
                self.sock = socket.create_connection(("127.0.0.1", port), timeout=connect_timeout * (attempt + 1))
                break
            except OSError as e:       # loaded machine: the accept loop polls every 100 ms
                last = e
                time.sleep(0.5 * (attempt + 1))
        else:
            raise last
        self.sock.settimeout(None)
        self.sock.setsockopt(socket.IPPROTO_TCP, socket.TCP_NODELAY, 1)
        self.cv = threading.Condition()
        self.received = []      # textified server messages, in wire order
        self.recv_t = []
        self.sent = []          # (msg, seen) in send order
        self.eof = False
        self.error = None
        self.t = threading.Thread(target=self._reader, daemon=True)
        self.t.start()

    def _reader(self):
        buf = b""
        try:
            while True:
                data = self.sock.recv(65536)
                if not data:
                    break
                buf += data
                while buf:
                    try:
                        v, buf = bdecode_prefix(buf)
                    except Incomplete:
                        break
                    with self.cv:
                        self.received.append(textify(v))
                        self.recv_t.append(time.time())
                        self.cv.notify_all()
        except (OSError, ValueError) as e:
            self.error = repr(e)
        with self.cv:
            self.eof = True
            self.cv.notify_all()

    def send(self, msg):
        with self.cv:
            seen = len(self.received)
            self.sent.append((msg, seen))
        try:
            self.sock.sendall(bencode(msg))
        except OSError as e:      # server gone: recorded, judged by the caller
            self.error = self.error or ("send failed: %r" % (e,))

    def wait(self, pred, timeout):
        """Wait until some received message satisfies pred; returns it or None on timeout."""
        end = time.time() + timeout
        with self.cv:
            i = 0
            while True:
                while i < len(self.received):
                    if pred(self.received[i]):
                        return self.received[i]
                    i += 1
                left = end - time.time()
                if left <= 0 or self.eof:
                    return None
                self.cv.wait(left)

    def wait_done(self, rid, timeout):
        return self.wait(lambda m: m.get("id") == rid and "done" in (m.get("status") or []), timeout)

    def wait_key(self, rid, key, timeout):
        return self.wait(lambda m: m.get("id") == rid and key in m, timeout)

    def close(self):
        try:
            self.sock.shutdown(socket.SHUT_RDWR)
        except OSError:
            pass
        self.sock.close()


def run_script(port, steps, tfactor=1.0):
    """steps: list of
         ("send", msgdict) | ("wait_done", id, timeout_s) | ("wait_key", id, key, timeout_s)
         | ("sleep", seconds)
    Returns dict(sent=[(msg, seen)], received=[msg], timeouts=[step...], t=[recv times], error)."""
    try:
        c = Client(port)
    except OSError as e:
        return dict(sent=[], received=[], t=[], timeouts=[], error="connect failed: %r" % (e,))
    timeouts = []
    t0 = time.time()
    try:
        for st in steps:
            if st[0] == "send":
                c.send(st[1])
            elif st[0] == "wait_done":
                # once a bound has been missed the verdict is known: do not sit out the later bounds
                lim = st[2] * tfactor if not timeouts else min(st[2] * tfactor, 2.0)
                if c.wait_done(st[1], lim) is None:
                    timeouts.append(list(st[:2]) + [lim])
            elif st[0] == "wait_key":
                lim = st[3] * tfactor if not timeouts else min(st[3] * tfactor, 2.0)
                if c.wait_key(st[1], st[2], lim) is None:
                    timeouts.append(list(st[:3]) + [lim])
            elif st[0] == "sleep":
                time.sleep(st[1])
        # grace period: a message after the last awaited `done` would be a violation
        time.sleep(0.15)
    finally:
        with c.cv:
            out = dict(sent=list(c.sent), received=list(c.received),
                       t=[x - t0 for x in c.recv_t], timeouts=timeouts, error=c.error)
        c.close()
    return out


# --------------------------------------------------------------------------- scenarios (C30/C31)
def hx(s):
    return s.encode("utf-8").hex() or "00"[:0]


def _b(s):
    return s.encode("utf-8", "surrogateescape")


def _h(s):
    h = _b(s).hex()
    return h if h else "-"


def abbreviate(m, limit=600):
    """A received message with long payloads replaced by length + sha1 + head/tail (replay files)."""
    import hashlib
    out = {}
    for k, v in m.items():
        if isinstance(v, str) and len(v) > limit:
            b = _b(v)
            out[k] = "<%d bytes sha1=%s head=%r tail=%r>" % (len(b), hashlib.sha1(b).hexdigest()[:12], v[:40], v[-40:])
        else:
            out[k] = v
    return out


class Scenario:
    """One scripted client: `steps` for run_script, `expect[id]` for the direct oracle and
    `model[id]` (client S-expression without the `seen` count) for the model replay."""

    def __init__(self, name):
        self.name = name
        self.steps = []
        self.expect = {}
        self.kinds = []     # per message index: (kind, session, prog-sexp or None)
        self.n = 0
        self.no_model = False   # trace too large / too many print steps for the model replay
        self.meta = {}

    def _id(self):
        i = self.n
        self.n += 1
        return str(i)

    def op(self, op, kind, session=None, expect=None, **fields):
        rid = self._id()
        msg = {"op": op, "id": rid}
        if session is not None:
            msg["session"] = session
        msg.update(fields)
        self.steps.append(("send", msg))
        self.expect[rid] = dict(expect or {}, op=op)
        self.kinds.append((kind, session))
        return rid

    def clone(self):
        return self.op("clone", "clone", expect=dict(status={"done"}))

    def ev(self, session, code, acts, loop=(), fin=("lit", "Unit"), start="ok", **expect):
        rid = self.op("eval", None, session=session, code=code, expect=expect)
        def act(a):
            if a[0] in ("out", "err"):
                return "(%s %s)" % (a[0], _h(a[1]))
            if a[0] == "def":
                return "(def %s %s)" % (_h(a[1]), _h(a[2]))
            return "(%s)" % a[0]
        prog = "(%s) (acts %s) (loop %s) (%s %s)" % (
            start, " ".join(act(a) for a in acts), " ".join(act(a) for a in loop), fin[0], _h(fin[1]))
        self.kinds[-1] = ("eval", session, prog)
        return rid

    def wait(self, rid, t=10):
        self.steps.append(("wait_done", rid, t))

    def wait_out(self, rid, t=10):
        self.steps.append(("wait_key", rid, "out", t))

    def sleep(self, s):
        self.steps.append(("sleep", s))


def sess_num(name):
    if isinstance(name, str) and name.startswith("garden-") and name[7:].isdigit():
        return int(name[7:])
    return 0


def status_sexp(m):
    st = m.get("status") or []
    if "interrupted" in st:
        return "interrupted"
    if "unknown-session" in st:
        return "unknownsession"
    if "session-closed" in st:
        return "sessionclosed"
    if "eval-error" in st:
        return "evalerror"
    if "error" in st:
        return "operror"
    if "new-session" in m:
        return "(newsession %d)" % sess_num(m["new-session"])
    if "sessions" in m:
        return "(sessions %s)" % " ".join(str(x) for x in sorted(sess_num(x) for x in m["sessions"]))
    return "ok"


def trace_sexp(sc, res):
    """The observable trace of one connection as the driver's `nrepl_accept` argument, or None if
    a message cannot be expressed (then the raw oracle has already complained)."""
    cl = []
    for idx, ((msg, seen), kind) in enumerate(zip(res["sent"], sc.kinds)):
        k = kind[0]
        s = sess_num(kind[1]) if len(kind) > 1 else 0
        if k == "eval":
            cl.append("(eval %d %d %s)" % (seen, s, kind[2]))
        elif k in ("close", "interrupt", "query"):
            cl.append("(%s %d %d)" % (k, seen, s))
        else:
            cl.append("(%s %d)" % (k, seen))
    sv = []
    for m in res["received"]:
        for key in ("out", "err", "value"):
            if isinstance(m.get(key), str) and any(0xDC80 <= ord(ch) <= 0xDCFF for ch in m[key]):
                return None     # payload split inside a UTF-8 character: the byte oracle judges it
        rid = m.get("id")
        if not (isinstance(rid, str) and rid.isdigit()):
            return None
        if "status" in m:
            sv.append("(done %s %s)" % (rid, status_sexp(m)))
        elif "out" in m:
            sv.append("(out %s %s)" % (rid, _h(m["out"])))
        elif "err" in m:
            sv.append("(err %s %s)" % (rid, _h(m["err"])))
        elif "value" in m:
            sv.append("(value %s %s)" % (rid, _h(m["value"])))
        else:
            return None
    return "(trace (client %s) (server %s))" % (" ".join(cl), " ".join(sv))


def _diff(name, got, want, allgot, before, key):
    """Byte-level description of a stream mismatch (lengths, chunk sizes, first differing offset)."""
    g, w = _b(got), _b(want)
    n = min(len(g), len(w))
    off = next((i for i in range(n) if g[i] != w[i]), n)
    sizes = [len(_b(m[key])) for m in before if key in m]
    return ("%s before `done` is %d bytes in %d `%s` messages %s, expected %d bytes; first difference at byte %d "
            "(got %r, expected %r); %d bytes in all messages with this id" % (
                name, len(g), len(sizes), key, sizes[:12], len(w), off, g[off:off + 24], w[off:off + 24], len(_b(allgot))))


def oracle(sc, res):
    """Judge the raw trace against the property, without the model.
    Returns a list of (key, what)."""
    bad = []
    by_id = {}
    for pos, m in enumerate(res["received"]):
        by_id.setdefault(m.get("id"), []).append((pos, m))
    for t in res["timeouts"]:
        bad.append(("timeout", "no `done` for request %s within %ss (%s)" % (t[1], t[-1], sc.expect.get(t[1], {}).get("op"))))
    if res["error"]:
        bad.append(("io", res["error"]))
    for rid, exp in sc.expect.items():
        ms = [m for _, m in by_id.get(rid, [])]
        dones = [i for i, m in enumerate(ms) if "done" in (m.get("status") or [])]
        if len(dones) == 0:
            if not any(t[1] == rid for t in res["timeouts"]):
                bad.append(("no-done", "request %s (%s) got no `done`" % (rid, exp["op"])))
            continue
        if len(dones) > 1:
            bad.append(("two-done", "request %s (%s) got %d `done` messages" % (rid, exp["op"], len(dones))))
        if dones[0] != len(ms) - 1:
            after = ms[dones[0] + 1]
            bad.append(("after-done", "request %s (%s): message %r after its `done`" % (
                rid, exp["op"], {k: (v if not isinstance(v, str) else v[:40]) for k, v in after.items()})))
        before = ms[:dones[0]]
        out = "".join(m["out"] for m in before if "out" in m)
        allout = "".join(m["out"] for m in ms if "out" in m)
        if "out" in exp:
            if _b(out) != _b(exp["out"]):
                why = "out-late" if _b(allout) == _b(exp["out"]) else "out-wrong"
                bad.append((why, "request %s: %s" % (rid, _diff("stdout", out, exp["out"], allout, before, "out"))))
        if "out_if_done" in exp:
            stx = set(ms[dones[0]].get("status") or [])
            want = exp["out_if_done"]
            ok = (_b(out) == _b(want)) if stx == {"done"} else _b(want).startswith(_b(out))
            if not ok or _b(allout) != _b(out):
                bad.append(("out-wrong", "request %s (status %s): %s" % (rid, sorted(stx), _diff("stdout", out, want, allout, before, "out"))))
        if "out_repeat" in exp:
            unit = exp["out_repeat"]
            if out != unit * (len(out) // len(unit)) or (allout != out):
                bad.append(("out-wrong", "request %s: stdout %r is not a repetition of %r complete before `done`" % (
                    rid, out[:80], unit)))
        if "err" in exp:
            err = "".join(m["err"] for m in before if "err" in m)
            if not err.startswith(exp["err"]):
                bad.append(("err-wrong", "request %s: stderr %r, expected prefix %r" % (rid, err[:200], exp["err"][:200])))
        if "err_exact" in exp:
            err = "".join(m["err"] for m in before if "err" in m)
            allerr = "".join(m["err"] for m in ms if "err" in m)
            if _b(err) != _b(exp["err_exact"]):
                bad.append(("err-wrong", "request %s: %s" % (rid, _diff("stderr", err, exp["err_exact"], allerr, before, "err"))))
        st = set(ms[dones[0]].get("status") or [])
        if "status" in exp and st != exp["status"]:
            key = "status"
            if "interrupted" in exp["status"] and "interrupted" not in st:
                key = "not-interrupted"
            elif "interrupted" in st:
                key = "spurious-interrupt"
            bad.append((key, "request %s (%s): status %s, expected %s" % (rid, exp["op"], sorted(st), sorted(exp["status"]))))
        if "status_any" in exp and st not in exp["status_any"]:
            bad.append(("status", "request %s (%s): status %s not among %s" % (rid, exp["op"], sorted(st), [sorted(x) for x in exp["status_any"]])))
        if "value" in exp:
            vals = [m["value"] for m in before if "value" in m]
            if vals != [exp["value"]]:
                bad.append(("value", "request %s: value %r, expected %r (session isolation / result)" % (rid, vals, exp["value"])))
    for rid in by_id:
        if rid not in sc.expect:
            bad.append(("stray-id", "message with unknown id %r" % (rid,)))
    return bad


# --------------------------------------------------------------------------- schedules
# set by run_configs from a measurement: number of `fun` definitions whose parse+load takes ~1.5 s
PARAMS = {"defs": 4000, "load_s": 2.0}


def busy(k):
    """Garden source that spins for k loop iterations without output (one model `nop`)."""
    return "let j = 0 while j < %d { j += 1 } " % k


def make_scenario(kind, rng, k100):
    """One scripted client of schedule `kind`. k100 = busy-loop iterations for about 100 ms."""
    sc = Scenario(kind)
    tok = lambda: "".join(rng.choice("abcdefghijklmnopqrstuvwxyz") for _ in range(rng.randint(1, 6)))
    S1, S2 = "garden-1", "garden-2"
    DONE, INT = {"done"}, {"done", "interrupted"}
    UNK = {"done", "error", "unknown-session"}
    c = sc.clone()
    sc.wait(c)
    if kind == "last_print":
        # output printed in the very last step before completion
        lines = [tok() for _ in range(rng.randint(1, 6))]
        code = " ".join('println("%s")' % l for l in lines)
        if rng.random() < 0.5:
            code = busy(int(k100 * rng.uniform(0.2, 1.4))) + code
            acts = [("nop",)] + [("out", l + "\n") for l in lines]
        else:
            acts = [("out", l + "\n") for l in lines]
        if rng.random() < 0.3:
            e = tok()
            code = 'eprintln("%s") ' % e + code
            acts = [("err", e + "\n")] + acts
            r = sc.ev(S1, code, acts, out="".join(l + "\n" for l in lines), err=e + "\n", status=DONE, value="Unit")
        else:
            r = sc.ev(S1, code, acts, out="".join(l + "\n" for l in lines), status=DONE, value="Unit")
        sc.wait(r)
    elif kind == "flusher_gap":
        # print, spin past a flusher tick, print again as the last step
        a, b = tok(), tok()
        code = 'println("%s") %sprintln("%s")' % (a, busy(int(k100 * rng.uniform(1.3, 2.2))), b)
        r = sc.ev(S1, code, [("out", a + "\n"), ("nop",), ("out", b + "\n")], out=a + "\n" + b + "\n",
                  status=DONE, value="Unit")
        sc.wait(r, 15)
    elif kind == "two_sessions":
        c2 = sc.clone()
        sc.wait(c2)
        v1, v2 = "a" + tok(), "b" + tok()
        q1, q2 = '"%s"' % v1, '"%s"' % v2
        d1 = sc.ev(S1, "let x = %s" % q1, [("def", "x", q1)], status=DONE)
        d2 = sc.ev(S2, "let x = %s" % q2, [("def", "x", q2)], status=DONE)
        sc.wait(d1)
        sc.wait(d2)
        b1 = busy(int(k100 * rng.uniform(0.0, 1.5)))
        b2 = busy(int(k100 * rng.uniform(0.0, 1.5)))
        r1 = sc.ev(S1, b1 + "println(x) x", [("nop",), ("out", v1 + "\n"), ("nop",)], fin=("var", "x"),
                   out=v1 + "\n", status=DONE, value=q1)
        r2 = sc.ev(S2, b2 + "println(x) x", [("nop",), ("out", v2 + "\n"), ("nop",)], fin=("var", "x"),
                   out=v2 + "\n", status=DONE, value=q2)
        sc.wait(r1, 15)
        sc.wait(r2, 15)
    elif kind == "big_output":
        # large outputs left to the final drain (or to few flusher passes): byte-exact completeness
        def big_eval(n):
            fn = rng.choice(["print", "println", "print", "eprint", "eprintln"])
            unit = rng.choice(["0123456789abcdef", "ab", "\u00e9", "\u20ac", "\U0001F600", "a\u20ac\U0001F600\u00e9z"])
            prefix = "q" * rng.randint(0, 3)
            ub, pb = len(unit.encode()), len(prefix)
            q = max(1, (n - pb) // ub)
            rem = max(0, n - pb - q * ub)
            text = prefix + unit * q + "x" * rem
            code = ['let p = "%s"' % unit, 'let acc = "%s"' % prefix]
            bits = bin(q)[2:][::-1]
            for i, bit in enumerate(bits):
                if bit == "1":
                    code.append("acc = acc ^ p")
                if i + 1 < len(bits):
                    code.append("p = p ^ p")
            if rem:
                code.append('acc = acc ^ "%s"' % ("x" * rem))
            code.append("%s(acc)" % fn)
            total = text + ("\n" if fn.endswith("ln") else "")
            stream = "err" if fn.startswith("e") else "out"
            exp = dict(status=DONE, value="Unit")
            exp["out"] = total if stream == "out" else ""
            exp["err_exact"] = total if stream == "err" else ""
            return sc.ev(S1, " ".join(code), [("nop",), (stream, total)], **exp)
        sizes_a = [4096, 65535, 65536, 65537, 66560, 131071, 131073]
        sizes_b = [204800, 262145, 1048576]
        mode = rng.random()
        if mode < 0.25:
            # a fast print loop that ends with a burst in the buffer (too many steps for the model)
            line = tok() + tok() + tok()
            cnt = rng.choice([6000, 12000, 20000])
            fn = rng.choice(["println", "println", "eprintln"])
            total = (line + "\n") * cnt
            exp = dict(status=DONE)
            exp["out"] = total if fn == "println" else ""
            exp["err_exact"] = total if fn == "eprintln" else ""
            r = sc.ev(S1, 'let i = 0 while i < %d { %s("%s") i += 1 }' % (cnt, fn, line), [], **exp)
            sc.no_model = True
            sc.wait(r, 30)
        else:
            r = big_eval(rng.choice(sizes_a) + rng.choice([0, 0, -1, 1]))
            sc.wait(r, 30)
        nb = rng.choice(sizes_b)
        if nb > 300000:
            sc.no_model = True
        r = big_eval(nb + rng.choice([0, 1, -1]))
        sc.wait(r, 30)
        # a small control after the big ones: nothing stale leaks into the next request
        r = sc.ev(S1, 'println("end")', [("out", "end\n")], out="end\n", status=DONE, value="Unit")
        sc.wait(r)
    elif kind == "closed_session":
        k = sc.op("close", "close", session=S1, expect=dict(status={"done", "session-closed"}))
        sc.wait(k)
        r = sc.ev(S1, 'println("x")', [("out", "x\n")], out="", status=UNK)
        sc.wait(r)
        r2 = sc.ev("garden-%d" % rng.randint(5, 50), "1", [], out="", status=UNK)
        sc.wait(r2)
        i = sc.op("interrupt", "interrupt", session=S1, expect=dict(status=UNK))
        sc.wait(i)
        l = sc.op("ls-sessions", "ls", expect=dict(status=DONE))
        sc.wait(l)
        u = sc.op("frobnicate", "unknownop", expect=dict(status={"done", "error", "unknown-op"}))
        sc.wait(u)
    elif kind == "idle_interrupt":
        i = sc.op("interrupt", "interrupt", session=S1, expect=dict(status=DONE))
        if rng.random() < 0.5:
            sc.wait(i)
        t = tok()
        r = sc.ev(S1, busy(int(k100 * rng.uniform(0.3, 1.5))) + 'println("%s")' % t,
                  [("nop",), ("out", t + "\n")], out=t + "\n", status=DONE, value="Unit")
        sc.wait(r, 15)
    elif kind == "loop_interrupt":
        t = tok()
        code = 'while True { println("%s") %s}' % (t, busy(max(1, int(k100 * rng.uniform(0.05, 0.4)))))
        r = sc.ev(S1, code, [], loop=[("out", t + "\n"), ("nop",)], out_repeat=t + "\n", status=INT)
        sc.wait_out(r, 10)
        if rng.random() < 0.5:
            sc.sleep(rng.uniform(0, 0.15))
        i = sc.op("interrupt", "interrupt", session=S1, expect=dict(status=DONE))
        sc.wait(r, 5)
        sc.wait(i, 5)
        # the session stays usable and the flag does not leak into the next eval
        r2 = sc.ev(S1, 'println("after")', [("out", "after\n")], out="after\n", status=DONE, value="Unit")
        sc.wait(r2)
    elif kind == "interrupt_queued":
        t = tok()
        code = 'while True { println("%s") %s}' % (t, busy(max(1, int(k100 * rng.uniform(0.05, 0.4)))))
        r = sc.ev(S1, code, [], loop=[("out", t + "\n"), ("nop",)], out_repeat=t + "\n", status=INT)
        r2 = sc.ev(S1, 'println("second")', [("out", "second\n")], out="second\n", status=DONE, value="Unit")
        sc.wait_out(r, 10)
        i = sc.op("interrupt", "interrupt", session=S1, expect=dict(status=DONE))
        sc.wait(r, 5)
        sc.wait(r2, 5)
        sc.wait(i, 5)
    elif kind == "close_loop":
        t = tok()
        code = 'while True { println("%s") %s}' % (t, busy(max(1, int(k100 * rng.uniform(0.05, 0.4)))))
        r = sc.ev(S1, code, [], loop=[("out", t + "\n"), ("nop",)], out_repeat=t + "\n", status=INT)
        sc.wait_out(r, 10)
        k = sc.op("close", "close", session=S1, expect=dict(status={"done", "session-closed"}))
        sc.wait(r, 5)
        sc.wait(k, 5)
        r2 = sc.ev(S1, "1", [], out="", status=UNK)
        sc.wait(r2)
    elif kind in ("parse_window_hook", "parse_window_big"):
        # An interrupt acknowledged after the request was handed to the worker but before the
        # interpreter loop starts (during parse/load) must still stop the eval.  The failing import
        # makes the worker send a diagnostic `err` message after parse/load and before the loop: an
        # observable marker of where the worker is.
        w = sc.ev(S1, "1", [("nop",)], fin=("lit", "1"), status=DONE, value="1")   # worker warm and idle
        sc.wait(w, 30)
        marker = 'import "./nosuch_c31_probe_%s.gdn"\n' % tok()
        if kind == "parse_window_hook":
            # needs delay before_eval_loop: wait for the marker, then interrupt during the stall
            r = sc.ev(S1, marker + "while True { 1 }", [], loop=[("nop",)], start="warn", status=INT)
            sc.steps.append(("wait_key", r, "err", 20))
            i = sc.op("interrupt", "interrupt", session=S1, expect=dict(status=DONE))
            sc.wait(r, 8)
        else:
            # no hook: a submission whose parse+load takes >= ~1 s; `ls-sessions` is pipelined behind it,
            # so its reply means the reader has handed the eval to the worker
            tag = tok()
            defs = "".join("fun seed_%s_%d(x: Int): Int { let y = x + %d\n y * 2 }\n" % (tag, j, j)
                           for j in range(PARAMS["defs"]))
            r = sc.ev(S1, marker + defs + "while True { 1 }", [], loop=[("nop",)], start="warn", status=INT)
            pl = sc.op("ls-sessions", "ls", expect=dict(status=DONE))
            sc.wait(pl, 60)
            sc.sleep(rng.uniform(0.3, 0.5))
            i = sc.op("interrupt", "interrupt", session=S1, expect=dict(status=DONE))
            sc.wait(r, min(30.0, PARAMS["load_s"] * 3 + 8))
        sc.wait(i, 5)
        sc.meta = dict(eval=r, interrupt=i)
        r2 = sc.ev(S1, 'println("after")', [("out", "after\n")], out="after\n", status=DONE, value="Unit")
        sc.wait(r2, 20)
    elif kind == "pending_interrupt":
        # An interrupt that is pending (the eval sits inside a long built-in and has not looked at the
        # flag yet) must survive other requests dispatched to the same session meanwhile: the reader's
        # dispatch does not touch the flag.
        w = sc.ev(S1, "1", [("nop",)], fin=("lit", "1"), status=DONE, value="1")   # worker warm and idle
        sc.wait(w, 30)
        code = 'import "__shell.gdn" as shell\nshell::run("sleep", ["2"])\nwhile True { 1 }'
        r = sc.ev(S1, code, [("nop",)], loop=[("nop",)], status=INT)
        pl = sc.op("ls-sessions", "ls", expect=dict(status=DONE))   # its reply = eval handed to the worker
        sc.wait(pl, 30)
        sc.sleep(rng.uniform(0.5, 0.8))
        i = sc.op("interrupt", "interrupt", session=S1, expect=dict(status=DONE))
        sc.wait(i, 5)
        sc.sleep(rng.uniform(0.1, 0.4))
        which = rng.choice(["completions", "lookup", "eval"])
        if which == "completions":
            q = sc.op("completions", "query", session=S1, expect=dict(status=DONE), prefix="pr")
        elif which == "lookup":
            q = sc.op("lookup", "query", session=S1, expect=dict(status=DONE), sym="println")
        else:
            q = sc.ev(S1, 'println("queued")', [("out", "queued\n")], out="queued\n", status=DONE, value="Unit")
        sc.wait(r, 12)     # sleep 2 s, then the first flag test must see the interrupt
        sc.wait(q, 10)     # and the later request is answered
    elif kind == "pipelined_close":
        # a pipelining client: evals and `close` sent back to back without waiting for replies.  Every
        # request that was sent gets exactly one final `done`: the running eval may end interrupted,
        # requests still queued when the close is handled are still dequeued and answered, requests
        # after the close get unknown-session.
        ANY = [DONE, INT]
        ids = []
        if rng.random() < 0.7:
            ids.append(sc.ev(S1, "1", [("nop",)], fin=("lit", "1"), status_any=ANY))   # first request, not awaited
        t1 = tok()
        ids.append(sc.ev(S1, busy(int(k100 * rng.uniform(0.5, 2.5))) + 'println("%s")' % t1,
                         [("nop",), ("out", t1 + "\n")], status_any=ANY, out_if_done=t1 + "\n"))
        for _ in range(rng.randint(1, 3)):
            t = tok()
            if rng.random() < 0.25:
                ids.append(sc.op(rng.choice(["completions", "lookup"]), "query", session=S1,
                                 expect=dict(status=DONE), prefix="pr", sym="println"))
            else:
                ids.append(sc.ev(S1, 'println("%s")' % t, [("out", t + "\n")], status_any=ANY, out_if_done=t + "\n"))
        ids.append(sc.op("close", "close", session=S1, expect=dict(status={"done", "session-closed"})))
        for _ in range(rng.randint(0, 2)):
            if rng.random() < 0.5:
                ids.append(sc.ev(S1, 'println("late")', [("out", "late\n")], out="", status=UNK))
            else:
                ids.append(sc.op("interrupt", "interrupt", session=S1, expect=dict(status=UNK)))
        ids.append(sc.op("ls-sessions", "ls", expect=dict(status=DONE)))
        for rid in ids:
            sc.wait(rid, 15)
    elif kind == "close_before_reset":
        # close lands between the dequeue and the flag reset (needs after_dequeue delay)
        t = tok()
        r = sc.ev(S1, busy(int(k100 * 1.5)) + 'println("%s")' % t, [("nop",), ("out", t + "\n")],
                  status_any=[DONE, INT])
        sc.sleep(0.05)
        k = sc.op("close", "close", session=S1, expect=dict(status={"done", "session-closed"}))
        sc.wait(k, 5)
        sc.wait(r, 15)
    else:
        raise ValueError(kind)
    return sc


def calibrate(garden, scratch):
    """Busy-loop iterations for about 100 ms of eval on this machine (bounded)."""
    with Server(garden, scratch, {}, life_s=60) as s:
        sc = Scenario("calibrate")
        c = sc.clone()
        sc.wait(c)
        r = sc.ev("garden-1", busy(20000), [("nop",)])
        sc.wait(r, 30)
        t0 = time.time()
        res = run_script(s.port, sc.steps)
        ms = [m.get("eval-msec") for m in res["received"] if m.get("id") == r and "eval-msec" in m]
        msec = max(1, ms[0] if ms else 100)
    return max(2000, min(400000, int(20000 * 100 / msec)))


def calibrate_load(garden, scratch):
    """Seconds the worker needs to parse+load 1000 small function definitions (hand-over to done)."""
    with Server(garden, scratch, {}, life_s=120) as s:
        c = Client(s.port)
        try:
            c.send({"op": "clone", "id": "0"})
            c.wait_done("0", 30)
            c.send({"op": "eval", "id": "1", "session": "garden-1", "code": "1"})
            c.wait_done("1", 60)
            defs = "".join("fun cal_%d(x: Int): Int { let y = x + %d\n y * 2 }\n" % (j, j) for j in range(1000))
            c.send({"op": "eval", "id": "2", "session": "garden-1", "code": defs + "1"})
            c.send({"op": "ls-sessions", "id": "3"})
            if c.wait_done("3", 60) is None:
                return None
            t0 = time.time()
            if c.wait_done("2", 120) is None:
                return None
            return max(0.02, time.time() - t0)
        finally:
            c.close()


def run_schedule(garden, scratch, kind, delays, n, seed, k100, life_s=150, par=8, tfactor=1.0, scenarios=None):
    """n scripted clients of one schedule against one server (parallel connections).
    Returns list of (scenario, result)."""
    import random
    from concurrent.futures import ThreadPoolExecutor
    rng = random.Random(seed)
    scs = scenarios if scenarios is not None else [
        make_scenario(kind, random.Random(rng.getrandbits(32)), k100) for _ in range(n)]
    out = []
    with Server(garden, scratch, delays, life_s=int(life_s * max(1.0, tfactor))) as s:
        with ThreadPoolExecutor(max_workers=max(1, min(len(scs), par))) as ex:
            ress = list(ex.map(lambda sc: run_script(s.port, sc.steps, tfactor), scs))
        panicked = s.panicked()
        resource = panicked and s.resource_failure()
        tail = list(s.panic_lines) or (["exit status %r" % s.exit_status] + list(s.stderr_tail[-3:]))
    for sc, r in zip(scs, ress):
        r["server_panicked"] = panicked
        r["resource_failure"] = resource
        r["stderr_tail"] = tail
        out.append((sc, r))
    return out


# --------------------------------------------------------------------------- shared driver for c30 / c31
def run_configs(ctx, prop, configs, n, extra_oracle=None, n_by_kind=None):
    """configs: list of (schedule kind, delays dict). Runs n scripted clients per config (one server
    per config), the direct oracle on every raw trace and the model replay of every trace."""
    from . import common
    garden = common.GARDEN
    base = ctx.scratch("nrepl")
    try:
        k100 = calibrate(garden, os.path.join(base, "cal"))
    except Exception as e:     # calibration only shapes the scripts; never a verdict
        ctx.notes.append("busy-loop calibration failed (%r); using the default" % (e,))
        k100 = 20000
    ctx.cov["busy_iterations_per_100ms"] = k100
    n_by_kind = n_by_kind or {}
    if any(k == "parse_window_big" for k, _ in configs):
        try:
            t1000 = calibrate_load(garden, os.path.join(base, "calload"))
        except Exception as e:
            t1000 = None
            ctx.notes.append("parse/load calibration failed (%r); using the default" % (e,))
        if t1000:
            # at least 4000 definitions (>= ~1.3 s of parse+load on an idle machine, where 1000 take ~0.3 s):
            # a calibration taken on a loaded machine over-estimates the time per definition
            PARAMS["defs"] = max(4000, min(8000, int(1000 * 1.5 / t1000)))
            PARAMS["load_s"] = max(1.0, t1000 * PARAMS["defs"] / 1000.0)
        ctx.cov["parse_window"] = dict(load_1000_defs_s=t1000 and round(t1000, 2), defs=PARAMS["defs"])
    seeds = [ctx.rng.getrandbits(32) for _ in configs]

    retried = dict(schedules_resource=0, scripts_timeout=0, scripts_still_failing=0)

    def attempt(ix, tag, **kw):
        kind, delays = configs[ix]
        last = None
        for a in range(2):           # a server that does not come up on a loaded machine: once more
            try:
                return run_schedule(garden, os.path.join(base, "srv%d%s%d" % (ix, tag, a)), kind, delays,
                                    n_by_kind.get(kind, n), seeds[ix], k100, **kw)
            except Exception as e:
                last = e
                time.sleep(1.0)
        return last

    def one(ix):
        rs = attempt(ix, "a")
        if isinstance(rs, Exception):
            return rs
        if any(r.get("resource_failure") for _, r in rs):
            # the server hit the harness's own resource limits: not evidence about the property
            retried["schedules_resource"] += 1
            rs = attempt(ix, "b", par=3)
            if isinstance(rs, Exception):
                return rs
            if any(r.get("resource_failure") for _, r in rs):
                return RuntimeError("server keeps dying of resource limits: %s" % rs[0][1]["stderr_tail"][:3])
        # a script that missed a time bound is run again alone, on a fresh server with the same
        # delays and 4x the bounds, before anything is reported (loaded machines)
        out = list(rs)
        failing = [j for j, (sc, r) in enumerate(rs)
                   if (r["timeouts"] or r["error"]) and not (r.get("server_panicked") and not r.get("resource_failure"))]
        if failing:
            retried["scripts_timeout"] += len(failing)
            # together on one fresh server (at most 4 at a time), not one server each: keeps the failure path short
            r2 = attempt(ix, "r", par=4, tfactor=4.0, scenarios=[rs[j][0] for j in failing])
            if not isinstance(r2, Exception):
                for j, (sc2, res2) in zip(failing, r2):
                    r = rs[j][1]
                    res2["first_attempt"] = dict(timeouts=r["timeouts"], error=r["error"],
                                                 received=[abbreviate(m) for m in r["received"][-6:]])
                    if res2["timeouts"] or res2["error"]:
                        retried["scripts_still_failing"] += 1
                    out[j] = (sc2, res2)
        return out

    results = common.pmap(one, list(range(len(configs))), workers=4)
    lines, owners = [], []
    stats = dict(traces=0, multi_chunk=0, interrupted=0, messages=0, accept=0, budget=0, inexpressible=0)
    for (kind, delays), rs in zip(configs, results):
        dl = ",".join("%s:%d" % kv for kv in sorted(delays.items())) or "none"
        if isinstance(rs, Exception):
            ctx.broken.append(dict(kind="harness", what="nREPL server run failed for %s [%s]: %r" % (kind, dl, rs)))
            continue
        for sc, res in rs:
            stats["traces"] += 1
            stats["messages"] += len(res["received"])
            outs = {}
            for m in res["received"]:
                if "out" in m:
                    outs[m.get("id")] = outs.get(m.get("id"), 0) + 1
            multi = any(v >= 2 for v in outs.values())
            intr = any("interrupted" in (m.get("status") or []) for m in res["received"])
            stats["multi_chunk"] += multi
            stats["interrupted"] += intr
            replay = dict(schedule=kind, delays=dl, steps=sc.steps, received=[abbreviate(m) for m in res["received"]],
                          recv_times=[round(x, 3) for x in res.get("t", [])],
                          sent_seen=[s for _, s in res["sent"]], timeouts=res["timeouts"], io_error=res["error"],
                          first_attempt=res.get("first_attempt"), server_stderr=res.get("stderr_tail"))
            if res.get("server_panicked") and not res.get("resource_failure"):
                ctx.fail("%s/%s/server-panic" % (prop, kind), "the nREPL server panicked: %s" % res["stderr_tail"], **replay)
            bad = oracle(sc, res)
            if extra_oracle:
                bad += extra_oracle(kind, sc, res)
            for key, what in bad:
                full = key if key.startswith(prop + "/") else "%s/%s/%s" % (prop, kind, key)
                ctx.fail(full, "[%s, delays %s] %s" % (kind, dl, what), **replay)
            ctx.case((kind, dl, [m for m in sc.steps if m[0] == "send"]), nontrivial=multi or intr or kind in ("two_sessions", "closed_session", "flusher_gap", "big_output", "pending_interrupt", "pipelined_close") or kind.startswith("parse_window"))
            ctx.sample(dict(schedule=kind, delays=dl, received=[abbreviate(m, 200) for m in res["received"][:8]]))
            if kind == "big_output":
                for m in res["received"]:
                    for key in ("out", "err"):
                        if key in m:
                            stats["max_payload_bytes"] = max(stats.get("max_payload_bytes", 0), len(_b(m[key])))
            if kind.startswith("parse_window") and sc.meta:
                # was the interrupt acknowledged before the worker's post-load diagnostic arrived,
                # i.e. did it really land before the interpreter loop (parse_window_big), resp. after
                # the diagnostic during the hook's stall (parse_window_hook)?
                ack = next((j for j, m in enumerate(res["received"]) if m.get("id") == sc.meta["interrupt"]), None)
                mark = next((j for j, m in enumerate(res["received"])
                             if m.get("id") == sc.meta["eval"] and "err" in m and "status" not in m), None)
                if ack is not None and mark is not None:
                    key = "parse_window_big_interrupt_before_load_end" if kind == "parse_window_big" \
                        else "parse_window_hook_interrupt_after_marker"
                    hit = (ack < mark) if kind == "parse_window_big" else (ack > mark)
                    stats[key] = stats.get(key, 0) + int(hit)
            if sc.no_model:
                stats["oracle_only"] = stats.get("oracle_only", 0) + 1
                continue
            sx = trace_sexp(sc, res)
            if sx is None:
                stats["inexpressible"] += 1
                continue
            lines.append("nrepl_accept " + sx)
            owners.append((kind, dl, replay, bool(bad)))
    answers = ctx.model_batch(lines, shards=4, timeout=600) if lines else []
    # a driver process that died or timed out (loaded machine) is not a verdict: ask again, alone
    for i, ans in enumerate(answers):
        if ans is None or not ans.startswith("OK"):
            again = ctx.model_batch([lines[i]], shards=1, timeout=600)
            answers[i] = again[0] if again else None
    stats["model_no_answer"] = 0
    for line, ans, (kind, dl, replay, had_bad) in zip(lines, answers, owners):
        if ans is not None and ans.startswith("OK accept"):
            stats["accept"] += 1
        elif ans == "OK budget":
            stats["budget"] += 1
        elif ans is not None and ans.startswith("OK reject"):
            ctx.disagree("nrepl_accept [%s, delays %s]" % (kind, dl), line[:3000], "no model run produces this trace: %s" % ans,
                         replay["received"], oracle_also_failed=had_bad)
        else:
            stats["model_no_answer"] += 1
    stats["retried"] = retried
    inconclusive = stats["budget"] + stats["model_no_answer"] + stats["inexpressible"]
    if lines and inconclusive * 10 > len(lines):
        ctx.broken.append(dict(kind="harness", what="model replay inconclusive for %d of %d traces (budget %d, no answer %d)" % (
            inconclusive, len(lines), stats["budget"], stats["model_no_answer"])))
    ctx.cov["nrepl"] = stats
    return stats
