import GardenVerif.Model.Machine
/-!
# RefSem — reference big-step semantics for the validator properties C19–C22

A small, self-contained, fuel-based big-step interpreter over `Machine.Expr` (the tree type
the driver already parses from the `astx` dump of the REAL parser). It is the semantics the
validator theorems (`alpha_sound`, `dbg_identity`, `let_hoist_sound`, …) are stated about; it
never reads node ids or `value_is_used` flags.

Design (chosen so that the validator proofs are tractable):
* variables are lexically scoped: an environment is an association list `name ↦ location`
  (innermost binding first), the store is a list of values; a `let` in a statement sequence
  extends the environment of the REST of that sequence (block exit simply forgets it);
  `let x` twice in one block shadows, which is observationally what the evaluator's overwrite
  does; assignment writes the location the name resolves to;
* closures capture BY VALUE (src/eval.rs `FunLiteral`: `block_bindings.clone()`, and
  `eval_call` clones the captured bindings again for every call): a closure value carries a
  snapshot `name ↦ value`, re-allocated at every call;
* function frames see only their parameters (plus the namespace: functions, enum variants,
  built-ins); `println` / `print` append to the output, `string_repr` is `Value::display`,
  `dbg` returns its argument and writes nothing to stdout;
* results: value | break | continue | return | error kind | unsupported | timeout (out of fuel);
  every non-value result of a sub-evaluation propagates unchanged.
* `cl = false` is the closure-free restriction: evaluating a `fun` literal or calling a closure
  is `unsupported`.

The tie to the real interpreter: op `refsem_run` of the driver runs this interpreter on the
`astx` dump, the harness compares printed output and outcome kind with `garden run`.

Import-free apart from `Model.Machine` (the driver links it).
-/

namespace RefSem
open Machine (Expr Case Dest BinOp Program FunDef EnumDef)

inductive Val where
  | int (v : Int64)
  | str (s : String)
  | list (items : List Val)
  | tuple (items : List Val)
  | enumV (ty : String) (idx : Nat) (payload : Option Val)
  | enumC (ty : String) (idx : Nat)
  | closure (env : List (String × Val)) (params : List String) (body : List Expr)
  | fn (name : String)
  | builtin (name : String)

instance : Inhabited Val := ⟨.int 0⟩

def vUnit : Val := .enumV "Unit" 0 none
def vBool (b : Bool) : Val := .enumV "Bool" (if b then 0 else 1) none

def Val.asBool : Val → Option Bool
  | .enumV "Bool" 0 none => some true
  | .enumV "Bool" 1 none => some false
  | _ => none

/-- Error kinds ("ends the same way" compares kinds, never messages). -/
inductive EK where
  | noSuchVar | typeError | arity | arith | noMatch | badPattern | tupleSize | invalid | escape
  deriving DecidableEq, Repr, Inhabited

def EK.toString : EK → String
  | .noSuchVar => "no-such-variable" | .typeError => "type-error" | .arity => "arity"
  | .arith => "arith" | .noMatch => "no-match" | .badPattern => "bad-pattern"
  | .tupleSize => "tuple-size" | .invalid => "invalid-syntax" | .escape => "loop-exit-outside-loop"

inductive Res where
  | val (v : Val)
  | brk
  | cont
  | ret (v : Val)
  | err (k : EK)
  | unsup (what : String)
  | timeout

structure St where
  store : List Val
  out : List String

abbrev Env := List (String × Nat)

def lookup : Env → String → Option Nat
  | [], _ => none
  | (k, l) :: rest, n => if k == n then some l else lookup rest n

def builtinNames : List String := ["println", "print", "string_repr", "dbg"]

def findVariant (enums : List EnumDef) (name : String) : Option Val :=
  enums.findSome? fun e =>
    match e.variants.findIdx? (fun v => v.1 == name) with
    | none => none
    | some i => match e.variants[i]? with
      | some (_, true) => some (.enumC e.name i)
      | some (_, false) => some (.enumV e.name i none)
      | none => none

/-- The namespace: only function NAMES and enum definitions of the program matter. -/
def nsLookup (funNames : List String) (enums : List EnumDef) (name : String) : Option Val :=
  if funNames.contains name then some (.fn name) else
  match findVariant (enums ++ Machine.preludeEnums) name with
  | some v => some v
  | none => if builtinNames.contains name then some (.builtin name) else none

def funNames (p : Program) : List String := p.funs.map (·.name)

def lookupVar (p : Program) (env : Env) (store : List Val) (n : String) : Option Val :=
  match lookup env n with
  | some l => store[l]?
  | none => nsLookup (funNames p) p.enums n

def variantName (enums : List EnumDef) (ty : String) (idx : Nat) : String :=
  match (enums ++ Machine.preludeEnums).find? (fun e => e.name == ty) with
  | some e => match e.variants[idx]? with
    | some (n, _) => n
    | none => "?"
  | none => "?"

mutual
/-- `Value::display` on the fragment. -/
def display (enums : List EnumDef) : Val → String
  | .int v => toString v.toInt
  | .str s => Machine.escapeString s
  | .list items => "[" ++ ", ".intercalate (displayList enums items) ++ "]"
  | .tuple items =>
      "(" ++ ", ".intercalate (displayList enums items) ++ (if items.length == 1 then "," else "") ++ ")"
  | .enumV ty idx none => variantName enums ty idx
  | .enumV ty idx (some v) => variantName enums ty idx ++ "(" ++ display enums v ++ ")"
  | .enumC ty idx => variantName enums ty idx
  | .closure .. => "<closure>"
  | .fn n => "<fun " ++ n ++ ">"
  | .builtin n => n
def displayList (enums : List EnumDef) : List Val → List String
  | [] => []
  | v :: vs => display enums v :: displayList enums vs
end

mutual
def valueEq : Val → Val → Bool
  | .int a, .int b => a == b
  | .str a, .str b => a == b
  | .list a, .list b => valueEqList a b
  | .tuple a, .tuple b => valueEqList a b
  | .enumV t1 i1 none, .enumV t2 i2 none => t1 == t2 && i1 == i2
  | .enumV t1 i1 (some a), .enumV t2 i2 (some b) => t1 == t2 && i1 == i2 && valueEq a b
  | .enumC t1 i1, .enumC t2 i2 => t1 == t2 && i1 == i2
  | _, _ => false
def valueEqList : List Val → List Val → Bool
  | [], [] => true
  | a :: as, b :: bs => valueEq a b && valueEqList as bs
  | _, _ => false
end

def ofSimple : Machine.Value → Val
  | .int v => .int v
  | .enumV t i none => .enumV t i none
  | _ => vUnit

def binop (op : BinOp) (lv rv : Val) : Res :=
  match op with
  | .eq => .val (vBool (valueEq lv rv))
  | .ne => .val (vBool (!valueEq lv rv))
  | .and => match lv.asBool, rv.asBool with
    | some a, some b => .val (vBool (a && b))
    | _, _ => .err .typeError
  | .or => match lv.asBool, rv.asBool with
    | some a, some b => .val (vBool (a || b))
    | _, _ => .err .typeError
  | .concat => match lv, rv with
    | .str a, .str b => .val (.str (a ++ b))
    | _, _ => .err .typeError
  | .floatOp => .unsup "float operator"
  | _ => match lv, rv with
    | .int a, .int b =>
      match Machine.intBinop op a b with
      | .ok v => .val (ofSimple v)
      | .err _ => .err .arith
      | .panic site => .unsup site
    | _, _ => .err .typeError

/-- Bind names to fresh locations holding the values, in order (a later name shadows an
earlier one); `_` binds nothing but still allocates, so that stores stay aligned. -/
def bindNames : List String → List Val → Env → St → Env × St
  | n :: ns, v :: vs, env, s =>
      bindNames ns vs (if n == "_" then env else (n, s.store.length) :: env)
        { s with store := s.store ++ [v] }
  | _, _, env, s => (env, s)

def bindDest (dest : Dest) (v : Val) (env : Env) (s : St) : Except EK (Env × St) :=
  match dest with
  | .sym n => .ok (bindNames [n] [v] env s)
  | .destr names =>
    match v with
    | .tuple items =>
      if items.length != names.length then .error .tupleSize
      else .ok (bindNames names items env s)
    | _ => .error .typeError

/-- Snapshot of the visible bindings (innermost first). Every location of an environment built by
the evaluator is valid; a dangling one (impossible in a run) would be captured as `Unit`. -/
def capture (env : Env) (store : List Val) : List (String × Val) :=
  env.map fun kl => (kl.1, (store[kl.2]?).getD vUnit)

def patKey (p : Program) (variant : String) : Option (String × Nat) :=
  match nsLookup (funNames p) p.enums variant with
  | some (.enumV t i _) => some (t, i)
  | some (.enumC t i) => some (t, i)
  | _ => none

@[inline] def bind (r : Res × St) (k : Val → St → Res × St) : Res × St :=
  match r with
  | (.val v, s) => k v s
  | (o, s) => (o, s)

/-- What a function call makes of its body's result. -/
def funResult : Res × St → Res × St
  | (.ret v, s) => (.val v, s)
  | (.brk, s) => (.err .escape, s)
  | (.cont, s) => (.err .escape, s)
  | r => r

/-- Built-in functions. -/
def applyBuiltin (p : Program) (name : String) (args : List Val) (s : St) : Res × St :=
  match args with
  | [a] =>
    if name == "println" then
      match a with
      | .str t => (.val vUnit, { s with out := s.out ++ [t ++ "\n"] })
      | _ => (.err .typeError, s)
    else if name == "print" then
      match a with
      | .str t => (.val vUnit, { s with out := s.out ++ [t] })
      | _ => (.err .typeError, s)
    else if name == "string_repr" then (.val (.str (display p.enums a)), s)
    else if name == "dbg" then (.val a, s)
    else (.unsup ("builtin " ++ name), s)
  | _ => (.err .arity, s)

mutual
def eval (cl : Bool) (p : Program) : Nat → Env → St → Expr → Res × St
  | 0, _, s, _ => (.timeout, s)
  | fuel + 1, env, s, e =>
    match e with
    | .int _ _ v => (.val (.int v), s)
    | .str _ _ t => (.val (.str t), s)
    | .var _ _ n =>
      match lookupVar p env s.store n with
      | some v => (.val v, s)
      | none => (.err .noSuchVar, s)
    | .binop _ _ op l r =>
      bind (eval cl p fuel env s l) fun lv s1 =>
      bind (eval cl p fuel env s1 r) fun rv s2 => (binop op lv rv, s2)
    | .letE .. => (.unsup "let in expression position", s)
    | .assign _ _ n rhs =>
      bind (eval cl p fuel env s rhs) fun v s1 =>
      match lookup env n with
      | none => (.err .noSuchVar, s1)
      | some l => (.val vUnit, { s1 with store := s1.store.set l v })
    | .update _ _ isAdd n rhs =>
      bind (eval cl p fuel env s rhs) fun rv s1 =>
      match lookup env n with
      | none => (.err .noSuchVar, s1)
      | some l =>
        match s1.store[l]?, rv with
        | some (.int cur), .int d =>
          (.val vUnit, { s1 with store := s1.store.set l (.int (if isAdd then cur + d else cur - d)) })
        | _, _ => (.err .typeError, s1)
    | .ifE _ _ c thn els =>
      bind (eval cl p fuel env s c) fun cv s1 =>
      match cv.asBool with
      | none => (.err .typeError, s1)
      | some b =>
        match els with
        | none =>
          if b then bind (evalSeq cl p fuel env s1 thn) fun _ s2 => (.val vUnit, s2)
          else (.val vUnit, s1)
        | some eb => if b then evalSeq cl p fuel env s1 thn else evalSeq cl p fuel env s1 eb
    | .whileE _ _ c body => evalWhile cl p fuel env s c body
    | .forE _ _ dest iter body =>
      bind (eval cl p fuel env s iter) fun iv s1 =>
      match iv with
      | .list items => evalFor cl p fuel env s1 dest items body
      | _ => (.err .typeError, s1)
    | .matchE _ _ scrut cases =>
      bind (eval cl p fuel env s scrut) fun sv s1 =>
      match sv with
      | .enumV ty idx payload => evalCases cl p fuel env s1 ty idx payload cases
      | _ => (.err .typeError, s1)
    | .ret _ _ none => (.ret vUnit, s)
    | .ret _ _ (some x) => bind (eval cl p fuel env s x) fun v s1 => (.ret v, s1)
    | .brk .. => (.brk, s)
    | .cont .. => (.cont, s)
    | .list _ _ items => evalList cl p fuel env s items
    | .tuple _ _ items =>
      bind (evalList cl p fuel env s items) fun vs s1 =>
      match vs with
      | .list l => (.val (.tuple l), s1)
      | _ => (.unsup "internal", s1)
    | .call _ _ recv args =>
      bind (eval cl p fuel env s recv) fun fv s1 =>
      bind (evalList cl p fuel env s1 args) fun vs s2 =>
      match vs with
      | .list l => applyVal cl p fuel s2 fv l
      | _ => (.unsup "internal", s2)
    | .lambda _ _ params body =>
      if cl then (.val (.closure (capture env s.store) params body), s)
      else (.unsup "closure", s)
    | .paren _ _ inner => eval cl p fuel env s inner
    | .invalid .. => (.err .invalid, s)
    | .unsup _ _ w => (.unsup w, s)

/-- A statement sequence (block body, function body, toplevel): the value of the last
statement; a `let` extends the environment of the rest. -/
def evalSeq (cl : Bool) (p : Program) : Nat → Env → St → List Expr → Res × St
  | 0, _, s, _ => (.timeout, s)
  | _ + 1, _, s, [] => (.val vUnit, s)
  | fuel + 1, env, s, e :: rest =>
    match e with
    | .letE _ _ dest rhs =>
      bind (eval cl p fuel env s rhs) fun v s1 =>
      match bindDest dest v env s1 with
      | .error k => (.err k, s1)
      | .ok (env', s2) => evalSeq cl p fuel env' s2 rest
    | _ =>
      match rest with
      | [] => eval cl p fuel env s e
      | _ :: _ => bind (eval cl p fuel env s e) fun _ s1 => evalSeq cl p fuel env s1 rest

/-- Items of a list / tuple literal or call arguments, left to right; the values come back
packed as `.val (.list vs)`. -/
def evalList (cl : Bool) (p : Program) : Nat → Env → St → List Expr → Res × St
  | 0, _, s, _ => (.timeout, s)
  | _ + 1, _, s, [] => (.val (.list []), s)
  | fuel + 1, env, s, e :: rest =>
    bind (eval cl p fuel env s e) fun v s1 =>
    bind (evalList cl p fuel env s1 rest) fun vs s2 =>
    match vs with
    | .list l => (.val (.list (v :: l)), s2)
    | _ => (.unsup "internal", s2)

def evalWhile (cl : Bool) (p : Program) : Nat → Env → St → Expr → List Expr → Res × St
  | 0, _, s, _, _ => (.timeout, s)
  | fuel + 1, env, s, c, body =>
    bind (eval cl p fuel env s c) fun cv s1 =>
    match cv.asBool with
    | none => (.err .typeError, s1)
    | some false => (.val vUnit, s1)
    | some true =>
      match evalSeq cl p fuel env s1 body with
      | (.val _, s2) => evalWhile cl p fuel env s2 c body
      | (.cont, s2) => evalWhile cl p fuel env s2 c body
      | (.brk, s2) => (.val vUnit, s2)
      | other => other

def evalFor (cl : Bool) (p : Program) : Nat → Env → St → Dest → List Val → List Expr → Res × St
  | 0, _, s, _, _, _ => (.timeout, s)
  | _ + 1, _, s, _, [], _ => (.val vUnit, s)
  | fuel + 1, env, s, dest, it :: rest, body =>
    match bindDest dest it env s with
    | .error k => (.err k, s)
    | .ok (env', s') =>
      match evalSeq cl p fuel env' s' body with
      | (.val _, s2) => evalFor cl p fuel env s2 dest rest body
      | (.cont, s2) => evalFor cl p fuel env s2 dest rest body
      | (.brk, s2) => (.val vUnit, s2)
      | other => other

def evalCases (cl : Bool) (p : Program) : Nat → Env → St → String → Nat → Option Val → List Case → Res × St
  | 0, _, s, _, _, _, _ => (.timeout, s)
  | _ + 1, _, s, _, _, _, [] => (.err .noMatch, s)
  | fuel + 1, env, s, ty, idx, payload, .mk variant dest body :: rest =>
    match dest with
    | none =>
      if variant == "_" then evalSeq cl p fuel env s body else
      match patKey p variant with
      | none => (.err .badPattern, s)
      | some (pty, pidx) =>
        if ty == pty && idx == pidx then
          match payload with
          | none => evalSeq cl p fuel env s body
          | some _ => evalCases cl p fuel env s ty idx payload rest
        else evalCases cl p fuel env s ty idx payload rest
    | some d =>
      match patKey p variant with
      | none => (.err .badPattern, s)
      | some (pty, pidx) =>
        if ty == pty && idx == pidx then
          match payload with
          | some pl =>
            match bindDest d pl env s with
            | .error k => (.err k, s)
            | .ok (env', s') => evalSeq cl p fuel env' s' body
          | none => evalCases cl p fuel env s ty idx payload rest
        else evalCases cl p fuel env s ty idx payload rest

/-- Call of a function value with evaluated arguments. -/
def applyVal (cl : Bool) (p : Program) : Nat → St → Val → List Val → Res × St
  | 0, s, _, _ => (.timeout, s)
  | fuel + 1, s, f, args =>
    match f with
    | .closure cenv params body =>
      if !cl then (.unsup "closure", s)
      else if params.length != args.length then (.err .arity, s)
      else
        let (e0, s0) := bindNames (cenv.reverse.map (·.1)) (cenv.reverse.map (·.2)) [] s
        let (e1, s1) := bindNames params args e0 s0
        funResult (evalSeq cl p fuel e1 s1 body)
    | .fn name =>
      match p.funs.find? (fun d => d.name == name) with
      | none => (.unsup "function value without definition", s)
      | some d =>
        if d.params.length != args.length then (.err .arity, s)
        else
          let (e1, s1) := bindNames d.params args [] s
          funResult (evalSeq cl p fuel e1 s1 d.body)
    | .builtin name => applyBuiltin p name args s
    | .enumC ty idx =>
      match args with
      | [a] => (.val (.enumV ty idx (some a)), s)
      | _ => (.err .arity, s)
    | _ => (.err .typeError, s)
end

def St.init : St := { store := [], out := [] }

/-- Run a whole program: the toplevel statements in order, in one scope. -/
def run (cl : Bool) (p : Program) (fuel : Nat) : Res × St :=
  evalSeq cl p fuel [] St.init p.toplevel

/-- How a run ends, as far as an observer of `garden run` can tell. -/
inductive Outcome where
  | finished
  | error (k : EK)
  | unsupported
  | timeout
  deriving DecidableEq, Repr

def Res.outcome : Res → Outcome
  | .val _ => .finished
  | .ret _ => .finished
  | .brk => .error .escape
  | .cont => .error .escape
  | .err k => .error k
  | .unsup _ => .unsupported
  | .timeout => .timeout

/-- Observable behaviour with a given amount of fuel: how the run ends and what it printed. -/
def behaviour (cl : Bool) (p : Program) (fuel : Nat) : Outcome × List String :=
  let r := run cl p fuel
  (r.1.outcome, r.2.out)

end RefSem
