"""C25 — Sandboxed runs always finish within their step budget.

Proof: GardenVerif.Props.C25 over the evaluator machine M4 (`Machine.step`): `bounded_run` — from every
state with tick limit L the run is over within 2·(L − ticks) + frames + 1 loop iterations, whatever the
program; `frames_bounded` — the call stack never exceeds D + 1 frames; `bounded_run_tables` — both
sandboxed entry points (regenerated from src/sandboxed_playground.rs, src/test_runner.rs) set both limits.

Tie (C): generated non-terminating / deeply recursive / value-nesting programs are run on the real
evaluator in-process (`machine` hook op, with tick and stack limits: the sandbox's real numbers and small
random ones) and on the model (`machine_run`, same limits): outcome kind (`tick-limit` / `stack-limit` /
value / error), tick count, call-stack depth and value-stack/binding-block heights at the end must agree.

Direct oracle (no model): the same programs through the two sandboxed entry points of the CLI
(`garden playground-run f.gdn`, `garden sandboxed-test f.gdn <offset>`), each under a wall-clock timeout
and `RLIMIT_AS` 3 GB: the process must end BY ITSELF with exit status 0 and a JSON answer (value, error
or limit error) — never by timeout, signal, panic (101) or abort (134); a non-terminating program must be
ended by the tick- or stack-limit error specifically.

One budget per RUN (not per evaluation): files with many tests (3, 5, 10, 40; several of them runaway loops,
unbounded recursion, growing strings) go through both entry points (`sandboxed-test` with the cursor outside
every test, `playground-run`): the run must end as fast as a single runaway test does, runaway tests that print a
marker per 1000 iterations must not execute more iterations in total than the budget allows, and the runner hook
`testrun` (src/verif_runner.rs) under small limits must end with `env.ticks ≤ limit + #tests` and agree with the
runner model `testrun_model` (Props/C25 `tests_one_budget`) on verdicts, tick count and trace.

One tick, unbounded work: every built-in arm with an Int parameter / receiver, the Int functions of the prelude and
`**` are called ONCE per sandboxed process with huge index / count arguments (10^10 … i64::MAX) on small receivers,
through both entry points, under a 10 s bound (one retry at 60 s): a timeout is `C25/timeout/builtin/<Arm>` — the
tick limit is checked once per evaluator iteration, so a single call whose work grows with the magnitude of an
Int (not with the size of a value) cannot be stopped by it.

What the model cannot exhibit, and what this check therefore records as findings with fixed probes
(DESIGN §9): the cost of ONE tick is not bounded — (a) heap: `s = s ^ s` doubles a string per iteration,
the process is still copying after the timeout and aborts on allocation failure (rc 134) well inside the tick
budget; (b) wall-clock: building a value nested d deep costs time super-linear in d per tick (the runtime
type of a nested list/Option/tuple is recomputed on every literal/assignment), so ≈800 levels take ≈10 s and
a few thousand exceed any reasonable timeout within the tick budget; (c) native stack: the recursive
display/drop/parser on deep values/expressions.
"""
import json
import os
import re
import shutil

from . import common
from . import machine_corr as MC
from . import prog_core_gen as PG
from .common import hexs as hexs_

LEAN_MODULES = ["GardenVerif.Props.C25"]
TIMEOUT = 20
SCRATCH_ROOT = os.path.join(common.BUILD, "scratch", "limits")
TICK_MSG, STACK_MSG = "Reached the tick limit", "Reached the stack limit"

# families whose misbehaviour is a recorded finding (narrow: keyed by family)
KNOWN_FAMILY_KEYS = {
    "double-string": "C25/memory-exhaustion-within-budget",
    "nest-list": "C25/wallclock-deep-nesting-within-budget",
    "nest-option": "C25/wallclock-deep-nesting-within-budget",
    "nest-tuple": "C25/wallclock-deep-nesting-within-budget",
    "nest-source": "C25/native-stack-deep-nesting",
    "nest-unbounded": "C25/native-stack-runtime-nesting",
}


# ------------------------------------------------------------------------------ generators
def loop_body(rng, k):
    """A terminating statement sequence of the core fragment (so that the model can run it too)."""
    bodies = [
        "",
        "let x%d = 1" % k,
        "c += 1",
        "c += 1 if c > 5 { c = 0 }",
        "for y in [1, 2, 3] { c += y }",
        "let g = fun(a) { a + 1 } c = g(c)",
        "let t = (c, c + 1) let (p, q) = t c = q - p",
        "match Some(c) { Some(z) => { c = z + 1 } None => { c = 0 } }",
        "if c > 3 { continue } c += 1",
        "let w = 0 while w < 3 { w += 1 }",
        'let s = "a" ^ "b"',
        "c = id(c)",
    ]
    n = rng.randrange(1, 4)
    return " ".join(rng.choice(bodies) for _ in range(n))


def gen_nonterminating(rng, k):
    """-> (family, defs, body, expectation) ; expectation: 'tick', 'stack', 'limit'."""
    kind = rng.randrange(9)
    defs = "fun id(a) { a }\n"
    if kind == 0:
        return "while-true", defs, "let c = 0 while True { %s }" % loop_body(rng, k), "tick"
    if kind == 1:
        return "while-cond", defs, "let c = 0 let n = 0 while n < 1 { %s }" % loop_body(rng, k), "tick"
    if kind == 2:
        return "nested-loops", defs, ("let c = 0 while True { for q in [1, 2, 3, 4] { while c < 0 { c = 0 } %s } }"
                                      % loop_body(rng, k)), "tick"
    if kind == 3:
        extra = rng.choice(["", "let u = n * 2 ", "if n < 0 { return 0 } "])
        return "recursion-unbounded", defs + "fun f(n) { %sf(n + 1) }\n" % extra, "f(0)", "limit"
    if kind == 4:
        return "recursion-mutual", defs + "fun f(n) { g(n + 1) }\nfun g(n) { let m = n f(m) }\n", "f(0)", "limit"
    if kind == 5:
        return "closure-self", defs, "let h = fun(g, n) { g(g, n + 1) } h(h, 0)", "limit"
    if kind == 6:
        # recursion with a loop at each level: many ticks per frame -> the tick limit comes first
        return "recursion-with-loop", defs + ("fun f(n) { let c = 0 while c < %d { c += 1 } f(n + 1) }\n"
                                                 % rng.choice([50, 200, 1000])), "f(0)", "limit"
    if kind == 7:
        return "loop-in-function", defs + "fun spin(c) { while True { %s } }\n" % loop_body(rng, k), "spin(0)", "tick"
    return "loop-calls", defs + "fun h(a) { a + 1 }\n", "let c = 0 while True { c = h(h(c)) }", "tick"


def gen_recursion_depth(d, D):
    # frames at the deepest point = toplevel + sum(d) … sum(0) = d + 2 (one more inside a `test`); the check is `frames > D`
    return ("recursion-depth", "fun sum(n) { if n == 0 { 0 } else { n + sum(n - 1) } }\n", "sum(%d)" % d,
            "value:%d" % (d * (d + 1) // 2) if d + 3 <= D else "limit" if d + 2 > D else "any")


def gen_nesting(kind, n):
    if kind == "nest-list":
        return kind, "", "let l = [] let i = 0 while i < %d { l = [[[[l]]]] i += 1 } 0" % n, "any"
    if kind == "nest-option":
        return kind, "", "let o = None let i = 0 while i < %d { o = Some(o) i += 1 } o" % n, "any"
    if kind == "nest-tuple":
        return kind, "", "let o = (1, 2) let i = 0 while i < %d { o = (o, i) i += 1 } 0" % n, "any"
    if kind == "nest-source":
        return kind, "", "let v = " + "[" * n + "1" + "]" * n + " 0", "any"
    raise ValueError(kind)


def gen_doubling(n):
    return "double-string", "", 'let s = "ab" let i = 0 while i < %d { s = s ^ s i += 1 } 1' % n, "any"


# ------------------------------------------------------------------------------ files with MANY tests
def gen_multi_test(rng, n, marker=False):
    """A file with `n` tests, several of them runaway. -> (funs, [(name, body, runaway?)])."""
    funs = "fun helper() {}\nfun rec(n) { rec(n + 1) }\nfun id(a) { a }\n"
    tests = []
    n_run = 0
    for k in range(n):
        r = rng.random()
        name = "t%d" % (k + 1)
        if marker:
            kind = "mark"
        elif r < 0.55 or (k >= n - 2 and n_run < 2):
            kind = rng.choice(["spin", "spin", "spin-body", "alloc"])
        elif r < 0.7:
            kind = "rec"
        elif r < 0.85:
            kind = "pass"
        else:
            kind = "err"
        if kind == "spin":
            body = "while True {}"
        elif kind == "spin-body":
            body = "let c = 0 while True { c = id(c) + 1 }"
        elif kind == "alloc":
            body = 'let s = "" while True { s = s ^ "x" }'
        elif kind == "mark":
            body = ('let i = 0 while True { i += 1 if i == 1000 { println("%s") i = 0 } }' % name)
        elif kind == "rec":
            body = "rec(0)"
        elif kind == "pass":
            body = "let a = 1 + %d id(a)" % k
        else:
            body = "nosuch%d" % k
        run = kind in ("spin", "spin-body", "alloc", "mark")
        n_run += run
        tests.append((name, body, run))
    return funs, tests


def render_tests(funs, tests, tail=""):
    return funs + "".join("test %s { %s }\n" % (n, b) for n, b, _ in tests) + tail


# ------------------------------------------------------------------------------ running the CLI
def run_playground(ctx, d, ix, src, timeout):
    path = os.path.join(d, "p%d.gdn" % ix)
    with open(path, "w") as fh:
        fh.write(src)
    rc, so, se = ctx.garden(["playground-run", path], timeout=timeout, cwd=d, env={"RUST_BACKTRACE": "0"})
    return rc, so, se


def run_sandboxed_test(ctx, d, ix, defs, body, timeout):
    src = defs + "test t {\n  " + body + "\n}\n"
    path = os.path.join(d, "t%d.gdn" % ix)
    with open(path, "w") as fh:
        fh.write(src)
    offset = len((defs + "test t {\n  ").encode("utf-8")) + 1
    rc, so, se = ctx.garden(["sandboxed-test", path, str(offset)], timeout=timeout, cwd=d,
                            env={"RUST_BACKTRACE": "0"})
    return rc, so, se


def judge(ctx, entry, family, expect, rc, so, se, src):
    """The property oracle on one sandboxed process. Returns the observed outcome class."""
    key_family = KNOWN_FAMILY_KEYS.get(family)
    if rc == -9999:
        ctx.fail(key_family or "C25/timeout/%s/%s" % (entry, family),
                 "sandboxed run (%s) did not end by itself within %d s" % (entry, TIMEOUT), src=src[:2000], entry=entry)
        return "timeout"
    if common.crashed(rc) or rc != 0:
        ctx.fail(key_family or "C25/crash/%s/%s" % (entry, family),
                 "sandboxed run (%s) ended with exit status %d: %s" % (entry, rc, se.strip()[-300:]),
                 src=src[:2000], entry=entry)
        return "crash"
    lines = [l for l in so.strip().split("\n") if l.strip()]
    try:
        last = json.loads(lines[-1])
    except Exception:
        ctx.fail("C25/no-answer/%s/%s" % (entry, family), "sandboxed run printed no JSON answer: %r" % so[-300:],
                 src=src[:2000], entry=entry)
        return "no-answer"
    if entry == "playground-run":
        err = last.get("error")
        cls = ("tick" if err == TICK_MSG else "stack" if err == STACK_MSG else "error" if err is not None else "value")
        val = last.get("value")
    else:
        t = (last.get("tests") or {}).get("t")
        if t is None:
            ctx.fail("C25/no-answer/%s/%s" % (entry, family), "sandboxed-test answer has no entry for the test: %r"
                     % so[-300:], src=src[:2000], entry=entry)
            return "no-answer"
        desc = t.get("description")
        cls = "limit" if desc == "exceeded resource limit" else "value" if desc == "passed" else "error"
        val = None
    ok = True
    if expect in ("tick", "stack"):
        ok = cls == expect or (entry != "playground-run" and cls == "limit")
    elif expect == "limit":
        ok = cls in ("tick", "stack", "limit")
    elif expect.startswith("value:"):
        ok = cls == "value" and (val is None or val == expect[6:])
    if not ok:
        ctx.fail("C25/wrong-end/%s/%s" % (entry, family),
                 "sandboxed run (%s) of a %s program ended with %s (%r), expected %s" % (entry, family, cls, val, expect),
                 src=src[:2000], entry=entry)
    return cls


def run(ctx):
    rng = ctx.rng
    d = os.path.join(SCRATCH_ROOT, "c25-%d" % os.getpid())
    shutil.rmtree(d, ignore_errors=True)
    os.makedirs(d, exist_ok=True)
    try:
        _run(ctx, rng, d)
    finally:
        shutil.rmtree(d, ignore_errors=True)


def _run(ctx, rng, d):
    # the real limits (regenerated tables are proved about in bounded_run_tables; read them from the sources
    # here as well so that the correspondence uses the numbers the binary uses)
    lims = []
    for fn in ("src/sandboxed_playground.rs", "src/test_runner.rs"):
        txt = open(os.path.join(common.REPO, fn)).read()
        tl = re.search(r"env\.tick_limit = (.*?);", txt)
        sl = re.search(r"env\.stack_limit = (.*?);", txt)
        def num(m):
            mm = re.match(r"Some\(([0-9_]+)\)", m.group(1).strip()) if m else None
            return int(mm.group(1).replace("_", "")) if mm else None
        lims.append((fn, num(tl), num(sl)))
        if num(tl) is None or num(sl) is None:
            ctx.fail("C25/limit-not-configured", "%s does not set both limits: tick=%r stack=%r"
                     % (fn, tl and tl.group(1), sl and sl.group(1)), file=fn)
    ctx.cov["configured_limits"] = lims
    L = lims[0][1] or 100000
    D = lims[0][2] or 1000

    n_rand = ctx.scale(40, 600)
    cases = [gen_nonterminating(rng, k) for k in range(n_rand)]
    cases += [gen_recursion_depth(x, D) for x in ([5, 700, D - 3, D - 2, D - 1, D, D + 50, 5000] if ctx.quick() else
                                               [1, 5, 50, 100, 400, 700, 900, 985, D - 2, D - 1, D, D + 1, D + 50,
                                                2000, 5000, 50000])]
    # terminating controls: random core programs wrapped as sandbox runs
    controls = []
    for _ in range(ctx.scale(20, 200)):
        src = PG.gen_program(rng, size=rng.choice([15, 30]), err_rate=0.02, exits=0.3, )[0]
        controls.append(("control-random", src, "any"))
    probes = [gen_nesting("nest-list", 25), gen_nesting("nest-option", 100), gen_nesting("nest-tuple", 100),
              gen_nesting("nest-source", 50),
              # fixed probes of the recorded findings
              gen_nesting("nest-list", 600), gen_nesting("nest-option", 6000), gen_nesting("nest-tuple", 6000),
              gen_nesting("nest-source", 3000), gen_doubling(40),
              ("nest-unbounded", "", open(os.path.join(common.ROOT, "corpus", "C25", "unbounded-list-nesting.gdn")).read().strip(),
               "any")]
    ctx.rule = ("non-terminating programs from 9 shapes (while True / while with a never-changing condition / nested loops / "
                "unbounded, mutual and closure-self recursion / recursion with a loop per level / loop inside a function / "
                "loop of calls) with random loop bodies of the core fragment; bounded recursion at depths around the stack "
                "limit; random terminating core programs as controls; value-nesting (list / Option / tuple / source-literal) "
                "and string-doubling probes at fixed sizes. Each runs through `playground-run` and, wrapped in a `test`, through "
                "`sandboxed-test` under timeout %d s + RLIMIT_AS 3 GB; and in-process (hook) vs the model with the real limits "
                "and with small random limits; files with 3/5/10/40 tests (several runaway) through both entry points and the "
                "runner hook vs the runner model under small limits. Non-trivial = the run is ended by a limit error (or is a probe of a finding)."
                % TIMEOUT)

    jobs = []
    # the fixed probes of the recorded findings each cost the full timeout: they go first (so that they overlap
    # with everything else) and, at quick, through ONE entry point only (4 slow processes, one timeout of wall-clock)
    n_small = 4
    slow = probes[n_small:]
    for ix, (fam, defs, body, expect) in enumerate(slow):
        jobs.append(("playground-run", 50000 + ix, fam, defs, body, expect))
        if not ctx.quick():
            jobs.append(("sandboxed-test", 50000 + ix, fam, defs, body, expect))
    for ix, (fam, defs, body, expect) in enumerate(cases + probes[:n_small]):
        jobs.append(("playground-run", ix, fam, defs, body, expect))
        jobs.append(("sandboxed-test", ix, fam, defs, body, expect))
    for ix, (fam, src, expect) in enumerate(controls):
        jobs.append(("playground-run", 100000 + ix, fam, "", src, expect))

    def do(job):
        entry, ix, fam, defs, body, expect = job
        t0 = 180 if (fam == "nest-unbounded" and not ctx.quick()) else TIMEOUT   # thorough: wait for the abort itself
        if entry == "playground-run":
            src = defs + body + "\n"
            rc, so, se = run_playground(ctx, d, ix, src, t0)
            if rc == -9999 and fam not in KNOWN_FAMILY_KEYS:
                rc, so, se = run_playground(ctx, d, ix, src, 120)   # loaded machine: once more, alone-ish
        else:
            src = defs + "test t { " + body + " }"
            rc, so, se = run_sandboxed_test(ctx, d, ix, defs, body, TIMEOUT)
            if rc == -9999 and fam not in KNOWN_FAMILY_KEYS:
                rc, so, se = run_sandboxed_test(ctx, d, ix, defs, body, 120)
        return job, src, rc, so, se

    ctx.log("%d sandboxed CLI runs" % len(jobs))
    results = common.pmap(do, jobs, workers=max(4, common.NPROC // 2))
    ctx.log("CLI runs done")
    hist, ends = {}, {}
    for (entry, ix, fam, defs, body, expect), src, rc, so, se in results:
        cls = judge(ctx, entry, fam, expect, rc, so, se, src)
        ctx.case((entry, src), cls in ("tick", "stack", "limit") or fam in KNOWN_FAMILY_KEYS)
        hist[fam] = hist.get(fam, 0) + 1
        ends["%s:%s" % (entry, cls)] = ends.get("%s:%s" % (entry, cls), 0) + 1
    ctx.cov["family_histogram"] = hist
    ctx.cov["end_histogram"] = ends
    ctx.sample({"entry": "playground-run", "src": cases[0][1] + cases[0][2], "expected": cases[0][3]})
    ctx.sample({"entry": "sandboxed-test", "src": cases[3][1] + "test t { " + cases[3][2] + " }"})

    # ---------------------------------------------------------------- one tick, unbounded work
    one_tick_work(ctx, rng, d)

    # ---------------------------------------------------------------- files with many tests: ONE budget per run
    multi_tests(ctx, rng, d, L, D)

    # ---------------------------------------------------------------- correspondence with the model
    core = [(fam, defs + body + "\n", expect) for fam, defs, body, expect in cases]
    # (1) the real limits on a subset (the model interprets 100000 ticks in a few seconds)
    sub = core[:ctx.scale(8, 80)] + [(f, s, e) for f, s, e in core if f == "recursion-depth"]
    res = MC.run_pairs(ctx, [s for _, s, _ in sub], tick_limit=L, stack_limit=D, fuel=2 * L + 10, trace=False)
    agree_real = check_pairs(ctx, sub, res, L, D)
    ctx.log("model vs hook at the real limits: %d programs agree" % agree_real)
    # (2) small random limits on everything
    small = []
    for fam, s, e in core + [(f, s, e) for f, s, e in controls]:
        tl_, sl_ = rng.choice([(1, 1), (2, 40), (7, 2), (50, 3), (333, 10), (2000, 40), (2000, 3), (5000, 1)])
        small.append((fam, s, e, tl_, sl_))
    by_lim = {}
    for item in small:
        by_lim.setdefault((item[3], item[4]), []).append(item)
    agree_small = 0
    for (tl, sl), items in sorted(by_lim.items()):
        res = MC.run_pairs(ctx, [s for _, s, _, _, _ in items], tick_limit=tl, stack_limit=sl, fuel=2 * tl + 10,
                           trace=True)
        agree_small += check_pairs(ctx, [(f, s, e) for f, s, e, _, _ in items], res, tl, sl, trace=True)
    ctx.cov["model_vs_hook_real_limits"] = agree_real
    ctx.cov["model_vs_hook_small_limits"] = agree_small
    ctx.assumptions += [
        "the model bounds the NUMBER of loop iterations; the cost of one iteration (heap, native stack, wall-clock) is "
        "outside every Lean model: recorded findings C25/memory-exhaustion-within-budget, "
        "C25/wallclock-deep-nesting-within-budget, C25/native-stack-deep-nesting are probed on the real binary only",
        "blocking built-ins: `read_line` is refused in the sandbox (C24 covers the refusal); no other built-in of "
        "Tables.builtinArms blocks",
        "sandboxed-test: every `test` shares one Env, ticks are cumulative over the tests of a file",
    ]


HUGE = [10 ** 10, 2 ** 40, 2 ** 63 - 2, 2 ** 63 - 1, -(10 ** 10), -(2 ** 63)]
SMALL = [0, 1, 2]


def one_tick_work(ctx, rng, d):
    """The tick limit (and the interrupt flag) is checked once per evaluator iteration, so ONE built-in call must do
    work bounded by the size of its arguments' VALUES, never by the magnitude of an Int argument. Every built-in arm
    with an Int parameter or an Int receiver (Tables.builtinArms), the prelude functions over Ints written in Garden,
    and `**`, are called ONCE per sandboxed process with huge index / count arguments (10^10, 2^40, i64::MAX-1,
    i64::MAX, and negatives) on small receivers, through both entry points, under a wall-clock bound."""
    from . import c02 as C02
    arms = C02.BS_tables()["builtinArms"]
    recv_of = {"String": ['"abc"', '"hé✓🙂"'], "List": ["[1, 2, 3]", "[]"], "Int": [str(v) for v in HUGE[:4]],
               "Float": ["10000000000.5"], "Dict": ['Dict["a" => 1]']}
    calls = []     # (arm name, expression)

    def int_tuples(k):
        import itertools
        out = [t for t in itertools.product(HUGE + SMALL, repeat=k) if any(abs(v) >= 10 ** 10 for v in t)]
        # the 'to the end' idiom first: small start, huge end
        out.sort(key=lambda t: (0 if (k >= 2 and t[0] in SMALL and t[-1] >= 10 ** 10) else 1))
        return out
    for arm in arms:
        params = arm["params"]
        int_pos = [j for j, ty in enumerate(params) if ty == "Int"]
        if arm["effects"] or arm["namespaceFile"] not in ("__prelude.gdn",):
            continue
        if not int_pos and not (arm["isMethod"] and arm["receiverType"] in ("Int", "Float")):
            continue
        filler = {"String": '"a"', "T": "1", "List<String>": '["a"]'}
        tuples = int_tuples(len(int_pos)) if int_pos else [()]
        keep = tuples[:10] + rng.sample(tuples[10:], min(len(tuples) - 10, ctx.scale(6, 60))) if len(tuples) > 10 else tuples
        for t in keep:
            args = [filler.get(ty, "1") for ty in params]
            for j, v in zip(int_pos, t):
                args[j] = str(v)
            if arm["isMethod"]:
                for r in recv_of.get(arm["receiverType"], ['"abc"'])[:ctx.scale(2, 4)]:
                    rr = "(%s)" % r if r.startswith("-") else r
                    calls.append((arm["name"], "%s.%s(%s)" % (rr, arm["gardenName"], ", ".join(args))))
            else:
                calls.append((arm["name"], "%s(%s)" % (arm["gardenName"], ", ".join(args))))
    # Int functions written in Garden (ticked) and the power operator
    for a, b in [(0, 10 ** 10), (-(2 ** 63), 2 ** 63 - 1), (2 ** 63 - 2, 2 ** 63 - 1), (10 ** 10, 0)]:
        calls.append(("prelude:range", "range(%d, %d)" % (a, b)))
    calls += [("prelude:max", "max(%d, %d)" % (2 ** 63 - 1, 10 ** 10)), ("prelude:min", "min(%d, %d)" % (-(2 ** 63), 2 ** 40)),
              ("op:pow", "1 ** 4294967295"), ("op:pow", "(-1) ** 4294967295"), ("op:pow", "2 ** 10000000000"),
              ("op:pow", "0 ** %d" % (2 ** 63 - 1)), ("op:mul", "%d * %d" % (2 ** 63 - 1, 2 ** 63 - 1))]
    jobs = []
    for ix, (arm, call) in enumerate(calls):
        jobs.append(("playground-run", ix, arm, call))
        if ix % 2 == 0 or not ctx.quick():
            jobs.append(("sandboxed-test", ix, arm, call))

    def do(job):
        entry, ix, arm, call = job
        if entry == "playground-run":
            src = "let r = %s\nr\n" % call
            path = os.path.join(d, "w%d.gdn" % ix)
            args = ["playground-run", path]
        else:
            src = "fun helper() {}\ntest t { let r = %s r }\n" % call
            path = os.path.join(d, "wt%d.gdn" % ix)
            args = ["sandboxed-test", path, "0"]
        with open(path, "w") as fh:
            fh.write(src)
        r = ctx.garden(args, timeout=10, cwd=d, env={"RUST_BACKTRACE": "0"})
        if r[0] == -9999:     # loaded machine: once more with a long bound before calling it a hang
            r = ctx.garden(args, timeout=60, cwd=d, env={"RUST_BACKTRACE": "0"})
        return job, src, r
    hist = {}
    for (entry, ix, arm, call), src, (rc, so, se) in common.pmap(do, jobs, workers=max(4, common.NPROC // 2)):
        ctx.case((entry, "one-tick", call), True)
        hist[arm] = hist.get(arm, 0) + 1
        if rc == -9999:
            ctx.fail("C25/timeout/builtin/%s" % arm,
                     "ONE call `%s` in a sandboxed run (%s) did not end within 60 s: the work of a single evaluator tick "
                     "grows with the magnitude of an Int argument, so neither the tick limit nor an interrupt can stop it"
                     % (call, entry), src=src, entry=entry, call=call)
        elif rc != 0:
            ctx.fail("C25/crash/builtin/%s" % arm, "`%s` (%s): exit status %d: %s" % (call, entry, rc, (se or "").strip()[-200:]),
                     src=src, entry=entry, call=call)
        else:
            lines = [l for l in so.strip().split("\n") if l.strip()]
            try:
                json.loads(lines[-1])
            except Exception:
                ctx.fail("C25/no-answer/builtin/%s" % arm, "`%s` (%s): no JSON answer: %r" % (call, entry, so[-200:]), src=src)
    ctx.cov["one_tick_calls_per_arm"] = hist
    ctx.log("one-tick stream: %d calls, %d processes" % (len(calls), len(jobs)))


MARK_TICKS = 5000      # one marker = 1000 loop iterations of >= 5 ticks each (in fact about 14)


def multi_tests(ctx, rng, d, L, D):
    """Sandboxed runs that evaluate SEVERAL tests in one go share one tick budget: the whole run ticks at most
    L + #tests times (Props/C25 `tests_one_budget`), so it ends as fast as a single runaway test does."""
    from . import c26 as C26
    sizes = ctx.scale([3, 5, 10, 40], [3, 4, 5, 8, 10, 20, 40, 80])
    files = []
    for n in sizes:
        for rep in range(ctx.scale(1, 3)):
            files.append((n, False) + gen_multi_test(rng, n))
    files += [(n, True) + gen_multi_test(rng, n, marker=True) for n in ctx.scale([3, 4], [3, 4, 6])]
    jobs = []
    for ix, (n, marker, funs, tests) in enumerate(files):
        jobs.append(("playground-run", ix, n, marker, funs, tests))
        jobs.append(("sandboxed-test", ix, n, marker, funs, tests))

    def do(job):
        entry, ix, n, marker, funs, tests = job
        src = render_tests(funs, tests, '"done"\n' if entry == "playground-run" else "")
        path = os.path.join(d, "m%s%d.gdn" % (entry[0], ix))
        with open(path, "w") as fh:
            fh.write(src)
        args = ["playground-run", path] if entry == "playground-run" else ["sandboxed-test", path, "0"]
        r = ctx.garden(args, timeout=TIMEOUT, cwd=d, env={"RUST_BACKTRACE": "0"})
        if r[0] == -9999:
            r = ctx.garden(args, timeout=120, cwd=d, env={"RUST_BACKTRACE": "0"})
        return job, src, r
    ends = {}
    for (entry, ix, n, marker, funs, tests), src, (rc, so, se) in common.pmap(do, jobs, workers=max(4, common.NPROC // 2)):
        fam = "multi-test-%d" % n
        n_run = sum(1 for t in tests if t[2])
        ctx.case((entry, src), n_run >= 2)
        if rc == -9999:
            ctx.fail("C25/timeout/%s/multi-test" % entry,
                     "sandboxed run of a file with %d tests (%d runaway loops) did not end within 120 s: the tests do not "
                     "share one step budget" % (n, n_run), src=src, entry=entry, n_tests=n)
            ends["timeout"] = ends.get("timeout", 0) + 1
            continue
        if rc != 0:
            ctx.fail("C25/crash/%s/multi-test" % entry, "exit status %d: %s" % (rc, (se or "").strip()[-300:]), src=src,
                     entry=entry)
            continue
        lines = [l for l in so.strip().split("\n") if l.strip()]
        try:
            last = json.loads(lines[-1])
        except Exception:
            ctx.fail("C25/no-answer/%s/multi-test" % entry, "no JSON answer: %r" % so[-300:], src=src, entry=entry)
            continue
        ends["answered"] = ends.get("answered", 0) + 1
        if entry == "sandboxed-test":
            got = last.get("tests") or {}
            missing = [t[0] for t in tests if t[0] not in got]
            if missing:
                ctx.fail("C25/no-answer/sandboxed-test/multi-test", "tests without a verdict: %s" % missing[:5], src=src)
            for name, body, run in tests:
                if run and name in got and got[name].get("description") != "exceeded resource limit":
                    ctx.fail("C25/wrong-end/sandboxed-test/multi-test", "runaway test %s ended with %r" %
                             (name, got[name].get("description")), src=src)
        if marker:
            marks = {t[0]: so.count('"%s\\n"' % t[0]) for t in tests}
            total = sum(marks.values())
            if total * MARK_TICKS > L + n:
                ctx.fail("C25/steps-exceed-budget/%s/multi-test" % entry,
                         "a sandboxed run over %d runaway tests executed %d x 1000 loop iterations (%s) — at least %d ticks, "
                         "the budget of the whole run is %d" % (n, total, marks, total * MARK_TICKS, L), src=src, entry=entry)
    ctx.cov["multi_test_cli_runs"] = ends

    # in-process: runner hook vs runner model at small limits; total ticks at the end of the run
    corr = []
    for n in ctx.scale([3, 5, 8], [3, 5, 8, 12, 20]):
        for rep in range(ctx.scale(2, 6)):
            funs, tests = gen_multi_test(rng, n)
            corr.append((n, render_tests(funs, tests), rng.choice([60, 300, 1500]), rng.choice([5, 40])))
    impl = [C26.parse_testrun(r, True) for r in
            ctx.garden_batch(["testrun %s - %d %d trace" % (hexs_(s), tl, sl) for _, s, tl, sl in corr], timeout=600)]
    mlines = []
    for (n, s, tl, sl), i in zip(corr, impl):
        items = i.get("items") if i["kind"] == "ok" else None
        mlines.append("testrun_model - %d %d 400000 trace %s" % (tl, sl, items if items else "(bad"))
    model = [C26.parse_testrun(r, False) for r in ctx.model_batch(mlines, timeout=600)]
    agree = 0
    for (n, s, tl, sl), i, m in zip(corr, impl, model):
        ctx.case(("testrun", tl, sl, s), True)
        inp = dict(src=s, tick_limit=tl, stack_limit=sl)
        if i["kind"] != "ok":
            ctx.disagree("testrun(limits)", inp, None, i.get("raw"), detail="hook op failed")
            continue
        mm = re.match(r"\(end (\d+) ", i["end"])
        if mm and int(mm.group(1)) > tl + n:
            ctx.fail("C25/ticks-exceed-limit/multi-test", "a run of %d tests under tick limit %d ended at tick %s (> limit + "
                     "#tests): the limit did not stay constant over the run" % (n, tl, mm.group(1)), src=s, tick_limit=tl,
                     verdicts=i["verdicts"])
        if m["kind"] == "unsupported":
            continue
        if m["kind"] != "ok":
            ctx.disagree("testrun(limits)", inp, m.get("raw"), i["verdicts"], detail="model did not finish")
            continue
        for key in ("verdicts", "end", "out", "trace"):
            if i[key] != m[key]:
                ctx.disagree("testrun(limits)", inp, str(m[key])[:300], str(i[key])[:300], detail=key)
                break
        else:
            agree += 1
    ctx.cov["multi_test_runner_vs_model"] = agree


def check_pairs(ctx, items, res, tl, sl, trace=False):
    n = 0
    for (fam, src, expect), (i, m) in zip(items, res):
        ctx.case(("hook", tl, sl, src), i.get("outcome") in ("tick-limit", "stack-limit"))
        if i["kind"] in ("panic", "died"):
            ctx.fail("C25/crash/hook/%s" % fam, "evaluator crashed under limits %s/%s: %s" % (tl, sl, i.get("raw")), src=src)
            continue
        dsc = MC.compare(i, m, with_trace=trace)
        if dsc:
            ctx.disagree("machine(limits %s/%s)" % (tl, sl), {"src": src}, m.get("outcome"), i.get("outcome"), detail=dsc)
            continue
        n += 1
        # oracle on the in-process run: ticks never exceed the limit, frames never exceed D + 1
        mm = re.match(r"\(end (\d+) (\d+) ", i.get("end", ""))
        if mm:
            ticks, frames = int(mm.group(1)), int(mm.group(2))
            if ticks > tl:
                ctx.fail("C25/ticks-exceed-limit", "run ended at tick %d > limit %d" % (ticks, tl), src=src)
            if frames > sl + 1:
                ctx.fail("C25/frames-exceed-limit", "run ended with %d frames > limit %d + 1" % (frames, sl), src=src)
        if i["kind"] == "ok" and expect in ("tick", "stack", "limit") and tl >= 7:
            ctx.fail("C25/wrong-end/hook/%s" % fam, "non-terminating program ended with a value under limits %s/%s"
                     % (tl, sl), src=src)
    return n
