import GardenVerif.Lemmas.Extract
/-! Lemmas for `let_hoist_sound` (C20): a simulation between `p` and `hoistProg t n p` up to store
EXTENSION (the hoisted variable is one more cell; stores of assignment-free programs only grow). -/
set_option linter.unusedVariables false
set_option linter.unusedSimpArgs false

namespace Extract
open Machine (Expr Case Dest BinOp Program FunDef EnumDef)
open RefSem Validators

-- ------------------------------------------------------------------ the relation on results

/-- Results about which nothing is claimed: out of fuel, a Garden error, outside the fragment. -/
def bad : Res → Bool
  | .timeout => true
  | .err _ => true
  | .unsup _ => true
  | _ => false

/-- `a` (run of the original from state `s`) and `b` (run of the transformed program from `s'`):
unless `a` is bad, same result, same output, and both stores extend the stores they started from. -/
def RelH (s s' : RefSem.St) (a b : Res × RefSem.St) : Prop :=
  bad a.1 = true ∨ (a.1 = b.1 ∧ a.2.out = b.2.out ∧ s.store <+: a.2.store ∧ s'.store <+: b.2.store)

theorem RelH.bad {s s' a b} (h : Extract.bad a.1 = true) : RelH s s' a b := Or.inl h

theorem RelH.mono {s0 s0' s s' a b} (h : RelH s s' a b) (h1 : s0.store <+: s.store) (h2 : s0'.store <+: s'.store) :
    RelH s0 s0' a b := by
  rcases h with h | ⟨e1, e2, e3, e4⟩
  · exact Or.inl h
  · exact Or.inr ⟨e1, e2, h1.trans e3, h2.trans e4⟩

theorem RelH.same {s s' : RefSem.St} (r : Res) (ho : s.out = s'.out) : RelH s s' (r, s) (r, s') :=
  Or.inr ⟨rfl, ho, List.prefix_refl _, List.prefix_refl _⟩

theorem bindH {s s' : RefSem.St} {a b : Res × RefSem.St} {k k' : Val → RefSem.St → Res × RefSem.St}
    (h : RelH s s' a b)
    (hk : ∀ v s1 s1', s1.out = s1'.out → s.store <+: s1.store → s'.store <+: s1'.store →
      RelH s s' (k v s1) (k' v s1')) :
    RelH s s' (RefSem.bind a k) (RefSem.bind b k') := by
  obtain ⟨r, s1⟩ := a
  obtain ⟨r', s1'⟩ := b
  rcases h with h | ⟨e1, e2, e3, e4⟩
  · simp only at h
    cases r <;> simp [Extract.bad] at h <;> exact Or.inl (by simp [RefSem.bind, Extract.bad])
  · simp only at e1 e2 e3 e4
    subst e1
    cases r <;> first | exact hk _ _ _ e2 e3 e4 | exact Or.inr ⟨rfl, e2, e3, e4⟩

theorem loopH {s s' : RefSem.St} {a b : Res × RefSem.St} {k k' : RefSem.St → Res × RefSem.St}
    (h : RelH s s' a b)
    (hk : ∀ s1 s1', s1.out = s1'.out → s.store <+: s1.store → s'.store <+: s1'.store →
      RelH s s' (k s1) (k' s1')) :
    RelH s s' (loopStep a k) (loopStep b k') := by
  obtain ⟨r, s1⟩ := a
  obtain ⟨r', s1'⟩ := b
  rcases h with h | ⟨e1, e2, e3, e4⟩
  · simp only at h
    cases r <;> simp [Extract.bad] at h <;> exact Or.inl (by simp [loopStep, Extract.bad])
  · simp only at e1 e2 e3 e4
    subst e1
    cases r <;> first | exact hk _ _ e2 e3 e4 | exact Or.inr ⟨rfl, e2, e3, e4⟩

theorem funResultH {s s' : RefSem.St} {a b : Res × RefSem.St} (h : RelH s s' a b) :
    RelH s s' (funResult a) (funResult b) := by
  obtain ⟨r, s1⟩ := a
  obtain ⟨r', s1'⟩ := b
  rcases h with h | ⟨e1, e2, e3, e4⟩
  · simp only at h
    cases r <;> simp [Extract.bad] at h <;> exact Or.inl (by simp [funResult, Extract.bad])
  · simp only at e1 e2 e3 e4
    subst e1
    cases r <;> first | exact Or.inr ⟨rfl, e2, e3, e4⟩ | exact Or.inl (by simp [funResult, Extract.bad])

-- ------------------------------------------------------------------ environments

/-- Both environments resolve every name except `n` to the same value. -/
def Agree (n : String) (p p' : Program) (env : Env) (st : List Val) (env' : Env) (st' : List Val) : Prop :=
  ∀ x, x ≠ n → lookupVar p env st x = lookupVar p' env' st' x

/-- Every location of the environment is allocated. -/
def WF (env : Env) (st : List Val) : Prop := ∀ kl ∈ env, kl.2 < st.length

theorem WF.nil {st} : WF [] st := by intro kl h; cases h

theorem WF.ext {env st st2} (h : WF env st) (hp : st <+: st2) : WF env st2 :=
  fun kl hkl => Nat.lt_of_lt_of_le (h kl hkl) hp.length_le

theorem lookup_lt {env : Env} {st : List Val} (h : WF env st) {x : String} {l : Nat}
    (hl : lookup env x = some l) : l < st.length := by
  induction env with
  | nil => simp [lookup] at hl
  | cons kl rest ih =>
    obtain ⟨k, l0⟩ := kl
    simp only [lookup] at hl
    split at hl
    · cases hl; exact h _ (List.mem_cons_self ..)
    · exact ih (fun kl hkl => h kl (List.mem_cons_of_mem _ hkl)) hl

theorem lookupVar_ext (p : Program) {env : Env} {st st2 : List Val} (h : WF env st) (hp : st <+: st2)
    (x : String) : lookupVar p env st2 x = lookupVar p env st x := by
  unfold lookupVar
  cases hl : lookup env x with
  | none => rfl
  | some l =>
    simp only
    obtain ⟨tl, rfl⟩ := hp
    exact List.getElem?_append_left (lookup_lt h hl)

theorem Agree.ext {n p p' env st env' st' st2 st2'} (h : Agree n p p' env st env' st')
    (w : WF env st) (w' : WF env' st') (hp : st <+: st2) (hp' : st' <+: st2') :
    Agree n p p' env st2 env' st2' := by
  intro x hx
  rw [lookupVar_ext p w hp, lookupVar_ext p' w' hp', h x hx]

theorem lookupVar_cons (p : Program) (k : String) (l : Nat) (env : Env) (st : List Val) (x : String) :
    lookupVar p ((k, l) :: env) st x = if k == x then st[l]? else lookupVar p env st x := by
  by_cases hk : (k == x) = true <;> simp [lookupVar, lookup, hk]

theorem bindNames_out : ∀ (ns : List String) (vs : List Val) (env : Env) (s : RefSem.St),
    (bindNames ns vs env s).2.out = s.out ∧ s.store <+: (bindNames ns vs env s).2.store
  | [], vs, env, s => by cases vs <;> simp [bindNames]
  | n :: ns, [], env, s => by simp [bindNames]
  | n :: ns, v :: vs, env, s => by
      simp only [bindNames]
      have := bindNames_out ns vs (if n == "_" then env else (n, s.store.length) :: env) { s with store := s.store ++ [v] }
      exact ⟨this.1, (List.prefix_append _ _).trans this.2⟩

theorem bindNames_wf : ∀ (ns : List String) (vs : List Val) (env : Env) (s : RefSem.St),
    WF env s.store → WF (bindNames ns vs env s).1 (bindNames ns vs env s).2.store
  | [], vs, env, s, h => by cases vs <;> simpa [bindNames] using h
  | n :: ns, [], env, s, h => by simpa [bindNames] using h
  | n :: ns, v :: vs, env, s, h => by
      simp only [bindNames]
      apply bindNames_wf ns vs
      have hext : WF env (s.store ++ [v]) := h.ext (List.prefix_append _ _)
      split
      · exact hext
      · intro kl hkl
        rcases List.mem_cons.mp hkl with rfl | hkl
        · simp
        · exact hext kl hkl

theorem bindNames_agree {n : String} {p p' : Program} : ∀ (ns : List String) (vs : List Val)
    (env env' : Env) (s s' : RefSem.St),
    Agree n p p' env s.store env' s'.store → WF env s.store → WF env' s'.store →
    Agree n p p' (bindNames ns vs env s).1 (bindNames ns vs env s).2.store
      (bindNames ns vs env' s').1 (bindNames ns vs env' s').2.store
  | [], vs, env, env', s, s', h, _, _ => by cases vs <;> simpa [bindNames] using h
  | x :: ns, [], env, env', s, s', h, _, _ => by simpa [bindNames] using h
  | x :: ns, v :: vs, env, env', s, s', h, w, w' => by
      simp only [bindNames]
      have hext := h.ext w w' (List.prefix_append s.store [v]) (List.prefix_append s'.store [v])
      have wext : WF env (s.store ++ [v]) := w.ext (List.prefix_append _ _)
      have wext' : WF env' (s'.store ++ [v]) := w'.ext (List.prefix_append _ _)
      by_cases hu : (x == "_") = true
      · simp only [hu, if_true]
        exact bindNames_agree ns vs env env' _ _ hext wext wext'
      · simp only [hu, if_false, Bool.false_eq_true]
        apply bindNames_agree ns vs
        · intro y hy
          rw [lookupVar_cons, lookupVar_cons]
          split
          · simp
          · exact hext y hy
        · intro kl hkl
          rcases List.mem_cons.mp hkl with rfl | hkl
          · simp
          · exact wext kl hkl
        · intro kl hkl
          rcases List.mem_cons.mp hkl with rfl | hkl
          · simp
          · exact wext' kl hkl

/-- Binding the same destination to the same value on both sides. -/
theorem bindDest_both {n : String} {p p' : Program} (dest : Dest) (v : Val) {env env' : Env} {s s' : RefSem.St}
    (h : Agree n p p' env s.store env' s'.store) (w : WF env s.store) (w' : WF env' s'.store) :
    (∃ k, bindDest dest v env s = .error k ∧ bindDest dest v env' s' = .error k) ∨
    (∃ e1 s1 e1' s1', bindDest dest v env s = .ok (e1, s1) ∧ bindDest dest v env' s' = .ok (e1', s1') ∧
      Agree n p p' e1 s1.store e1' s1'.store ∧ WF e1 s1.store ∧ WF e1' s1'.store ∧
      s1.out = s.out ∧ s1'.out = s'.out ∧ s.store <+: s1.store ∧ s'.store <+: s1'.store) := by
  cases dest with
  | sym x =>
    right
    refine ⟨(bindNames [x] [v] env s).1, (bindNames [x] [v] env s).2, (bindNames [x] [v] env' s').1,
      (bindNames [x] [v] env' s').2, rfl, rfl, bindNames_agree [x] [v] env env' s s' h w w',
      bindNames_wf [x] [v] env s w, bindNames_wf [x] [v] env' s' w', (bindNames_out [x] [v] env s).1,
      (bindNames_out [x] [v] env' s').1, (bindNames_out [x] [v] env s).2, (bindNames_out [x] [v] env' s').2⟩
  | destr ns =>
    cases v with
    | tuple items =>
      simp only [bindDest]
      by_cases hl : (items.length != ns.length) = true
      · left; exact ⟨.tupleSize, by simp [hl], by simp [hl]⟩
      · right
        simp only [hl, if_false, Bool.false_eq_true]
        refine ⟨(bindNames ns items env s).1, (bindNames ns items env s).2, (bindNames ns items env' s').1,
          (bindNames ns items env' s').2, rfl, rfl, bindNames_agree ns items env env' s s' h w w',
          bindNames_wf ns items env s w, bindNames_wf ns items env' s' w', (bindNames_out ns items env s).1,
          (bindNames_out ns items env' s').1, (bindNames_out ns items env s).2, (bindNames_out ns items env' s').2⟩
    | _ => left; exact ⟨.typeError, rfl, rfl⟩


-- ------------------------------------------------------------------ syntactic facts

mutual
theorem H_arith (t : Nat) (n : String) : ∀ e : Expr, arithE e = true → H t n e = e
  | .int .., _ => rfl
  | .str .., _ => rfl
  | .var .., _ => rfl
  | .binop _ _ _ l r, h => by
      simp only [arithE, Bool.and_eq_true] at h
      simp only [H, H_arith t n l h.1, H_arith t n r h.2]
  | .paren _ _ e, h => by
      simp only [arithE] at h
      simp only [H, H_arith t n e h]
  | .list _ _ es, h => by
      simp only [arithE] at h
      simp only [H, HList_arith t n es h]
  | .tuple _ _ es, h => by
      simp only [arithE] at h
      simp only [H, HList_arith t n es h]
  | .letE .., h => by simp [arithE] at h
  | .assign .., h => by simp [arithE] at h
  | .update .., h => by simp [arithE] at h
  | .ifE .., h => by simp [arithE] at h
  | .whileE .., h => by simp [arithE] at h
  | .forE .., h => by simp [arithE] at h
  | .matchE .., h => by simp [arithE] at h
  | .ret .., h => by simp [arithE] at h
  | .brk .., h => by simp [arithE] at h
  | .cont .., h => by simp [arithE] at h
  | .call .., h => by simp [arithE] at h
  | .lambda .., h => by simp [arithE] at h
  | .invalid .., h => by simp [arithE] at h
  | .unsup .., h => by simp [arithE] at h
theorem HList_arith (t : Nat) (n : String) : ∀ es : List Expr, arithL es = true → HList t n es = es
  | [], _ => rfl
  | e :: rest, h => by
      simp only [arithL, Bool.and_eq_true] at h
      simp only [HList, H_arith t n e h.1, HList_arith t n rest h.2]
end

theorem pick_none {t id : Nat} {e : Expr} {rest : Option Expr} :
    pick t id e rest = none ↔ (id == t) = false ∧ rest = none := by
  unfold pick
  by_cases h : (id == t) = true <;> simp [h]

theorem or_none {a b : Option Expr} : a.or b = none ↔ a = none ∧ b = none := by
  cases a <;> cases b <;> simp [Option.or]

mutual
/-- Where the node is not on the spine, `HR` is `H`. -/
theorem HR_noSp (t : Nat) (n : String) : ∀ e : Expr, findSp t e = none → HR t n e = H t n e
  | .int .., h => by simp only [findSp, pick_none] at h; simp only [HR, H, h.1, Bool.false_eq_true, if_false]
  | .str .., h => by simp only [findSp, pick_none] at h; simp only [HR, H, h.1, Bool.false_eq_true, if_false]
  | .var .., h => by simp only [findSp, pick_none] at h; simp only [HR, H, h.1, Bool.false_eq_true, if_false]
  | .binop _ _ _ l r, h => by
      simp only [findSp, pick_none, or_none] at h
      simp only [HR, H, h.1, Bool.false_eq_true, if_false, HR_noSp t n l h.2.1, HR_noSp t n r h.2.2]
  | .letE _ _ _ rhs, h => by
      simp only [findSp] at h
      simp only [HR, H, HR_noSp t n rhs h]
  | .assign _ _ _ rhs, h => by
      simp only [findSp, pick_none] at h
      simp only [HR, H, h.1, Bool.false_eq_true, if_false, HR_noSp t n rhs h.2]
  | .update _ _ _ _ rhs, h => by
      simp only [findSp, pick_none] at h
      simp only [HR, H, h.1, Bool.false_eq_true, if_false, HR_noSp t n rhs h.2]
  | .ifE _ _ c _ _, h => by
      simp only [findSp, pick_none] at h
      simp only [HR, H, h.1, Bool.false_eq_true, if_false, HR_noSp t n c h.2]
  | .whileE _ _ c _, h => by
      simp only [findSp, pick_none] at h
      simp only [HR, H, h.1, Bool.false_eq_true, if_false, HR_noSp t n c h.2]
  | .forE _ _ _ e _, h => by
      simp only [findSp, pick_none] at h
      simp only [HR, H, h.1, Bool.false_eq_true, if_false, HR_noSp t n e h.2]
  | .matchE _ _ sc _, h => by
      simp only [findSp, pick_none] at h
      simp only [HR, H, h.1, Bool.false_eq_true, if_false, HR_noSp t n sc h.2]
  | .ret _ _ none, h => by simp only [findSp, pick_none] at h; simp only [HR, H, h.1, Bool.false_eq_true, if_false]
  | .ret _ _ (some e), h => by
      simp only [findSp, pick_none] at h
      simp only [HR, H, h.1, Bool.false_eq_true, if_false, HR_noSp t n e h.2]
  | .brk .., h => by simp only [findSp, pick_none] at h; simp only [HR, H, h.1, Bool.false_eq_true, if_false]
  | .cont .., h => by simp only [findSp, pick_none] at h; simp only [HR, H, h.1, Bool.false_eq_true, if_false]
  | .list _ _ es, h => by
      simp only [findSp, pick_none] at h
      simp only [HR, H, h.1, Bool.false_eq_true, if_false, HRList_noSp t n es h.2]
  | .tuple _ _ es, h => by
      simp only [findSp, pick_none] at h
      simp only [HR, H, h.1, Bool.false_eq_true, if_false, HRList_noSp t n es h.2]
  | .call _ _ f as, h => by
      simp only [findSp, pick_none, or_none] at h
      simp only [HR, H, h.1, Bool.false_eq_true, if_false, HR_noSp t n f h.2.1, HRList_noSp t n as h.2.2]
  | .lambda .., h => by simp only [findSp, pick_none] at h; simp only [HR, H, h.1, Bool.false_eq_true, if_false]
  | .paren _ _ e, h => by
      simp only [findSp, pick_none] at h
      simp only [HR, H, h.1, Bool.false_eq_true, if_false, HR_noSp t n e h.2]
  | .invalid .., h => by simp only [findSp, pick_none] at h; simp only [HR, H, h.1, Bool.false_eq_true, if_false]
  | .unsup .., h => by simp only [findSp, pick_none] at h; simp only [HR, H, h.1, Bool.false_eq_true, if_false]
theorem HRList_noSp (t : Nat) (n : String) : ∀ es : List Expr, findSpL t es = none → HRList t n es = HList t n es
  | [], _ => rfl
  | e :: rest, h => by
      simp only [findSpL, or_none] at h
      simp only [HRList, HList, HR_noSp t n e h.1, HRList_noSp t n rest h.2]
end

-- ------------------------------------------------------------------ pure expressions: value or bad

/-- value, or a bad result (never break / continue / return). -/
def vb : Res → Bool
  | .val _ => true
  | r => bad r

theorem binop_vb (op : BinOp) (a b : Val) : vb (binop op a b) = true := by
  unfold binop
  repeat' split
  all_goals simp [vb, bad]

theorem bind_vb {a : Res × RefSem.St} {k : Val → RefSem.St → Res × RefSem.St}
    (ha : vb a.1 = true) (hk : ∀ v s, vb (k v s).1 = true) : vb (RefSem.bind a k).1 = true := by
  obtain ⟨r, s⟩ := a
  cases r <;> first | exact hk _ _ | exact ha

structure ArithRes (cl : Bool) (p : Program) (k : Nat) : Prop where
  ev : ∀ env s e, arithE e = true → vb (eval cl p k env s e).1 = true
  lst : ∀ env s es, arithL es = true → vb (evalList cl p k env s es).1 = true

theorem arithRes (cl : Bool) (p : Program) : ∀ k, ArithRes cl p k
  | 0 => ⟨fun _ _ _ _ => rfl, fun _ _ _ _ => rfl⟩
  | k + 1 => by
    have ih := arithRes cl p k
    constructor
    · intro env s e he
      cases e <;> simp only [arithE, Bool.and_eq_true, Bool.false_eq_true] at he
      case int => rfl
      case str => rfl
      case var id u nm => simp only [eval]; split <;> rfl
      case binop id u op l r =>
        simp only [eval]
        exact bind_vb (ih.ev _ _ _ he.1) fun lv s1 => bind_vb (ih.ev _ _ _ he.2) fun rv s2 => binop_vb op lv rv
      case paren id u x => simp only [eval]; exact ih.ev _ _ _ he
      case list id u es => simp only [eval]; exact ih.lst _ _ _ he
      case tuple id u es =>
        simp only [eval]
        exact bind_vb (ih.lst _ _ _ he) fun vs s1 => by split <;> rfl
    · intro env s es he
      cases es with
      | nil => rfl
      | cons e rest =>
        simp only [arithL, Bool.and_eq_true] at he
        simp only [evalList]
        exact bind_vb (ih.ev _ _ _ he.1) fun v s1 => bind_vb (ih.lst _ _ _ he.2) fun vs s2 => by split <;> rfl


mutual
theorem G_arith (t : Nat) (n : String) : ∀ e : Expr, arithE e = true → fresh n e = true → G t n e = true
  | .int .., _, _ => rfl
  | .str .., _, _ => rfl
  | .var .., _, hf => by simpa [G, fresh] using hf
  | .binop _ _ _ l r, h, hf => by
      simp only [arithE, Bool.and_eq_true] at h
      simp only [fresh, Bool.and_eq_true] at hf
      simp only [G, G_arith t n l h.1 hf.1, G_arith t n r h.2 hf.2, Bool.and_self]
  | .paren _ _ e, h, hf => by
      simp only [arithE] at h
      simp only [fresh] at hf
      simp only [G, G_arith t n e h hf]
  | .list _ _ es, h, hf => by
      simp only [arithE] at h
      simp only [fresh] at hf
      simp only [G, GList_arith t n es h hf]
  | .tuple _ _ es, h, hf => by
      simp only [arithE] at h
      simp only [fresh] at hf
      simp only [G, GList_arith t n es h hf]
  | .letE .., h, _ => by simp [arithE] at h
  | .assign .., h, _ => by simp [arithE] at h
  | .update .., h, _ => by simp [arithE] at h
  | .ifE .., h, _ => by simp [arithE] at h
  | .whileE .., h, _ => by simp [arithE] at h
  | .forE .., h, _ => by simp [arithE] at h
  | .matchE .., h, _ => by simp [arithE] at h
  | .ret .., h, _ => by simp [arithE] at h
  | .brk .., h, _ => by simp [arithE] at h
  | .cont .., h, _ => by simp [arithE] at h
  | .call .., h, _ => by simp [arithE] at h
  | .lambda .., h, _ => by simp [arithE] at h
  | .invalid .., h, _ => by simp [arithE] at h
  | .unsup .., h, _ => by simp [arithE] at h
theorem GList_arith (t : Nat) (n : String) : ∀ es : List Expr, arithL es = true → freshSeq n es = true → GList t n es = true
  | [], _, _ => rfl
  | e :: rest, h, hf => by
      simp only [arithL, Bool.and_eq_true] at h
      simp only [freshSeq, Bool.and_eq_true] at hf
      simp only [GList, G_arith t n e h.1 hf.1, GList_arith t n rest h.2 hf.2, Bool.and_self]
end


-- ------------------------------------------------------------------ the spine: hit nodes

theorem findSp_hit {t : Nat} {e : Expr} (h : (e.id == t) = true) (hl : isLet e = false) : findSp t e = some e := by
  cases e <;> first | (simp [isLet] at hl; done) | (simp only [Expr.id] at h; simp only [findSp, pick, h, if_true]) | skip
  rename_i o; cases o <;> (simp only [Expr.id] at h; simp only [findSp, pick, h, if_true])

theorem HR_hit {t : Nat} {n : String} {e : Expr} (h : (e.id == t) = true) (hl : isLet e = false) :
    HR t n e = .var 0 false n := by
  cases e <;> first | (simp [isLet] at hl; done) | (simp only [Expr.id] at h; simp only [HR, h, if_true]) | skip
  rename_i o; cases o <;> (simp only [Expr.id] at h; simp only [HR, h, if_true])

theorem eval_unparen (cl : Bool) (p : Program) (k : Nat) (env : Env) (s : RefSem.St) (e : Expr) :
    ∃ j, j ≤ k + 1 ∧ eval cl p (k + 1) env s e = eval cl p j env s (unparen e) := by
  cases e <;> first | exact ⟨k + 1, Nat.le_refl _, rfl⟩ | skip
  exact ⟨k, Nat.le_succ k, by simp only [eval, unparen]⟩

theorem bad_bind {a : Res × RefSem.St} {k : Val → RefSem.St → Res × RefSem.St} (h : bad a.1 = true) :
    bad (RefSem.bind a k).1 = true := by
  obtain ⟨r, s⟩ := a
  cases r <;> simp [bad] at h <;> simp [RefSem.bind, bad]

theorem bad_bind_vb {a : Res × RefSem.St} {k : Val → RefSem.St → Res × RefSem.St} (h : vb a.1 = true)
    (hk : ∀ v, a.1 = .val v → bad (k v a.2).1 = true) : bad (RefSem.bind a k).1 = true := by
  obtain ⟨r, s⟩ := a
  cases r <;> first | exact hk _ rfl | (simp [vb, bad] at h; done) | simp [RefSem.bind, bad]

theorem or_none_right (a : Option Expr) : a.or none = a := by cases a <;> rfl

/-- Original only: if the node on the spine evaluates badly, so does the statement. -/
structure SpBad (t : Nat) (p : Program) (k : Nat) : Prop where
  ev : ∀ env s e ux, sp t e = true → (findSp t e).map unparen = some ux →
    (∀ j, j ≤ k → bad (eval false p j env s ux).1 = true) → bad (eval false p k env s e).1 = true
  lst : ∀ env s es ux, spL t es = true → (findSpL t es).map unparen = some ux →
    (∀ j, j ≤ k → bad (eval false p j env s ux).1 = true) → bad (evalList false p k env s es).1 = true

theorem spBad (t : Nat) (p : Program) : ∀ k, SpBad t p k
  | 0 => ⟨fun _ _ _ _ _ _ _ => rfl, fun _ _ _ _ _ _ _ => rfl⟩
  | k + 1 => by
    have ih := spBad t p k
    have down : ∀ {env s ux}, (∀ j, j ≤ k + 1 → bad (eval false p j env s ux).1 = true) →
        ∀ j, j ≤ k → bad (eval false p j env s ux).1 = true := fun h j hj => h j (Nat.le_succ_of_le hj)
    constructor
    · intro env s e ux hsp hf h0
      by_cases hl : isLet e = true
      · obtain ⟨id, u, d, r, rfl⟩ := isLet_iff.mp hl
        rfl
      have hl' : isLet e = false := by simpa using hl
      by_cases hid : (e.id == t) = true
      · rw [findSp_hit hid hl'] at hf
        simp only [Option.map_some, Option.some.injEq] at hf
        obtain ⟨j, hj, he⟩ := eval_unparen false p k env s e
        rw [he, hf]; exact h0 j hj
      have hid' : (e.id == t) = false := by simpa using hid
      cases e <;> simp only [Expr.id] at hid' <;> (try simp only [sp, hid', Bool.false_or, Bool.false_eq_true] at hsp)
      case binop id u op l r =>
        simp only [findSp, pick, hid', Bool.false_eq_true, if_false] at hf
        simp only [eval]
        simp only [Bool.or_eq_true, Bool.and_eq_true, noSp, Option.isNone_iff_eq_none] at hsp
        rcases hsp with ⟨h1, h2⟩ | ⟨⟨h1, h2⟩, h3⟩
        · rw [h2, or_none_right] at hf
          exact bad_bind (ih.ev _ _ _ _ h1 hf (down h0))
        · rw [h2] at hf
          refine bad_bind_vb ((arithRes false p k).ev _ _ _ h1) fun v hv => ?_
          rw [(keepsState false p k).ev _ _ _ h1]
          exact bad_bind (ih.ev _ _ _ _ h3 hf (down h0))
      case letE => simp [isLet] at hl'
      case ifE id u c th el =>
        simp only [findSp, pick, hid', Bool.false_eq_true, if_false] at hf
        simp only [eval]
        exact bad_bind (ih.ev _ _ _ _ hsp hf (down h0))
      case forE id u d it b =>
        simp only [findSp, pick, hid', Bool.false_eq_true, if_false] at hf
        simp only [eval]
        exact bad_bind (ih.ev _ _ _ _ hsp hf (down h0))
      case matchE id u sc cs =>
        simp only [findSp, pick, hid', Bool.false_eq_true, if_false] at hf
        simp only [eval]
        exact bad_bind (ih.ev _ _ _ _ hsp hf (down h0))
      case ret id u o =>
        cases o with
        | none => simp [sp, hid'] at hsp
        | some x =>
          simp only [sp, hid', Bool.false_or] at hsp
          simp only [findSp, pick, hid', Bool.false_eq_true, if_false] at hf
          simp only [eval]
          exact bad_bind (ih.ev _ _ _ _ hsp hf (down h0))
      case list id u es =>
        simp only [findSp, pick, hid', Bool.false_eq_true, if_false] at hf
        simp only [eval]
        exact ih.lst _ _ _ _ hsp hf (down h0)
      case tuple id u es =>
        simp only [findSp, pick, hid', Bool.false_eq_true, if_false] at hf
        simp only [eval]
        exact bad_bind (ih.lst _ _ _ _ hsp hf (down h0))
      case call id u f as =>
        simp only [findSp, pick, hid', Bool.false_eq_true, if_false] at hf
        simp only [eval]
        simp only [Bool.or_eq_true, Bool.and_eq_true, noSp, noSpL, Option.isNone_iff_eq_none] at hsp
        rcases hsp with ⟨h1, h2⟩ | ⟨⟨h1, h2⟩, h3⟩
        · rw [h2, or_none_right] at hf
          exact bad_bind (ih.ev _ _ _ _ h1 hf (down h0))
        · rw [h2] at hf
          refine bad_bind_vb ((arithRes false p k).ev _ _ _ h1) fun v hv => ?_
          rw [(keepsState false p k).ev _ _ _ h1]
          exact bad_bind (ih.lst _ _ _ _ h3 hf (down h0))
      case paren id u x =>
        simp only [findSp, pick, hid', Bool.false_eq_true, if_false] at hf
        simp only [eval]
        exact ih.ev _ _ _ _ hsp hf (down h0)
    · intro env s es ux hsp hf h0
      cases es with
      | nil => simp [spL] at hsp
      | cons e rest =>
        simp only [spL, Bool.or_eq_true, Bool.and_eq_true, noSp, noSpL, Option.isNone_iff_eq_none] at hsp
        simp only [findSpL] at hf
        simp only [evalList]
        rcases hsp with ⟨h1, h2⟩ | ⟨⟨h1, h2⟩, h3⟩
        · rw [h2, or_none_right] at hf
          exact bad_bind (ih.ev _ _ _ _ h1 hf (down h0))
        · rw [h2] at hf
          refine bad_bind_vb ((arithRes false p k).ev _ _ _ h1) fun v hv => ?_
          rw [(keepsState false p k).ev _ _ _ h1]
          exact bad_bind (ih.lst _ _ _ _ h3 hf (down h0))


-- ------------------------------------------------------------------ the program context

structure HCtx (t : Nat) (n : String) (p p' : Program) : Prop where
  hn : n ≠ "_"
  funs : p'.funs = p.funs.map (fun d => { d with body := HSeq t n d.body })
  enums : p'.enums = p.enums
  gfuns : ∀ d ∈ p.funs, GFun t n d = true

theorem HCtx.funNames {t n p p'} (hc : HCtx t n p p') : funNames p' = funNames p := by
  simp [RefSem.funNames, hc.funs, List.map_map, Function.comp_def]

theorem HCtx.patKey {t n p p'} (hc : HCtx t n p p') (v : String) : patKey p' v = patKey p v := by
  simp [RefSem.patKey, hc.funNames, hc.enums]

theorem HCtx.find {t n p p'} (hc : HCtx t n p p') (name : String) :
    p'.funs.find? (fun d => d.name == name) =
      (p.funs.find? (fun d => d.name == name)).map (fun d => { d with body := HSeq t n d.body }) := by
  rw [hc.funs, List.find?_map]
  rfl

theorem HCtx.agree_nil {t n p p'} (hc : HCtx t n p p') (st st' : List Val) : Agree n p p' [] st [] st' := by
  intro x _
  simp [lookupVar, lookup, hc.funNames, hc.enums]

theorem agree_push {n p p' env st env' st'} (h : Agree n p p' env st env' st') (w' : WF env' st') (v : Val) :
    Agree n p p' env st ((n, st'.length) :: env') (st' ++ [v]) := by
  intro x hx
  rw [lookupVar_cons]
  have : (n == x) = false := by simpa using Ne.symm hx
  simp only [this, Bool.false_eq_true, if_false]
  rw [lookupVar_ext p' w' (List.prefix_append _ _), h x hx]

theorem wf_push {env' : Env} {st' : List Val} (w' : WF env' st') (n : String) (v : Val) :
    WF ((n, st'.length) :: env') (st' ++ [v]) := by
  intro kl hkl
  rcases List.mem_cons.mp hkl with rfl | hkl
  · simp
  · exact (w'.ext (List.prefix_append _ _)) kl hkl

/-- What relates the two configurations at a program point. -/
structure Ok (n : String) (p p' : Program) (env : Env) (s : RefSem.St) (env' : Env) (s' : RefSem.St) : Prop where
  agree : Agree n p p' env s.store env' s'.store
  wf : WF env s.store
  wf' : WF env' s'.store
  out : s.out = s'.out

theorem Ok.step {n p p' env s env' s' s1 s1'} (h : Ok n p p' env s env' s') (p1 : s.store <+: s1.store)
    (p1' : s'.store <+: s1'.store) (o1 : s1.out = s1'.out) : Ok n p p' env s1 env' s1' :=
  ⟨h.agree.ext h.wf h.wf' p1 p1', h.wf.ext p1, h.wf'.ext p1', o1⟩

theorem applyBuiltinH {t n p p'} (hc : HCtx t n p p') (name : String) (args : List Val) {s s' : RefSem.St}
    (ho : s.out = s'.out) : RelH s s' (applyBuiltin p name args s) (applyBuiltin p' name args s') := by
  cases args with
  | nil => exact RelH.same _ ho
  | cons a rest =>
    cases rest with
    | cons b r2 => exact RelH.same _ ho
    | nil =>
      simp only [applyBuiltin, hc.enums]
      by_cases h1 : (name == "println") = true
      · simp only [h1, if_true]
        cases a <;> first | exact RelH.same _ ho | exact Or.inr ⟨rfl, by simp [ho], List.prefix_refl _, List.prefix_refl _⟩
      · simp only [h1, if_false, Bool.false_eq_true]
        by_cases h2 : (name == "print") = true
        · simp only [h2, if_true]
          cases a <;> first | exact RelH.same _ ho | exact Or.inr ⟨rfl, by simp [ho], List.prefix_refl _, List.prefix_refl _⟩
        · simp only [h2, if_false, Bool.false_eq_true]
          by_cases h3 : (name == "string_repr") = true
          · simp only [h3, if_true]; exact RelH.same _ ho
          · simp only [h3, if_false, Bool.false_eq_true]
            by_cases h4 : (name == "dbg") = true
            · simp only [h4, if_true]; exact RelH.same _ ho
            · simp only [h4, if_false, Bool.false_eq_true]; exact RelH.same _ ho

theorem isLet_H (t : Nat) (n : String) (e : Expr) : isLet (H t n e) = isLet e := by
  cases e <;> try (simp [H, isLet]; done)
  rename_i o; cases o <;> simp [H, isLet]

theorem isLet_HR (t : Nat) (n : String) {e : Expr} (h : isLet e = false) : isLet (HR t n e) = false := by
  cases e <;> first | (simp [isLet] at h; done) | (simp only [HR]; split <;> simp [isLet]) | skip
  rename_i o; cases o <;> (simp only [HR]; split <;> simp [isLet])

theorem HSeq_cons (t : Nat) (n : String) (e : Expr) (rest : List Expr) : ∃ a b, HSeq t n (e :: rest) = a :: b := by
  simp only [HSeq]
  cases findSp t e <;> exact ⟨_, _, rfl⟩

theorem bad_of_le {a b : Res × RefSem.St} (h : LeX none none a b) (hb : bad b.1 = true) : bad a.1 = true := by
  rcases h with h | h | h | h
  · rw [isTO_eq h]; rfl
  · rw [h]; exact hb
  · simp [failedBy] at h
  · simp [failedBy] at h

theorem RelH.of_le {s s' : RefSem.St} {a a2 b : Res × RefSem.St} (h : LeX none none a a2) (h2 : RelH s s' a2 b) :
    RelH s s' a b := by
  rcases h with h | h | h | h
  · exact Or.inl (by rw [isTO_eq h]; rfl)
  · rw [h]; exact h2
  · simp [failedBy] at h
  · simp [failedBy] at h

end Extract
