"""LSP client side for C28: framing codec, server launcher, message abstraction, generators.

Everything the harness knows about a message is computed here, in two independent ways:
* `features(obj, tag)`  — the abstraction the Lean model consumes (what `handle_message` inspects);
* `spec_expectation(obj)` — the protocol-level reading used by the direct oracle (is it a request?),
  which does not use the model or the method table of the implementation.
"""
import json
import os
import re
import shutil
import subprocess
import resource

BASE = "/nonexistent-verif-c28"          # must not exist: handlers fall back to reading the disk

# ------------------------------------------------------------------ protocol facts (LSP 3.17)
# method -> (parameter shape, JSON text of the handler's "no such document" result)
REQUESTS = {
    "initialize": ("init", None),
    "textDocument/completion": ("pos", "[]"),
    "textDocument/definition": ("pos", "null"),
    "textDocument/hover": ("pos", "null"),
    "textDocument/signatureHelp": ("pos", "null"),
    "textDocument/documentHighlight": ("pos", "[]"),
    "textDocument/documentSymbol": ("doc", "[]"),
    "textDocument/formatting": ("fmt", "[]"),
    "textDocument/codeAction": ("action", "[]"),
    "textDocument/references": ("refs", "null"),
    "textDocument/rename": ("rename", "null"),
    "shutdown": ("none", "null"),
}
NOTIFICATIONS = ["initialized", "textDocument/didOpen", "textDocument/didChange", "textDocument/didClose", "exit"]
UNKNOWN_METHODS = ["workspace/symbol", "textDocument/foldingRange", "$/setTrace", "$/cancelRequest",
                   "workspace/didChangeConfiguration", "textDocument/didSave", "Exit", "textDocument/Hover",
                   "", "initialize ", "window/workDoneProgress/create", "é/ü"]
INVALID_REQUEST, METHOD_NOT_FOUND, INVALID_PARAMS = -32600, -32601, -32602


def canon(v):
    return json.dumps(v, sort_keys=True, separators=(",", ":"), ensure_ascii=False)


def hexs(s):
    return s.encode("utf-8").hex()


# ------------------------------------------------------------------ framing codec
def encode_body(obj):
    return json.dumps(obj, ensure_ascii=False, separators=(",", ":")).encode("utf-8")


def frame(body, style="std"):
    """One framed message. `style` selects a header variation that a conforming reader accepts."""
    n = len(body)
    if style == "std":
        h = b"Content-Length: %d\r\n\r\n" % n
    elif style == "lower":
        h = b"content-length: %d\r\n\r\n" % n
    elif style == "upper-spaces":
        h = b"CONTENT-LENGTH:    %d   \r\n\r\n" % n
    elif style == "ctype-first":
        h = b"Content-Type: application/vscode-jsonrpc; charset=utf-8\r\nContent-Length: %d\r\n\r\n" % n
    elif style == "ctype-last":
        h = b"Content-Length: %d\r\nContent-Type: application/vscode-jsonrpc; charset=utf-8\r\n\r\n" % n
    elif style == "nospace":
        h = b"Content-Length:%d\r\n\r\n" % n
    elif style == "lf":
        h = b"Content-Length: %d\n\n" % n
    else:
        raise ValueError(style)
    return h + body


HEADER_STYLES = ["std", "lower", "upper-spaces", "ctype-first", "ctype-last", "nospace", "lf"]


def parse_frames(out):
    """Decode the server's stdout. Returns (messages, problem-or-None)."""
    msgs = []
    pos = 0
    while pos < len(out):
        end = out.find(b"\r\n\r\n", pos)
        if end < 0:
            return msgs, "truncated header at byte %d" % pos
        n = None
        for line in out[pos:end].split(b"\r\n"):
            name, _, val = line.partition(b":")
            if name.strip().lower() == b"content-length":
                try:
                    n = int(val.strip())
                except ValueError:
                    return msgs, "bad Content-Length %r" % val
        if n is None:
            return msgs, "missing Content-Length at byte %d" % pos
        body = out[end + 4:end + 4 + n]
        if len(body) < n:
            return msgs, "truncated body at byte %d" % pos
        try:
            msgs.append(json.loads(body.decode("utf-8")))
        except (ValueError, UnicodeDecodeError) as e:
            return msgs, "body is not JSON: %s" % e
        pos = end + 4 + n
    return msgs, None


def parse_json_stream(text):
    """`reftest-lsp` prints pretty JSON values back to back."""
    dec = json.JSONDecoder()
    out, i = [], 0
    while True:
        while i < len(text) and text[i].isspace():
            i += 1
        if i >= len(text):
            return out, None
        try:
            o, i = dec.raw_decode(text, i)
        except ValueError as e:
            return out, "unparsable output at %d: %s" % (i, e)
        out.append(o)


PANIC_RE = re.compile(r"panicked at ([^\s:]+):(\d+):(\d+):\s*\n?(.*)")


def crash_info(rc, stderr):
    """None if the process ended normally, else (key-suffix, description)."""
    m = PANIC_RE.search(stderr or "")
    if m:
        path = m.group(1)
        if "/library/" in path or path.startswith("/rustc/"):
            path = "rust-std/" + path.split("/library/")[-1]
        return "panic/" + path, "panicked at %s:%s: %s" % (m.group(1), m.group(2), m.group(4)[:120])
    if "has overflowed its stack" in (stderr or ""):
        return "stack-overflow", "native stack overflow (SIGABRT)"
    if "memory allocation of" in (stderr or ""):
        return "alloc-abort", (stderr or "").strip().split("\n")[-1][:160]
    if rc == 101:
        return "panic/unknown", "exit status 101"
    if rc is not None and (rc < 0 and rc != -9999 or rc in (134, 139)):
        return "signal", "terminated by signal / abort, rc=%d" % rc
    return None


def _limits(mem_gb=3):
    def f():
        lim = int(mem_gb * (1 << 30))
        resource.setrlimit(resource.RLIMIT_AS, (lim, lim))
        resource.setrlimit(resource.RLIMIT_CORE, (0, 0))
    return f


def run_server(garden, data, tmpdir, timeout=30):
    """Start `garden lsp`, write `data`, close stdin, wait.  Returns dict(rc, msgs, problem, stderr, timeout).
    A run that exceeds the time limit is repeated once with a ten times longer limit before it is called a
    hang (on a loaded machine a healthy run can take many seconds).
    The server writes its built-in files below $TMPDIR/garden-lsp-<pid> and does not remove them when it
    leaves through process::exit, so TMPDIR points into the scratch area and is cleaned here."""
    r = _run_server_once(garden, data, tmpdir, timeout)
    if r["timeout"]:
        r = _run_server_once(garden, data, tmpdir, timeout * 10)
    return r


def _run_server_once(garden, data, tmpdir, timeout):
    env = dict(os.environ)
    env["TMPDIR"] = tmpdir
    env["GARDEN_LOG"] = "error"
    env["RUST_BACKTRACE"] = "0"
    p = subprocess.Popen([garden, "lsp"], stdin=subprocess.PIPE, stdout=subprocess.PIPE, stderr=subprocess.PIPE,
                         env=env, preexec_fn=_limits())
    timed_out = False
    try:
        so, se = p.communicate(data, timeout=timeout)
    except subprocess.TimeoutExpired:
        p.kill()
        so, se = p.communicate()
        timed_out = True
    shutil.rmtree(os.path.join(tmpdir, "garden-lsp-%d" % p.pid), ignore_errors=True)
    msgs, problem = parse_frames(so)
    return dict(rc=p.returncode, msgs=msgs, problem=problem, stderr=se.decode("utf-8", "replace"),
                timeout=timed_out)


def run_reftest(garden, messages, path, timeout=30):
    """Feed single-line JSON messages to `garden reftest-lsp` (a timed-out run is repeated once with a ten
    times longer limit)."""
    r = _run_reftest_once(garden, messages, path, timeout)
    if r["timeout"]:
        r = _run_reftest_once(garden, messages, path, timeout * 10)
    return r


def _run_reftest_once(garden, messages, path, timeout):
    with open(path, "w", encoding="utf-8") as f:
        for m in messages:
            f.write(json.dumps(m, ensure_ascii=False) + "\n")
    env = dict(os.environ)
    env["RUST_BACKTRACE"] = "0"
    try:
        p = subprocess.run([garden, "reftest-lsp", path], capture_output=True, timeout=timeout, env=env,
                           preexec_fn=_limits())
        rc, so, se = p.returncode, p.stdout.decode("utf-8", "replace"), p.stderr.decode("utf-8", "replace")
    except subprocess.TimeoutExpired as e:
        rc, so, se = -9999, (e.stdout or b"").decode("utf-8", "replace"), (e.stderr or b"").decode("utf-8", "replace")
    msgs, problem = parse_json_stream(so)
    return dict(rc=rc, msgs=msgs, problem=problem, stderr=se, timeout=rc == -9999)


# ------------------------------------------------------------------ what the server said
def classify_out(o):
    """('r', canonical id, 'err:<code>' | 'res', result) | ('p', uri, diagnostics) | ('?', o)."""
    if isinstance(o, dict) and o.get("method") == "textDocument/publishDiagnostics" and "id" not in o:
        ps = o.get("params", {})
        return ("p", ps.get("uri"), ps.get("diagnostics"))
    if isinstance(o, dict) and "id" in o and "method" not in o and ("result" in o) != ("error" in o):
        if "error" in o:
            return ("r", canon(o["id"]), "err:%s" % o["error"].get("code"), None)
        return ("r", canon(o["id"]), "res", o["result"])
    return ("?", o)


# ------------------------------------------------------------------ URIs
def uri_info(uri):
    """(parses as a URL, file path or None, the URL as the server re-serialises it).
    Only for the closed set of shapes the generator produces (checked against the implementation by the
    correspondence run)."""
    if not isinstance(uri, str):
        return (False, None, None)
    m = re.match(r"^file://(localhost)?(/[A-Za-z0-9_\-./%]*)$", uri)
    if m:
        path = m.group(2)
        segs = []
        for s in path.split("/")[1:]:
            if s == ".":
                continue
            if s == "..":
                if segs:
                    segs.pop()
                continue
            segs.append(s)
        npath = "/" + "/".join(segs)
        if path.endswith("/.") or path.endswith("/.."):
            npath += "/" if not npath.endswith("/") else ""
        fpath = re.sub(r"%([0-9A-Fa-f]{2})", lambda k: bytes([int(k.group(1), 16)]).decode("latin-1"), npath)
        return (True, fpath, "file://" + npath)
    if re.match(r"^file://[a-z]+/", uri):
        return (True, None, uri)              # other host: to_file_path fails on unix
    if re.match(r"^(https?|untitled|git):", uri):
        return (True, None, uri)              # not a file URL
    return (False, None, None)                # relative / garbage: Url::parse fails


GOOD_URIS = ["file://%s/a.gdn" % BASE, "file://%s/b.gdn" % BASE, "file://%s/sub/c.gdn" % BASE,
             "file://%s/d%%20e.gdn" % BASE]
ALIAS_URIS = ["file://%s/./a.gdn" % BASE, "file://localhost%s/b.gdn" % BASE, "file://%s/sub/../a.gdn" % BASE]
NONFILE_URIS = ["http://example.com/a.gdn", "untitled:Untitled-1", "file://otherhost/x/a.gdn"]
BAD_URIS = ["not a uri", "a.gdn", "", "/abs/path.gdn"]


# ------------------------------------------------------------------ abstraction for the model
def jget(v, k):
    return v.get(k) if isinstance(v, dict) else None


def sync_of(method, params):
    """What handle_did_open/_did_change/_did_close extract (None when a `?` fails)."""
    td = jget(params, "textDocument")
    uri = jget(td, "uri")
    if not isinstance(uri, str):
        return None
    text = ""
    if method == "textDocument/didOpen":
        text = jget(td, "text")
        if not isinstance(text, str):
            return None
    elif method == "textDocument/didChange":
        cc = jget(params, "contentChanges")
        if not isinstance(cc, list) or not cc:
            return None
        text = jget(cc[-1], "text")
        if not isinstance(text, str):
            return None
    ok, path, ser = uri_info(uri)
    if not ok or path is None:
        return None
    return (path, ser, text)


def envelope(obj):
    """(envelopeOk, rawId present?, rawId, method, params present?, params) as serde sees `Message`."""
    if isinstance(obj, dict):
        ok = isinstance(obj.get("jsonrpc"), str) and (obj.get("method") is None or isinstance(obj.get("method"), str))
        has_id = "id" in obj
        return ok, has_id, obj.get("id"), (obj.get("method") if ok else None), "params" in obj, obj.get("params")
    if isinstance(obj, list):
        # serde derives a sequence form for structs: [jsonrpc, id, method, params]; `id` and `params`
        # have #[serde(default)], `method` does not; message.get("id") / .get("params") are None on arrays
        ok = 3 <= len(obj) <= 4 and isinstance(obj[0], str) and (obj[2] is None or isinstance(obj[2], str))
        if ok:
            # parsed.id comes from the sequence; get("params") is None
            return True, obj[1] is not None, obj[1], obj[2], False, None
        return False, False, None, None, False, None
    return False, False, None, None, False, None


def features(obj, ptag):
    """S-expression of the model's `Msg` for a client message. `ptag` is the generator's claim about the
    params of a request: 'a' absent, 'b' malformed, ('g', uri-or-None)."""
    ok, has_id, rid, method, has_params, params = envelope(obj)
    rawid = "x" + hexs(canon(rid)) if has_id else "-"
    meth = "x" + hexs(method) if isinstance(method, str) else "-"
    if isinstance(obj, list) and ok:
        ptag = "a"
    if ptag in ("a", "b"):
        ps = ptag
    else:
        _, uri = ptag
        path = uri_info(uri)[1] if uri is not None else None
        ps = "g-" if path is None else "gx" + hexs(path)
    sy = "-"
    if ok and method in ("textDocument/didOpen", "textDocument/didChange", "textDocument/didClose"):
        s = sync_of(method, params if has_params else None)
        if s is not None:
            sy = "(s x%s x%s x%s)" % (hexs(s[0]), hexs(s[1]), hexs(s[2]))
    return "(m %d %s %s %s %s)" % (1 if ok else 0, rawid, meth, ps, sy)


def parse_model_outs(line):
    """'OK (st S E N) (n C1..Cn) (r xID RES) (p xURI xTEXT|-)…' -> (state, outs, origin) where origin[j] is the
    index of the message that produced output j."""
    assert line.startswith("OK "), line
    toks = re.findall(r"\(([^()]*)\)", line[3:])
    st = toks[0].split()
    counts = [int(c) for c in toks[1].split()[1:]]
    outs = []
    for t in toks[2:]:
        f = t.split()
        if f[0] == "r":
            outs.append(("r", bytes.fromhex(f[1][1:]).decode("utf-8"), f[2]))
        else:
            outs.append(("p", bytes.fromhex(f[1][1:]).decode("utf-8"),
                         None if f[2] == "-" else bytes.fromhex(f[2][1:]).decode("utf-8")))
    origin = []
    prev = 0
    for k, c in enumerate(counts):
        origin += [k] * (c - prev)
        prev = c
    return dict(shutdown=st[1] == "1", exited=None if st[2] == "-" else int(st[2]), ndocs=int(st[3])), outs, origin


# ------------------------------------------------------------------ protocol-level reading (oracle)
def spec_expectation(obj):
    """('request', canonical id) — must be answered exactly once with that id;
       ('silent',)             — must not be answered;
       ('gray', canonical id)  — not a JSON-RPC envelope: 0 or 1 answers with that id are acceptable;
       plus is_exit."""
    if isinstance(obj, list):
        # serde also accepts the positional form [jsonrpc, id, method, params] of the envelope struct
        rid = obj[1] if len(obj) >= 2 else None
        return ("gray", canon(rid) if rid is not None else None), False
    if not isinstance(obj, dict):
        return ("gray", None), False
    method = obj.get("method")
    rid = obj.get("id")
    if not isinstance(obj.get("jsonrpc"), str) or not (method is None or isinstance(method, str)):
        return ("gray", canon(rid) if "id" in obj else None), False
    if method is None:
        return ("silent",), False                       # a response from the client
    if method == "exit":
        return ("silent",), True
    if method in NOTIFICATIONS:
        return ("silent",), False                       # notification method (an id on it is meaningless)
    if rid is None:
        return ("silent",), False                       # notification
    return ("request", canon(rid)), False


# ------------------------------------------------------------------ documents
DOCS_OK = [
    "",
    "let x = 1\n",
    "fun add(x: Int, y: Int): Int {\n  x + y\n}\n\nadd(1, 2)\n",
    "// a comment with ünïcödé 😀\nfun greet(name: String): String {\n  \"héllo, \" ^ name\n}\n\ngreet(\"wörld 😀\")\n",
    "struct Point { x: Int, y: Int }\n\nfun (this: Point) sum(): Int {\n  this.x + this.y\n}\n\nlet p = Point{ x: 1, y: 2 }\np.sum()\n",
    "enum Shape {\n  Circle(Int),\n  Square(Int),\n  Dot,\n}\n\nfun area(s: Shape): Int {\n  match s {\n    Circle(r) => r * r * 3,\n    Square(w) => w * w,\n    Dot => 0,\n  }\n}\n",
    "let items = [1, 2, 3]\nlet total = 0\nfor i in items {\n  total += i\n}\nprintln(string_repr(total))\n",
    "/// Doc comment for foo.\nfun foo(): Unit {\n  let s = \"a\\nb\"\n  println(s)\n}\n\ntest foo_works {\n  foo()\n  assert(1 == 1)\n}\n",
    "import \"__fs.gdn\" as fs\n\nfun main() {\n  let p = Path{ p: \"/tmp\" }\n  p.exists()\n}\n",
    "fun id<T>(x: T): T { x }\n\nlet a = id(1)\nlet b = id(\"s\")\nlet t = (a, b)\n",
    "let s = \"日本語のテキスト\" // コメント\nlet n = s.len()\n",
    "fun f(x: Option<Int>): Int {\n  match x {\n    Some(v) => v,\n    None => 0,\n  }\n}\r\nf(Some(1))\r\n",
]
DOCS_DIAG = [
    "fun main() {\n  Path{ p: \"/foo\" }.existts()\n}\n",
    "fun foo(x: Int): String { x }\n",
    "let s = \"é😀\" foo(\"é\")\n",
    "fun f() {\n  let unused_var = 1\n}\nf()\n",
    "fun g(x: Int): Int { x }\ng(\"é😀é\", 2)\nlet y: String = 1\n",
    "let x = \"😀😀\" + 1\nnosuchfunction(x)\n",
    "fun h() { undefined_variable }\nfun h() { 1 }\n",
    "struct S { a: Int }\nlet s = S{ b: 1 }\ns.nosuchfield\n",
]
DOCS_PARSE_ERR = [
    "let x = ",
    "fun foo( {\n",
    "fun foo() {\n  let y = 1 +\n}\n",
    "let s = \"unterminated\nlet t = 2\n",
    "}}}}\n",
    "let = = =\n",
    "fun f() { \"é😀\" ) }\n",
    "match x { Some(y) => }\n",
    "let x = 1 let\n",
    "struct { }\n",
    "// ü\nfun f(x: ) { }\n",
    "1 +* 2\n",
    "let x = [1, 2\n",
    "if True { 1 } else\n",
]
# texts known (C01) to make the front end panic / overflow on the pinned tree: used sparingly
DOCS_HOSTILE = ["let x = é\n", "let x = 1 + 2\n", "(1, })\n", "(" * 3000, "let ñ = 1\n", "[" * 5000]


# ------------------------------------------------------------------ generators
class Gen:
    """State-aware session generator. A session is a list of dict(obj=<JSON value>, ptag=<params claim>,
    why=<label>)."""

    def __init__(self, rng, hostile=False):
        self.rng = rng
        self.hostile = hostile
        self.next_id = rng.choice([0, 1, 1, 1, 100])
        self.used_ids = []
        self.open = {}           # path -> text (what the generator believes is open)
        self.labels = set()

    # ---- pieces
    def new_id(self):
        r = self.rng.random()
        if r < 0.72 or not self.used_ids and r < 0.9:
            self.next_id += 1
            v = self.next_id
        elif r < 0.80:
            v = "req-%d" % self.rng.randint(0, 50)
        elif r < 0.85:
            v = self.rng.choice(self.used_ids)                     # duplicate id
            self.labels.add("duplicate-id")
        elif r < 0.88:
            v = self.rng.choice([0, -1, -7, 2 ** 31, 2 ** 53, 1.5, -0.25])
        elif r < 0.91:
            v = self.rng.choice(["", "é😀", "1", "null", " "])
        elif r < 0.94:
            v = self.rng.choice([True, False, [1, 2], {"a": 1}, [], {}])   # not JSON-RPC ids, but serde accepts
            self.labels.add("weird-id")
        else:
            self.next_id += self.rng.randint(2, 9)
            v = self.next_id
        self.used_ids.append(v)
        return v

    def text(self):
        r = self.rng.random()
        pool = DOCS_OK if r < 0.45 else DOCS_DIAG if r < 0.65 else DOCS_PARSE_ERR if r < 0.85 else None
        if pool is not None:
            return self.rng.choice(pool)
        if self.hostile and r > 0.97:
            self.labels.add("hostile-text")
            return self.rng.choice(DOCS_HOSTILE)
        # mutate a good document: truncate, or splice two
        t = self.rng.choice(DOCS_OK + DOCS_DIAG)
        if self.rng.random() < 0.5 and len(t) > 2:
            cut = self.rng.randrange(1, len(t))
            return t[:cut]
        u = self.rng.choice(DOCS_OK + DOCS_PARSE_ERR)
        return t + u

    def position(self, text):
        lines = text.split("\n") if text is not None else [""]
        r = self.rng.random()
        if r < 0.6:
            ln = self.rng.randrange(len(lines))
            return {"line": ln, "character": self.rng.randint(0, len(lines[ln]) + 1)}
        if r < 0.75:
            return {"line": len(lines) + self.rng.randint(0, 5), "character": self.rng.randint(0, 200)}
        if r < 0.85:
            self.labels.add("huge-position")
            return {"line": self.rng.choice([4294967295, 2147483648, 10 ** 6]),
                    "character": self.rng.choice([4294967295, 0, 10 ** 9])}
        ln = self.rng.randrange(len(lines))
        return {"line": ln, "character": 10 ** 5}

    def good_params(self, shape, uri, text):
        td = {"uri": uri}
        if shape == "init":
            p = {"capabilities": {}}
            if self.rng.random() < 0.5:
                p.update({"processId": self.rng.choice([None, 1234]), "rootUri": None,
                          "clientInfo": {"name": "verif", "version": "0"}})
            return p
        if shape == "none":
            return None
        if shape == "doc":
            p = {"textDocument": td}
        elif shape == "fmt":
            p = {"textDocument": td, "options": {"tabSize": self.rng.choice([2, 4, 0]), "insertSpaces": True}}
        elif shape == "action":
            a, b = self.position(text), self.position(text)
            p = {"textDocument": td, "range": {"start": a, "end": b},
                 "context": {"diagnostics": []}}
            if self.rng.random() < 0.3:
                p["context"]["only"] = ["quickfix"]
        else:
            p = {"textDocument": td, "position": self.position(text)}
            if shape == "refs":
                p["context"] = {"includeDeclaration": self.rng.random() < 0.5}
            if shape == "rename":
                p["newName"] = self.rng.choice(["y", "new_name", "é", "", "fun", "a b"])
        r = self.rng.random()
        if r < 0.15:
            p["workDoneToken"] = self.rng.choice([7, "tok"])
        elif r < 0.25:
            p["someUnknownField"] = {"x": [1, 2, 3]}
        elif r < 0.30:
            p["textDocument"] = {"uri": uri, "version": 3, "languageId": "garden"}
        return p

    def malform(self, shape, good):
        """Return params that do not deserialize as the method's parameter type (by the LSP schema)."""
        rng = self.rng
        if shape == "init":
            return rng.choice([{}, {"capabilities": 1}, {"capabilities": {}, "processId": "x"}, [], "p", 42,
                               {"capabilities": None}])
        choices = [None, [], [good], "params", 42, True, {}]
        p = json.loads(json.dumps(good))
        def with_(f):
            q = json.loads(json.dumps(good))
            f(q)
            return q
        choices += [with_(lambda q: q.pop("textDocument")),
                    with_(lambda q: q.__setitem__("textDocument", {})),
                    with_(lambda q: q.__setitem__("textDocument", "file:///x.gdn")),
                    with_(lambda q: q["textDocument"].__setitem__("uri", 42)),
                    with_(lambda q: q["textDocument"].__setitem__("uri", None)),
                    with_(lambda q: q["textDocument"].__setitem__("uri", rng.choice(BAD_URIS)))]
        if "position" in p:
            choices += [with_(lambda q: q.pop("position")),
                        with_(lambda q: q.__setitem__("position", None)),
                        with_(lambda q: q["position"].pop("line")),
                        with_(lambda q: q["position"].pop("character")),
                        with_(lambda q: q["position"].__setitem__("line", -1)),
                        with_(lambda q: q["position"].__setitem__("character", -5)),
                        with_(lambda q: q["position"].__setitem__("line", 4294967296)),
                        with_(lambda q: q["position"].__setitem__("line", 1.5)),
                        with_(lambda q: q["position"].__setitem__("line", "3")),
                        with_(lambda q: q["position"].__setitem__("character", None)),
                        # not `"position": [0, 0]`: serde accepts the positional form of a struct
                        with_(lambda q: q.__setitem__("position", "0:0")),
                        with_(lambda q: q.__setitem__("workDoneToken", {"a": 1}))]
        if shape == "refs":
            choices += [with_(lambda q: q.pop("context")), with_(lambda q: q.__setitem__("context", {})),
                        with_(lambda q: q["context"].__setitem__("includeDeclaration", "yes"))] * 2
        if shape == "rename":
            choices += [with_(lambda q: q.pop("newName")), with_(lambda q: q.__setitem__("newName", 5))] * 2
        if shape == "fmt":
            choices += [with_(lambda q: q.pop("options")), with_(lambda q: q["options"].pop("tabSize")),
                        with_(lambda q: q["options"].__setitem__("insertSpaces", 1)),
                        with_(lambda q: q["options"].__setitem__("tabSize", -2))] * 2
        if shape == "action":
            choices += [with_(lambda q: q.pop("range")), with_(lambda q: q["range"].pop("end")),
                        with_(lambda q: q.pop("context")), with_(lambda q: q["context"].pop("diagnostics")),
                        with_(lambda q: q["range"]["start"].__setitem__("line", -3)),
                        with_(lambda q: q["context"].__setitem__("diagnostics", [{"message": "no range"}]))] * 2
        return rng.choice(choices)

    def pick_doc(self, want_open):
        """(uri, text or None)."""
        if want_open and self.open:
            path = self.rng.choice(sorted(self.open))
            uris = [u for u in GOOD_URIS + ALIAS_URIS if uri_info(u)[1] == path]
            return self.rng.choice(uris), self.open[path]
        closed = [u for u in GOOD_URIS if uri_info(u)[1] not in self.open]
        r = self.rng.random()
        if closed and r < 0.6:
            return self.rng.choice(closed), None
        return self.rng.choice(NONFILE_URIS), None

    def msg(self, obj, ptag, why):
        self.labels.add(why)
        return dict(obj=obj, ptag=ptag, why=why)

    def envelope_variant(self, base):
        """Damage or vary the JSON-RPC envelope of a message."""
        rng = self.rng
        o = dict(base)
        k = rng.randrange(9)
        if k == 0:
            o.pop("jsonrpc", None); why = "no-jsonrpc"
        elif k == 1:
            o["jsonrpc"] = rng.choice([2, 2.0, None, ["2.0"]]); why = "jsonrpc-not-string"
        elif k == 2:
            o["jsonrpc"] = rng.choice(["1.0", "", "3"]); why = "jsonrpc-other-string"
        elif k == 3:
            o["method"] = rng.choice([42, ["textDocument/hover"], {"m": 1}, True]); why = "method-not-string"
        elif k == 4:
            o["method"] = None; why = "method-null"
        elif k == 5:
            o["id"] = None; why = "id-null"
        elif k == 6:
            o["extra"] = {"unknown": "field"}; why = "extra-envelope-field"
        elif k == 7:
            seq = [o.get("jsonrpc", "2.0"), o.get("id"), o.get("method")]
            if rng.random() < 0.5:
                seq.append(o.get("params"))
            if rng.random() < 0.2:
                seq = seq[:rng.randrange(1, 3)]
            return seq, "array-envelope"
        else:
            return rng.choice([42, "str", None, True, [], [o], 1.5]), "non-object-message"
        return o, why

    # ---- one message
    def step(self):
        rng = self.rng
        if getattr(self, "just_closed", None) and rng.random() < 0.6:
            # a request on the document that was just closed: the store must have forgotten it
            uri, self.just_closed = self.just_closed, None
            if uri_info(uri)[1] not in self.open:
                meth = rng.choice(["textDocument/formatting", "textDocument/documentSymbol",
                                   "textDocument/hover", "textDocument/completion"])
                return self.msg({"jsonrpc": "2.0", "id": self.new_id(), "method": meth,
                                 "params": self.good_params(REQUESTS[meth][0], uri, None)}, ("g", uri),
                                "request-after-close")
        r = rng.random()
        if r < 0.16:                                      # didOpen
            uri = rng.choice(GOOD_URIS + (ALIAS_URIS if rng.random() < 0.2 else []))
            t = self.text()
            self.open[uri_info(uri)[1]] = t
            td = {"uri": uri, "languageId": "garden", "version": 1, "text": t}
            return self.msg({"jsonrpc": "2.0", "method": "textDocument/didOpen", "params": {"textDocument": td}},
                            "a", "didOpen")
        if r < 0.25 and self.open:                        # didChange
            uri, _ = self.pick_doc(True)
            t = self.text()
            changes = [{"text": t}]
            if rng.random() < 0.2:
                changes = [{"text": self.text()}, {"text": t}]
            self.open[uri_info(uri)[1]] = t
            return self.msg({"jsonrpc": "2.0", "method": "textDocument/didChange",
                             "params": {"textDocument": {"uri": uri, "version": 2}, "contentChanges": changes}},
                            "a", "didChange")
        if r < 0.29 and self.open:                        # didClose
            uri, _ = self.pick_doc(True)
            self.open.pop(uri_info(uri)[1], None)
            self.just_closed = uri
            return self.msg({"jsonrpc": "2.0", "method": "textDocument/didClose",
                             "params": {"textDocument": {"uri": uri}}}, "a", "didClose")
        if r < 0.33:                                      # malformed / unusable document sync
            m = rng.choice(["textDocument/didOpen", "textDocument/didChange", "textDocument/didClose"])
            uri = rng.choice(GOOD_URIS)
            ps = rng.choice([None, {}, [], {"textDocument": {}}, {"textDocument": {"uri": 42, "text": "x"}},
                             {"textDocument": {"uri": uri}}, {"textDocument": {"uri": uri, "text": 7}},
                             {"textDocument": {"uri": rng.choice(BAD_URIS + NONFILE_URIS), "text": "let x = 1"},
                              "contentChanges": [{"text": "let x = 1"}]},
                             {"textDocument": {"uri": uri}, "contentChanges": []},
                             {"textDocument": {"uri": uri}, "contentChanges": [{"range": None}]},
                             {"textDocument": {"uri": uri}, "contentChanges": "x"}, "absent"])
            o = {"jsonrpc": "2.0", "method": m}
            if ps != "absent":
                o["params"] = ps
            if rng.random() < 0.2:
                o["id"] = self.new_id()
            s = sync_of(m, o.get("params"))
            if s is not None:                              # e.g. didClose with only a uri is in fact valid
                if m == "textDocument/didClose":
                    self.open.pop(s[0], None)
                else:
                    self.open[s[0]] = s[2]
            return self.msg(o, "a", "sync-unusable" if s is None else "sync-minimal")
        if r < 0.70:                                      # request with good params
            meth = rng.choice([m for m in REQUESTS if m not in ("shutdown", "initialize")])
            shape = REQUESTS[meth][0]
            uri, text = self.pick_doc(rng.random() < 0.85)
            return self.msg({"jsonrpc": "2.0", "id": self.new_id(), "method": meth,
                             "params": self.good_params(shape, uri, text)}, ("g", uri),
                            "request-open" if text is not None else "request-unopened")
        if r < 0.80:                                      # request with malformed params
            meth = rng.choice([m for m in REQUESTS if m != "shutdown"])
            shape = REQUESTS[meth][0]
            uri, text = self.pick_doc(True)
            good = self.good_params(shape, uri, text)
            o = {"jsonrpc": "2.0", "id": self.new_id(), "method": meth}
            if rng.random() < 0.15:
                return self.msg(o, "a", "request-no-params")
            o["params"] = self.malform(shape, good)
            return self.msg(o, "b", "request-bad-params")
        if r < 0.84:                                      # unknown method
            o = {"jsonrpc": "2.0", "method": rng.choice(UNKNOWN_METHODS), "params": rng.choice([{}, None, [1], {"value": "off"}])}
            if rng.random() < 0.6:
                o["id"] = self.new_id()
                return self.msg(o, "a", "unknown-request")
            return self.msg(o, "a", "unknown-notification")
        if r < 0.87:                                      # request method without id
            meth = rng.choice(list(REQUESTS))
            uri, text = self.pick_doc(True)
            return self.msg({"jsonrpc": "2.0", "method": meth,
                             "params": self.good_params(REQUESTS[meth][0], uri, text)}, ("g", uri),
                            "request-method-without-id" if meth != "shutdown" else "shutdown-without-id")
        if r < 0.89:                                      # response from the client
            o = {"jsonrpc": "2.0", "id": rng.choice([1, "x", 99]), "result": None}
            if rng.random() < 0.3:
                o = {"jsonrpc": "2.0", "id": 1, "error": {"code": -32603, "message": "m"}}
            return self.msg(o, "a", "client-response")
        if r < 0.91:
            o = {"jsonrpc": "2.0", "method": "initialized", "params": {}}
            if rng.random() < 0.3:
                o["id"] = self.new_id()
            return self.msg(o, "a", "initialized")
        if r < 0.93:
            good = rng.random() < 0.7
            o = {"jsonrpc": "2.0", "id": self.new_id(), "method": "initialize"}
            o["params"] = self.good_params("init", None, None) if good else self.malform("init", None)
            return self.msg(o, ("g", None) if good else "b", "initialize-again")
        # envelope variants of an otherwise ordinary request / notification
        meth = rng.choice(list(REQUESTS) + ["textDocument/didOpen", "nosuch/method"])
        uri, text = self.pick_doc(True)
        shape = REQUESTS.get(meth, ("doc", None))[0]
        base = {"jsonrpc": "2.0", "id": self.new_id(), "method": meth}
        ps = self.good_params(shape, uri, text)
        if ps is not None:
            base["params"] = ps
        ptag = ("g", uri if shape != "init" else None) if "params" in base else "a"
        if meth == "shutdown":
            ptag = "a"
        o, why = self.envelope_variant(base)
        if isinstance(o, dict) and meth == "textDocument/didOpen" and envelope(o)[0] and o.get("method") == meth:
            pass  # didOpen params here are {"textDocument": {"uri"}} without text: sync is None anyway
        return self.msg(o, ptag, why)

    def session(self, maxlen):
        rng = self.rng
        n = rng.randint(4, maxlen)
        ms = []
        if rng.random() < 0.75:
            ms.append(self.msg({"jsonrpc": "2.0", "id": self.new_id(), "method": "initialize",
                                "params": self.good_params("init", None, None)}, ("g", None), "initialize"))
            if rng.random() < 0.8:
                ms.append(self.msg({"jsonrpc": "2.0", "method": "initialized", "params": {}}, "a", "initialized"))
        if rng.random() < 0.7:
            # most clients open a document right away
            uri = rng.choice(GOOD_URIS)
            t = self.text()
            self.open[uri_info(uri)[1]] = t
            ms.append(self.msg({"jsonrpc": "2.0", "method": "textDocument/didOpen",
                                "params": {"textDocument": {"uri": uri, "languageId": "garden", "version": 1,
                                                            "text": t}}}, "a", "didOpen"))
        ending = rng.random()
        tail = []
        if ending < 0.30:
            tail = [self.msg({"jsonrpc": "2.0", "id": self.new_id(), "method": "shutdown"}, "a", "shutdown"),
                    self.msg({"jsonrpc": "2.0", "method": "exit"}, "a", "exit-after-shutdown")]
        elif ending < 0.40:
            tail = [self.msg({"jsonrpc": "2.0", "method": "exit"}, "a", "exit-without-shutdown")]
        elif ending < 0.45:
            tail = [self.msg({"jsonrpc": "2.0", "method": "shutdown", "params": None}, "a", "shutdown-without-id"),
                    self.msg({"jsonrpc": "2.0", "id": self.new_id(), "method": "exit", "params": {}}, "a", "exit-with-id")]
        body_n = max(0, n - len(ms) - len(tail))
        body = [self.step() for _ in range(body_n)]
        if tail and rng.random() < 0.25 and body:
            # exit in the middle: what follows must be ignored by the real server
            k = rng.randrange(len(body))
            self.labels.add("messages-after-exit")
            return ms + body[:k] + tail + body[k:]
        if tail and rng.random() < 0.3 and len(tail) == 2 and body:
            # requests between shutdown and exit are still served
            k = rng.randrange(len(body))
            self.labels.add("requests-after-shutdown")
            return ms + body[:k] + [tail[0]] + body[k:] + [tail[1]]
        return ms + body + tail


def probe_messages(tag):
    """Final liveness probe appended to sessions without `exit`: one known request on an unopened
    document and one unknown request."""
    return [dict(obj={"jsonrpc": "2.0", "id": "probe-hover-%s" % tag, "method": "textDocument/hover",
                      "params": {"textDocument": {"uri": "file://%s/never-opened.gdn" % BASE},
                                 "position": {"line": 0, "character": 0}}},
                 ptag=("g", "file://%s/never-opened.gdn" % BASE), why="probe"),
            dict(obj={"jsonrpc": "2.0", "id": "probe-unknown-%s" % tag, "method": "verif/probe"}, ptag="a",
                 why="probe")]
