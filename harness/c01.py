"""C01 — Front end never crashes on any source text.

Proof: GardenVerif.Props.C01Lex (lex_no_panic, lex_terminates, lex_tokens_cover over the lexer model M1,
tables tied to the source by decide) and GardenVerif.Props.C01Parse (`parse_no_panic`: the whole parser model
never panics, for every fuel, on every non-empty token list satisfying `LexLike`; `lex_lexLike`: the lexer
model's tokens satisfy `LexLike`; `lex_parse_no_panic`: the composition, no hypothesis; pinned-tree panics kept
as witnesses).
Tie: `lex` op vs the lexer model; the parser model on the REAL lexer's tokens vs the real parser
(trees, diagnostic kinds, PANIC <=> PANIC at the same site).
Direct oracle on the implementation: the `front` hook op (lex + parse + check + format under
catch_unwind) on every generated text; every crash is re-run through the CLI (`garden check`, `garden
format`) before it is reported. Streams: raw characters, token sequences, string/comment-dense texts,
perturbed seed files, all seed files, EVERY TOKEN-BOUNDARY PREFIX of seed and generated programs
(unterminated constructs), exhaustive short strings and exhaustive short token sequences.
"""
import itertools
import os
import re
from . import text_gen as TG
from . import ast_dump as AD
from . import prog_core_gen as PG
from .common import hexs, unhex, pmap, crashed, REPO

LEAN_MODULES = ["GardenVerif.Props.C01Lex", "GardenVerif.Props.C01Parse"]

TOKEN_ALPHABET = ["let", "fun", "x", "1", "(", ")", "{", "}", ",", "=", ":", "+", '"s"', "match", "=>",
                  "if", "else", ".", "::", "[", "]", "<", ">", "enum", "test", "import", "for", "in",
                  "return", "struct", "method", "public", "while", "-1", "1.5", "\n"]


def panic_site(msg):
    m = re.search(r"panicked at ([\w/\.]+):(\d+)", msg)
    return "%s:%s" % (m.group(1), m.group(2)) if m else "unknown"


def prefixes(ctx, src, step=1):
    """Every prefix of src that ends at a token boundary (offsets from the real lexer)."""
    r = ctx.garden_batch(["lex " + hexs(src)])[0] or ""
    ends = sorted({int(m.group(1)) for m in re.finditer(r"\(tok [0-9a-f]* \d+:(\d+):", r)})
    b = src.encode("utf-8")
    return [b[:e].decode("utf-8", "ignore") for e in ends[::step]]


KEYWORDS = ["let", "fun", "enum", "struct", "import", "if", "else", "while", "return", "test", "match",
            "break", "continue", "for", "in", "assert", "as", "method", "public", "shared", "try", "catch"]


def corpus_texts():
    """corpus/C01/*.txt: inputs that crashed the front end on some tree; run first."""
    d = os.path.join(os.path.dirname(os.path.dirname(os.path.abspath(__file__))), "corpus", "C01")
    out = []
    if os.path.isdir(d):
        for f in sorted(os.listdir(d)):
            if f.endswith(".txt"):
                out.append(open(os.path.join(d, f), encoding="utf-8").read())
    return out


def keyword_line_brace(rng, n_random):
    """Keywords (and names) at the START OF A LINE glued to `{`: `parse_symbol` does not consume a keyword
    that is on a later line than the previous token, which made `parse_struct_literal` recurse without
    bound. Exhaustive over keywords x contexts x bodies, plus random token sequences whose separators
    are drawn from '', ' ' and newlines (the exhaustive token stream only uses ' ')."""
    out = []
    contexts = ["", "x\n", "{ x\n", "f(1,\n", "let y = 2\n", "x +\n", "[1,\n", "if x {\n1\n}\n", "x\n\n"]
    bodies = ["{", "{ }", "{ a: 1 }", "{\n", "{ a: 1,", " {", "{}\nx"]
    for kw in KEYWORDS + ["Foo", "_", "Dict"]:
        for c in contexts:
            for b in bodies:
                out.append(c + kw + b)
    alpha = TOKEN_ALPHABET + KEYWORDS + ["Foo", "a", ":", "Dict"]
    for _ in range(n_random):
        k = rng.randint(1, 9)
        t = ""
        for _ in range(k):
            t += rng.choice(alpha) + rng.choice(["", "", " ", " ", "\n", "\n", "\n\n"])
        out.append(t)
    return out


def string_boundary_texts():
    """Source texts around string literals whose values sit on the boundaries of the escape / closing-quote
    logic (trailing backslashes, escaped quote at the end, quote-backslash mixes, escapes, braces,
    non-ASCII), closed and unclosed, alone and inside calls, lists, dicts, struct literals and blocks."""
    from . import tree_gen as G

    def esc(v):
        return '"' + v.replace("\\", "\\\\").replace('"', '\\"').replace("\n", "\\n").replace("\t", "\\t") + '"'
    out = []
    for v in G.STRINGS:
        lit = esc(v)
        out += [lit, lit + " ", "x = " + lit, "f(" + lit + ", " + lit + ")", "[" + lit + "]", "Dict[" + lit + " => 1]",
                "Foo{ a: " + lit + " }", "{\n  " + lit + "\n  \"b\"\n}", lit + " " + lit, lit + lit,
                lit[:-1], lit[:-1] + "\n\"b\"", "let s = " + lit + "\nprintln(s)\nlet t = \"b\"",
                "import " + lit, lit + ".len()", "// " + lit + "\n" + lit]
    return out


def _is_float_chars(cs):
    """Parse.isFloatChars (FLOAT_RE.is_match as a prefix test)."""
    if cs[:1] == "-":
        cs = cs[1:]
    if not cs or not ("0" <= cs[0] <= "9"):
        return False
    r = cs[1:]
    i = 0
    while i < len(r) and ("0" <= r[i] <= "9" or r[i] == "_"):
        i += 1
    return r[i:i + 1] == "." and ("0" <= r[i + 1:i + 2] <= "9") and len(r) > i + 1


def _float_whole(cs):
    """Parse.floatWhole on the text with '_' removed."""
    cs = cs.replace("_", "")
    if cs[:1] == "-":
        cs = cs[1:]
    i = 0
    while i < len(cs) and "0" <= cs[i] <= "9":
        i += 1
    a, rest = cs[:i], cs[i:]
    if rest[:1] != ".":
        return False
    b = rest[1:]
    return bool(a) and bool(b) and all("0" <= c <= "9" for c in b)


_TOKPOS = re.compile(r"\(tok ([0-9a-f]*) \d+:\d+:(\d+):(\d+):")


def lexlike_violation(lex_line):
    """`Parse.LexLike` (hypothesis of parse_no_panic) on a real token stream: a float-looking token is a
    whole float; a symbol-like token sits on one line. Returns None or a description."""
    for h, line, endline in _TOKPOS.findall(lex_line or ""):
        text = bytes.fromhex(h).decode("utf-8", "replace")
        if _is_float_chars(text) and not _float_whole(text):
            return "float-looking token %r is not a whole float" % text
        if text[:1] and (text[0].isascii() and (text[0].isalpha() or text[0] == "_")) and line != endline:
            return "symbol-like token %r spans lines %s-%s" % (text, line, endline)
    return None


def run(ctx):
    rng = ctx.rng
    streams = {}
    streams["corpus"] = corpus_texts()
    n = ctx.scale(800, 60000)
    streams["raw"] = [TG.raw(rng) for _ in range(n)]
    streams["tokens"] = [TG.tokens(rng) for _ in range(n)]
    streams["stringy"] = [TG.stringy(rng) for _ in range(n // 2)]
    streams["perturbed"] = [TG.perturbed(rng, REPO) for _ in range(ctx.scale(300, 20000))]
    seeds = [t for _, t in TG.seeds(REPO)]
    streams["seeds"] = seeds
    gen_progs = [PG.gen_program(rng, size=rng.choice([10, 25]), err_rate=0.0)[0] for _ in range(ctx.scale(40, 400))]
    pref = []
    for s in rng.sample(seeds, min(len(seeds), ctx.scale(40, 400))) + gen_progs:
        if len(s) < 3000:
            pref += prefixes(ctx, s, step=1 if len(s) < 600 else 3)
    if len(pref) > ctx.scale(2500, 60000):
        pref = rng.sample(pref, ctx.scale(2500, 60000))
    streams["prefixes"] = pref
    k = ctx.scale(2, 3)
    alpha = TOKEN_ALPHABET if not ctx.quick() else TOKEN_ALPHABET[:26]
    streams["token_seqs_exhaustive"] = [" ".join(t) for d in range(1, k + 1)
                                        for t in itertools.product(alpha, repeat=d)]
    streams["chars_exhaustive"] = list(TG.exhaustive(TG.EXHAUSTIVE_ALPHABET, ctx.scale(3, 4)))
    fixed = ["let x = é", "1 + 2", "(1, })", "let (a", "let (a,", "fun f(a,", "let x: (A,", "fun broken(",
             "﻿x", "#!/x\n1", '"', '"\\', "match x {", "if", "x.", "x::", "Foo{", "[1,", "fun(", "enum E {",
             "struct S { a:", "test t {", "import", 'import "x" as', "public", "method f(this", "1 ** ", "((((",
             "}}}}", "))))", ",,,,", "=> =>", "let = =", "for in in", "return return", "x.0", "1.2.3", "a--1"]
    streams["fixed"] = fixed
    streams["keyword_line_brace"] = keyword_line_brace(rng, ctx.scale(1500, 60000))
    streams["string_boundaries"] = string_boundary_texts()
    # well-formed programs with NON-ASCII WHITESPACE (U+00A0, U+3000, U+2003, U+2028, U+FEFF) or other multi-byte
    # characters inserted at, or replacing the blank at, one token boundary: after `:`, `(`, `,`, `=`, `{`, before
    # `)`, between words (seeded C01-2: the formatter's type-annotation spacing sliced one BYTE after a colon)
    wide = ["\u00a0", "\u3000", "\u2003", "\u2028", "\ufeff", "\u00e9", "\U0001f600"]
    base = [t for t in seeds if 0 < len(t) < 1500] + gen_progs
    nb = []
    import re as _re
    for _ in range(ctx.scale(600, 20000)):
        t = rng.choice(base)
        spots = [m.end() for m in _re.finditer(r"[:(,={\[]|\b(let|fun|in|if|return)\b", t)] + \
                [m.start() for m in _re.finditer(r"[)}\]]| ", t)]
        if not spots:
            continue
        k2 = rng.choice(spots)
        w = rng.choice(wide) * rng.choice([1, 1, 2])
        if rng.random() < 0.5 and t[k2:k2 + 1] == " ":
            nb.append(t[:k2] + w + t[k2 + 1:])
        else:
            nb.append(t[:k2] + w + t[k2:])
    nb += ["fun f(x:\u00a0Int) { x }", "fun f(x:\u3000Int):\u00a0Int { x }", "let x:\u2003(Int, Int) = (1, 2)",
           "struct S { a:\u00a0Int }", "fun f(g:\u00a0Fun<(Int),\u00a0Int>) { g(1) }"]
    streams["wide_at_boundaries"] = nb
    ctx.rule = ("texts from 13 streams (non-ASCII whitespace / multi-byte characters inserted at token boundaries of well-formed programs; corpus/C01 crash inputs first; string literals over a boundary alphabet of "
                "values (trailing backslashes, escaped quotes at the end, quote/backslash mixes, escapes, braces, "
                "non-ASCII; closed and unclosed, in 16 contexts); keywords and names at the start of a line glued "
                "to `{` in 9 contexts x 7 bodies + random token sequences with '', ' ' and newline separators; "
                "raw weighted characters incl. 2/3/4-byte and non-ASCII whitespace; whole-token "
                "sequences; string/comment-dense; perturbed seed files; all %d seed files; every token-boundary prefix "
                "of seed and generated programs; exhaustive token sequences of length <= %d over %d tokens; exhaustive "
                "strings of length <= %d over 14 symbols; fixed regressions). Non-trivial = the text is not empty and "
                "produced at least one token (it reached the parser)." % (len(seeds), k, len(alpha), ctx.scale(3, 4)))
    ctx.log("streams generated")
    all_texts, origin = [], []
    for name, ts in streams.items():
        for t in ts:
            all_texts.append(t)
            origin.append(name)
    ctx.cov["stream_sizes"] = {k2: len(v) for k2, v in streams.items()}

    # ---------------- direct oracle: front op (lex + parse + check + format), then CLI confirmation
    res = ctx.garden_batch(["front " + hexs(t) for t in all_texts], timeout=1800)
    ctx.log("front done on %d texts" % len(all_texts))
    crashes = []
    outcome_hist = {"ok_clean": 0, "ok_parse_errors": 0, "ok_diagnostics": 0, "panic": 0, "died": 0}
    for t, o, r in zip(all_texts, origin, res):
        nontrivial = False
        if r is not None and r.startswith("OK (front "):
            parts = r[len("OK (front "):].split(" ")
            nerr, ndiag = int(parts[0]), int(parts[1])
            outcome_hist["ok_parse_errors" if nerr else ("ok_diagnostics" if ndiag else "ok_clean")] += 1
            nontrivial = bool(t.strip())
        elif r is not None and r.startswith("PANIC "):
            outcome_hist["panic"] += 1
            crashes.append((t, o, unhex(r[6:])))
            nontrivial = True
        else:
            outcome_hist["died"] += 1
            crashes.append((t, o, "process died: %r" % (r,)))
            nontrivial = True
        ctx.case(t, nontrivial)
    ctx.cov["front_outcomes"] = outcome_hist
    d = ctx.scratch("cli")
    seen_sites = {}
    for t, o, msg in crashes:
        site = panic_site(msg)
        if site in seen_sites and seen_sites[site] >= 3:
            continue
        seen_sites[site] = seen_sites.get(site, 0) + 1
        p = os.path.join(d, "c%d.gdn" % len(seen_sites) + "_%d" % seen_sites[site])
        open(p, "w", encoding="utf-8").write(t)
        confirmed = None
        for cmd in (["check", p], ["format", p], ["reftest-ast", p]):
            rc, so, se = ctx.garden(cmd, timeout=30)
            if crashed(rc):
                confirmed = (cmd[0], rc, (se or "")[-300:])
                break
        key = "C01/panic/" + site if site != "unknown" else "C01/crash/" + o
        if confirmed:
            ctx.fail(key, "front end crashed (%s): `garden %s` exit %s" % (msg[:160], confirmed[0], confirmed[1]),
                     input=t, stream=o, cli=confirmed)
        else:
            ctx.fail(key, "front end crashed in-process (%s); the CLI did not reproduce it" % msg[:160],
                     input=t, stream=o)
    # native stack probes (known limitation of a recursive-descent parser in a debug build)
    for depth in (ctx.scale(2000, 20000),):
        p = os.path.join(d, "deep.gdn")
        open(p, "w").write("(" * depth + "1" + ")" * depth)
        rc, so, se = ctx.garden(["check", p], timeout=60)
        ctx.case(("deep-parens", depth), True)
        if crashed(rc) or rc == -9999:
            ctx.fail("C01/native-stack-depth", "%d nested parentheses overflow the native stack (exit %s)" % (depth, rc),
                     input="'(' * %d + '1' + ')' * %d" % (depth, depth))
    ctx.sample({"text": all_texts[3], "stream": origin[3], "front": res[3][:80] if res[3] else None})
    ctx.sample({"text": streams["prefixes"][5] if len(streams["prefixes"]) > 5 else "", "stream": "prefixes"})

    ctx.log("oracle done")
    # ---------------- LexLike, the hypothesis of parse_no_panic about lexer output, on EVERY real token stream
    lex_all = ctx.garden_batch(["lex " + hexs(t) for t in all_texts], timeout=1800)
    n_ll = n_tok_streams = 0
    for t, o, l in zip(all_texts, origin, lex_all):
        if not (l and l.startswith("OK")):
            continue
        n_tok_streams += 1
        v = lexlike_violation(l)
        if v:
            n_ll += 1
            if n_ll <= 5:
                ctx.broken.append({"kind": "correspondence", "what": "hypothesis LexLike of parse_no_panic does not "
                                   "hold on the real lexer's output: " + v, "input": t, "stream": o})
    ctx.cov["lexlike_token_streams_checked"] = n_tok_streams
    ctx.cov["lexlike_violations"] = n_ll
    ctx.log("LexLike checked on %d real token streams" % n_tok_streams)
    # ---------------- correspondence: lexer model, parser model on the real tokens
    sub = [t for t in all_texts if len(t) < 400]
    sub = rng.sample(sub, min(len(sub), ctx.scale(3000, 80000))) + fixed + streams["corpus"] + \
        streams["string_boundaries"] + \
        streams["keyword_line_brace"][:ctx.scale(1200, 20000)]
    li = ctx.garden_batch(["lex " + hexs(t) for t in sub])
    lm = ctx.model_batch(["lex " + hexs(t) for t in sub])
    for t, a, b in zip(sub, li, lm):
        if a != b and not (a and b and a.startswith("PANIC") and b.startswith("PANIC")):
            ctx.disagree("lex", {"text": t}, (b or "")[:300], (a or "")[:300])
    ctx.cov["lex_compared"] = len(sub)
    ctx.log("lex correspondence done")
    psub = [t for t in sub if len(t) < 200]
    psub = psub[:ctx.scale(2000, 50000)] + [t for t in psub[ctx.scale(2000, 50000):] if t in set(streams["corpus"]) or t in set(streams["string_boundaries"])
                                            or t in set(streams["keyword_line_brace"][:ctx.scale(1200, 20000)])]
    both = AD.parse_both(ctx, psub)
    ndis = 0
    for r in both:
        if "error" in r["impl"]:
            continue   # dump reader limitation, not a parser fact
        if not AD.same_outcome(r):
            ndis += 1
            if ndis <= 20:
                ctx.disagree("parse_tokens", {"text": r["src"]}, str(r["model"])[:300], str(r["impl"])[:300])
    ctx.cov["parse_compared"] = len(both)
    ctx.cov["parse_disagreements"] = ndis
    import shutil
    shutil.rmtree(d, ignore_errors=True)
    ctx.assumptions += ["lexer model M1 and parser model M2 are hand-written; tied by the correspondence runs",
                        "parse_no_panic assumes `LexLike toks` (float-looking tokens are whole floats, symbol-like "
                        "tokens sit on one line): proved for the lexer MODEL (lex_lexLike) and additionally checked on "
                        "every REAL token stream of this run (coverage.lexlike_token_streams_checked, lexlike_violations)",
                        "the theorems are about panics only: with too little fuel the models answer outOfFuel; "
                        "non-termination / native stack depth of the real parser is covered by the oracle only",
                        "the type checker and the formatter are not modelled: for them the oracle is the only evidence",
                        "the native stack is not modelled (fixed-depth probe only)"]
