"""C19 — Rename changes exactly the occurrences of one variable.

Level: translation validation (certified validator).
Proof (GardenVerif.Props.C19): `alphaCheck_sound` (the decision procedure implies `IsAlphaRename`), `alpha_sound`
(alpha-renaming one binder to a fresh name leaves the observable behaviour — end of run and printed output — of the
FULL reference semantics unchanged, closures included, all fuel; via `alpha_sound_related`: results and stores related by
the value relation `VRel`), `alpha_sound_exact_closure_free` (closure-free restriction: the runs are equal),
`apply_renames_spec` (exact model of `apply_renames`: the tokens at the given positions are replaced, every gap is
untouched, no panic).
Per input: the real `rename` (hook op `refactor rename` = the function behind `garden reftest-rename`; a sample
also through the CLI) is run at EVERY local symbol occurrence (definition or use; let / parameter / for / match /
closure-parameter binders) of generated programs; the Lean driver evaluates `alphaCheck` on the two trees of the
REAL parser and the uses its resolver assigns to the binder.
Direct oracle (no model): (1) the output text equals the input with exactly the occurrences that an independent
Python resolver assigns to the same binder replaced (so shadowed / sibling / unrelated same-named variables must
NOT change, and closure uses must); (2) the real evaluator prints the same and ends the same on before / after;
(3) LSP `textDocument/rename` edits applied to the text give the same text.
Correspondence of the reference semantics itself: `refsem_run` vs the real evaluator's output on every program.
"""
import json
import os
import re
from . import common
from . import refactor_common as RC
from .common import hexs

LEAN_MODULES = ["GardenVerif.Props.C19"]
LEVEL = "translation_validation"
NEW = "renamed_v"


def lsp_texts(ctx, d, idx, src, offsets, new):
    """Apply the edits of textDocument/rename at each offset: {offset: text | None}."""
    from . import c29
    path = os.path.join(d, "p%d.gdn" % idx)
    with open(path, "w") as f:
        f.write(src)
    uri = "file://" + path
    msgs = [{"jsonrpc": "2.0", "method": "textDocument/didOpen", "params": {"textDocument": {
        "uri": uri, "languageId": "garden", "version": 1, "text": src}}}]
    for k, off in enumerate(offsets):
        msgs.append({"jsonrpc": "2.0", "id": k + 1, "method": "textDocument/rename", "params": {
            "textDocument": {"uri": uri}, "position": c29.char_to_pos(src, off), "newName": new}})
    jl = os.path.join(d, "p%d.jsonl" % idx)
    with open(jl, "w") as f:
        for m in msgs:
            f.write(json.dumps(m) + "\n")
    rc, so, se = ctx.garden(["reftest-lsp", jl], input=b"", timeout=120)
    if isinstance(so, bytes):
        so = so.decode("utf-8", "replace")
    if common.crashed(rc) or rc == -9999:
        return {"crash": rc}
    answers = {o["id"]: o for o in c29.parse_stream(so) if isinstance(o, dict) and "id" in o and "method" not in o}
    out = {}
    for k, off in enumerate(offsets):
        a = answers.get(k + 1)
        if a is None or "error" in a or not a.get("result"):
            out[off] = (None, "no result: %r" % (a,))
            continue
        eds = (a["result"].get("changes") or {}).get(uri)
        if eds is None:
            out[off] = (None, "no edits for the document")
            continue
        out[off] = c29.apply_edits(src, eds)
    return out


def run(ctx):
    rng = ctx.rng
    nprog = ctx.scale(300, 5000)
    max_occ = ctx.scale(10, 40)          # occurrences sampled per program (all binders covered first)
    ctx.rule = ("%d generated core-fragment programs over a 6-name pool (shadowing in the same and in nested blocks, "
                "sibling scopes reusing a name, closures capturing variables, function and closure parameters, for / "
                "match-payload binders, assignment and +=); rename at local symbol occurrences (one per binder first, then "
                "random ones up to %d per program; definition and use sites) to a fresh name. Non-trivial = the renamed "
                "name has another binder or an unrelated use elsewhere in the program (something must NOT change)."
                % (nprog, max_occ))
    progs = [RC.gen_program(rng, size=rng.choice([15, 28, 40])) for _ in range(nprog)]
    srcs = [p for p, _ in progs]
    feats = {}
    for _, f in progs:
        for k, v in f.items():
            feats[k] = feats.get(k, 0) + v
    n = len(srcs)
    r = ctx.garden_batch(["astq " + hexs(s) for s in srcs] + ["astx " + hexs(s) for s in srcs] +
                         [RC.run_line(s) for s in srcs])
    astq, astx, runs = r[:n], r[n:2 * n], r[2 * n:]
    # ---- reference semantics vs the real evaluator on every program
    rs = ctx.model_batch([RC.refsem_line(a) if a and a.startswith("OK (astx 0") else "ping" for a in astx])
    sem_cmp = sem_skip = sem_order = 0
    before = []
    for i, s in enumerate(srcs):
        before.append(RC.run_result(runs[i]))
        kind, detail, out = before[i]
        if kind in ("panic", "died"):
            ctx.fail("C19/crash", "evaluator crashed on a generated program: %s" % detail, src=s)
        m = RC.refsem_result(rs[i])
        want = RC.refsem_class(kind, detail)
        if m is None or want is None or m[0].startswith("timeout") or m[0].startswith("unsupported"):
            sem_skip += 1
            continue
        sem_cmp += 1
        if m[0] == want and m[1] != out and sorted(m[1].split("\n")) == sorted(out.split("\n")):
            # recorded model limit: RefSem evaluates the items of an argument list / list literal left to right,
            # eval.rs evaluates them last-first (they are pushed on the pending stack in order). Programs in which
            # two items of one list both print therefore print the same lines in another order. Same outcome and
            # same multiset of lines: not counted as a disagreement (first thorough sweep).
            sem_order += 1
            continue
        if m[0] != want or m[1] != out:
            ctx.disagree("refsem_run", {"src": s}, {"outcome": m[0], "out": m[1]}, {"outcome": want, "out": out})
    ctx.cov["refsem_vs_evaluator"] = {"compared": sem_cmp, "skipped": sem_skip,
                                      "same_lines_other_order_(argument_evaluation_order_model_limit)": sem_order}
    # ---- occurrences
    jobs = []
    trees = {}
    for i, s in enumerate(srcs):
        if not astq[i] or not astq[i].startswith("OK (astq 0"):
            ctx.fail("C19/generator", "generated program does not parse", src=s)
            continue
        t = RC.Tree(astq[i])
        trees[i] = t
        occs = t.local_occs()
        by_site = {}
        for o in occs:
            by_site.setdefault(o.site, []).append(o)
        chosen = []
        for site, os_ in by_site.items():
            chosen.append(rng.choice(os_))
        rest = [o for o in occs if o not in chosen]
        rng.shuffle(rest)
        chosen = (chosen + rest)[:max_occ] if len(chosen) < max_occ else rng.sample(chosen, max_occ)
        for o in chosen:
            off = o.start if rng.random() < 0.7 else o.end - 1
            jobs.append((i, o, off))
    ctx.log("programs %d, rename jobs %d, features %s" % (n, len(jobs), feats))
    res = ctx.garden_batch([RC.tool_line("rename", srcs[i], off, off, NEW) for i, o, off in jobs])
    afters = {}
    stats = {"ok": 0, "tool-err": 0, "def": 0, "use": 0, "assign": 0, "closure-capture": 0, "shadowed-elsewhere": 0}
    checked = []
    for (i, o, off), x in zip(jobs, res):
        src, t = srcs[i], trees[i]
        k, txt = RC.tool_result(x)
        same = t.same_binder(o.site)
        others = [q for q in t.occs if q.name == o.name and q.site != o.site]
        ctx.case((src, o.start), bool(others))
        stats[o.role] += 1
        if others:
            stats["shadowed-elsewhere"] += 1
        rep = dict(src=src, offset=off, name=o.name, new_name=NEW, site=RC.site_str(o.site),
                   cmd="garden reftest-rename f.gdn %d --new-name %s" % (off, NEW))
        if k in ("panic", "died"):
            ctx.fail("C19/crash", "rename crashed: %s" % txt[:200], **rep)
            continue
        if k == "err":
            stats["tool-err"] += 1
            ctx.fail("C19/refused/" + re.sub(r"[^a-z]+", "-", txt.lower())[:40],
                     "rename refused a local symbol occurrence: %s" % txt, **rep)
            continue
        stats["ok"] += 1
        exp = RC.replace_spans(src, [(q.start, q.end) for q in same], NEW)
        if txt != exp:
            ctx.fail("C19/wrong-occurrences", "rename changed other occurrences than the ones that resolve to the "
                     "binder (independent resolver)", expected=exp, got=txt, **rep)
        afters.setdefault(txt, []).append((i, o, off))
        checked.append((i, o, off, txt))
        if len(ctx.samples) < 6 and others:
            ctx.sample(dict(src=src, offset=off, renamed=o.name, output=txt))
    ctx.log('rename calls done')
    # ---- after-trees, after-runs
    texts = list(afters)
    m = len(texts)
    r2 = ctx.garden_batch(["astx " + hexs(s) for s in texts] + [RC.run_line(s) for s in texts])
    ax2, run2 = dict(zip(texts, r2[:m])), dict(zip(texts, r2[m:]))
    run_diff = 0
    scratch = ctx.scratch("c19")
    for txt in texts:
        i, o, off = afters[txt][0]
        b = before[i]
        a = RC.run_result(run2[txt])
        a_n = (a[0], RC.err_class(a[1], [NEW, o.name]), a[2])
        b_n = (b[0], RC.err_class(b[1], [NEW, o.name]), b[2])
        if a_n != b_n:
            run_diff += 1
            # the CLI is the oracle of record
            c1, c2 = RC.cli_run(ctx, srcs[i], scratch, "b"), RC.cli_run(ctx, txt, scratch, "a")
            if c1[1] != c2[1] or (c1[0] != c2[0]):
                ctx.fail("C19/behaviour-changed", "the renamed program prints or ends differently",
                         src=srcs[i], offset=off, new_name=NEW, after=txt, before_run=b_n, after_run=a_n,
                         cmd="garden run on both texts")
    ctx.log('after runs done')
    # ---- the Lean validator on the two real trees
    lines, meta = [], []
    for i, o, off, txt in checked:
        a, b = astx[i], ax2[txt]
        if not (a and a.startswith("OK (astx") and b and b.startswith("OK (astx")):
            ctx.fail("C19/output-does-not-parse", "astx failed on the renamed program", src=srcs[i], after=txt)
            continue
        lines.append("alpha_check %s %s %s %s %s" % (RC.site_str(o.site), o.name, NEW, a[3:], b[3:]))
        meta.append((i, o, off, txt))
    lr = ctx.model_batch(lines)
    val_ok = closure_free = 0
    for (i, o, off, txt), x in zip(meta, lr):
        mm = re.match(r"^OK \(alpha (\d) (\d) (\S+) (\d) \(uses([ \d]*)\)\)$", x or "")
        if not mm:
            ctx.disagree("alpha_check", {"src": srcs[i], "offset": off}, x, "rename succeeded")
            continue
        chk, fr, nm, cf, uses = mm.groups()
        t = trees[i]
        py_uses = sorted(int(q.node[1]) for q in t.same_binder(o.site) if q.role != "def")
        lean_uses = sorted(int(u) for u in uses.split())
        if chk != "1" or fr != "1" or nm != o.name:
            ctx.disagree("alpha_check", {"src": srcs[i], "offset": off, "site": RC.site_str(o.site), "after": txt},
                         "IsAlphaRename=%s fresh=%s name-at-site=%s" % (chk, fr, nm), "tool output accepted by the text oracle")
        elif py_uses != lean_uses:
            ctx.disagree("resolve", {"src": srcs[i], "site": RC.site_str(o.site)}, lean_uses, py_uses)
        else:
            val_ok += 1
            closure_free += cf == "1"
    ctx.log('validator done')
    # ---- LSP rename = CLI rename; CLI sample = hook
    by_prog = {}
    for i, o, off, txt in checked:
        by_prog.setdefault(i, []).append((off, txt))
    lsp_progs = sorted(by_prog)[:ctx.scale(40, 600)]

    def lsp_job(i):
        offs = by_prog[i][:6]
        return i, offs, lsp_texts(ctx, scratch, i, srcs[i], [o for o, _ in offs], NEW)
    lsp_cmp = 0
    for i, offs, got in common.pmap(lsp_job, lsp_progs):
        if "crash" in got:
            ctx.fail("C19/lsp-crash", "reftest-lsp crashed on rename requests", src=srcs[i])
            continue
        for off, txt in offs:
            text, prob = got.get(off, (None, "missing"))
            lsp_cmp += 1
            if text != txt:
                ctx.fail("C19/lsp-differs", "textDocument/rename edits give a different text than reftest-rename (%s)" % prob,
                         src=srcs[i], offset=off, new_name=NEW, cli=txt, lsp=text)

    def cli_job(job):
        i, o, off, txt = job
        path = os.path.join(scratch, "c%d_%d.gdn" % (i, off))
        with open(path, "w") as f:
            f.write(srcs[i])
        rc, so, se = ctx.garden(["reftest-rename", path, str(off), "--new-name", NEW], timeout=60)
        return job, rc, so
    ctx.log('lsp done')
    cli_n = 0
    for (i, o, off, txt), rc, so in common.pmap(cli_job, checked[::max(1, len(checked) // ctx.scale(60, 1500))]):
        cli_n += 1
        if so != txt:
            ctx.disagree("hook-vs-cli", {"src": srcs[i], "offset": off}, txt, {"rc": rc, "stdout": so})
    RC.cleanup(scratch)
    ctx.cov.update(programs=n, disagreements_checked=len(checked), rename_calls=len(jobs), occurrence_kinds=stats,
                   distinct_outputs=m, validator_accepted=val_ok, validator_closure_free=closure_free,
                   before_after_runs_compared=m, before_after_runs_reexamined_by_cli=run_diff,
                   lsp_rename_compared=lsp_cmp, cli_rename_compared=cli_n, features=feats)
    ctx.assumptions += [
        "RefSem (Model/RefSem.lean) is a reference semantics, not a transcription of eval.rs; it is tied to the real "
        "evaluator by the refsem_run comparison on every generated program (output and outcome kind)",
        "sources are ASCII, so byte offsets = UTF-16 offsets in the LSP comparison",
    ]
    ctx.log("validator accepted %d/%d (closure-free %d); run diffs re-examined %d; lsp %d; cli %d; stats %s" % (
        val_ok, len(checked), closure_free, run_diff, lsp_cmp, cli_n, stats))
