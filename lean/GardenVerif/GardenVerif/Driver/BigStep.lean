import GardenVerif.Driver.Sexp
import GardenVerif.Driver.Machine
import GardenVerif.Model.BigStep
/-! Driver op for M5: `bigstep_run <fuel> <astx sexpr>`.
Parses the `astx` dump of the real parser (same reader as `machine_run`), runs the big-step
reference interpreter and answers `OK (bigstep <outcome> (out <hex>) (wf 0|1) (exits 0|1) (level n))` (the last three: the
fragment predicates `wfProgram`, `exitsProgram`, `levelProgram` of the real tree) with the outcome written as
the `machine` ops write it: `(ok <value>)`, `(err <kind>)`, `(unsupported <hex>)`,
`(out-of-fuel)`, and `(escaped break|continue)` for an exit statement outside any loop. -/

namespace DriverBigStep
open Machine BigStep

def outcomeStr : Outcome → String
  | .val v => s!"(ok {DriverMachine.valueShort v})"
  | .ret v => s!"(ok {DriverMachine.valueShort v})"
  | .err e => s!"(err {e.toString})"
  | .brk => "(escaped break)"
  | .cont => "(escaped continue)"
  | .unsupported w => s!"(unsupported {Hex.encode w})"
  | .outOfFuel => "(out-of-fuel)"

def handle (op : String) (rest : String) : Option String :=
  if op != "bigstep_run" then none else
  match rest.splitOn " " with
  | fuel :: sexpParts =>
    match Sexp.parseAll (" ".intercalate sexpParts) with
    | some [.list (.atom "astx" :: .atom nerr :: items)] =>
      if nerr != "0" then some "OK (parse-error)" else
      match DriverMachine.programOf items with
      | none => some "ERR bad-astx"
      | some parsed =>
        match parsed.unsupported with
        | some w => some s!"OK (bigstep (unsupported {Hex.encode w}) (out ))"
        | none =>
          if parsed.prog.toplevel.isEmpty then some "OK (bigstep (ok none) (out ))" else
          let (out, o) := runProgram parsed.prog (fuel.toNat?.getD 10000)
          let b2 (b : Bool) : String := if b then "1" else "0"
          some s!"OK (bigstep {outcomeStr o} (out {Hex.encode out}) (wf {b2 (wfProgram parsed.prog)}) (exits {b2 (exitsProgram parsed.prog)}) (level {levelProgram parsed.prog}))"
    | _ => some "ERR bad-sexp"
  | _ => some "ERR args"

end DriverBigStep
