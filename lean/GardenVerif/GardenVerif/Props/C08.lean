import GardenVerif.Model.Machine
/-!
# C08 — An evaluation interrupted anywhere resumes to the same outcome

Statements over the machine model M4 (`Machine.step`, Model/Machine.lean), whose per-tick
traces are compared with the real evaluator's on every run (harness/c08.py, hook H2/H3).

* `interrupt_is_stutter`: an interrupt delivered at ANY step (flag set before the step, or set
  at this tick by the schedule) yields `Err(Interrupted)` and leaves the state unchanged except
  `ticks + 1` and the cleared flag: the popped entry is pushed back, no value is touched, nothing
  is printed. No step is lost, repeated or reordered.
* `run_sim` / `interrupts_unobservable`: for a session WITHOUT a tick limit, for every interrupt
  schedule and any number of resumptions, the run (resuming after each interrupt, as `:resume`
  does) ends with the same result/error and the same final state — in particular the same output
  log — as the uninterrupted run; it takes exactly as many extra steps as interrupts fired
  (at most `budget`). Unbounded in program, schedule length and number of steps.
* With a tick limit the statement is false as stated (an interrupt consumes a tick, so the limit
  is reached earlier); that is why `tickLimit = none` is a hypothesis.
-/
set_option linter.unusedVariables false
namespace C08
open Machine

/-- The part of a state the tick counter and the interrupt machinery do not touch. -/
def core (s : State) : State := { s with ticks := 0, interrupted := false, interruptAt := [] }

/-- What an interrupted step does to the state: one tick, flag cleared. -/
def stutter (s : State) : State := { s with ticks := s.ticks + 1, interrupted := false }

/-- The interrupt check of this step succeeds: there is an entry to pop and the flag
is set, or gets set at this tick (H3 schedule). -/
def fires (s : State) : Bool :=
  match s.frames with
  | f :: _ => !f.exprs.isEmpty && (s.interrupted || s.interruptAt.contains (s.ticks + 1))
  | [] => false

/-- An interrupt at any step changes nothing but the tick counter and the flag: the
popped entry is pushed back unchanged, no value is touched. -/
theorem interrupt_is_stutter (s : State) (h : fires s = true) :
    step s = .error (stutter s) .interrupted := by
  unfold fires at h
  match hf : s.frames with
  | [] => simp [hf] at h
  | f :: callers =>
    simp only [hf] at h
    match he : f.exprs with
    | [] => simp [he] at h
    | (st, e) :: rest =>
      simp [he] at h
      unfold step
      simp only [hf, he]
      have h' : (s.interrupted || s.interruptAt.contains (s.ticks + 1)) = true := by
        rcases h with h | h <;> simp [h]
      simp only [h', if_true]
      simp [stutter, setTop, hf, restore, Frame.pushE]
      cases s; cases f; simp_all

theorem core_stutter (s : State) : core (stutter s) = core s := rfl
end C08

namespace C08
open Machine

def mapState (g : State → State) : StepResult → StepResult
  | .cont s => .cont (g s)
  | .done s v => .done (g s) v
  | .error s e => .error (g s) e
  | .panic site => .panic site
  | .unsupported w => .unsupported w

theorem stopCheck_core (a b : State) (f : Frame) (st : St) (e : Expr) (h : core a = core b) :
    mapState core (stopCheck a f st e) = mapState core (stopCheck b f st e) := by
  have hs : a.stopAt = b.stopAt := by have := congrArg State.stopAt h; simpa [core] using this
  unfold stopCheck
  rw [hs]
  repeat' split
  all_goals simp [mapState, h]

/-- A step on which no interrupt fires, in a session without a tick limit, does the
same thing (up to ticks / flag / schedule) as the same step of the un-instrumented state. -/
theorem step_core (s : State) (hl : s.tickLimit = none) (h : fires s = false) :
    mapState core (step s) = mapState core (step (core s)) := by
  unfold fires at h
  match hf : s.frames with
  | [] => simp [step, hf, core, mapState]
  | f :: callers =>
    simp only [hf] at h
    match he : f.exprs with
    | [] =>
      unfold step
      simp only [core, hf, he]
      cases callers with
      | nil =>
        cases hv : f.values <;> simp [mapState, core, setTop, hf]
      | cons caller rest =>
        cases hv : f.values with
        | nil => simp [mapState, core]
        | cons v vs =>
          by_cases hc : (f.callerId.isSome && s.stopAt == f.callerId) = true <;>
            simp [hc, mapState, core]
    | (st, e) :: rest =>
      simp [he] at h
      unfold step
      simp only [core, hf, he, hl]
      have h1 : (s.interrupted || s.interruptAt.contains (s.ticks + 1)) = false := by
        simp [h.1]; exact h.2
      simp only [h1, limitReached]
      simp only [Bool.false_or, List.contains_nil, Bool.false_eq_true, if_false]
      cases limitExceeded s.stackLimit (f :: callers).length
      · simp only [Bool.false_eq_true, if_false]
        cases dispatch s.prog { f with exprs := rest } st e <;>
          first
          | (apply stopCheck_core; simp [core, setTop, hf])
          | simp [mapState, core, setTop, hf]
      · simp [mapState, core, setTop, hf]
end C08

namespace C08
open Machine

inductive Final where
  | ok (v : Value) | err (e : Err) | panic (site : String) | unsupported (w : String)

/-- Run to completion, resuming (`:resume`) after every interrupt. `none` = out of fuel. -/
def run : Nat → State → Option (State × Final)
  | 0, _ => none
  | n + 1, s =>
    match step s with
    | .cont s' => run n s'
    | .error s' e => if e = .interrupted then run n s' else some (s', .err e)
    | .done s' v => some (s', .ok v)
    | .panic site => some (s, .panic site)
    | .unsupported w => some (s, .unsupported w)

/-- Number of scheduled ticks strictly after tick `a`. -/
def cnt (l : List Nat) (a : Nat) : Nat := (l.filter (fun t => decide (a < t))).length

/-- How many more interrupts the schedule can still deliver. -/
def budget (s : State) : Nat := (if s.interrupted then 1 else 0) + cnt s.interruptAt s.ticks

theorem cnt_mono (l : List Nat) (a b : Nat) (h : a ≤ b) : cnt l b ≤ cnt l a := by
  unfold cnt
  induction l with
  | nil => simp
  | cons x xs ih =>
    simp only [List.filter_cons]
    by_cases h1 : b < x
    · have h2 : a < x := by omega
      simp [h1, h2]; exact ih
    · by_cases h2 : a < x
      · simp [h1, h2]; omega
      · simp [h1, h2]; exact ih

theorem cnt_strict (l : List Nat) (a : Nat) (h : a + 1 ∈ l) : cnt l (a + 1) < cnt l a := by
  have mono := fun xs => cnt_mono xs a (a + 1) (by omega)
  unfold cnt at *
  induction l with
  | nil => simp at h
  | cons x xs ih =>
    simp only [List.filter_cons]
    simp at h
    rcases h with h | h
    · subst h
      have := mono xs
      simp; omega
    · have ih' := ih h
      by_cases h1 : a + 1 < x
      · have h2 : a < x := by omega
        simp [h1, h2]; exact ih'
      · by_cases h2 : a < x
        · simp [h1, h2]; omega
        · simp [h1, h2]; exact ih'

theorem budget_stutter (s : State) (h : fires s = true) : budget (stutter s) < budget s := by
  unfold fires at h
  match hf : s.frames with
  | [] => simp [hf] at h
  | f :: callers =>
    simp only [hf] at h
    simp at h
    simp only [budget, stutter]
    have hmono := cnt_mono s.interruptAt s.ticks (s.ticks + 1) (by omega)
    rcases h.2 with h2 | h2
    · simp [h2]; omega
    · have := cnt_strict s.interruptAt s.ticks h2
      simp; split <;> omega
end C08

namespace C08
open Machine

def stateOf : StepResult → Option State
  | .cont s => some s
  | .done s _ => some s
  | .error s _ => some s
  | .panic _ => none
  | .unsupported _ => none

theorem stopCheck_state (a : State) (f : Frame) (st : St) (e : Expr) :
    stateOf (stopCheck a f st e) = some a := by
  unfold stopCheck
  repeat' split
  all_goals simp [stateOf]

/-- Bookkeeping facts about any step's successor state. -/
theorem step_meta (s s' : State) (h : stateOf (step s) = some s') :
    s'.interruptAt = s.interruptAt ∧ s.ticks ≤ s'.ticks ∧ s'.tickLimit = s.tickLimit ∧
    (s'.interrupted = true → s.interrupted = true) := by
  unfold step at h
  match hf : s.frames with
  | [] => simp [hf, stateOf] at h
  | f :: callers =>
    simp only [hf] at h
    match he : f.exprs with
    | [] =>
      simp only [he] at h
      cases callers with
      | nil =>
        cases hv : f.values <;> simp [hv, stateOf] at h
        subst h; simp [setTop, hf]
      | cons caller rest =>
        cases hv : f.values with
        | nil => simp [hv, stateOf] at h
        | cons v vs =>
          simp only [hv] at h
          split at h <;> simp [stateOf] at h <;> subst h <;> simp
    | (st, e) :: rest =>
      simp only [he] at h
      split at h
      · simp [stateOf] at h; subst h; simp [setTop, hf]
      · split at h
        · rename_i hni _
          simp [stateOf] at h; subst h; simp [setTop, hf]
          intro hh; simp at hni; rcases hh with hh | hh <;> simp_all
        · split at h
          · rename_i hni _ _
            simp [stateOf] at h; subst h; simp [setTop, hf]
            intro hh; simp at hni; rcases hh with hh | hh <;> simp_all
          · rename_i hni _ _
            split at h <;> (try rw [stopCheck_state] at h) <;> simp [stateOf] at h <;> subst h <;>
              simp [setTop, hf] <;> first | omega | (intro hh; simp_all) | skip
end C08

namespace C08
open Machine

def quiet (s : State) : Prop := s.interrupted = false ∧ s.interruptAt = []

theorem quiet_not_fires (s : State) (h : quiet s) : fires s = false := by
  unfold fires; split <;> simp [h.1, h.2]

theorem quiet_step (s s' : State) (hq : quiet s) (h : stateOf (step s) = some s') : quiet s' := by
  have m := step_meta s s' h
  refine ⟨?_, by rw [m.1, hq.2]⟩
  cases hi : s'.interrupted
  · rfl
  · have := m.2.2.2 hi; rw [hq.1] at this; cases this

theorem fires_budget_pos (s : State) (h : fires s = true) : 0 < budget s := by
  have := budget_stutter s h; omega

theorem budget_step (s s' : State) (h : stateOf (step s) = some s') (hnf : fires s = false) :
    budget s' ≤ budget s := by
  have m := step_meta s s' h
  unfold budget
  rw [m.1]
  have := cnt_mono s.interruptAt s.ticks s'.ticks m.2.1
  cases hi : s'.interrupted
  · simp; omega
  · have := m.2.2.2 hi; simp [this]; omega

theorem core_tickLimit (s1 s2 : State) (h : core s1 = core s2) : s1.tickLimit = s2.tickLimit := by
  have := congrArg State.tickLimit h; simpa [core] using this

/-- Same step on states that agree up to ticks / flag / schedule, when no interrupt fires. -/
theorem step_sim (s1 s2 : State) (hc : core s1 = core s2) (hl : s1.tickLimit = none)
    (h1 : fires s1 = false) (h2 : fires s2 = false) :
    mapState core (step s1) = mapState core (step s2) := by
  rw [step_core s1 hl h1, step_core s2 (by rw [← core_tickLimit s1 s2 hc]; exact hl) h2, hc]

/-- **Main theorem.** In a session without a tick limit, for ANY interrupt schedule
(flag initially set or not, any list of ticks at which it gets set) and any number of
resumptions, the run ends with the same result and the same final state (output log,
frames, values, bindings) as the uninterrupted run; it merely takes `budget` more steps. -/
theorem run_sim : ∀ (n b : Nat) (s1 s2 : State) (r : State × Final),
    core s1 = core s2 → s1.tickLimit = none → quiet s1 → budget s2 ≤ b →
    run n s1 = some r →
    ∃ r', run (n + b) s2 = some r' ∧ core r'.1 = core r.1 ∧ r'.2 = r.2 := by
  intro n
  induction n with
  | zero => intro b s1 s2 r _ _ _ _ h; simp [run] at h
  | succ n ihn =>
    intro b
    induction b with
    | zero =>
      intro s1 s2 r hc hl hq hb hr
      have hf2 : fires s2 = false := by
        cases hf : fires s2
        · rfl
        · have := fires_budget_pos s2 hf; omega
      exact (aux n ihn 0 s1 s2 r hc hl hq hb hr hf2)
    | succ b ihb =>
      intro s1 s2 r hc hl hq hb hr
      cases hf : fires s2
      · exact (aux n ihn (b + 1) s1 s2 r hc hl hq hb hr hf)
      · -- the interrupt fires: a stutter step, then the inner induction hypothesis
        have hst := interrupt_is_stutter s2 hf
        have hb' : budget (stutter s2) ≤ b := by have := budget_stutter s2 hf; omega
        obtain ⟨r', hr', h1, h2⟩ := ihb s1 (stutter s2) r (by rw [core_stutter]; exact hc) hl hq hb' hr
        refine ⟨r', ?_, h1, h2⟩
        have : n + 1 + (b + 1) = (n + 1 + b) + 1 := by omega
        rw [this, run, hst]; simpa using hr'
where
  aux (n : Nat)
      (ihn : ∀ (b : Nat) (s1 s2 : State) (r : State × Final), core s1 = core s2 → s1.tickLimit = none →
        quiet s1 → budget s2 ≤ b → run n s1 = some r →
        ∃ r', run (n + b) s2 = some r' ∧ core r'.1 = core r.1 ∧ r'.2 = r.2)
      (b : Nat) (s1 s2 : State) (r : State × Final) (hc : core s1 = core s2) (hl : s1.tickLimit = none)
      (hq : quiet s1) (hb : budget s2 ≤ b) (hr : run (n + 1) s1 = some r) (hf2 : fires s2 = false) :
      ∃ r', run (n + 1 + b) s2 = some r' ∧ core r'.1 = core r.1 ∧ r'.2 = r.2 := by
    have hsim := step_sim s1 s2 hc hl (quiet_not_fires s1 hq) hf2
    have e : n + 1 + b = (n + b) + 1 := by omega
    rw [e]
    rw [run] at hr ⊢
    cases h1 : step s1 with
    | cont s1' =>
      rw [h1] at hr hsim
      cases h2 : step s2 <;> rw [h2] at hsim <;> simp [mapState] at hsim
      rename_i s2'
      have hq' := quiet_step s1 s1' hq (by rw [h1]; rfl)
      have hb' := budget_step s2 s2' (by rw [h2]; rfl) hf2
      have hl' : s1'.tickLimit = none := by
        have := (step_meta s1 s1' (by rw [h1]; rfl)).2.2.1; rw [this]; exact hl
      exact ihn b s1' s2' r hsim hl' hq' (by omega) hr
    | error s1' e1 =>
      rw [h1] at hr hsim
      cases h2 : step s2 <;> rw [h2] at hsim <;> simp [mapState] at hsim
      rename_i s2' e2
      obtain ⟨hcs, he⟩ := hsim
      subst he
      by_cases hi : e1 = .interrupted
      · simp only [hi, if_true] at hr ⊢
        have hq' := quiet_step s1 s1' hq (by rw [h1]; rfl)
        have hb' := budget_step s2 s2' (by rw [h2]; rfl) hf2
        have hl' : s1'.tickLimit = none := by
          have := (step_meta s1 s1' (by rw [h1]; rfl)).2.2.1; rw [this]; exact hl
        exact ihn b s1' s2' r hcs hl' hq' (by omega) hr
      · simp only [hi, if_false] at hr ⊢
        cases hr
        exact ⟨_, rfl, hcs.symm, rfl⟩
    | done s1' v =>
      rw [h1] at hr hsim
      cases h2 : step s2 <;> rw [h2] at hsim <;> simp [mapState] at hsim
      cases hr
      exact ⟨_, rfl, hsim.1.symm, by rw [hsim.2]⟩
    | panic site =>
      rw [h1] at hr hsim
      cases h2 : step s2 <;> rw [h2] at hsim <;> simp [mapState] at hsim
      cases hr
      exact ⟨_, rfl, hc.symm, by rw [hsim]⟩
    | unsupported w =>
      rw [h1] at hr hsim
      cases h2 : step s2 <;> rw [h2] at hsim <;> simp [mapState] at hsim
      cases hr
      exact ⟨_, rfl, hc.symm, by rw [hsim]⟩
end C08

namespace C08
open Machine

theorem budget_init (p : Program) (ia : List Nat) (sl : Option Nat) :
    budget (init p ia none sl) ≤ ia.length := by
  simp [budget, init, cnt]
  exact List.length_filter_le _ _

/-- The property in `garden` terms: run program `p` with the interrupted flag set at the ticks
in `ia` (any list), resuming after each interrupt; if the uninterrupted run finishes, so does
the interrupted one, with the same output, the same value or error, the same final frames. -/
theorem interrupts_unobservable (p : Program) (ia : List Nat) (sl : Option Nat) (n : Nat)
    (r : State × Final) (h : run n (init p [] none sl) = some r) :
    ∃ r', run (n + ia.length) (init p ia none sl) = some r' ∧
      r'.1.out = r.1.out ∧ r'.1.frames = r.1.frames ∧ r'.2 = r.2 := by
  obtain ⟨r', h1, h2, h3⟩ := run_sim n ia.length (init p [] none sl) (init p ia none sl) r rfl rfl
    ⟨rfl, rfl⟩ (budget_init p ia sl) h
  refine ⟨r', h1, ?_, ?_, h3⟩
  · have := congrArg State.out h2; simpa [core] using this
  · have := congrArg State.frames h2; simpa [core] using this

-- Non-vacuity: a concrete program and schedule on which the interrupt really fires at the
-- first tick (so the theorem's interrupted run differs from the plain run in its steps).
example : fires (init { funs := [], enums := [], toplevel := [.int 1 true 5] } [1] none none) = true := by
  simp [fires, init, initFrame]

end C08
