import GardenVerif.Lemmas.Parse
/-!
C01 (parser half) — forward progress / no panic of the parser model M2 (repaired tree, `pn = false`).

PARTIAL. Proved here, for EVERY token list and every state (no bound):
* `goodP_parseSymbol` — the repaired `parse_symbol` never panics and never moves the index backwards
  (on the pinned tree it un-pops a token it never popped at the end of the file: the root cause of
  the panics at parser.rs:1995 / 2183 / 2812 on `let x: (A,` / `fun f(a,` / `let (a`);
* `goodP_checkRequiredToken`, `goodP_requireToken` — `check_required_token` / `require_token` (with
  their `expect("TODO: handle empty file properly")`) never panic on a non-empty token list and never
  move backwards; `goodP_pop/peek/peekIs/diag/getIdx`; the composition rules `good_bind`, `goodP_bind`
  of the invariant `Good` = "not a panic ∧ idx' ≥ idx ∧ idx' ≤ |toks|";
* evaluated witnesses: the pinned model panics at parser.rs:328 on `(1, })` and at parser.rs:2812 on
  `let (a`; the repaired model returns diagnostics on both (`pinned_tuple_panics`, …).

NOT proved (left out, no `sorry`): the full statement
  `parse_no_panic : ∀ fuel toks, toks ≠ [] → parseItems fuel toks ≠ panic`
and its intended route, the mutual invariant `GoodP` for every parse function by induction on fuel
(type-hint block with the assertion 1995; parameter / destructuring loops 2183 / 2812; the 28
functions of the expression block with 328, 404, 1082, 1361, 2334; items loop 3067). The progress
assertions need, besides `Good`, the strict facts "a loop iteration that reaches the assertion
consumed a token", which follow from `Good` of the callee plus the explicit `pop` before each
assertion (tuple-hint, parameter, destructuring, trailing loops) or from the
invalid-or-placeholder break (`parse_expression` returns `Invalid`/placeholder whenever it consumes
nothing: block, comma-separated, dict, tuple loops, items loop). Until then these sites are covered by
the correspondence run (model PANIC ⇔ implementation PANIC at the same line, harness/ast_dump.py
`same_outcome`) and the token-sequence fuzzing of the integrator.
-/

namespace C01Parse
open Parse ParseLemmas

/-- Outcome is not a panic, and on success the index did not move backwards and stays in range. -/
def Good {α} (toks : Toks) (s : St) : Res α → Prop
  | .ok _ s' => s.idx ≤ s'.idx ∧ s'.idx ≤ toks.length
  | .panic _ => False
  | .outOfFuel => True

def GoodP {α} (toks : Toks) (m : P α) : Prop := ∀ s, s.idx ≤ toks.length → Good toks s (m s)

theorem good_bind {α β} {toks : Toks} {m : P α} {f : α → P β} {s : St}
    (hm : Good toks s (m s))
    (hf : ∀ a s', m s = .ok a s' → s.idx ≤ s'.idx → s'.idx ≤ toks.length → Good toks s' (f a s')) :
    Good toks s ((m >>= f) s) := by
  rw [bind_apply]
  unfold P.bind
  cases h : m s with
  | ok a s' =>
    rw [h] at hm
    have := hf a s' h hm.1 hm.2
    simp only
    cases h2 : f a s' with
    | ok b s'' => rw [h2] at this; exact ⟨Nat.le_trans hm.1 this.1, this.2⟩
    | panic p => rw [h2] at this; exact this
    | outOfFuel => trivial
  | panic p => rw [h] at hm; exact hm
  | outOfFuel => trivial

theorem good_pure {α} {toks : Toks} (a : α) (s : St) (h : s.idx ≤ toks.length) : Good toks s ((pure a : P α) s) := by
  simp [pure_apply, Good, h]

theorem goodP_bind {α β} {toks : Toks} {m : P α} {f : α → P β} (hm : GoodP toks m) (hf : ∀ a, GoodP toks (f a)) :
    GoodP toks (m >>= f) :=
  fun s hs => good_bind (hm s hs) (fun a s' _ _ h2 => hf a s' h2)

theorem goodP_pure {α} {toks : Toks} (a : α) : GoodP toks (pure a : P α) := fun s hs => good_pure a s hs

theorem get_lt {toks : Toks} {i : Nat} {t : Tok} (h : toks[i]? = some t) : i < toks.length := by
  have := List.getElem?_eq_some_iff.mp h
  exact this.1

theorem goodP_peek (toks : Toks) : GoodP toks (peek toks) := by
  intro s hs; simp [peek, peekAt, Good, hs]
theorem goodP_peekIs (toks : Toks) (x : String) : GoodP toks (peekIs toks x) := by
  intro s hs; simp [peekIs, Good, hs]
theorem goodP_diag (toks : Toks) (k : DiagKind) : GoodP toks (diag k) := by
  intro s hs; simp [diag, Good, hs]
theorem goodP_getIdx (toks : Toks) : GoodP toks getIdx := by
  intro s hs; simp [getIdx, Good, hs]
theorem goodP_pop (toks : Toks) : GoodP toks (pop toks) := by
  intro s hs
  unfold pop
  cases h : toks[s.idx]? with
  | none => simp [Good, hs]
  | some t => have := get_lt h; simp [Good]; omega

/-- `check_required_token` / `require_token` never panic on a non-empty token list, never move back. -/
theorem goodP_checkRequiredToken (toks : Toks) (hne : toks ≠ []) (x : String) : GoodP toks (checkRequiredToken toks x) := by
  intro s hs
  unfold checkRequiredToken
  simp only [bind_apply, P.bind, prev, pop]
  cases h : toks[s.idx]? with
  | some t =>
    have := get_lt h
    by_cases hx : t.text = x
    · simp [TokI.text, hx, pure_apply, Good]; omega
    · simp [TokI.text, hx, pure_apply, Good, diag, unpop, bind_apply, P.bind]; omega
  | none =>
    by_cases h0 : s.idx = 0
    · have : toks[0]? = none := by rw [h0] at h; exact h
      cases toks with
      | nil => exact absurd rfl hne
      | cons a b => simp at this
    · have hlt : s.idx - 1 < toks.length := by omega
      have hp : toks[s.idx - 1]? = some toks[s.idx - 1] := List.getElem?_eq_getElem hlt
      simp [h0, hp, diag, pure_apply, Good, bind_apply, P.bind, hs]

theorem goodP_requireToken (toks : Toks) (hne : toks ≠ []) (x : String) : GoodP toks (requireToken toks x) := by
  unfold requireToken
  exact goodP_bind (goodP_checkRequiredToken toks hne x) (fun a => goodP_pure _)

/-- The repaired `parse_symbol` never panics and never moves back. -/
theorem goodP_parseSymbol (toks : Toks) : GoodP toks (parseSymbol toks false) := by
  intro s hs
  unfold parseSymbol
  simp only [bind_apply, P.bind, prev, peek, peekAt, Nat.add_zero]
  cases h : toks[s.idx]? with
  | none => simp [diag, pure_apply, Good, bind_apply, P.bind, hs]
  | some t =>
    have hlt : s.idx < toks.length := get_lt h
    simp only [Option.map_some, Option.isNone_some, Bool.not_false, Bool.and_false, Bool.false_eq_true, ↓reduceIte,
      requireAToken, bind_apply, P.bind, pop, h, pure_apply]
    cases h1 : isSymbolTok t.text with
    | false => simp [TokI.text, h1, diag, unpop, pure_apply, Good, bind_apply, P.bind]; omega
    | true =>
      cases h2 : keywords.contains t.text with
      | false =>
        have h3 : t.text ∉ keywords := by simpa using h2
        simp [TokI.text, h1, h3, pure_apply, Good]; omega
      | true =>
        have h3 : t.text ∈ keywords := by simpa using h2
        simp only [TokI.text, h1, h2, Bool.not_true, Bool.false_eq_true, ↓reduceIte]
        split
        · split <;> simp [diag, unpop, pure_apply, Good, bind_apply, P.bind] <;> omega
        · simp [diag, unpop, pure_apply, Good, bind_apply, P.bind]; omega


/-! ### Evaluated witnesses (tests, not the theorem) -/

def isPanicAt {α} (site : String) : Res α → Bool
  | .panic s => s == site
  | _ => false

def isOk {α} : Res α → Bool
  | .ok _ _ => true
  | _ => false

/-- `(1, })` -/
def tupleToks : List Tok :=
  [⟨"(", true, 0, 0⟩, ⟨"1", true, 0, 0⟩, ⟨",", true, 0, 0⟩, ⟨"}", false, 0, 0⟩, ⟨")", true, 0, 0⟩]

/-- `let (a` -/
def letToks : List Tok := [⟨"let", true, 0, 0⟩, ⟨"(", false, 0, 0⟩, ⟨"a", true, 0, 0⟩]

theorem pinned_tuple_panics : isPanicAt "parser.rs:328" (parseItemsCfg true 60 tupleToks) = true := by decide
theorem fixed_tuple_ok : isOk (parseItemsCfg false 60 tupleToks) = true := by decide
theorem pinned_let_dest_panics : isPanicAt "parser.rs:2812" (parseItemsCfg true 60 letToks) = true := by decide
theorem fixed_let_dest_ok : isOk (parseItemsCfg false 60 letToks) = true := by decide

end C01Parse
