import GardenVerif.Model.Machine
import GardenVerif.Props.C06
/-!
Value-stack discipline of the evaluator machine M4 (helper definitions and lemmas for C02).

* `okE` / `okBlock` / `okItems` / `okCases`: decidable well-formedness of a syntax tree as the
  parser produces it (`set_is_used_*` in src/parser.rs): operands, receivers, arguments, conditions,
  iterees, scrutinees, initialisers are USED; in a block every statement except the last is UNUSED and
  the last is used iff the block's value is; loop bodies are unused blocks; an `if` without `else`
  has unused branches; a parenthesised expression passes its own flag to the inner expression.
  The Bool parameter `b` says "this node is in statement position of the body of a running loop
  (whose own value may be used or not), reached through unused `if`/`match` statements only": only
  there may `break` / `continue` occur.  Everywhere else (operand position; outside loops) they are
  excluded.
* `Bal K V`: the pending entries `K` (top first) applied to the value stack `V` (top first) never
  underflow: defined by recursion on `K`; an entry consumes `cons` values, needs a typed slot
  (`entryOK`: the `Int` index of a running `for`), and leaves `prod` values of unknown content.
* `KOK K`: every pending node is `okE`, and nodes allowed to be/contain `break` sit in a loop context
  (`loopCtx`).
* `dispatch_disc_*` (one theorem per node kind) and `dispatch_disc`: one `dispatch` from a frame with
  `Bal`, `KOK`, enough binding blocks (`1 + C06.owners .. ≤ blocks.length`) and callable values
  (`CallOK`) is not a panic and re-establishes `Bal`/`KOK` (`DiscAfter`), through any nesting left by
  `break`/`continue` (`breakLoop_disc`, `continueLoop_disc`).
* `dispatch_blk` (block count, from `C06.dispatch_bal`), `dispatch_cu` (`callerUses` is never
  written), `VOK`/`FrameV`/`dispatch_vok` (deep value invariant: every closure anywhere in a value has
  an `okBlock false true` body, every `.fn` is defined).
* state level: `WFd` (current frame `FrameOK`, callers `StackOK`), `StateV`;
  `step_no_panic_core`, `step_preserves_core`, `step_preserves_V` (used by Props/C02.lean).
-/
set_option linter.unusedVariables false
set_option linter.unusedSimpArgs false
namespace MachineDiscipline
open Machine

mutual
def okE (b : Bool) : Expr → Bool
  | .int .. | .str .. | .var .. | .invalid .. | .unsup .. => true
  | .binop _ _ _ l r => l.used && r.used && okE false l && okE false r
  | .letE _ _ _ e => e.used && okE false e
  | .assign _ _ _ e => e.used && okE false e
  | .update _ _ _ _ e => e.used && okE false e
  | .ifE _ u c thn none => c.used && okE false c && okBlock (b && !u) false thn
  | .ifE _ u c thn (some eb) => c.used && okE false c && okBlock (b && !u) u thn && okBlock (b && !u) u eb
  | .whileE _ u c body => c.used && okE false c && okBlock true false body
  | .forE _ u _ it body => it.used && okE false it && okBlock true false body
  | .matchE _ u sc cases => sc.used && okE false sc && okCases (b && !u) u cases
  | .ret _ _ none => true
  | .ret _ _ (some e) => e.used && okE false e
  | .brk _ u => b && !u
  | .cont _ u => b && !u
  | .list _ _ items => okItems items
  | .tuple _ _ items => okItems items
  | .call _ _ recv args => recv.used && okE false recv && okItems args
  | .lambda _ _ _ body => okBlock false true body
  | .paren _ u e => (e.used == u) && okE false e
def okBlock (b : Bool) (bu : Bool) : List Expr → Bool
  | [] => true
  | e :: rest => (e.used == (bu && rest.isEmpty)) && okE (b && !bu) e && okBlock b bu rest
def okItems : List Expr → Bool
  | [] => true
  | e :: rest => e.used && okE false e && okItems rest
def okCases (b : Bool) (bu : Bool) : List Case → Bool
  | [] => true
  | .mk _ _ body :: rest => okBlock b bu body && okCases b bu rest
end

/-- Well-formed program: function bodies are used blocks (their last expression is the return
value), toplevel expressions are used, no `break`/`continue` outside loops. -/
def okProg (p : Program) : Bool :=
  p.funs.all (fun d => okBlock false true d.body) && okItems p.toplevel

/-- values an entry pops when it runs -/
def cons (st : St) : Expr → Nat
  | .binop .. => if st == .E then 2 else 0
  | .letE .. | .assign .. | .update .. | .ret .. => if st == .E then 1 else 0
  | .list _ _ items | .tuple _ _ items => if st == .E then items.length else 0
  | .call _ _ _ args => match st with | .N => 0 | .E => args.length + 1 | _ => 1
  | .ifE .. | .matchE .. => match st with | .N => 0 | .E => 0 | _ => 1
  | .whileE .. => match st with | .PW => 1 | _ => 0
  | .forE .. => match st with | .PW | .PD => 2 | _ => 0
  | _ => 0

/-- does the entry (with everything it pushes) leave one value? -/
def prod (st : St) : Expr → Bool
  | .ifE _ u _ _ els => if st == .E then u && els.isNone else u
  | .whileE _ u .. | .forE _ u .. | .matchE _ u .. => if st == .E then false else u
  | e => e.used

def isInt : Value → Bool
  | .int _ => true
  | _ => false

/-- state validity and typed slots: a running `for` keeps `[iteree, Int index]` on top. -/
def entryOK (st : St) (e : Expr) (V : List Value) : Bool :=
  match e with
  | .whileE .. => st != .PN
  | .forE .. => st != .PN && (if st == .PW || st == .PD then (match V with | _ :: i :: _ => isInt i | _ => false) else true)
  | _ => true

def retDone (st : St) (e : Expr) : Bool :=
  st == .E && (match e with | .ret .. => true | _ => false)

def Bal : List (St × Expr) → List Value → Prop
  | [], V => V ≠ []
  | (st, e) :: K, V =>
    cons st e ≤ V.length ∧ entryOK st e V = true ∧
    (retDone st e = true ∨
      (if prod st e then ∀ v, Bal K (v :: V.drop (cons st e)) else Bal K (V.drop (cons st e))))

/-- the continuation `K` is the rest of the body of a running loop (statement position) -/
def loopCtx : List (St × Expr) → Bool
  | [] => false
  | (st, e) :: K =>
    match st, e with
    | .PD, .whileE .. => true
    | .PD, .forE .. => true
    | .E, .ifE _ u _ _ _ => !u && loopCtx K
    | .E, .matchE _ u _ _ => !u && loopCtx K
    | .N, e => !e.used && loopCtx K
    | _, _ => false

def KOK : List (St × Expr) → Prop
  | [] => True
  | (st, e) :: K => (∃ b, okE b e = true ∧ (b = true → loopCtx K = true)) ∧ KOK K

/-- shallow condition on a value about to be called -/
def CallOK (p : Program) : Value → Prop
  | .closure _ _ body => okBlock false true body = true
  | .fn name => ∃ d, p.funs.find? (fun d => d.name == name) = some d ∧ okBlock false true d.body = true
  | _ => True

-- ------------------------------------------------------------------ basic facts

theorem cons_N (e : Expr) : cons .N e = 0 := by cases e <;> simp [cons]
theorem prod_N (e : Expr) : prod .N e = e.used := by cases e <;> simp [prod, Expr.used]
theorem entryOK_N (e : Expr) (V : List Value) : entryOK .N e V = true := by cases e <;> simp [entryOK]
theorem retDone_N (e : Expr) : retDone .N e = false := by simp [retDone]

theorem Bal_N (e : Expr) (K : List (St × Expr)) (V : List Value) :
    Bal ((.N, e) :: K) V ↔ (if e.used then ∀ v, Bal K (v :: V) else Bal K V) := by
  simp [Bal, cons_N, prod_N, entryOK_N, retDone_N]

/-- pushing used operands: they run first and leave one value each -/
theorem Bal_operands (ops : List Expr) (K : List (St × Expr)) :
    ∀ (V : List Value), (∀ e ∈ ops, e.used = true) →
    (∀ vs : List Value, vs.length = ops.length → Bal K (vs ++ V)) →
    Bal (ops.map (fun e => (St.N, e)) ++ K) V := by
  induction ops with
  | nil => intro V _ h; simpa using h [] rfl
  | cons e rest ih =>
    intro V hu h
    simp only [List.map_cons, List.cons_append, Bal_N]
    have he : e.used = true := hu e (by simp)
    simp only [he, if_true]
    intro v
    apply ih (v :: V) (fun x hx => hu x (by simp [hx]))
    intro vs hl
    have := h (vs ++ [v]) (by simp [hl])
    simpa using this

theorem okItems_used : ∀ (items : List Expr), okItems items = true →
    (∀ e ∈ items, e.used = true) ∧ (∀ e ∈ items, okE false e = true)
  | [], _ => by simp
  | e :: rest, h => by
    simp [okItems] at h
    have ih := okItems_used rest h.2
    constructor
    · intro x hx; simp at hx; rcases hx with rfl | hx; exact h.1.1; exact ih.1 x hx
    · intro x hx; simp at hx; rcases hx with rfl | hx; exact h.1.2; exact ih.2 x hx

theorem loopCtx_N_false (e : Expr) (K : List (St × Expr)) : loopCtx ((.N, e) :: K) = (!e.used && loopCtx K) := by
  cases e <;> simp [loopCtx]

/-- KOK of freshly pushed operands (no break allowed: flag false) -/
theorem KOK_operands (ops : List Expr) (K : List (St × Expr)) (hk : KOK K)
    (ho : ∀ e ∈ ops, okE false e = true) : KOK (ops.map (fun e => (St.N, e)) ++ K) := by
  induction ops with
  | nil => simpa using hk
  | cons e rest ih =>
    simp only [List.map_cons, List.cons_append, KOK]
    exact ⟨⟨false, ho e (by simp), by simp⟩, ih (fun x hx => ho x (by simp [hx]))⟩

theorem loopCtx_block (b bu : Bool) : ∀ (body : List Expr) (K0 : List (St × Expr)),
    okBlock b bu body = true → bu = false →
    loopCtx (body.map (fun e => (St.N, e)) ++ K0) = loopCtx K0
  | [], K0, _, _ => by simp
  | e :: rest, K0, h, hbu => by
    subst hbu
    simp [okBlock] at h
    simp only [List.map_cons, List.cons_append, loopCtx_N_false]
    rw [loopCtx_block b false rest K0 h.2 rfl]
    simp [h.1.1]

theorem Bal_block (b bu : Bool) (K0 : List (St × Expr)) (V : List Value)
    (hK : if bu then ∀ v, Bal K0 (v :: V) else Bal K0 V) :
    ∀ (body : List Expr), okBlock b bu body = true → body ≠ [] →
    Bal (body.map (fun e => (St.N, e)) ++ K0) V
  | [], _, hne => absurd rfl hne
  | [e], h, _ => by
    simp [okBlock] at h
    simp only [List.map_cons, List.map_nil, List.cons_append, List.nil_append, Bal_N, h.1]
    exact hK
  | e :: e2 :: rest, h, _ => by
    simp only [okBlock] at h
    simp at h
    have := Bal_block b bu K0 V hK (e2 :: rest) (by simp [okBlock, h.2]) (by simp)
    simp only [List.map_cons, List.cons_append] at this ⊢
    rw [Bal_N]
    simp only [h.1.1]
    exact this

theorem KOK_block (b bu : Bool) (K0 : List (St × Expr)) (hk : KOK K0)
    (hb : (b && !bu) = true → loopCtx K0 = true) :
    ∀ (body : List Expr), okBlock b bu body = true → KOK (body.map (fun e => (St.N, e)) ++ K0)
  | [], _ => by simpa using hk
  | e :: rest, h => by
    have h' := h
    simp only [okBlock, Bool.and_eq_true] at h
    simp only [List.map_cons, List.cons_append, KOK]
    refine ⟨⟨b && !bu, h.1.2, ?_⟩, KOK_block b bu K0 hk hb rest h.2⟩
    intro hbb
    have hbu : bu = false := by simp at hbb; exact hbb.2
    rw [loopCtx_block b bu rest K0 h.2 hbu]
    exact hb hbb

/-- the frame `evalBlock` produces -/
theorem evalBlock_exprs_values (f : Frame) (bu : Bool) (body : List Expr) :
    (evalBlock f bu body).exprs = body.map (fun e => (St.N, e)) ++ f.exprs ∧
    (evalBlock f bu body).values = (if bu && body.isEmpty then vUnit :: f.values else f.values) := by
  unfold evalBlock
  simp only
  split <;> simp_all [Frame.pushV]

theorem Bal_evalBlock (b bu : Bool) (f : Frame) (body : List Expr) (hok : okBlock b bu body = true)
    (hK : if bu then ∀ v, Bal f.exprs (v :: f.values) else Bal f.exprs f.values) :
    Bal (evalBlock f bu body).exprs (evalBlock f bu body).values := by
  obtain ⟨h1, h2⟩ := evalBlock_exprs_values f bu body
  rw [h1, h2]
  cases body with
  | nil =>
    cases bu <;> simp_all
  | cons e rest =>
    simp only [List.isEmpty_cons, Bool.and_false, Bool.false_eq_true, if_false]
    exact Bal_block b bu f.exprs f.values hK (e :: rest) hok (by simp)

theorem KOK_evalBlock (b bu : Bool) (f : Frame) (body : List Expr) (hok : okBlock b bu body = true)
    (hk : KOK f.exprs) (hb : (b && !bu) = true → loopCtx f.exprs = true) :
    KOK (evalBlock f bu body).exprs := by
  rw [(evalBlock_exprs_values f bu body).1]
  exact KOK_block b bu f.exprs hk hb body hok

theorem foldl_pushN (items : List Expr) : ∀ (f : Frame),
    (items.foldl (fun f x => f.pushE .N x) f).exprs = items.reverse.map (fun e => (St.N, e)) ++ f.exprs ∧
    (items.foldl (fun f x => f.pushE .N x) f).values = f.values ∧
    (items.foldl (fun f x => f.pushE .N x) f).blocks = f.blocks := by
  induction items with
  | nil => intro f; simp
  | cons x xs ih =>
    intro f
    simp only [List.foldl]
    have := ih (f.pushE .N x)
    simp [Frame.pushE] at this ⊢
    exact this

theorem popN_of_le : ∀ (n : Nat) (V : List Value), n ≤ V.length →
    ∃ got, popN n V = some (got, V.drop n) ∧ got.length = n
  | 0, V, _ => ⟨[], by simp [popN]⟩
  | n + 1, [], h => by simp at h
  | n + 1, v :: vs, h => by
    obtain ⟨got, hg, hl⟩ := popN_of_le n vs (by simpa using h)
    exact ⟨v :: got, by simp [popN, hg], by simp [hl]⟩

-- ------------------------------------------------------------------ one dispatch

def DiscAfter : Disp → Prop
  | .ok f' => Bal f'.exprs f'.values ∧ KOK f'.exprs
  | .okOut f' _ => Bal f'.exprs f'.values ∧ KOK f'.exprs
  | .newFrame f' c =>
      (if c.callerUses then ∀ v, Bal f'.exprs (v :: f'.values) else Bal f'.exprs f'.values) ∧ KOK f'.exprs ∧
      Bal c.exprs c.values ∧ KOK c.exprs ∧ c.blocks ≠ []
  | .panic _ => False
  | _ => True

theorem pushVIf_disc (f : Frame) (c : Bool) (x : Value)
    (h : if c then ∀ v, Bal f.exprs (v :: f.values) else Bal f.exprs f.values) (hk : KOK f.exprs) :
    Bal (f.pushVIf c x).exprs (f.pushVIf c x).values ∧ KOK (f.pushVIf c x).exprs := by
  cases c <;> simp_all [Frame.pushVIf, Frame.pushV]

theorem intBinop_arith_no_panic (op : BinOp) (a b : Int64) (site : String)
    (h1 : op ≠ .eq) (h2 : op ≠ .ne) (h3 : op ≠ .and) (h4 : op ≠ .or) (h5 : op ≠ .concat) (h6 : op ≠ .floatOp) :
    intBinop op a b ≠ .panic site := by
  cases op <;> simp_all [intBinop] <;> (repeat' split) <;> simp

theorem dispatch_disc_leaf (p : Program) (f : Frame) (st : St) (e : Expr)
    (hB : Bal ((st, e) :: f.exprs) f.values) (hK : KOK ((st, e) :: f.exprs))
    (hleaf : match e with | .int .. | .str .. | .var .. | .lambda .. | .invalid .. | .unsup .. => True | _ => False) :
    DiscAfter (dispatch p f st e) := by
  cases e <;> simp at hleaf
  all_goals (
    unfold dispatch
    simp only [Bal, cons, prod, retDone, entryOK, Expr.used, KOK] at hB hK ⊢
    simp at hB)
  case int => exact pushVIf_disc _ _ _ hB hK.2
  case str => exact pushVIf_disc _ _ _ hB hK.2
  case lambda => exact pushVIf_disc _ _ _ hB hK.2
  case var =>
    split
    · exact pushVIf_disc _ _ _ hB hK.2
    · trivial
  all_goals trivial

theorem dispatch_disc_binop (p : Program) (f : Frame) (st : St) (id : Nat) (u : Bool) (op : BinOp) (l r : Expr)
    (hB : Bal ((st, .binop id u op l r) :: f.exprs) f.values) (hK : KOK ((st, .binop id u op l r) :: f.exprs)) :
    DiscAfter (dispatch p f st (.binop id u op l r)) := by
  obtain ⟨⟨b, hok, hb⟩, hKK⟩ := hK
  simp [okE] at hok
  unfold dispatch
  by_cases hst : st = .E
  · subst hst
    simp only [Bal, cons, prod, retDone, entryOK, Expr.used] at hB
    simp at hB
    match hv : f.values, hB with
    | [], hB => simp at hB
    | [_], hB => simp at hB
    | rv :: lv :: vals, hB =>
      simp at hB
      simp only [bne_self_eq_false, Bool.false_eq_true, if_false]
      have fin : ∀ x, DiscAfter (.ok (({ f with values := vals } : Frame).pushVIf u x)) :=
        fun x => pushVIf_disc _ _ _ (by simpa using hB) hKK
      simp only [Expr.used]
      split
      all_goals (repeat' split)
      all_goals first
        | trivial
        | exact fin _
        | exact absurd ‹intBinop _ _ _ = OpResult.panic _› (intBinop_arith_no_panic _ _ _ _ ‹_› ‹_› ‹_› ‹_› ‹_› ‹_›)
  · have : (st != St.E) = true := by simpa using hst
    simp only [this, if_true]
    have hB' : if u then ∀ v, Bal f.exprs (v :: f.values) else Bal f.exprs f.values := by
      cases st <;> simp_all [Bal, cons, prod, retDone, entryOK, Expr.used]
    refine ⟨?_, ?_⟩
    · simp only [Frame.pushE]
      rw [Bal_N]; simp only [hok.1.1.1, if_true]; intro v1
      rw [Bal_N]; simp only [hok.1.1.2, if_true]; intro v2
      simp only [Bal, cons, prod, retDone, entryOK, Expr.used]
      simp
      cases u <;> simp_all
    · simp only [Frame.pushE, KOK]
      exact ⟨⟨false, hok.1.2, by simp⟩, ⟨false, hok.2, by simp⟩, ⟨b, by simp [okE, hok], hb⟩, hKK⟩

/-- `st ≠ E` for a node with one used operand: push the continuation and the operand. -/
theorem push1_disc (f : Frame) (e inner : Expr) (b : Bool)
    (hu : inner.used = true) (hoi : okE false inner = true) (hoe : okE b e = true) (hb : b = true → loopCtx f.exprs = true)
    (hKK : KOK f.exprs)
    (hE : ∀ v, Bal ((St.E, e) :: f.exprs) (v :: f.values)) :
    Bal ((f.pushE .E e).pushE .N inner).exprs ((f.pushE .E e).pushE .N inner).values ∧
    KOK ((f.pushE .E e).pushE .N inner).exprs := by
  simp only [Frame.pushE]
  refine ⟨?_, ⟨false, hoi, by simp⟩, ⟨b, hoe, hb⟩, hKK⟩
  rw [Bal_N]; simp only [hu, if_true]; exact hE

macro "disc_setup" : tactic => `(tactic| (
  simp only [Bal, cons, prod, retDone, entryOK, Expr.used] at *
  try simp at *))

theorem dispatch_disc_let (p : Program) (f : Frame) (st : St) (id : Nat) (u : Bool) (dest : Dest) (inner : Expr)
    (hB : Bal ((st, .letE id u dest inner) :: f.exprs) f.values) (hK : KOK ((st, .letE id u dest inner) :: f.exprs)) :
    DiscAfter (dispatch p f st (.letE id u dest inner)) := by
  obtain ⟨⟨b, hok, hb⟩, hKK⟩ := hK
  have hok' := hok
  simp [okE] at hok
  unfold dispatch
  by_cases hst : st = .E
  · subst hst
    simp only [Bal, cons, prod, retDone, entryOK, Expr.used] at hB
    simp at hB
    match hv : f.values, hB with
    | [], hB => simp at hB
    | v :: vals, hB =>
      simp at hB
      simp only [bne_self_eq_false, Bool.false_eq_true, if_false, Expr.used]
      repeat' split
      all_goals first
        | trivial
        | exact pushVIf_disc _ _ _ (by simpa using hB) hKK
  · have : (st != St.E) = true := by simpa using hst
    simp only [this, if_true]
    apply push1_disc f _ inner b hok.1 hok.2 hok' hb hKK
    intro v
    cases st <;> simp_all [Bal, cons, prod, retDone, entryOK, Expr.used]

theorem setExisting_of_lookup (name : String) (v : Value) : ∀ (blocks : List Block),
    lookupBlocks blocks name ≠ none → setExisting blocks name v ≠ none
  | [], h => by simp [lookupBlocks] at h
  | b :: rest, h => by
    unfold setExisting
    unfold lookupBlocks at h
    split
    · simp
    · rename_i hany
      have hf : b.find? (fun kv => kv.1 == name) = none := by
        rw [List.find?_eq_none]; intro x hx hp; exact hany (List.any_eq_true.mpr ⟨x, hx, hp⟩)
      simp only [hf] at h
      have := setExisting_of_lookup name v rest h
      cases hs : setExisting rest name v <;> simp_all

theorem findVariant_not_int (name : String) (c : Int64) : ∀ (enums : List EnumDef),
    findVariant enums name ≠ some (.int c)
  | [] => by simp [findVariant]
  | e :: rest => by
    have ih := findVariant_not_int name c rest
    unfold findVariant at ih ⊢
    simp only [List.findSome?_cons]
    split
    · rename_i v hv
      repeat' split at hv
      all_goals first
        | (cases hv; intro h; cases h)
        | (simp at hv; done)
    · exact ih

theorem nsLookup_not_int (p : Program) (name : String) (c : Int64) : nsLookup p name ≠ some (.int c) := by
  unfold nsLookup
  repeat' split
  all_goals first
    | (rename_i h; intro h2; simp at h2; subst h2; exact findVariant_not_int name c _ h)
    | (simp; done)
    | (split <;> simp)

theorem dispatch_disc_assign (p : Program) (f : Frame) (st : St) (id : Nat) (u : Bool) (name : String) (inner : Expr)
    (hB : Bal ((st, .assign id u name inner) :: f.exprs) f.values) (hK : KOK ((st, .assign id u name inner) :: f.exprs)) :
    DiscAfter (dispatch p f st (.assign id u name inner)) := by
  obtain ⟨⟨b, hok, hb⟩, hKK⟩ := hK
  have hok' := hok
  simp [okE] at hok
  unfold dispatch
  by_cases hst : st = .E
  · subst hst
    simp only [Bal, cons, prod, retDone, entryOK, Expr.used] at hB
    simp at hB
    match hv : f.values, hB with
    | [], hB => simp at hB
    | v :: vals, hB =>
      simp at hB
      simp only [bne_self_eq_false, Bool.false_eq_true, if_false, Expr.used]
      repeat' split
      all_goals first
        | trivial
        | exact pushVIf_disc _ _ _ (by simpa using hB) hKK
        | exact absurd ‹setExisting _ _ _ = none› (setExisting_of_lookup name v f.blocks (by simp_all))
  · have : (st != St.E) = true := by simpa using hst
    simp only [this, if_true]
    apply push1_disc f _ inner b hok.1 hok.2 hok' hb hKK
    intro v
    cases st <;> simp_all [Bal, cons, prod, retDone, entryOK, Expr.used]

theorem lookupBlocks_of_getVar_int (p : Program) (f : Frame) (name : String) (c : Int64)
    (h : getVar p f name = some (.int c)) : lookupBlocks f.blocks name ≠ none := by
  unfold getVar at h
  split at h
  · simp_all
  · exact absurd h (nsLookup_not_int p name c)

theorem dispatch_disc_update (p : Program) (f : Frame) (st : St) (id : Nat) (u : Bool) (isAdd : Bool) (name : String) (inner : Expr)
    (hB : Bal ((st, .update id u isAdd name inner) :: f.exprs) f.values) (hK : KOK ((st, .update id u isAdd name inner) :: f.exprs)) :
    DiscAfter (dispatch p f st (.update id u isAdd name inner)) := by
  obtain ⟨⟨b, hok, hb⟩, hKK⟩ := hK
  have hok' := hok
  simp [okE] at hok
  unfold dispatch
  by_cases hst : st = .E
  · subst hst
    simp only [Bal, cons, prod, retDone, entryOK, Expr.used] at hB
    simp at hB
    match hv : f.values, hB with
    | [], hB => simp at hB
    | v :: vals, hB =>
      simp at hB
      simp only [bne_self_eq_false, Bool.false_eq_true, if_false, Expr.used]
      repeat' split
      all_goals first
        | trivial
        | exact pushVIf_disc _ _ _ (by simpa using hB) hKK
        | exact absurd ‹setExisting _ _ _ = none› (setExisting_of_lookup name _ f.blocks (lookupBlocks_of_getVar_int p f name _ ‹_›))
  · have : (st != St.E) = true := by simpa using hst
    simp only [this, if_true]
    apply push1_disc f _ inner b hok.1 hok.2 hok' hb hKK
    intro v
    cases st <;> simp_all [Bal, cons, prod, retDone, entryOK, Expr.used]

theorem dispatch_disc_ret (p : Program) (f : Frame) (st : St) (id : Nat) (u : Bool) (inner : Option Expr)
    (hB : Bal ((st, .ret id u inner) :: f.exprs) f.values) (hK : KOK ((st, .ret id u inner) :: f.exprs)) :
    DiscAfter (dispatch p f st (.ret id u inner)) := by
  obtain ⟨⟨b, hok, hb⟩, hKK⟩ := hK
  have hok' := hok
  unfold dispatch
  by_cases hst : st = .E
  · subst hst
    simp only [Bal, cons, prod, retDone, entryOK] at hB
    simp at hB
    simp [DiscAfter, Bal, KOK]
    intro h; simp [h] at hB
  · have : (st == St.E) = false := by simpa using hst
    simp only [this, Bool.false_eq_true, if_false]
    cases inner with
    | some x =>
      simp [okE] at hok
      apply push1_disc f _ x b hok.1 hok.2 hok' hb hKK
      intro v
      simp [Bal, cons, retDone, entryOK]
    | none =>
      simp only [DiscAfter, Frame.pushE, Frame.pushV, KOK]
      refine ⟨?_, ⟨b, hok', hb⟩, hKK⟩
      simp [Bal, cons, retDone, entryOK]

theorem dispatch_disc_paren (p : Program) (f : Frame) (st : St) (id : Nat) (u : Bool) (inner : Expr)
    (hB : Bal ((st, .paren id u inner) :: f.exprs) f.values) (hK : KOK ((st, .paren id u inner) :: f.exprs)) :
    DiscAfter (dispatch p f st (.paren id u inner)) := by
  obtain ⟨⟨b, hok, hb⟩, hKK⟩ := hK
  simp [okE] at hok
  unfold dispatch
  simp only [DiscAfter, Frame.pushE, KOK]
  refine ⟨?_, ⟨false, hok.2, by simp⟩, hKK⟩
  rw [Bal_N, hok.1]
  simp [Bal, cons, prod, retDone, entryOK, Expr.used] at hB
  exact hB

theorem drop_len_add (vs V : List Value) (n k : Nat) (h : vs.length = n) :
    (vs ++ V).drop (n + k) = V.drop k := by
  subst h
  induction vs with
  | nil => simp
  | cons x xs ih =>
    have : (x :: xs).length + k = (xs.length + k) + 1 := by simp; omega
    rw [this]; simp [ih]

theorem pushOps_disc (f : Frame) (e : Expr) (ops : List Expr) (b : Bool)
    (hops : okItems ops = true) (hoe : okE b e = true) (hb : b = true → loopCtx f.exprs = true) (hKK : KOK f.exprs)
    (hE : ∀ vs : List Value, vs.length = ops.length → Bal ((St.E, e) :: f.exprs) (vs ++ f.values)) :
    Bal (ops.foldl (fun f x => f.pushE .N x) (f.pushE .E e)).exprs (ops.foldl (fun f x => f.pushE .N x) (f.pushE .E e)).values ∧
    KOK (ops.foldl (fun f x => f.pushE .N x) (f.pushE .E e)).exprs := by
  obtain ⟨h1, h2, _⟩ := foldl_pushN ops (f.pushE .E e)
  obtain ⟨hu, ho⟩ := okItems_used ops hops
  rw [h1, h2]
  simp only [Frame.pushE]
  constructor
  · apply Bal_operands
    · intro x hx; exact hu x (by simpa using hx)
    · intro vs hl; exact hE vs (by simpa using hl)
  · apply KOK_operands _ _ (show KOK ((St.E, e) :: f.exprs) from ⟨⟨b, hoe, hb⟩, hKK⟩)
    intro x hx; exact ho x (by simpa using hx)

theorem dispatch_disc_list (p : Program) (f : Frame) (st : St) (id : Nat) (u : Bool) (items : List Expr)
    (hB : Bal ((st, .list id u items) :: f.exprs) f.values) (hK : KOK ((st, .list id u items) :: f.exprs)) :
    DiscAfter (dispatch p f st (.list id u items)) := by
  obtain ⟨⟨b, hok, hb⟩, hKK⟩ := hK
  have hok' := hok
  simp [okE] at hok
  unfold dispatch
  by_cases hst : st = .E
  · subst hst
    simp only [Bal, cons, prod, retDone, entryOK, Expr.used] at hB
    simp at hB
    obtain ⟨got, hg, _⟩ := popN_of_le _ _ hB.1
    simp only [bne_self_eq_false, Bool.false_eq_true, if_false, hg, Expr.used]
    exact pushVIf_disc _ _ _ (by simpa using hB.2) hKK
  · have : (st != St.E) = true := by simpa using hst
    simp only [this, if_true]
    apply pushOps_disc f _ items b hok hok' hb hKK
    intro vs hl
    have hd := drop_len_add vs f.values items.length 0 hl
    simp at hd
    have hB' : if u then ∀ v, Bal f.exprs (v :: f.values) else Bal f.exprs f.values := by
      cases st <;> simp_all [Bal, cons, prod, retDone, entryOK, Expr.used]
    simp only [Bal, cons, prod, retDone, entryOK, Expr.used]
    simp [hd, hl]
    cases u <;> simp_all

theorem dispatch_disc_tuple (p : Program) (f : Frame) (st : St) (id : Nat) (u : Bool) (items : List Expr)
    (hB : Bal ((st, .tuple id u items) :: f.exprs) f.values) (hK : KOK ((st, .tuple id u items) :: f.exprs)) :
    DiscAfter (dispatch p f st (.tuple id u items)) := by
  obtain ⟨⟨b, hok, hb⟩, hKK⟩ := hK
  have hok' := hok
  simp [okE] at hok
  unfold dispatch
  by_cases hst : st = .E
  · subst hst
    simp only [Bal, cons, prod, retDone, entryOK, Expr.used] at hB
    simp at hB
    obtain ⟨got, hg, _⟩ := popN_of_le _ _ hB.1
    simp only [bne_self_eq_false, Bool.false_eq_true, if_false, hg, Expr.used]
    exact pushVIf_disc _ _ _ (by simpa using hB.2) hKK
  · have : (st != St.E) = true := by simpa using hst
    simp only [this, if_true]
    apply pushOps_disc f _ items b hok hok' hb hKK
    intro vs hl
    have hd := drop_len_add vs f.values items.length 0 hl
    simp at hd
    have hB' : if u then ∀ v, Bal f.exprs (v :: f.values) else Bal f.exprs f.values := by
      cases st <;> simp_all [Bal, cons, prod, retDone, entryOK, Expr.used]
    simp only [Bal, cons, prod, retDone, entryOK, Expr.used]
    simp [hd, hl]
    cases u <;> simp_all

theorem callee_disc (body : List Expr) (h : okBlock false true body = true) :
    Bal (body.map (fun x => (St.N, x))) [vUnit] ∧ KOK (body.map (fun x => (St.N, x))) := by
  constructor
  · cases body with
    | nil => simp [Bal]
    | cons e rest =>
      have := Bal_block false true [] [vUnit] (by simp [Bal]) (e :: rest) h (by simp)
      simpa using this
  · have := KOK_block false true [] (by simp [KOK]) (by simp) body h
    simpa using this

theorem drop_succ_of_drop (n : Nat) : ∀ (V : List Value) (r : Value) (vs : List Value),
    V.drop n = r :: vs → V.drop (n + 1) = vs := by
  induction n with
  | zero => intro V r vs h; simp at h; subst h; simp
  | succ k ih =>
    intro V r vs h
    cases V with
    | nil => simp at h
    | cons x xs => simp at h ⊢; exact ih xs r vs h

theorem evalCall_disc (p : Program) (f : Frame) (cid : Nat) (u : Bool) (n : Nat)
    (hlen : n + 1 ≤ f.values.length)
    (hB : if u then ∀ v, Bal f.exprs (v :: f.values.drop (n + 1)) else Bal f.exprs (f.values.drop (n + 1)))
    (hKK : KOK f.exprs) (hcal : ∀ v ∈ f.values, CallOK p v) :
    DiscAfter (evalCall p f cid u n) := by
  obtain ⟨got, hg, hgl⟩ := popN_of_le n f.values (by omega)
  unfold evalCall
  simp only [hg]
  split
  · rename_i hd
    have := congrArg List.length hd
    simp at this; omega
  · rename_i recv vals' hd
    have hd1 := drop_succ_of_drop n f.values recv vals' hd
    rw [hd1] at hB
    have hfin : ∀ x, Bal (({ f with values := vals' } : Frame).pushVIf u x).exprs (({ f with values := vals' } : Frame).pushVIf u x).values ∧
        KOK (({ f with values := vals' } : Frame).pushVIf u x).exprs :=
      fun x => pushVIf_disc _ _ _ (by simpa using hB) hKK
    have hrecv : CallOK p recv := hcal recv (List.mem_of_mem_drop (by rw [hd]; simp))
    cases recv <;> simp only []
    case closure env params body =>
      split
      · trivial
      · simp only [DiscAfter]
        exact ⟨by simpa using hB, hKK, (callee_disc body hrecv).1, (callee_disc body hrecv).2, by simp⟩
    case fn name =>
      obtain ⟨d, hd2, hok⟩ := hrecv
      simp only [hd2]
      split
      · trivial
      · simp only [DiscAfter]
        exact ⟨by simpa using hB, hKK, (callee_disc d.body hok).1, (callee_disc d.body hok).2, by simp⟩
    case builtin name =>
      repeat' split
      all_goals first
        | trivial
        | exact hfin _
    case enumC ty idx =>
      rcases got with _ | ⟨a, _ | ⟨b, rest⟩⟩
      all_goals (repeat' split)
      all_goals first
        | trivial
        | exact hfin _
        | (simp_all; done)
    all_goals trivial

theorem dispatch_disc_call (p : Program) (f : Frame) (st : St) (id : Nat) (u : Bool) (recv : Expr) (args : List Expr)
    (hB : Bal ((st, .call id u recv args) :: f.exprs) f.values) (hK : KOK ((st, .call id u recv args) :: f.exprs))
    (hcal : ∀ v ∈ f.values, CallOK p v) :
    DiscAfter (dispatch p f st (.call id u recv args)) := by
  obtain ⟨⟨b, hok, hb⟩, hKK⟩ := hK
  have hok' := hok
  simp [okE] at hok
  unfold dispatch
  simp only [Bal, cons, prod, retDone, entryOK, Expr.used] at hB
  have hops : ∀ (st' : St), (cons st' (.call id u recv args) = 1) → 1 ≤ f.values.length →
      (if u then ∀ v, Bal f.exprs (v :: f.values.tail) else Bal f.exprs f.values.tail) →
      DiscAfter (.ok (args.foldl (fun f x => f.pushE .N x) (f.pushE .E (.call id u recv args)))) := by
    intro st' _ hl hB2
    apply pushOps_disc f _ args b hok.2 hok' hb hKK
    intro vs hl2
    have hd := drop_len_add vs f.values args.length 1 hl2
    simp only [Bal, cons, prod, retDone, entryOK, Expr.used]
    simp [hd]
    refine ⟨by omega, ?_⟩
    cases u <;> simp_all
  cases st
  case N =>
    simp at hB
    simp only [DiscAfter, Frame.pushE, KOK]
    refine ⟨?_, ⟨false, hok.1.2, by simp⟩, ⟨b, hok', hb⟩, hKK⟩
    rw [Bal_N, hok.1.1]; simp only [if_true]
    intro v
    simp only [Bal, cons, prod, retDone, entryOK, Expr.used]
    simp
    exact hB
  case E =>
    simp at hB
    exact evalCall_disc p f _ u args.length hB.1 hB.2 hKK hcal
  all_goals (
    simp at hB
    exact hops .PW rfl hB.1 hB.2)

theorem popBlock_some (f : Frame) (h : 2 ≤ f.blocks.length) :
    ∃ f', popBlock f = some f' ∧ f'.exprs = f.exprs ∧ f'.values = f.values := by
  unfold popBlock
  rcases hb : f.blocks with _ | ⟨a, _ | ⟨b, rest⟩⟩
  · simp [hb] at h
  · simp [hb] at h
  · simp

theorem if_run_disc (f : Frame) (id : Nat) (u : Bool) (c : Expr) (thn : List Expr) (els : Option (List Expr))
    (b : Bool) (vals : List Value) (body : List Expr)
    (hKE : KOK ((St.E, .ifE id u c thn els) :: f.exprs)) (hb : b = true → loopCtx f.exprs = true)
    (hbody : okBlock (b && !u) (u && els.isSome) body = true)
    (hB : if u then ∀ v, Bal f.exprs (v :: vals) else Bal f.exprs vals) :
    DiscAfter (.ok (evalBlock { (f.pushE .E (.ifE id u c thn els)) with values := vals } (u && els.isSome) body)) := by
  simp only [DiscAfter]
  constructor
  · apply Bal_evalBlock (b && !u) _ _ body hbody
    simp only [Frame.pushE, Bal, cons, prod, retDone, entryOK]
    cases u <;> cases els <;> simp_all
  · apply KOK_evalBlock (b && !u) _ _ body hbody hKE
    intro h; simp at h; simp_all [Frame.pushE, loopCtx]

theorem dispatch_disc_if (p : Program) (f : Frame) (st : St) (id : Nat) (u : Bool) (c : Expr) (thn : List Expr) (els : Option (List Expr))
    (hB : Bal ((st, .ifE id u c thn els) :: f.exprs) f.values) (hK : KOK ((st, .ifE id u c thn els) :: f.exprs))
    (hblk : 1 + C06.owners ((st, .ifE id u c thn els) :: f.exprs) ≤ f.blocks.length) :
    DiscAfter (dispatch p f st (.ifE id u c thn els)) := by
  obtain ⟨⟨b, hok, hb⟩, hKK⟩ := hK
  have hKE : KOK ((St.E, .ifE id u c thn els) :: f.exprs) := ⟨⟨b, hok, hb⟩, hKK⟩
  have hc : c.used = true ∧ okE false c = true := by cases els <;> simp_all [okE]
  unfold dispatch
  simp only [Bal, cons, prod, retDone, entryOK, Expr.used] at hB ⊢
  cases st
  case N =>
    simp at hB
    simp only [DiscAfter, Frame.pushE, KOK]
    refine ⟨?_, ⟨false, hc.2, by simp⟩, ⟨b, hok, hb⟩, hKK⟩
    rw [Bal_N, hc.1]; simp only [if_true]
    intro v
    simp only [Bal, cons, prod, retDone, entryOK]
    simp
    exact hB
  case E =>
    simp at hB
    simp [C06.owners, C06.owns] at hblk
    obtain ⟨f', hp, he, hv⟩ := popBlock_some f (by omega)
    simp only [hp]
    exact pushVIf_disc _ _ _ (by rw [he, hv]; simpa using hB) (by rw [he]; exact hKK)
  all_goals (
    simp at hB
    dsimp only [Frame.pushE]
    split
    · rename_i cv vals hv
      rw [hv] at hB
      simp at hB
      repeat' split
      all_goals first
        | trivial
        | exact if_run_disc f id u c thn _ b vals _ hKE hb (by first | (cases els <;> simp_all [okE]; done) | (simp_all [okE]; done)) hB
        | (simp only [DiscAfter]; refine ⟨?_, hKE⟩; simp only [Bal, cons, prod, retDone, entryOK]; cases u <;> simp_all)
    · rename_i hv
      simp [hv] at hB)

theorem matchCases_disc (p : Program) (b bu : Bool) (ty : String) (idx : Nat) (payload : Option Value) :
    ∀ (cases : List Case) (f f' : Frame), okCases b bu cases = true →
    (if bu then ∀ v, Bal f.exprs (v :: f.values) else Bal f.exprs f.values) → KOK f.exprs →
    ((b && !bu) = true → loopCtx f.exprs = true) →
    matchCases p f bu ty idx payload cases = .ok f' → Bal f'.exprs f'.values ∧ KOK f'.exprs
  | [], f, f', _, _, _, _, h => by simp [matchCases] at h
  | .mk variant dest body :: rest, f, f', hok, hB, hK, hl, h => by
      simp only [okCases, Bool.and_eq_true] at hok
      have ih := matchCases_disc p b bu ty idx payload rest f f' hok.2 hB hK hl
      unfold matchCases at h
      have eb := fun (g : Frame) (hg1 : g.exprs = f.exprs) (hg2 : g.values = f.values) =>
        And.intro (Bal_evalBlock b bu g body hok.1 (by rw [hg1, hg2]; exact hB))
          (KOK_evalBlock b bu g body hok.1 (by rw [hg1]; exact hK) (by rw [hg1]; exact hl))
      split at h
      · cases h; exact eb _ rfl rfl
      · split at h
        · simp at h
        · split at h
          · simp at h
          · split at h
            · split at h
              · cases h; exact eb _ rfl rfl
              · simp at h
              · exact ih h
            · exact ih h

theorem dispatch_disc_match (p : Program) (f : Frame) (st : St) (id : Nat) (u : Bool) (sc : Expr) (cs : List Case)
    (hB : Bal ((st, .matchE id u sc cs) :: f.exprs) f.values) (hK : KOK ((st, .matchE id u sc cs) :: f.exprs))
    (hblk : 1 + C06.owners ((st, .matchE id u sc cs) :: f.exprs) ≤ f.blocks.length) :
    DiscAfter (dispatch p f st (.matchE id u sc cs)) := by
  obtain ⟨⟨b, hok, hb⟩, hKK⟩ := hK
  have hKE : KOK ((St.E, .matchE id u sc cs) :: f.exprs) := ⟨⟨b, hok, hb⟩, hKK⟩
  have hok' := hok
  simp [okE] at hok
  unfold dispatch
  simp only [Bal, cons, prod, retDone, entryOK, Expr.used] at hB ⊢
  cases st
  case N =>
    simp at hB
    simp only [DiscAfter, Frame.pushE, KOK]
    refine ⟨?_, ⟨false, hok.1.2, by simp⟩, ⟨b, hok', hb⟩, hKK⟩
    rw [Bal_N, hok.1.1]; simp only [if_true]
    intro v
    simp only [Bal, cons, prod, retDone, entryOK]
    simp
    exact hB
  case E =>
    simp at hB
    simp [C06.owners, C06.owns] at hblk
    obtain ⟨f', hp, he, hv⟩ := popBlock_some f (by omega)
    simp only [hp, DiscAfter]
    rw [he, hv]; exact ⟨hB, hKK⟩
  all_goals (
    simp at hB
    dsimp only [Frame.pushE]
    split
    · rename_i sv vals hv
      rw [hv] at hB
      simp at hB
      repeat' split
      all_goals first
        | trivial
        | (simp only [DiscAfter]
           refine matchCases_disc p (b && !u) u _ _ _ cs _ _ hok.2 ?_ hKE ?_ ‹_›
           · simp only [Bal, cons, prod, retDone, entryOK]; cases u <;> simp_all
           · intro h; simp at h; simp_all [loopCtx])
    · rename_i hv
      simp [hv] at hB)

theorem dispatch_disc_while (p : Program) (f : Frame) (st : St) (id : Nat) (u : Bool) (c : Expr) (body : List Expr)
    (hB : Bal ((st, .whileE id u c body) :: f.exprs) f.values) (hK : KOK ((st, .whileE id u c body) :: f.exprs))
    (hblk : 1 + C06.owners ((st, .whileE id u c body) :: f.exprs) ≤ f.blocks.length) :
    DiscAfter (dispatch p f st (.whileE id u c body)) := by
  obtain ⟨⟨b, hok, hb⟩, hKK⟩ := hK
  have hKst : ∀ st', KOK ((st', .whileE id u c body) :: f.exprs) := fun _ => ⟨⟨b, hok, hb⟩, hKK⟩
  have hok' := hok
  simp [okE] at hok
  unfold dispatch
  simp only [Bal, cons, prod, retDone, entryOK, Expr.used] at hB ⊢
  have hN : ∀ (g : Frame), g.exprs = f.exprs → g.values = f.values →
      (if u then ∀ v, Bal f.exprs (v :: f.values) else Bal f.exprs f.values) →
      DiscAfter (.ok ((g.pushE .PW (.whileE id u c body)).pushE .N c)) := by
    intro g hg1 hg2 h
    simp only [DiscAfter, Frame.pushE, KOK, hg1, hg2]
    refine ⟨?_, ⟨false, hok.1.2, by simp⟩, ⟨b, hok', hb⟩, hKK⟩
    rw [Bal_N, hok.1.1]; simp only [if_true]
    intro v
    simp only [Bal, cons, prod, retDone, entryOK]
    simp
    exact h
  cases st
  case N => simp at hB; exact hN f rfl rfl hB
  case PN => simp at hB
  case E => simp at hB; exact ⟨hB, hKK⟩
  case PD =>
    simp at hB
    simp [C06.owners, C06.owns] at hblk
    obtain ⟨f', hp, he, hv⟩ := popBlock_some f (by omega)
    simp only [hp]
    exact hN f' he hv hB
  case PW =>
    simp at hB
    simp only []
    split
    · rename_i cv vals hv
      rw [hv] at hB; simp at hB
      repeat' split
      all_goals first
        | trivial
        | (simp only [DiscAfter]
           exact ⟨Bal_evalBlock true false _ body hok.2 (by simp only [Frame.pushE, Bal, cons, prod, retDone, entryOK]; cases u <;> simp_all),
                  KOK_evalBlock true false _ body hok.2 (hKst .PD) (by intro h; simp [Frame.pushE, loopCtx])⟩)
        | exact pushVIf_disc _ _ _ (by simp only [Frame.pushE, Bal, cons, prod, retDone, entryOK]; cases u <;> simp_all) (hKst .E)
    · rename_i hv; simp [hv] at hB

theorem dispatch_disc_for (p : Program) (f : Frame) (st : St) (id : Nat) (u : Bool) (dest : Dest) (it : Expr) (body : List Expr)
    (hB : Bal ((st, .forE id u dest it body) :: f.exprs) f.values) (hK : KOK ((st, .forE id u dest it body) :: f.exprs))
    (hblk : 1 + C06.owners ((st, .forE id u dest it body) :: f.exprs) ≤ f.blocks.length) :
    DiscAfter (dispatch p f st (.forE id u dest it body)) := by
  obtain ⟨⟨b, hok, hb⟩, hKK⟩ := hK
  have hKst : ∀ st', KOK ((st', .forE id u dest it body) :: f.exprs) := fun _ => ⟨⟨b, hok, hb⟩, hKK⟩
  have hok' := hok
  simp [okE] at hok
  unfold dispatch
  simp only [Bal, cons, prod, retDone, entryOK, Expr.used] at hB ⊢
  cases st
  case N =>
    simp at hB
    simp only [DiscAfter, Frame.pushE, Frame.pushV, KOK]
    refine ⟨?_, ⟨false, hok.1.2, by simp⟩, ⟨b, hok', hb⟩, hKK⟩
    rw [Bal_N, hok.1.1]; simp only [if_true]
    intro v
    simp only [Bal, cons, prod, retDone, entryOK]
    simp [isInt]
    exact hB
  case PN => simp at hB
  case E =>
    simp at hB
    simp [C06.owners, C06.owns] at hblk
    obtain ⟨f', hp, he, hv⟩ := popBlock_some f (by omega)
    simp only [hp, DiscAfter]
    rw [he, hv]; exact ⟨hB, hKK⟩
  case PD =>
    simp [C06.owners, C06.owns] at hblk
    obtain ⟨f', hp, he, hv⟩ := popBlock_some f (by omega)
    simp only [hp, DiscAfter, Frame.pushE, he, hv]
    refine ⟨?_, hKst .PW⟩
    simp only [Bal, cons, prod, retDone, entryOK]
    simpa using hB
  case PW =>
    simp only []
    split
    · rename_i iv idxv vals hv
      rw [hv] at hB; simp at hB
      cases idxv <;> simp [isInt] at hB
      try simp only []
      repeat' split
      all_goals first
        | trivial
        | exact pushVIf_disc _ _ _ (by simp only [Frame.pushE, Bal, cons, prod, retDone, entryOK]; cases u <;> simp_all) (hKst .E)
        | (simp only [DiscAfter]
           exact ⟨Bal_evalBlock true false _ body hok.2 (by simp only [Frame.pushE, Frame.pushV, Bal, cons, prod, retDone, entryOK]; cases u <;> simp_all [isInt]),
                  KOK_evalBlock true false _ body hok.2 (hKst .PD) (by intro h; simp [Frame.pushE, Frame.pushV, loopCtx])⟩)
        | (have := List.getElem?_eq_none_iff.mp ‹_[_]? = none›; omega)
    · rename_i hv
      simp at hB

/-- the flag `eval_break` pushes Unit by: the `used` flag of the loop left (head of the result) -/
def headLoopUsed : List (St × Expr) → Bool
  | (_, l) :: _ => l.isLoop && l.used
  | [] => false

theorem breakLoop_disc : ∀ (K : List (St × Expr)) (V : List Value) (blocks : List Block),
    loopCtx K = true → KOK K → Bal K V → 1 + C06.owners K ≤ blocks.length →
    ∃ K' V' bs', evalBreakLoop K V blocks = some (K', V', bs') ∧
      (if headLoopUsed K' then ∀ v, Bal K' (v :: V') else Bal K' V') ∧ KOK K'
  | [], V, blocks, hl, _, _, _ => by simp [loopCtx] at hl
  | (st, e) :: rest, V, blocks, hl, hK, hB, hblk => by
    have ih := breakLoop_disc rest
    obtain ⟨⟨b, hok, hb⟩, hKK⟩ := hK
    cases st
    case N =>
      rw [loopCtx_N_false] at hl
      simp at hl
      rw [Bal_N] at hB
      simp [hl.1] at hB
      have hown : C06.owners ((St.N, e) :: rest) = C06.owners rest := by cases e <;> simp [C06.owners, C06.owns]
      rw [hown] at hblk
      have := ih V blocks hl.2 hKK hB hblk
      cases e <;> simpa [evalBreakLoop, ownsBlock] using this
    case PD =>
      cases e <;> simp [loopCtx] at hl
      case whileE id u c body =>
        simp [C06.owners, C06.owns] at hblk
        rcases blocks with _ | ⟨a, _ | ⟨b2, r⟩⟩
        · simp at hblk
        · simp at hblk; omega
        · refine ⟨(St.E, .whileE id u c body) :: rest, V, b2 :: r, by simp [evalBreakLoop, popBlocks1], ?_,
            ⟨⟨b, hok, hb⟩, hKK⟩⟩
          simp [Bal, cons, prod, retDone, entryOK] at hB
          cases u <;> simp_all [headLoopUsed, Expr.isLoop, Expr.used, Bal, cons, prod, retDone, entryOK]
      case forE id u d it body =>
        rcases V with _ | ⟨v1, _ | ⟨v2, vals'⟩⟩ <;> simp [Bal, cons, prod, retDone, entryOK] at hB
        refine ⟨(St.E, .forE id u d it body) :: rest, vals', blocks, by simp [evalBreakLoop], ?_,
          ⟨⟨b, hok, hb⟩, hKK⟩⟩
        have hB2 := hB.2
        cases u <;> simp_all [headLoopUsed, Expr.isLoop, Expr.used, Bal, cons, prod, retDone, entryOK]
    case E =>
      cases e <;> simp [loopCtx] at hl
      all_goals (
        simp [C06.owners, C06.owns] at hblk
        simp [Bal, cons, prod, retDone, entryOK, hl.1] at hB
        rcases blocks with _ | ⟨a, _ | ⟨b2, r⟩⟩
        · simp at hblk
        · simp at hblk; omega
        · have := ih V (b2 :: r) hl.2 hKK hB (by simp at hblk ⊢; omega)
          simpa [evalBreakLoop, ownsBlock, popBlocks1] using this)
    all_goals simp [loopCtx] at hl

theorem continueLoop_disc : ∀ (K : List (St × Expr)) (V : List Value) (blocks : List Block),
    loopCtx K = true → KOK K → Bal K V → 1 + C06.owners K ≤ blocks.length →
    ∃ K' V' bs', evalContinueLoop K V blocks = some (K', V', bs') ∧ Bal K' V' ∧ KOK K'
  | [], V, blocks, hl, _, _, _ => by simp [loopCtx] at hl
  | (st, e) :: rest, V, blocks, hl, hK, hB, hblk => by
    have ih := continueLoop_disc rest
    have hK0 := hK
    obtain ⟨⟨b, hok, hb⟩, hKK⟩ := hK
    cases st
    case N =>
      rw [loopCtx_N_false] at hl
      simp at hl
      rw [Bal_N] at hB
      simp [hl.1] at hB
      have hown : C06.owners ((St.N, e) :: rest) = C06.owners rest := by cases e <;> simp [C06.owners, C06.owns]
      rw [hown] at hblk
      have := ih V blocks hl.2 hKK hB hblk
      cases e <;> simpa [evalContinueLoop, ownsBlock, Expr.isLoop] using this
    case PD =>
      cases e <;> simp [loopCtx] at hl
      all_goals exact ⟨_, V, blocks, by simp [evalContinueLoop, Expr.isLoop], hB, hK0⟩
    case E =>
      cases e <;> simp [loopCtx] at hl
      all_goals (
        simp [C06.owners, C06.owns] at hblk
        simp [Bal, cons, prod, retDone, entryOK, hl.1] at hB
        rcases blocks with _ | ⟨a, _ | ⟨b2, r⟩⟩
        · simp at hblk
        · simp at hblk; omega
        · have := ih V (b2 :: r) hl.2 hKK hB (by simp at hblk ⊢; omega)
          simpa [evalContinueLoop, ownsBlock, popBlocks1, Expr.isLoop] using this)
    all_goals simp [loopCtx] at hl

theorem dispatch_disc_brk (p : Program) (f : Frame) (st : St) (id : Nat) (u : Bool)
    (hB : Bal ((st, .brk id u) :: f.exprs) f.values) (hK : KOK ((st, .brk id u) :: f.exprs))
    (hblk : 1 + C06.owners ((st, .brk id u) :: f.exprs) ≤ f.blocks.length) :
    DiscAfter (dispatch p f st (.brk id u)) := by
  obtain ⟨⟨b, hok, hb⟩, hKK⟩ := hK
  simp [okE] at hok
  obtain ⟨rfl, rfl⟩ := hok
  simp [Bal, cons, prod, retDone, entryOK, Expr.used] at hB
  have hown : C06.owners ((st, .brk id false) :: f.exprs) = C06.owners f.exprs := by
    cases st <;> simp [C06.owners, C06.owns]
  rw [hown] at hblk
  obtain ⟨K', V', bs', he, hB', hK'⟩ := breakLoop_disc f.exprs f.values f.blocks (hb rfl) hKK hB hblk
  unfold dispatch
  simp only [he]
  rcases K' with _ | ⟨⟨st', l⟩, K''⟩
  · simp [headLoopUsed] at hB'
    simp [DiscAfter, Frame.pushVIf]
    exact ⟨hB', hK'⟩
  · simp only [headLoopUsed] at hB'
    exact pushVIf_disc _ _ _ (by simpa using hB') (by simpa using hK')

theorem dispatch_disc_cont (p : Program) (f : Frame) (st : St) (id : Nat) (u : Bool)
    (hB : Bal ((st, .cont id u) :: f.exprs) f.values) (hK : KOK ((st, .cont id u) :: f.exprs))
    (hblk : 1 + C06.owners ((st, .cont id u) :: f.exprs) ≤ f.blocks.length) :
    DiscAfter (dispatch p f st (.cont id u)) := by
  obtain ⟨⟨b, hok, hb⟩, hKK⟩ := hK
  simp [okE] at hok
  obtain ⟨rfl, rfl⟩ := hok
  simp [Bal, cons, prod, retDone, entryOK, Expr.used] at hB
  have hown : C06.owners ((st, .cont id false) :: f.exprs) = C06.owners f.exprs := by
    cases st <;> simp [C06.owners, C06.owns]
  rw [hown] at hblk
  obtain ⟨K', V', bs', he, hB', hK'⟩ := continueLoop_disc f.exprs f.values f.blocks (hb rfl) hKK hB hblk
  unfold dispatch
  simp only [he]
  simp [DiscAfter]
  exact ⟨hB', hK'⟩

/-- **Value-stack discipline of one dispatch**: no panic, and the invariant is re-established. -/
theorem dispatch_disc (p : Program) (f : Frame) (st : St) (e : Expr)
    (hB : Bal ((st, e) :: f.exprs) f.values) (hK : KOK ((st, e) :: f.exprs))
    (hblk : 1 + C06.owners ((st, e) :: f.exprs) ≤ f.blocks.length)
    (hcal : ∀ v ∈ f.values, CallOK p v) : DiscAfter (dispatch p f st e) := by
  cases e
  case int => exact dispatch_disc_leaf p f st _ hB hK trivial
  case str => exact dispatch_disc_leaf p f st _ hB hK trivial
  case var => exact dispatch_disc_leaf p f st _ hB hK trivial
  case lambda => exact dispatch_disc_leaf p f st _ hB hK trivial
  case invalid => exact dispatch_disc_leaf p f st _ hB hK trivial
  case unsup => exact dispatch_disc_leaf p f st _ hB hK trivial
  case binop => exact dispatch_disc_binop p f st _ _ _ _ _ hB hK
  case letE => exact dispatch_disc_let p f st _ _ _ _ hB hK
  case assign => exact dispatch_disc_assign p f st _ _ _ _ hB hK
  case update => exact dispatch_disc_update p f st _ _ _ _ _ hB hK
  case ret => exact dispatch_disc_ret p f st _ _ _ hB hK
  case paren => exact dispatch_disc_paren p f st _ _ _ hB hK
  case list => exact dispatch_disc_list p f st _ _ _ hB hK
  case tuple => exact dispatch_disc_tuple p f st _ _ _ hB hK
  case call => exact dispatch_disc_call p f st _ _ _ _ hB hK hcal
  case ifE => exact dispatch_disc_if p f st _ _ _ _ _ hB hK hblk
  case matchE => exact dispatch_disc_match p f st _ _ _ _ hB hK hblk
  case whileE => exact dispatch_disc_while p f st _ _ _ _ hB hK hblk
  case forE => exact dispatch_disc_for p f st _ _ _ _ _ hB hK hblk
  case brk => exact dispatch_disc_brk p f st _ _ hB hK hblk
  case cont => exact dispatch_disc_cont p f st _ _ hB hK hblk

-- ------------------------------------------------------------------ block count (from C06)

def BlkAfter : Disp → Prop
  | .ok f' => 1 + C06.owners f'.exprs ≤ f'.blocks.length
  | .okOut f' _ => 1 + C06.owners f'.exprs ≤ f'.blocks.length
  | .newFrame f' c => 1 + C06.owners f'.exprs ≤ f'.blocks.length ∧ C06.owners c.exprs = 0
  | _ => True

theorem dispatch_blk (p : Program) (f : Frame) (st : St) (e : Expr)
    (hblk : 1 + C06.owners ((st, e) :: f.exprs) ≤ f.blocks.length) : BlkAfter (dispatch p f st e) := by
  simp only [C06.owners] at hblk
  by_cases hr : C06.isReturnDone st e = true
  · rw [C06.dispatch_ret_done _ _ _ _ hr]
    simp [BlkAfter, C06.owners]; omega
  · generalize hn : (if C06.owns (st, e) = true then 1 else 0) = n at hblk
    have hd := C06.dispatch_bal p f st e (f.blocks.length - C06.owners f.exprs - n)
      (by rw [hn]; omega) (by simpa using hr)
    generalize dispatch p f st e = d at hd
    cases d <;> simp [C06.BalAfter, C06.Bal, BlkAfter] at hd ⊢ <;> omega

-- ------------------------------------------------------------------ callerUses is never written

def CuAfter (f : Frame) : Disp → Prop
  | .ok f' => f'.callerUses = f.callerUses
  | .okOut f' _ => f'.callerUses = f.callerUses
  | .newFrame f' _ => f'.callerUses = f.callerUses
  | _ => True

theorem evalBlock_cu (f : Frame) (u : Bool) (body : List Expr) : (evalBlock f u body).callerUses = f.callerUses := by
  unfold evalBlock
  simp only
  split <;> simp [Frame.pushV]

theorem pushVIf_cu (f : Frame) (c : Bool) (v : Value) : (f.pushVIf c v).callerUses = f.callerUses := by
  unfold Frame.pushVIf Frame.pushV; split <;> rfl

theorem foldl_pushN_cu (items : List Expr) (f : Frame) :
    (items.foldl (fun f x => f.pushE .N x) f).callerUses = f.callerUses := by
  induction items generalizing f with
  | nil => rfl
  | cons x xs ih => simp only [List.foldl]; rw [ih]; rfl

theorem popBlock_cu (f f' : Frame) (h : popBlock f = some f') : f'.callerUses = f.callerUses := by
  unfold popBlock at h
  split at h <;> simp at h
  subst h; rfl

theorem matchCases_cu (p : Program) (used : Bool) (ty : String) (idx : Nat) (payload : Option Value) :
    ∀ (cases : List Case) (f f' : Frame), matchCases p f used ty idx payload cases = .ok f' →
    f'.callerUses = f.callerUses
  | [], f, f', h => by simp [matchCases] at h
  | .mk variant dest body :: rest, f, f', h => by
      have ih := matchCases_cu p used ty idx payload rest f f'
      unfold matchCases at h
      split at h
      · cases h; exact evalBlock_cu _ _ _
      · split at h
        · simp at h
        · split at h
          · simp at h
          · split at h
            · split at h
              · cases h; exact evalBlock_cu _ _ _
              · simp at h
              · exact ih h
            · exact ih h

theorem evalCall_cu (p : Program) (f : Frame) (cid : Nat) (u : Bool) (n : Nat) : CuAfter f (evalCall p f cid u n) := by
  unfold evalCall
  repeat' split
  all_goals simp [CuAfter, pushVIf_cu]

theorem dispatch_cu (p : Program) (f : Frame) (st : St) (e : Expr) : CuAfter f (dispatch p f st e) := by
  cases e
  case call id u recv args =>
    unfold dispatch
    cases st <;> simp only [Expr.used]
    case E => exact evalCall_cu p f _ _ _
    case N => simp [CuAfter, Frame.pushE]
    all_goals (simp only [CuAfter, foldl_pushN_cu]; rfl)
  case list id u items =>
    unfold dispatch
    simp only [Expr.used]
    repeat' split
    all_goals first
      | (simp only [CuAfter, foldl_pushN_cu]; rfl)
      | (simp [CuAfter, pushVIf_cu]; done)
  case tuple id u items =>
    unfold dispatch
    simp only [Expr.used]
    repeat' split
    all_goals first
      | (simp only [CuAfter, foldl_pushN_cu]; rfl)
      | (simp [CuAfter, pushVIf_cu]; done)
  all_goals (
    unfold dispatch
    simp only [Expr.used]
    repeat' split
    all_goals first
      | (simp [CuAfter, Frame.pushE, Frame.pushV, pushVIf_cu, evalBlock_cu]; done)
      | (rename_i hp; have := popBlock_cu _ _ hp; simp [CuAfter, Frame.pushE, Frame.pushV, pushVIf_cu, evalBlock_cu, this]; done)
      | (rename_i hm; have := matchCases_cu _ _ _ _ _ _ _ _ hm; simp [CuAfter, Frame.pushE, this]; done))

-- ------------------------------------------------------------------ the state invariant

def FrameOK (f : Frame) : Prop :=
  Bal f.exprs f.values ∧ KOK f.exprs ∧ 1 + C06.owners f.exprs ≤ f.blocks.length

/-- a caller waits for the value of the call it is evaluating (iff the callee's `callerUses`) -/
def CallerOK (uses : Bool) (c : Frame) : Prop :=
  (if uses then ∀ v, Bal c.exprs (v :: c.values) else Bal c.exprs c.values) ∧ KOK c.exprs ∧
  1 + C06.owners c.exprs ≤ c.blocks.length

def StackOK : List Frame → Prop
  | [] => True
  | [_] => True
  | callee :: caller :: rest => CallerOK callee.callerUses caller ∧ StackOK (caller :: rest)

/-- the discipline invariant of a machine state (without the deep value part) -/
def WFd (s : State) : Prop :=
  ∃ f rest, s.frames = f :: rest ∧ FrameOK f ∧ StackOK (f :: rest)

/-- every value on the current frame's value stack may be called -/
def CallsOK (s : State) : Prop :=
  ∀ f rest, s.frames = f :: rest → ∀ v ∈ f.values, CallOK s.prog v

theorem StackOK_top (f g : Frame) (rest : List Frame) (h : g.callerUses = f.callerUses)
    (hs : StackOK (f :: rest)) : StackOK (g :: rest) := by
  cases rest with
  | nil => trivial
  | cons r rs => simp only [StackOK] at hs ⊢; rw [h]; exact hs

theorem stopCheck_no_panic (a : State) (f : Frame) (st : St) (e : Expr) (site : String) :
    stopCheck a f st e ≠ .panic site := by
  unfold stopCheck
  repeat' split
  all_goals simp

theorem step_no_panic_core (s : State) (hw : WFd s) (hcal : CallsOK s) (site : String) :
    step s ≠ .panic site := by
  intro h
  obtain ⟨f, callers, hf, ⟨hB, hK, hblk⟩, hS⟩ := hw
  have hcal' := hcal f callers hf
  unfold step at h
  simp only [hf] at h
  match he : f.exprs with
  | [] =>
    simp only [he] at h
    rw [he] at hB
    simp [Bal] at hB
    cases callers with
    | nil => cases hv : f.values <;> simp [hv] at h; exact hB hv
    | cons caller rest =>
      cases hv : f.values <;> simp [hv] at h
      · exact hB hv
      · split at h <;> simp at h
  | (st, e) :: restE =>
    simp only [he] at h
    rw [he] at hB hK hblk
    have hd := dispatch_disc s.prog { f with exprs := restE } st e hB hK hblk hcal'
    split at h
    · simp at h
    · split at h
      · simp at h
      · split at h
        · simp at h
        · split at h
          · exact stopCheck_no_panic _ _ _ _ _ h
          · exact stopCheck_no_panic _ _ _ _ _ h
          · simp at h
          · simp at h
          · rename_i hdd; rw [hdd] at hd; exact hd
          · simp at h

theorem step_preserves_core (s s' : State) (hw : WFd s) (hcal : CallsOK s) (h : step s = .cont s') :
    WFd s' := by
  obtain ⟨f, callers, hf, ⟨hB, hK, hblk⟩, hS⟩ := hw
  have hcal' := hcal f callers hf
  unfold step at h
  simp only [hf] at h
  match he : f.exprs with
  | [] =>
    simp only [he] at h
    cases callers with
    | nil => cases hv : f.values <;> simp [hv] at h
    | cons caller rest =>
      cases hv : f.values <;> simp [hv] at h
      split at h
      · simp at h
      · simp at h
        subst h
        obtain ⟨⟨hc1, hc2, hc3⟩, hS'⟩ := hS
        cases hu : f.callerUses
        · simp only [hu, Bool.false_eq_true, if_false] at hc1 ⊢
          exact ⟨caller, rest, rfl, ⟨hc1, hc2, hc3⟩, hS'⟩
        · simp only [hu, if_true] at hc1 ⊢
          exact ⟨_, rest, rfl, ⟨hc1 _, hc2, hc3⟩, StackOK_top caller _ rest rfl hS'⟩
  | (st, e) :: restE =>
    simp only [he] at h
    rw [he] at hB hK hblk
    have hd := dispatch_disc s.prog { f with exprs := restE } st e hB hK hblk hcal'
    have hb := dispatch_blk s.prog { f with exprs := restE } st e hblk
    have hc := dispatch_cu s.prog { f with exprs := restE } st e
    split at h
    · simp at h
    · split at h
      · simp at h
      · split at h
        · simp at h
        · split at h <;> (try (have h := C06.stopCheck_cont _ _ _ _ _ h)) <;> (try simp at h) <;> subst h
          · rename_i f' hdd
            rw [hdd] at hd hb hc
            exact ⟨f', callers, by simp [setTop, hf], ⟨hd.1, hd.2, hb⟩, StackOK_top f f' callers hc hS⟩
          · rename_i f' o hdd
            rw [hdd] at hd hb hc
            exact ⟨f', callers, by simp [setTop, hf], ⟨hd.1, hd.2, hb⟩, StackOK_top f f' callers hc hS⟩
          · rename_i f' callee hdd
            rw [hdd] at hd hb hc
            obtain ⟨h1, h2, h3, h4, h5⟩ := hd
            refine ⟨callee, f' :: callers, rfl, ⟨h3, h4, ?_⟩, ⟨h1, h2, hb.1⟩, StackOK_top f f' callers hc hS⟩
            rw [hb.2]
            cases hcb : callee.blocks with
            | nil => exact absurd hcb h5
            | cons x xs => simp

-- ------------------------------------------------------------------ deep value invariant

/-- every closure inside the value has a well-formed body, every named function is defined -/
inductive VOK (p : Program) : Value → Prop
  | int (v : Int64) : VOK p (.int v)
  | str (s : String) : VOK p (.str s)
  | enumC (t : String) (i : Nat) : VOK p (.enumC t i)
  | builtin (n : String) : VOK p (.builtin n)
  | list (items : List Value) : (∀ v ∈ items, VOK p v) → VOK p (.list items)
  | tuple (items : List Value) : (∀ v ∈ items, VOK p v) → VOK p (.tuple items)
  | enumNone (t : String) (i : Nat) : VOK p (.enumV t i none)
  | enumSome (t : String) (i : Nat) (v : Value) : VOK p v → VOK p (.enumV t i (some v))
  | closure (env : List (List (String × Value))) (params : List String) (body : List Expr) :
      (∀ b ∈ env, ∀ kv ∈ b, VOK p kv.2) → okBlock false true body = true → VOK p (.closure env params body)
  | fn (name : String) :
      (∃ d, p.funs.find? (fun d => d.name == name) = some d ∧ okBlock false true d.body = true) → VOK p (.fn name)

theorem VOK_CallOK (p : Program) (v : Value) (h : VOK p v) : CallOK p v := by
  cases h <;> simp only [CallOK] <;> first | trivial | assumption

def BlockV (p : Program) (b : Block) : Prop := ∀ kv ∈ b, VOK p kv.2
def BlocksV (p : Program) (bs : List Block) : Prop := ∀ b ∈ bs, BlockV p b
def FrameV (p : Program) (f : Frame) : Prop :=
  (∀ v ∈ f.values, VOK p v) ∧ BlocksV p f.blocks ∧ BlockV p f.nextBlock

theorem blockSet_V (p : Program) (b : Block) (n : String) (v : Value) (hb : BlockV p b) (hv : VOK p v) :
    BlockV p (blockSet b n v) := by
  unfold blockSet
  split
  · intro kv hkv
    simp only [List.mem_map] at hkv
    obtain ⟨kv0, h0, rfl⟩ := hkv
    split
    · exact hv
    · exact hb kv0 h0
  · intro kv hkv
    simp only [List.mem_append, List.mem_singleton] at hkv
    rcases hkv with h | rfl
    · exact hb kv h
    · exact hv

theorem BlocksV_cons (p : Program) (b : Block) (bs : List Block) (h1 : BlockV p b) (h2 : BlocksV p bs) :
    BlocksV p (b :: bs) := by
  intro x hx
  simp only [List.mem_cons] at hx
  rcases hx with rfl | hx
  · exact h1
  · exact h2 x hx

theorem BlocksV_tail (p : Program) (b : Block) (bs : List Block) (h : BlocksV p (b :: bs)) :
    BlockV p b ∧ BlocksV p bs :=
  ⟨h b (by simp), fun x hx => h x (by simp [hx])⟩

theorem addNew_V (p : Program) (bs : List Block) (n : String) (v : Value) (hb : BlocksV p bs) (hv : VOK p v) :
    BlocksV p (addNew bs n v) := by
  unfold addNew
  split
  · exact hb
  · cases bs with
    | nil => exact hb
    | cons b rest =>
      obtain ⟨h1, h2⟩ := BlocksV_tail p b rest hb
      exact BlocksV_cons p _ _ (blockSet_V p b n v h1 hv) h2

theorem foldl_addNew_V (p : Program) (kvs : List (String × Value)) : ∀ bs : List Block,
    (∀ kv ∈ kvs, VOK p kv.2) → BlocksV p bs →
    BlocksV p (kvs.foldl (fun bs kv => addNew bs kv.1 kv.2) bs) := by
  induction kvs with
  | nil => intro bs _ h; exact h
  | cons x xs ih =>
    intro bs hk hb
    simp only [List.foldl]
    exact ih _ (fun kv h => hk kv (by simp [h])) (addNew_V p bs x.1 x.2 hb (hk x (by simp)))

theorem foldl_pblock_V (p : Program) (kvs : List (String × Value)) : ∀ b : Block,
    (∀ kv ∈ kvs, VOK p kv.2) → BlockV p b →
    BlockV p (kvs.foldl (fun b kv => if kv.1 == "_" then b else blockSet b kv.1 kv.2) b) := by
  induction kvs with
  | nil => intro b _ h; exact h
  | cons x xs ih =>
    intro b hk hb
    simp only [List.foldl]
    apply ih _ (fun kv h => hk kv (by simp [h]))
    split
    · exact hb
    · exact blockSet_V p b x.1 x.2 hb (hk x (by simp))

theorem zip_V (p : Program) (names : List String) (items : List Value) (h : ∀ v ∈ items, VOK p v) :
    ∀ kv ∈ names.zip items, VOK p kv.2 := by
  intro kv hkv
  obtain ⟨a, b⟩ := kv
  exact h b (List.of_mem_zip hkv).2

theorem setExisting_V (p : Program) (n : String) (v : Value) : ∀ (bs bs' : List Block),
    setExisting bs n v = some bs' → BlocksV p bs → VOK p v → BlocksV p bs'
  | [], bs', h, _, _ => by simp [setExisting] at h
  | b :: rest, bs', h, hb, hv => by
    obtain ⟨h1, h2⟩ := BlocksV_tail p b rest hb
    unfold setExisting at h
    split at h
    · cases h
      exact BlocksV_cons p _ _ (blockSet_V p b n v h1 hv) h2
    · simp at h
      obtain ⟨r, hr, rfl⟩ := h
      exact BlocksV_cons p _ _ h1 (setExisting_V p n v rest r hr h2 hv)

theorem lookupBlocks_V (p : Program) (n : String) (v : Value) : ∀ (bs : List Block),
    lookupBlocks bs n = some v → BlocksV p bs → VOK p v
  | [], h, _ => by simp [lookupBlocks] at h
  | b :: rest, h, hb => by
    obtain ⟨h1, h2⟩ := BlocksV_tail p b rest hb
    unfold lookupBlocks at h
    split at h
    · rename_i kv hf
      simp at h; subst h
      exact h1 kv (List.mem_of_find?_eq_some hf)
    · exact lookupBlocks_V p n v rest h h2

theorem findVariant_V (p : Program) (n : String) (v : Value) : ∀ (enums : List EnumDef),
    findVariant enums n = some v → VOK p v
  | [], h => by simp [findVariant] at h
  | e :: rest, h => by
    have ih := findVariant_V p n v rest
    unfold findVariant at ih h
    simp only [List.findSome?_cons] at h
    split at h
    · rename_i w hw
      simp at h; subst h
      repeat' split at hw
      all_goals first
        | (cases hw; constructor; done)
        | (simp at hw; done)
    · exact ih h

theorem nsLookup_V (p : Program) (n : String) (v : Value) (hp : okProg p = true)
    (h : nsLookup p n = some v) : VOK p v := by
  unfold nsLookup at h
  split at h
  · rename_i fd hf
    simp at h; subst h
    have hmem := List.mem_of_find?_eq_some hf
    have hname : (fd.name == n) = true := by have := List.find?_some hf; simpa using this
    have hn : fd.name = n := by simpa using hname
    simp [okProg] at hp
    exact VOK.fn _ ⟨fd, by rw [hn]; exact hf, hp.1 fd hmem⟩
  · split at h
    · rename_i w hw
      simp at h; subst h; exact findVariant_V p n _ _ hw
    · split at h
      · simp at h; subst h; exact VOK.builtin _
      · simp at h

theorem getVar_V (p : Program) (f : Frame) (n : String) (v : Value) (hp : okProg p = true)
    (hb : BlocksV p f.blocks) (h : getVar p f n = some v) : VOK p v := by
  unfold getVar at h
  split at h
  · rename_i w hw
    simp at h; subst h; exact lookupBlocks_V p n _ _ hw hb
  · exact nsLookup_V p n v hp h

theorem popN_eq : ∀ (n : Nat) (V got rest : List Value), popN n V = some (got, rest) → V = got ++ rest
  | 0, V, got, rest, h => by simp [popN] at h; obtain ⟨rfl, rfl⟩ := h; simp
  | n + 1, [], got, rest, h => by simp [popN] at h
  | n + 1, x :: xs, got, rest, h => by
    cases hp : popN n xs with
    | none => simp [popN, hp] at h
    | some pr =>
      obtain ⟨g, r⟩ := pr
      simp [popN, hp] at h
      obtain ⟨rfl, rfl⟩ := h
      rw [popN_eq n xs g r hp]; simp

theorem bindDest_V (p : Program) (dest : Dest) (v : Value) (bs : Block) (h : bindDest dest v = .ok bs)
    (hv : VOK p v) : BlockV p bs := by
  unfold bindDest at h
  split at h
  · cases h; intro kv hkv; split at hkv <;> simp at hkv; subst hkv; exact hv
  · split at h
    · split at h
      · simp at h
      · cases h
        cases hv with
        | tuple _ hi =>
          intro kv hkv
          exact zip_V p _ _ hi kv (List.mem_filter.mp hkv).1
    · simp at h

theorem bindPayload_V (p : Program) (payload : Option Value) (dest : Option Dest) (bs : Block)
    (h : bindPayload payload dest = some (.ok bs))
    (hv : ∀ pl, payload = some pl → VOK p pl) : BlockV p bs := by
  unfold bindPayload at h
  split at h
  · simp at h; subst h
    have := hv _ rfl
    intro kv hkv; split at hkv <;> simp at hkv; subst hkv; exact this
  · split at h
    · split at h
      · simp at h
      · simp at h; subst h
        have := hv _ rfl
        cases this with
        | tuple _ hi =>
          intro kv hkv
          exact zip_V p _ _ hi kv (List.mem_filter.mp hkv).1
    · simp at h
  · simp at h; subst h; intro kv hkv; simp at hkv
  · simp at h

theorem evalBlock_V (p : Program) (f : Frame) (u : Bool) (body : List Expr) (h : FrameV p f) :
    FrameV p (evalBlock f u body) := by
  obtain ⟨h1, h2, h3⟩ := h
  have hb : BlocksV p (f.nextBlock.foldl (fun bs kv => addNew bs kv.1 kv.2) ([] :: f.blocks)) :=
    foldl_addNew_V p _ _ h3 (BlocksV_cons p _ _ (by intro kv hkv; simp at hkv) h2)
  unfold evalBlock
  simp only
  split
  · refine ⟨?_, hb, by intro kv hkv; simp [Frame.pushV] at hkv⟩
    intro v hv
    simp [Frame.pushV] at hv
    rcases hv with rfl | hv
    · exact VOK.enumNone _ _
    · exact h1 v hv
  · exact ⟨h1, hb, by intro kv hkv; simp at hkv⟩

theorem matchCases_V (p : Program) (used : Bool) (ty : String) (idx : Nat) (payload : Option Value)
    (hpl : ∀ pl, payload = some pl → VOK p pl) :
    ∀ (cases : List Case) (f f' : Frame), matchCases p f used ty idx payload cases = .ok f' →
    FrameV p f → FrameV p f'
  | [], f, f', h, _ => by simp [matchCases] at h
  | .mk variant dest body :: rest, f, f', h, hV => by
      have ih := matchCases_V p used ty idx payload hpl rest f f'
      unfold matchCases at h
      split at h
      · cases h; exact evalBlock_V p _ _ _ hV
      · split at h
        · simp at h
        · split at h
          · simp at h
          · split at h
            · split at h
              · rename_i bs hbp
                cases h
                exact evalBlock_V p _ _ _ ⟨hV.1, hV.2.1, bindPayload_V p _ _ _ hbp hpl⟩
              · simp at h
              · exact ih h hV
            · exact ih h hV

theorem popBlocks1_mem (bs bs' : List Block) (h : popBlocks1 bs = some bs') : ∀ b ∈ bs', b ∈ bs := by
  unfold popBlocks1 at h
  split at h <;> simp at h
  subst h; intro b hb; simp at hb ⊢; right; exact hb

theorem popBlock_V (p : Program) (f f' : Frame) (h : popBlock f = some f') (hV : FrameV p f) : FrameV p f' := by
  unfold popBlock at h
  split at h <;> simp at h
  subst h
  rename_i hb
  obtain ⟨h1, h2, h3⟩ := hV
  rw [hb] at h2
  exact ⟨h1, (BlocksV_tail p _ _ h2).2, h3⟩

theorem evalBreakLoop_mem : ∀ (exprs : List (St × Expr)) (vals : List Value) (blocks : List Block)
    (exprs' : List (St × Expr)) (vals' : List Value) (blocks' : List Block),
    evalBreakLoop exprs vals blocks = some (exprs', vals', blocks') →
    (∀ v ∈ vals', v ∈ vals) ∧ (∀ b ∈ blocks', b ∈ blocks)
  | [], vals, blocks, exprs', vals', blocks', h => by
      simp [evalBreakLoop] at h; obtain ⟨_, h2, h3⟩ := h; subst h2; subst h3; simp
  | (st, e) :: rest, vals, blocks, exprs', vals', blocks', h => by
      have ih := evalBreakLoop_mem rest
      cases e
      case whileE id u c body =>
        cases st <;> simp [evalBreakLoop] at h
        case N => exact ih _ _ _ _ _ h
        case PD =>
          obtain ⟨bs, hb, h1, h2, h3⟩ := h
          subst h2; subst h3
          exact ⟨by simp, popBlocks1_mem _ _ hb⟩
        all_goals (obtain ⟨h1, h2, h3⟩ := h; subst h2; subst h3; simp)
      case forE id u d it body =>
        cases st <;> simp [evalBreakLoop] at h
        case N => exact ih _ _ _ _ _ h
        case PW =>
          cases vals with
          | nil => simp at h
          | cons v vs =>
            simp at h
            have := ih vs blocks exprs' vals' blocks' h
            exact ⟨fun x hx => by simp [this.1 x hx], this.2⟩
        all_goals (
          match vals, h with
          | [], h => simp at h
          | [_], h => simp at h
          | _ :: _ :: vs, h =>
            simp at h
            obtain ⟨h1, h2, h3⟩ := h; subst h2; subst h3
            exact ⟨fun x hx => by simp [hx], by simp⟩)
      all_goals (
        simp only [evalBreakLoop] at h
        cases st <;> simp [ownsBlock] at h <;>
        first
        | (exact ih _ _ _ _ _ h)
        | (cases hb : popBlocks1 blocks with
           | none => simp [hb] at h
           | some bs =>
             simp [hb] at h
             have h1 := popBlocks1_mem _ _ hb
             have h2 := ih vals bs exprs' vals' blocks' h
             exact ⟨h2.1, fun b hb' => h1 b (h2.2 b hb')⟩))

theorem evalContinueLoop_mem : ∀ (exprs : List (St × Expr)) (vals : List Value) (blocks : List Block)
    (exprs' : List (St × Expr)) (vals' : List Value) (blocks' : List Block),
    evalContinueLoop exprs vals blocks = some (exprs', vals', blocks') →
    (∀ v ∈ vals', v ∈ vals) ∧ (∀ b ∈ blocks', b ∈ blocks)
  | [], vals, blocks, exprs', vals', blocks', h => by
      simp [evalContinueLoop] at h; obtain ⟨_, h2, h3⟩ := h; subst h2; subst h3; simp
  | (st, e) :: rest, vals, blocks, exprs', vals', blocks', h => by
      have ih := evalContinueLoop_mem rest
      cases e
      case whileE id u c body =>
        cases st <;> simp [evalContinueLoop, Expr.isLoop] at h
        case N => exact ih _ _ _ _ _ h
        all_goals (obtain ⟨h1, h2, h3⟩ := h; subst h2; subst h3; simp)
      case forE id u d it body =>
        cases st <;> simp [evalContinueLoop, Expr.isLoop] at h
        case N => exact ih _ _ _ _ _ h
        case PW =>
          cases vals with
          | nil => simp at h
          | cons v vs =>
            simp at h
            have := ih vs blocks exprs' vals' blocks' h
            exact ⟨fun x hx => by simp [this.1 x hx], this.2⟩
        all_goals (obtain ⟨h1, h2, h3⟩ := h; subst h2; subst h3; simp)
      all_goals (
        simp only [evalContinueLoop] at h
        cases st <;> simp [ownsBlock, Expr.isLoop] at h <;>
        first
        | (exact ih _ _ _ _ _ h)
        | (cases hb : popBlocks1 blocks with
           | none => simp [hb] at h
           | some bs =>
             simp [hb] at h
             have h1 := popBlocks1_mem _ _ hb
             have h2 := ih vals bs exprs' vals' blocks' h
             exact ⟨h2.1, fun b hb' => h1 b (h2.2 b hb')⟩))

def VAfter (p : Program) : Disp → Prop
  | .ok f' => FrameV p f'
  | .okOut f' _ => FrameV p f'
  | .newFrame f' c => FrameV p f' ∧ FrameV p c
  | _ => True

theorem vUnit_V (p : Program) : VOK p vUnit := VOK.enumNone _ _
theorem vBool_V (p : Program) (b : Bool) : VOK p (vBool b) := VOK.enumNone _ _

theorem pushVIf_V (p : Program) (f : Frame) (c : Bool) (v : Value) (h : FrameV p f) (hv : VOK p v) :
    FrameV p (f.pushVIf c v) := by
  unfold Frame.pushVIf Frame.pushV
  split
  · refine ⟨?_, h.2.1, h.2.2⟩
    intro x hx
    simp at hx
    rcases hx with rfl | hx
    · exact hv
    · exact h.1 x hx
  · exact h

theorem foldl_pushN_V (p : Program) (items : List Expr) : ∀ (f : Frame), FrameV p f →
    FrameV p (items.foldl (fun f x => f.pushE .N x) f) := by
  induction items with
  | nil => intro f h; exact h
  | cons x xs ih => intro f h; simp only [List.foldl]; exact ih _ h

theorem intBinop_V (p : Program) (op : BinOp) (a b : Int64) (v : Value) (h : intBinop op a b = .ok v) : VOK p v := by
  unfold intBinop at h
  repeat' split at h
  all_goals first
    | (cases h; first | exact VOK.int _ | exact vBool_V p _)
    | (simp at h; done)

theorem callee_V (p : Program) (params : List String) (args : List Value) (env : List Block)
    (body : List (St × Expr)) (u : Bool) (kind : FrameKind) (cid : Option Nat)
    (hargs : ∀ v ∈ args, VOK p v) (henv : BlocksV p env) :
    FrameV p { exprs := body, values := [vUnit],
               blocks := (params.zip args).foldl (fun b kv => if kv.1 == "_" then b else blockSet b kv.1 kv.2) [] :: env,
               nextBlock := [], callerUses := u, kind := kind, callerId := cid } := by
  refine ⟨?_, ?_, ?_⟩
  · intro v hv; simp at hv; subst hv; exact vUnit_V p
  · exact BlocksV_cons p _ _ (foldl_pblock_V p _ [] (zip_V p _ _ hargs) (by intro kv hkv; simp at hkv)) henv
  · intro kv hkv; simp at hkv

theorem evalCall_V (p : Program) (f : Frame) (cid : Nat) (u : Bool) (n : Nat) (hV : FrameV p f) :
    VAfter p (evalCall p f cid u n) := by
  unfold evalCall
  split
  · trivial
  · rename_i args vals hp
    have heq := popN_eq _ _ _ _ hp
    split
    · trivial
    · rename_i recv vals'
      have hargs : ∀ v ∈ args, VOK p v := fun v hv => hV.1 v (by rw [heq]; simp [hv])
      have hrecv : VOK p recv := hV.1 recv (by rw [heq]; simp)
      have hf : FrameV p { f with values := vals' } :=
        ⟨fun v hv => hV.1 v (by rw [heq]; simp [hv]), hV.2.1, hV.2.2⟩
      cases hrecv <;> simp only []
      case closure env params body henv hbody =>
        split
        · trivial
        · exact ⟨hf, callee_V p _ _ _ _ _ _ _ hargs henv⟩
      case fn name hfn =>
        split
        · trivial
        · split
          · trivial
          · exact ⟨hf, callee_V p _ _ [] _ _ _ _ hargs (by intro b hb; simp at hb)⟩
      case builtin name =>
        repeat' split
        all_goals first
          | trivial
          | exact pushVIf_V p _ _ _ hf (vUnit_V p)
          | exact pushVIf_V p _ _ _ hf (VOK.str _)
      case enumC ty idx =>
        repeat' split
        all_goals first
          | trivial
          | exact pushVIf_V p _ _ _ hf (VOK.enumSome _ _ _ (hargs _ (by simp)))
      all_goals trivial

theorem dispatch_vok (p : Program) (f : Frame) (st : St) (e : Expr) (hp : okProg p = true)
    (hV : FrameV p f) (hK : ∃ b, okE b e = true) : VAfter p (dispatch p f st e) := by
  obtain ⟨h1, h2, h3⟩ := hV
  have hV : FrameV p f := ⟨h1, h2, h3⟩
  have hnil : BlockV p [] := by intro kv hkv; simp at hkv
  cases e
  case int => unfold dispatch; exact pushVIf_V p _ _ _ hV (VOK.int _)
  case str => unfold dispatch; exact pushVIf_V p _ _ _ hV (VOK.str _)
  case var id u name =>
    unfold dispatch; simp only [Expr.used]
    split
    · rename_i v hv; exact pushVIf_V p _ _ _ hV (getVar_V p f name v hp h2 hv)
    · trivial
  case lambda id u params body =>
    obtain ⟨b, hok⟩ := hK
    simp [okE] at hok
    unfold dispatch
    exact pushVIf_V p _ _ _ hV (VOK.closure _ _ _ h2 hok)
  case paren => unfold dispatch; exact hV
  case invalid => unfold dispatch; trivial
  case unsup => unfold dispatch; trivial
  case binop id u op l r =>
    unfold dispatch; simp only [Expr.used]
    split
    · exact hV
    · split
      · rename_i rv lv vals hvals
        have hf : FrameV p { f with values := vals } :=
          ⟨fun v hv => h1 v (by rw [hvals]; simp [hv]), h2, h3⟩
        repeat' split
        all_goals first
          | trivial
          | exact pushVIf_V p _ _ _ hf (vBool_V p _)
          | exact pushVIf_V p _ _ _ hf (VOK.str _)
          | exact pushVIf_V p _ _ _ hf (intBinop_V p _ _ _ _ ‹_›)
      · trivial
  case letE id u dest inner =>
    unfold dispatch; simp only [Expr.used]
    split
    · exact hV
    · split
      · rename_i v vals hvals
        have hv : VOK p v := h1 v (by rw [hvals]; simp)
        have h1' : ∀ x ∈ vals, VOK p x := fun x hx => h1 x (by rw [hvals]; simp [hx])
        repeat' split
        all_goals first
          | trivial
          | exact pushVIf_V p _ _ _ ⟨h1', addNew_V p _ _ _ h2 hv, h3⟩ (vUnit_V p)
          | (cases hv with
             | tuple _ hi => exact pushVIf_V p _ _ _ ⟨h1', foldl_addNew_V p _ _ (zip_V p _ _ hi) h2, h3⟩ (vUnit_V p))
      · trivial
  case assign id u name inner =>
    unfold dispatch; simp only [Expr.used]
    split
    · exact hV
    · split
      · trivial
      · split
        · rename_i v vals hvals
          have hv : VOK p v := h1 v (by rw [hvals]; simp)
          have h1' : ∀ x ∈ vals, VOK p x := fun x hx => h1 x (by rw [hvals]; simp [hx])
          split
          · rename_i bs hs
            exact pushVIf_V p _ _ _ ⟨h1', setExisting_V p _ _ _ _ hs h2 hv, h3⟩ (vUnit_V p)
          · trivial
        · trivial
  case update id u isAdd name inner =>
    unfold dispatch; simp only [Expr.used]
    split
    · exact hV
    · split
      · trivial
      · split
        · rename_i rv vals hvals
          have h1' : ∀ x ∈ vals, VOK p x := fun x hx => h1 x (by rw [hvals]; simp [hx])
          repeat' split
          all_goals first
            | trivial
            | exact pushVIf_V p _ _ _ ⟨h1', setExisting_V p _ _ _ _ ‹_› h2 (VOK.int _), h3⟩ (vUnit_V p)
        · trivial
      · trivial
  case ret id u inner =>
    unfold dispatch; simp only [Expr.used]
    repeat' split
    all_goals first
      | exact hV
      | (refine ⟨?_, h2, h3⟩
         intro x hx
         simp [Frame.pushE, Frame.pushV] at hx
         rcases hx with rfl | hx
         · exact vUnit_V p
         · exact h1 x hx)
  case list id u items =>
    unfold dispatch; simp only [Expr.used]
    split
    · exact foldl_pushN_V p items _ hV
    · split
      · rename_i got vals hpn
        have heq := popN_eq _ _ _ _ hpn
        exact pushVIf_V p _ _ _ ⟨fun x hx => h1 x (by rw [heq]; simp [hx]), h2, h3⟩
          (VOK.list _ (fun x hx => h1 x (by rw [heq]; simp [hx])))
      · trivial
  case tuple id u items =>
    unfold dispatch; simp only [Expr.used]
    split
    · exact foldl_pushN_V p items _ hV
    · split
      · rename_i got vals hpn
        have heq := popN_eq _ _ _ _ hpn
        exact pushVIf_V p _ _ _ ⟨fun x hx => h1 x (by rw [heq]; simp [hx]), h2, h3⟩
          (VOK.tuple _ (fun x hx => h1 x (by rw [heq]; simp [hx])))
      · trivial
  case call id u recv args =>
    unfold dispatch; simp only [Expr.used]
    cases st <;> simp only []
    case N => exact hV
    case E => exact evalCall_V p f _ _ _ hV
    all_goals exact foldl_pushN_V p args _ hV
  case ifE id u c thn els =>
    unfold dispatch; simp only [Expr.used]
    cases st <;> simp only []
    case N => exact hV
    case E =>
      split
      · trivial
      · rename_i f' hpb; exact pushVIf_V p _ _ _ (popBlock_V p _ _ hpb hV) (vUnit_V p)
    all_goals (
      dsimp only [Frame.pushE]
      split
      · rename_i cv vals hvals
        have hf : FrameV p { f with exprs := (St.E, Expr.ifE id u c thn els) :: f.exprs, values := vals } :=
          ⟨fun x hx => h1 x (by rw [hvals]; simp [hx]), h2, h3⟩
        repeat' split
        all_goals first
          | trivial
          | exact evalBlock_V p _ _ _ hf
          | exact ⟨hf.1, BlocksV_cons p _ _ hnil h2, h3⟩
      · trivial)
  case whileE id u c body =>
    unfold dispatch; simp only [Expr.used]
    cases st <;> simp only []
    case N => exact hV
    case PN => trivial
    case E => exact hV
    case PD =>
      split
      · trivial
      · rename_i f' hpb; exact popBlock_V p f f' hpb hV
    case PW =>
      split
      · rename_i cv vals hvals
        have hf : FrameV p { f with values := vals } :=
          ⟨fun x hx => h1 x (by rw [hvals]; simp [hx]), h2, h3⟩
        repeat' split
        all_goals first
          | trivial
          | exact evalBlock_V p _ _ _ hf
          | exact pushVIf_V p _ _ _ hf (vUnit_V p)
      · trivial
  case forE id u d it body =>
    unfold dispatch; simp only [Expr.used]
    cases st <;> simp only []
    case N =>
      refine ⟨?_, h2, h3⟩
      intro x hx
      simp [Frame.pushE, Frame.pushV] at hx
      rcases hx with rfl | hx
      · exact VOK.int _
      · exact h1 x hx
    case PN => trivial
    case E =>
      split
      · trivial
      · rename_i f' hpb; exact popBlock_V p f f' hpb hV
    case PD =>
      split
      · trivial
      · rename_i f' hpb; exact popBlock_V p f f' hpb hV
    case PW =>
      split
      · rename_i iv idxv vals hvals
        have hiv : VOK p iv := h1 iv (by rw [hvals]; simp)
        have h1' : ∀ x ∈ vals, VOK p x := fun x hx => h1 x (by rw [hvals]; simp [hx])
        repeat' split
        all_goals first
          | trivial
          | exact pushVIf_V p _ _ _ ⟨h1', BlocksV_cons p _ _ hnil h2, h3⟩ (vUnit_V p)
          | (cases hiv with
             | list _ hi =>
               apply evalBlock_V
               refine ⟨?_, h2, bindDest_V p _ _ _ ‹_› (hi _ (List.mem_of_getElem? ‹_›))⟩
               intro x hx
               simp [Frame.pushE, Frame.pushV] at hx
               rcases hx with rfl | rfl | hx
               · exact VOK.list _ hi
               · exact VOK.int _
               · exact h1' x hx)
      · trivial
  case matchE id u sc cs =>
    unfold dispatch; simp only [Expr.used]
    cases st <;> simp only []
    case N => exact hV
    case E =>
      split
      · trivial
      · rename_i f' hpb; exact popBlock_V p f f' hpb hV
    all_goals (
      dsimp only [Frame.pushE]
      split
      · rename_i sv vals hvals
        have hsv : VOK p sv := h1 sv (by rw [hvals]; simp)
        have hf : FrameV p { f with exprs := (St.E, Expr.matchE id u sc cs) :: f.exprs, values := vals } :=
          ⟨fun x hx => h1 x (by rw [hvals]; simp [hx]), h2, h3⟩
        repeat' split
        all_goals first
          | trivial
          | (refine matchCases_V p _ _ _ _ ?_ cs _ _ ‹_› hf
             intro pl hpl
             subst hpl
             cases hsv with
             | enumSome _ _ _ h => exact h)
      · trivial)
  case brk id u =>
    unfold dispatch; simp only [Expr.used]
    split
    · trivial
    · rename_i exprs vals blocks hbl
      have hm := evalBreakLoop_mem _ _ _ _ _ _ hbl
      exact pushVIf_V p _ _ _ ⟨fun x hx => h1 x (hm.1 x hx), fun b hb => h2 b (hm.2 b hb), h3⟩ (vUnit_V p)
  case cont id u =>
    unfold dispatch; simp only [Expr.used]
    split
    · trivial
    · rename_i exprs vals blocks hbl
      have hm := evalContinueLoop_mem _ _ _ _ _ _ hbl
      exact ⟨fun x hx => h1 x (hm.1 x hx), fun b hb => h2 b (hm.2 b hb), h3⟩

-- ------------------------------------------------------------------ state level

/-- the deep value invariant of a state: the program is well-formed and every frame holds only
well-formed values (value stack, binding blocks, pending block) -/
def StateV (s : State) : Prop := okProg s.prog = true ∧ ∀ f ∈ s.frames, FrameV s.prog f

theorem StateV_CallsOK (s : State) (h : StateV s) : CallsOK s := by
  intro f rest hf v hv
  exact VOK_CallOK _ _ ((h.2 f (by rw [hf]; simp)).1 v hv)

theorem step_preserves_V (s s' : State) (hw : WFd s) (hv : StateV s) (h : step s = .cont s') : StateV s' := by
  obtain ⟨f, callers, hf, ⟨hB, hK, hblk⟩, hS⟩ := hw
  obtain ⟨hp, hall⟩ := hv
  rw [hf] at hall
  have hVf : FrameV s.prog f := hall f (by simp)
  have hVc : ∀ c ∈ callers, FrameV s.prog c := fun c hc => hall c (by simp [hc])
  unfold step at h
  simp only [hf] at h
  match he : f.exprs with
  | [] =>
    simp only [he] at h
    cases callers with
    | nil => cases hv : f.values <;> simp [hv] at h
    | cons caller rest =>
      cases hv : f.values <;> simp [hv] at h
      split at h
      · simp at h
      · simp at h
        subst h
        refine ⟨hp, ?_⟩
        intro g hg
        simp at hg
        rcases hg with rfl | hg
        · have hc := hVc caller (by simp)
          split
          · refine ⟨?_, hc.2.1, hc.2.2⟩
            intro x hx
            simp [Frame.pushV] at hx
            rcases hx with rfl | hx
            · exact hVf.1 _ (by rw [hv]; simp)
            · exact hc.1 x hx
          · exact hc
        · exact hVc g (by simp [hg])
  | (st, e) :: restE =>
    simp only [he] at h
    rw [he] at hK
    have hKe : ∃ b, okE b e = true := by
      obtain ⟨⟨b, hb, _⟩, _⟩ := hK; exact ⟨b, hb⟩
    have hd := dispatch_vok s.prog { f with exprs := restE } st e hp hVf hKe
    split at h
    · simp at h
    · split at h
      · simp at h
      · split at h
        · simp at h
        · split at h <;> (try (have h := C06.stopCheck_cont _ _ _ _ _ h)) <;> (try simp at h) <;> subst h
          · rename_i f' hdd
            rw [hdd] at hd
            refine ⟨by simpa [setTop, hf] using hp, ?_⟩
            intro g hg
            simp [setTop, hf] at hg
            rcases hg with rfl | hg
            · simpa [setTop, hf, VAfter] using hd
            · simpa [setTop, hf] using hVc g hg
          · rename_i f' o hdd
            rw [hdd] at hd
            refine ⟨by simpa [setTop, hf] using hp, ?_⟩
            intro g hg
            simp [setTop, hf] at hg
            rcases hg with rfl | hg
            · simpa [setTop, hf, VAfter] using hd
            · simpa [setTop, hf] using hVc g hg
          · rename_i f' callee hdd
            rw [hdd] at hd
            refine ⟨hp, ?_⟩
            intro g hg
            simp at hg
            rcases hg with rfl | rfl | hg
            · exact hd.2
            · exact hd.1
            · exact hVc g hg

end MachineDiscipline
