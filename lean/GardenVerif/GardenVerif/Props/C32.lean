import GardenVerif.Lemmas.Prelude
/-!
C32 — Prelude string and list functions match their specification.

Statement: the prelude's string and list functions return what a reference implementation returns,
for all arguments, and always terminate.

Model: `Model/Prelude.lean` (M12). A Garden string is `Str = List Char` (code points; `len`,
`substring`, `index_of` all count code points in `src/eval.rs`). Built-ins are transcribed from the
Rust, Garden-source functions line by line from `src/__prelude.gdn` (`while` = fuel, `for` = foldl,
exceptions = `Res.exn`). Every theorem below is universally quantified (no bound on lengths); for a
function with a loop the theorem has the form `bound(|args|) ≤ fuel → run fuel args = .ok (reference args)`,
which is correctness AND termination (any fuel above an explicit bound gives the same, successful,
result); the `*_terminates` corollaries state the termination part in the `∃ n ≤ g(|s|)` form.

PROVED IN FULL (transcription = reference, all arguments):
  first, last, get, len (List and String, definitional), concat, map, filter, enumerate, range, join,
  starts_with, ends_with, strip_prefix, strip_suffix, contains (String and List), min, max, sort_nums,
  substring (value and exactly when it raises), slice, chars,
  trim_left / trim_right / trim — against what the CODE does: it removes U+0020 only (`dropWhile (· = ' ')`);
    the doc comment says "whitespace": known finding C32/trim-removes-only-space,
  index_of — `find` (Rust `str::find`) is characterised as the LEFTMOST occurrence (`index_of_spec_some`,
    `index_of_spec_none`); for the empty needle: `index_of_empty_needle` (the `"".index_of("") = None`
    quirk is known finding C32/empty-needle-in-empty-string),
  split_once (needle ≠ ""), split and replace (needle ≠ ""): equal to the reference "cut at the leftmost
    occurrence and continue after it" (`splitCore`), which is proved to be a right inverse of joining with
    the needle (`split_join`); with the empty needle: `split_empty_needle`, `replace_empty_needle` (the guards
    of patches/prelude-fix-empty-needle.diff), and `unguarded_*_diverges`: WITHOUT the guard (pinned tree) the
    loop runs out of every fuel — the defect the property text mentions.
PROVED PARTIALLY:
  lines — `lines_pieces_partial`: the `split_inclusive('\n')` pieces concatenate to the input; the per-piece
    stripping of one `\n` and then one `\r` is the definition `linesMap`. Missing: equality with a
    `splitOn '\n'`-based reference (drop the last piece if empty).
ONLY CORRESPONDENCE (no theorem): List::index_of, List::append (trivial), string_repr rendering.
-/
namespace C32
open Prelude

/-! ## Lists -/

theorem len_spec {α : Type} (l : List α) : listLen l = (l.length : Int) := rfl

theorem get_spec {α : Type} (l : List α) (i : Int) :
    listGet l i = if 0 ≤ i then l[i.toNat]? else none := listGet_eq l i

theorem first_spec {α : Type} (l : List α) : first l = l.head? := first_eq l
theorem last_spec {α : Type} (l : List α) : last l = l.getLast? := last_eq l
theorem concat_spec {α : Type} (a b : List α) : concat a b = a ++ b := concat_eq a b
theorem map_spec {α β : Type} (l : List α) (f : α → β) : map l f = l.map f := map_eq l f
theorem filter_spec {α : Type} (l : List α) (f : α → Bool) : filter l f = l.filter f := filter_eq l f

theorem enumerate_spec {α : Type} (l : List α) :
    enumerate l = l.zipIdx.map (fun p => ((p.2 : Int), p.1)) := enumerate_eq l

theorem list_contains_spec {α : Type} [BEq α] (l : List α) (x : α) :
    listContains l x = l.any (· == x) := listContains_eq l x

/-- `slice(i, j)`: a negative `j` counts from the end, then plain take/drop (which clamp). -/
theorem slice_spec {α : Type} (l : List α) (i j : Int) :
    listSlice l i j = (l.take (if j < 0 then (l.length : Int) + j else j).toNat).drop i.toNat :=
  listSlice_eq l i j

example : listSlice [10, 11, 12] 1 (-1) = [11] := by decide
example : listGet [4, 5, 6] 3 = none ∧ listGet [4, 5, 6] 1 = some 5 := by decide

/-- `range(i, j) = [i, i+1, …, j-1]`, with any fuel ≥ (j - i) + 1. -/
theorem range_spec (fuel : Nat) (i j : Int) (h : (j - i).toNat + 1 ≤ fuel) :
    range fuel i j = .ok ((List.range (j - i).toNat).map (fun (k : Nat) => i + (k : Int))) :=
  range_eq fuel i j h

theorem range_terminates (i j : Int) : ∃ n, n ≤ (j - i).toNat + 1 ∧ range n i j ≠ .outOfFuel :=
  ⟨(j - i).toNat + 1, Nat.le_refl _, by rw [range_eq _ i j (Nat.le_refl _)]; intro h; cases h⟩

example : range 5 1 5 = .ok [1, 2, 3, 4] := by decide

theorem max_spec (x y : Int) : Prelude.max x y = Max.max x y := max_eq x y
theorem min_spec (x y : Int) : Prelude.min x y = Min.min x y := min_eq x y

/-- `sort_nums` is THE sorted permutation (merge sort by `≤`); recursion depth ≤ length + 1. -/
theorem sort_nums_spec (fuel : Nat) (items : List Int) (h : items.length + 1 ≤ fuel) :
    sortNums fuel items = .ok (items.mergeSort (fun a b => decide (a ≤ b))) := sortNums_eq fuel items h

theorem sort_nums_sorted_perm (fuel : Nat) (items : List Int) (h : items.length + 1 ≤ fuel) :
    ∃ r, sortNums fuel items = .ok r ∧ r.Pairwise (· ≤ ·) ∧ r.Perm items := sortNums_sound fuel items h

theorem sort_nums_terminates (items : List Int) :
    ∃ n, n ≤ items.length + 1 ∧ sortNums n items ≠ .outOfFuel :=
  ⟨items.length + 1, Nat.le_refl _, by rw [sortNums_eq _ items (Nat.le_refl _)]; intro h; cases h⟩

example : sortNums 5 [2, 1, 2, -1] = .ok [-1, 1, 2, 2] := by decide

/-! ## Strings: built-ins -/

theorem str_len_spec (s : Str) : strLen s = (s.length : Int) := rfl

/-- `substring(i, j)` for `0 ≤ i ≤ j` is `take j` then `drop i` (clamping beyond the end). -/
theorem substring_spec (s : Str) (i j : Int) (hi : 0 ≤ i) (hij : i ≤ j) :
    substring s i j = .ok ((s.take j.toNat).drop i.toNat) := substring_ok s i j hi hij

/-- … and it raises exactly when `i < 0` or `i > j`. -/
theorem substring_raises_iff (s : Str) (i j : Int) :
    (∃ k, substring s i j = .exn k) ↔ (i < 0 ∨ i > j) := substring_exn_iff s i j

example : substring ['a', 'é', 'b'] 1 99 = .ok ['é', 'b'] := by decide

theorem starts_with_spec (s p : Str) : startsWith s p = true ↔ ∃ t, s = p ++ t := startsWith_iff s p
theorem ends_with_spec (s p : Str) : endsWith s p = true ↔ ∃ t, s = t ++ p := endsWith_iff s p

theorem join_spec (sep : Str) (items : List Str) : join sep items = List.intercalate sep items :=
  join_eq sep items

theorem chars_spec (s : Str) : (chars s).flatten = s ∧ ∀ x ∈ chars s, x.length = 1 :=
  ⟨chars_flatten s, chars_singletons s⟩

/-- `index_of` with a non-empty needle returns an offset `k` iff `k` is the LEFTMOST position at
which the needle occurs. -/
theorem index_of_spec_some (s n : Str) (k : Nat) (hn : n ≠ []) (h : find s n = some k) :
    indexOf s n = some (k : Int) ∧ n <+: s.drop k ∧ k + n.length ≤ s.length ∧
      ∀ j, j < k → ¬ n <+: s.drop j :=
  ⟨indexOf_of_find_some s n k hn h, (find_some_bound s n k h).1, (find_some_bound s n k h).2,
   find_minimal s n k h⟩

/-- … and `None` iff the needle occurs nowhere. -/
theorem index_of_spec_none (s n : Str) (h : find s n = none) :
    indexOf s n = none ∧ ∀ j, j ≤ s.length → ¬ n <+: s.drop j :=
  ⟨indexOf_of_find_none s n h, find_none s n h⟩

/-- The empty needle: offset 0 in a non-empty string, but `None` in the empty string (the quirk of
looking the offset up among `char_indices()`; known finding C32/empty-needle-in-empty-string). -/
theorem index_of_empty_needle (s : Str) : indexOf s [] = if s = [] then none else some 0 := by
  cases s with
  | nil => simp [indexOf, find]
  | cons c cs => simp [indexOf, find]

example : indexOf ['a', 'é', 'c'] ['c'] = some 2 := by decide

theorem lines_pieces_partial (s : Str) : (splitInclusiveNl s []).flatten = s := by
  simpa using splitInclusiveNl_flatten s []

/-! ## Strings: Garden-source functions -/

/-- `contains` decides "is an infix of"; fuel ≥ |this| + 2 suffices. -/
theorem contains_spec (fuel : Nat) (this sub : Str) (hf : this.length + 2 ≤ fuel) :
    ∃ b, contains fuel this sub = .ok b ∧ (b = true ↔ sub <:+: this) := contains_eq fuel this sub hf

theorem contains_terminates (this sub : Str) :
    ∃ n, n ≤ this.length + 2 ∧ contains n this sub ≠ .outOfFuel := by
  obtain ⟨b, hb, _⟩ := contains_eq (this.length + 2) this sub (Nat.le_refl _)
  exact ⟨_, Nat.le_refl _, by rw [hb]; intro h; cases h⟩

example : contains 6 ['a', 'b', 'c', 'd'] ['b', 'c'] = .ok true := by decide

theorem strip_prefix_spec_hit (p t : Str) : stripPrefix (p ++ t) p = .ok t := stripPrefix_hit p t
theorem strip_prefix_spec_miss (s p : Str) (h : ¬ ∃ t, s = p ++ t) : stripPrefix s p = .ok s :=
  stripPrefix_miss s p h
theorem strip_suffix_spec_hit (t p : Str) : stripSuffix (t ++ p) p = .ok t := stripSuffix_hit t p
theorem strip_suffix_spec_miss (s p : Str) (h : ¬ ∃ t, s = t ++ p) : stripSuffix s p = .ok s :=
  stripSuffix_miss s p h

/-- `trim_left` removes the leading U+0020 characters (and nothing else). -/
theorem trim_left_spec (fuel : Nat) (s : Str) (hf : s.length + 1 ≤ fuel) :
    trimLeft fuel s = .ok (s.dropWhile (· == ' ')) := trimLeft_eq fuel s hf

theorem trim_right_spec (fuel : Nat) (s : Str) (hf : s.length + 1 ≤ fuel) :
    trimRight fuel s = .ok (s.reverse.dropWhile (· == ' ')).reverse := trimRight_eq fuel s hf

theorem trim_spec (fuel : Nat) (s : Str) (hf : s.length + 1 ≤ fuel) :
    trim fuel s = .ok ((s.dropWhile (· == ' ')).reverse.dropWhile (· == ' ')).reverse := trim_eq fuel s hf

theorem trim_terminates (s : Str) : ∃ n, n ≤ s.length + 1 ∧ trim n s ≠ .outOfFuel :=
  ⟨s.length + 1, Nat.le_refl _, by rw [trim_eq _ s (Nat.le_refl _)]; intro h; cases h⟩

example : trim 5 [' ', 'a', ' ', ' '] = .ok ['a'] := by decide
example : trim 5 ['\t', 'a'] = .ok ['\t', 'a'] := by decide   -- the known finding

/-- `split_once` cuts at the leftmost occurrence (`find`, characterised above). -/
theorem split_once_spec (s n : Str) (hn : n ≠ []) :
    splitOnce s n = .ok (match find s n with
      | none => none
      | some k => some (s.take k, s.drop (k + n.length))) := splitOnce_eq s n hn

/-- The two halves and the needle give the string back. -/
theorem split_once_rejoin (s n a b : Str) (hn : n ≠ []) (h : splitOnce s n = .ok (some (a, b))) :
    s = a ++ n ++ b := by
  rw [splitOnce_eq s n hn] at h
  cases hf : find s n with
  | none => simp [hf] at h
  | some k =>
    simp only [hf, Res.ok.injEq, Option.some.injEq, Prod.mk.injEq] at h
    obtain ⟨t, ht⟩ := (find_some_bound s n k hf).1
    have hd : s.drop (k + n.length) = t := by rw [← List.drop_drop, ← ht, List.drop_left' rfl]
    rw [← h.1, ← h.2, hd, List.append_assoc, ht, List.take_append_drop]

example : splitOnce ['a', 'b', 'c', 'b', 'e'] ['b'] = .ok (some (['a'], ['c', 'b', 'e'])) := by decide

/-- `split` with a non-empty needle: `[]` for the empty string, otherwise cut at the leftmost
occurrence and continue after it; fuel ≥ |s| + 1 suffices. -/
theorem split_spec (fuel : Nat) (s n : Str) (hn : n ≠ []) (hf : s.length + 1 ≤ fuel) :
    split fuel s n = .ok (if s = [] then [] else splitCore n s) := split_eq fuel s n hn hf

/-- The reference is a right inverse of joining with the needle. -/
theorem split_join (n s : Str) : List.intercalate n (splitCore n s) = s := splitCoreF_join n s.length s

theorem split_terminates (s n : Str) (hn : n ≠ []) :
    ∃ k, k ≤ s.length + 1 ∧ split k s n ≠ .outOfFuel :=
  ⟨s.length + 1, Nat.le_refl _, by rw [split_eq _ s n hn (Nat.le_refl _)]; intro h; cases h⟩

/-- With the guard of the fix patch the empty needle gives the characters, for any fuel. -/
theorem split_empty_needle (fuel : Nat) (s : Str) : split fuel s [] = .ok (chars s) := by
  simp [split]

example : split 9 ['a', ',', ',', 'b', ','] [','] = .ok [['a'], [], ['b'], []] := by decide
example : split 9 ['a', 'a', 'a'] ['a', 'a'] = .ok [[], ['a']] := by decide

/-- `replace` with a non-empty needle: split on it, join with the replacement. -/
theorem replace_spec (fuel : Nat) (s before after : Str) (hn : before ≠ []) (hf : s.length + 1 ≤ fuel) :
    replace fuel s before after = .ok (List.intercalate after (splitCore before s)) :=
  replace_eq fuel s before after hn hf

theorem replace_terminates (s before after : Str) (hn : before ≠ []) :
    ∃ k, k ≤ s.length + 1 ∧ replace k s before after ≠ .outOfFuel :=
  ⟨s.length + 1, Nat.le_refl _, by rw [replace_eq _ s before after hn (Nat.le_refl _)]; intro h; cases h⟩

theorem replace_empty_needle (fuel : Nat) (s after : Str) : replace fuel s [] after = .ok s := by
  simp [replace]

example : replace 9 ['a', 'b', 'c', 'd', ' ', 'c', 'd'] ['c', 'd'] ['x'] = .ok ['a', 'b', 'x', ' ', 'x'] := by
  decide

/-- The defect on the pinned tree: WITHOUT the guard, an empty needle and a non-empty string make
the loop of `replace` run out of every fuel (the Garden program never terminates). -/
theorem unguarded_replace_diverges (fuel : Nat) (s after : Str) (parts : List Str) (hs : s ≠ []) :
    replaceLoop [] after fuel s parts = .outOfFuel := by
  induction fuel generalizing parts with
  | zero => rfl
  | succ fuel ih =>
    have hi : indexOf s [] = some 0 := by rw [index_of_empty_needle]; simp [hs]
    have h0 := substring_take s 0
    have hd := substring_drop s 0 (Nat.zero_le _)
    simp only [Int.cast_ofNat_Int] at h0 hd
    unfold replaceLoop
    simp only [hi, h0, Res.bind_ok, strLen, List.length_nil, Int.cast_ofNat_Int, Int.add_zero]
    simp only [strLen] at hd
    rw [hd, Res.bind_ok]
    exact ih _

/-- Same for `split`. -/
theorem unguarded_split_diverges (fuel : Nat) (s : Str) (hs : s ≠ []) :
    splitUnguarded fuel s [] = .outOfFuel := by
  have hs' : (s == []) = false := by simpa using hs
  have key : ∀ parts, splitLoop [] fuel s parts = .outOfFuel := by
    induction fuel with
    | zero => intro parts; rfl
    | succ fuel ih =>
      intro parts
      have hi : indexOf s [] = some 0 := by rw [index_of_empty_needle]; simp [hs]
      have h0 := substring_take s 0
      have hd := substring_drop s 0 (Nat.zero_le _)
      simp only [Int.cast_ofNat_Int] at h0 hd
      unfold splitLoop
      simp only [hi, h0, Res.bind_ok, strLen, List.length_nil, Int.cast_ofNat_Int, Int.add_zero]
      simp only [strLen] at hd
      rw [hd, Res.bind_ok]
      exact ih _
  simp [splitUnguarded, hs', key]

end C32
