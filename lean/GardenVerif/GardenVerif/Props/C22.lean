import GardenVerif.Props.C21
import GardenVerif.Lemmas.Fixes
/-!
# C22 — `check --fix` edits are safe

(V) certified validator + exact model of the decisive phase.

* `apply_fixes_disjoint`: exact model `applyFixes` of `apply_fixes` (src/syntax_check.rs 40-54: stable sort by
  start offset descending, sequential splice, explicit panic when a slice bound is beyond the current text). For
  fixes that are the pairwise-disjoint, in-bounds ranges of a segmented text — given in ANY order — the result is
  the simultaneous substitution and there is no panic. Whether the real fix list satisfies the precondition is
  evaluated per input by the driver (`fixes_check`), which also compares the model's output with the real one.
  `apply_fixes_skip_disjoint` is the same statement for the repaired `apply_fixes` (a fix that overlaps an already
  applied one is skipped; no panic outcome); the harness picks the model variant that matches the source it builds.
* per-lint schema soundness on `RefSem` (what each fix CLAIMS to do).
  LOCAL lemmas, exact in fuel: `unused_literal_stmt_sound`, `unused_string_stmt_sound` (a literal statement that
  is not the last of its block can be dropped), `unnecessary_let_sound` (`let x = e; x` at the end of a block has
  the value and output of `e`), `repeated_bool_sound` (`(a op b) op a = a op b` on Bool values, `&&` / `||` being
  strict in garden).
  WHOLE-PROGRAM theorems (closure-free restriction `cl = false`, hence `_partial`; all programs, all fuel):
  `unused_literal_fix_sound_partial` — deleting any set of non-last int / string literal statements anywhere in
  the program preserves the run exactly (result, store, output), with the fuel bounds stated there;
  `repeated_bool_fix_sound_partial` — replacing `x op d` by `x` (`x` a call-free pure `op`-chain, `d` a copy of one
  of its operands) anywhere in the program preserves the run unless the original ends with a type error; lifted
  from the local lemma by the congruence `C21.eval_congr_partial`. The relations (`Fixes.IsUnusedLiteralFix`,
  `Fixes.IsRepeatedBoolFix`) are decided per input by the driver ops `litfix_check` / `rbfix_check` on the two
  trees of the real parser (`unusedLiteralCheck_sound`, `repeatedBoolCheck_sound`).
  NOT PROVED: (1) the whole-program lift of `unnecessary_let_sound`: the fixed program allocates one store cell
  less, so every later location differs; the runs are equal only up to an injection of store locations, which
  needs a simulation relation on stores / environments instead of the equality the congruence provides;
  (2) the same theorems with closures (`cl = true`): need the value-relation technique of Props/C19;
  (3) the unused-variable `_` prefix and `len() == 0` schemas (method calls are outside the fragment).
  Per input the direct oracle runs the real evaluator on the program before and after `--fix`.
-/
set_option linter.unusedVariables false
set_option linter.unusedSimpArgs false

namespace C22
open Validators RefSem Extract Fixes
open Machine (Program Expr Dest BinOp)

/-- Disjoint in-bounds fixes, in any order: `apply_fixes` computes the simultaneous substitution, no panic. -/
theorem apply_fixes_disjoint {α} (segs : List (List α × List α × List α)) (last : List α) (fixes : List (Fix α))
    (h : fixes.mergeSort (fun a b => decide (b.start ≤ a.start)) = (fixesOf 0 segs).reverse) :
    applyFixes (buildText3 segs last) fixes = some (buildFixed segs last) := by
  unfold applyFixes applyFixesSorted
  rw [h, List.foldl_reverse]
  have := applyFixes_foldr segs [] last
  simpa using this

/-- The same for `apply_fixes` with the repair that skips a fix overlapping an already applied one
(`applyFixesSkip`): on disjoint in-bounds fixes nothing is skipped and the result is the simultaneous
substitution; this variant has no panic outcome at all. -/
theorem apply_fixes_skip_disjoint {α} (segs : List (List α × List α × List α)) (last : List α)
    (fixes : List (Fix α))
    (h : fixes.mergeSort (fun a b => decide (b.start ≤ a.start)) = (fixesOf 0 segs).reverse) :
    applyFixesSkip (buildText3 segs last) fixes = buildFixed segs last := by
  unfold applyFixesSkip
  rw [h]
  obtain ⟨b', _, hh⟩ := applyFixesSkipGo_spec segs [] last [] (buildText3 segs last).length (by simp)
  simpa [applyFixesSkipGo] using hh

/-- With the repair, overlapping fixes no longer corrupt the text: the later (stale) one is skipped. -/
example : applyFixesSkipGo [⟨2, 3, [7, 7, 7]⟩, ⟨1, 4, []⟩] [0, 1, 2, 3, 4, 5] 6 = [0, 1, 7, 7, 7, 3, 4, 5] := by
  decide

/-- The ranges `fixesOf` produces are pairwise disjoint, ascending and in bounds. -/
theorem fixesOf_disjoint {α} : ∀ (segs : List (List α × List α × List α)) (last : List α) (i : Nat),
    fixesDisjointSorted (i + (buildText3 segs last).length) i (fixesOf i segs) = true
  | [], last, i => by simp [fixesOf, fixesDisjointSorted]
  | (g, t, nw) :: rest, last, i => by
      have ih := fixesOf_disjoint rest last (i + g.length + t.length)
      simp only [fixesOf, fixesDisjointSorted, buildText3, List.length_append, Bool.and_eq_true, decide_eq_true_eq]
      refine ⟨⟨by omega, by omega⟩, ?_⟩
      have e : i + (g.length + t.length + (buildText3 rest last).length)
          = i + g.length + t.length + (buildText3 rest last).length := by omega
      rw [e]; exact ih

/-- Non-trivial instance: two fixes given in ascending order (the Rust sorts them descending). -/
example : applyFixesSorted [0, 1, 2, 3, 4, 5, 6] [⟨4, 6, [9, 9, 9]⟩, ⟨1, 2, []⟩] = some [0, 2, 3, 9, 9, 9, 6] := by
  decide

/-- Overlapping fixes are NOT the simultaneous substitution (why the precondition matters):
deleting 1..4 and replacing 2..3 leaves a stale offset. -/
example : applyFixesSorted [0, 1, 2, 3, 4, 5] [⟨2, 3, [7, 7, 7]⟩, ⟨1, 4, []⟩] = some [0, 7, 3, 4, 5] := by decide

/-- Removing an unused INT literal statement (not the last statement of its block). -/
theorem unused_literal_stmt_sound (cl : Bool) (p : Program) (n : Nat) (env : Env) (s : RefSem.St)
    (id : Nat) (u : Bool) (v : Int64) (e2 : Expr) (rest : List Expr) :
    evalSeq cl p (n + 2) env s (.int id u v :: e2 :: rest) = evalSeq cl p (n + 1) env s (e2 :: rest) := by
  rw [evalSeq_cons_nonlet cl p (n + 1) env s (e2 :: rest) (by simp [isLet])]
  simp only [eval, RefSem.bind]

/-- Removing an unused STRING literal statement. -/
theorem unused_string_stmt_sound (cl : Bool) (p : Program) (n : Nat) (env : Env) (s : RefSem.St)
    (id : Nat) (u : Bool) (v : String) (e2 : Expr) (rest : List Expr) :
    evalSeq cl p (n + 2) env s (.str id u v :: e2 :: rest) = evalSeq cl p (n + 1) env s (e2 :: rest) := by
  rw [evalSeq_cons_nonlet cl p (n + 1) env s (e2 :: rest) (by simp [isLet])]
  simp only [eval, RefSem.bind]

/-- `let x = e; x` as the end of a block has the result and the output of `e`. -/
theorem unnecessary_let_sound (cl : Bool) (p : Program) (n : Nat) (env : Env) (s : RefSem.St)
    (id id2 : Nat) (u u2 : Bool) (x : String) (e : Expr) (hx : x ≠ "_") :
    (evalSeq cl p (n + 3) env s [.letE id u (.sym x) e, .var id2 u2 x]).1 = (eval cl p (n + 2) env s e).1 ∧
    (evalSeq cl p (n + 3) env s [.letE id u (.sym x) e, .var id2 u2 x]).2.out = (eval cl p (n + 2) env s e).2.out := by
  have hx' : (x == "_") = false := by simpa using hx
  simp only [evalSeq]
  cases h : eval cl p (n + 2) env s e with
  | mk r s1 =>
    cases r <;> simp only [RefSem.bind, and_self]
    simp only [RefSem.bindDest, RefSem.bindNames, hx', Bool.false_eq_true, if_false, evalSeq, eval,
      RefSem.lookupVar, RefSem.lookup, beq_self_eq_true, if_true]
    simp

/-- `(a op b) op a = a op b` on Bool values for the strict operators `&&`, `||`. -/
theorem repeated_bool_sound (a b : Bool) :
    RefSem.binop .or (vBool (a || b)) (vBool a) = RefSem.binop .or (vBool a) (vBool b) ∧
    RefSem.binop .and (vBool (a && b)) (vBool a) = RefSem.binop .and (vBool a) (vBool b) := by
  cases a <;> cases b <;> simp [RefSem.binop, vBool, Val.asBool]

-- ------------------------------------------------------------------ whole-program schema theorems

/-- The decision procedure implies the relation. -/
theorem repeatedBoolCheck_sound (orig fixed : Program) (op : BinOp) (k t : Nat)
    (h : repeatedBoolCheck orig fixed op k t = true) : IsRepeatedBoolFix orig fixed op k t := by
  simp only [repeatedBoolCheck, Bool.and_eq_true, beq_iff_eq] at h
  exact ⟨progEq_sound _ _ h.1, h.2⟩

/-- WHOLE-PROGRAM soundness of the repeated-operand fix (closure-free restriction `cl = false`, hence
`_partial`): if `fixed` is `orig` with one node `x op d` replaced by `x` — `x` a call-free pure chain of
the strict Boolean operator `op`, `d` a copy of its `k`-th operand — anywhere in the program, then
(1) a run of `fixed` that ends with fuel `n` is reproduced exactly (result, store, output) by `orig` with
    fuel `2 * n`, unless `orig` ends with a type error (the removed operand was not a Bool);
(2) a run of `orig` that ends with fuel `n`, not with a type error, is exactly the run of `fixed`.
So when the original runs without error, the fixed program prints the same and ends the same.
Lifted from the local lemma (`Fixes.local_rb`, from `repeated_bool_sound`'s absorption law and
`Fixes.chain_absorb`) through arbitrary contexts by the congruence `C21.eval_congr_partial`. -/
theorem repeated_bool_fix_sound_partial (orig fixed : Program) (op : BinOp) (k t : Nat)
    (h : IsRepeatedBoolFix orig fixed op k t) :
    (∀ n, isTO (run false fixed n).1 = false →
      run false orig (2 * n) = run false fixed n ∨ (run false orig (2 * n)).1 = .err .typeError) ∧
    (∀ n, isTO (run false orig n).1 = false →
      run false fixed n = run false orig n ∨ (run false orig n).1 = .err .typeError) := by
  have hf : ∀ r : Res, failedBy (some .typeError) r = true → r = .err .typeError := by
    intro r hr; cases r <;> simp [failedBy] at hr ⊢; exact hr.symm
  have hto : ∀ r : Res, r = .err .typeError → isTO r = false := by intro r hr; subst hr; rfl
  have hc := C21.eval_congr_partial (rbCfg op k t) fixed (local_rb op k t fixed) (bokSeq_true _)
  have hk : (rbCfg op k t).k + 1 = 2 := rfl
  rw [hk, ← h.1] at hc
  constructor
  · intro n hn
    rcases hc.1 n hn with h1 | h1
    · left
      have := C21.strip_invariant_partial orig (2 * n) (Or.inr (by rw [h1]; exact hn))
      rw [← this, h1]
    · right
      have e := hf _ h1
      have := C21.strip_invariant_partial orig (2 * n) (Or.inr (hto _ e))
      rw [← this]; exact e
  · intro n hn
    have e := C21.strip_invariant_partial orig n (Or.inl hn)
    rcases hc.2 n (by rw [e]; exact hn) with h1 | h1
    · left; rw [h1, e]
    · right; rw [← e]; exact hf _ h1

/-- Observable form: when the original ends without a type error, the fixed program behaves the same. -/
theorem repeated_bool_fix_behaviour_partial (orig fixed : Program) (op : BinOp) (k t : Nat)
    (h : repeatedBoolCheck orig fixed op k t = true) (n : Nat)
    (hn : (behaviour false orig n).1 ≠ .timeout) (he : (behaviour false orig n).1 ≠ .error .typeError) :
    behaviour false fixed n = behaviour false orig n := by
  have hto : isTO (run false orig n).1 = false := by
    simp only [behaviour] at hn
    cases h1 : (run false orig n).1 <;> simp_all [Res.outcome, isTO]
  rcases (repeated_bool_fix_sound_partial orig fixed op k t (repeatedBoolCheck_sound _ _ _ _ _ h)).2 n hto with h1 | h1
  · simp only [behaviour, h1]
  · simp only [behaviour, h1, Res.outcome] at he; exact absurd rfl he

/-- Non-trivial instance: `fun f(x, y) { x && y && x }` and the fixed `fun f(x, y) { x && y }` (fresh ids). -/
example :
    let orig : Program := ⟨[⟨"f", ["x", "y"], [.binop 5 true .and (.binop 3 true .and (.var 1 true "x") (.var 2 true "y"))
      (.var 4 true "x")]⟩], [], []⟩
    let fixed : Program := ⟨[⟨"f", ["x", "y"], [.binop 13 true .and (.var 11 true "x") (.var 12 true "y")]⟩], [], []⟩
    repeatedBoolCheck orig fixed .and 0 13 = true := by
  simp [repeatedBoolCheck, progEq, WP, WFun, WSeq, W, fin, stripCfg, rbCfg, rbWrap, operands, isBoolOp, arithE,
    WCfg.i, WCfg.u, seqEq, exprEq, funsEq, funEq, enumsEq, hitsProg, hitsSeq, hits, hitsOf]

/-- The decision procedure implies the relation. -/
theorem unusedLiteralCheck_sound (orig fixed : Program) (sel : Nat → Bool)
    (h : unusedLiteralCheck orig fixed sel = true) : IsUnusedLiteralFix orig fixed sel :=
  progEq_sound _ _ h

/-- WHOLE-PROGRAM soundness of the unused-literal fix (closure-free restriction, hence `_partial`): if
`fixed` is `orig` with any set of int / string literal STATEMENTS that are not the last statement of
their sequence deleted — in function bodies, nested blocks, loop bodies, match arms, anywhere — and no
single sequence loses more than `K` statements (`dokProg`, decidable; any `K ≥` the number of fixes
will do), then
(1) a run of `orig` that ends with fuel `n` is exactly (result, store, output) the run of `fixed` with
    the same fuel;
(2) a run of `fixed` that ends with fuel `n` is exactly the run of `orig` with fuel `(K + 1) * n`.
Lifted from the local lemma (`unused_literal_stmt_sound`: a literal statement costs one level of fuel
and nothing else) by a dedicated pair of simulations (`Fixes.simDF_all`, `Fixes.simDB_all`): a deleted
statement is not a node replacement, so `eval_congr_partial` does not apply to it. -/
theorem unused_literal_fix_sound_partial (orig fixed : Program) (sel : Nat → Bool) (K : Nat)
    (h : IsUnusedLiteralFix orig fixed sel) (hk : dokProg sel K orig = true) :
    (∀ n, isTO (run false orig n).1 = false → run false fixed n = run false orig n) ∧
    (∀ n, isTO (run false fixed n).1 = false → run false orig ((K + 1) * n) = run false fixed n) := by
  simp only [dokProg, Bool.and_eq_true, List.all_eq_true] at hk
  unfold IsUnusedLiteralFix at h
  constructor
  · intro n hn
    have h1 := ((simDF_all sel orig n n (Nat.le_refl _)).seq [] St.init orig.toplevel).eq_of_not_to hn
    have h1' : run false (delProg sel orig) n = run false orig n := h1.symm
    have h2 := C21.strip_invariant_partial (delProg sel orig) n (Or.inl (by rw [h1']; exact hn))
    have h3 := C21.strip_invariant_partial fixed n (Or.inr (by rw [h, h2, h1']; exact hn))
    rw [← h3, h, h2, h1']
  · intro n hn
    have h3 := C21.strip_invariant_partial fixed n (Or.inl hn)
    have h2 := C21.strip_invariant_partial (delProg sel orig) n (Or.inr (by rw [← h, h3]; exact hn))
    have e : run false (delProg sel orig) n = run false fixed n := by rw [← h2, ← h, h3]
    have hd : dels sel orig.toplevel ≤ K := by
      have := hk.2; simp only [dokSeq, Bool.and_eq_true, decide_eq_true_eq] at this; exact this.1
    have h1 := ((simDB_all hk.1 n).seq ((K + 1) * n) orig.toplevel (by simp only [dthr]; omega) hk.2
      [] St.init).eq_of_not_to (by
        show isTO (run false (delProg sel orig) n).1 = false
        rw [e]; exact hn)
    have h1' : run false (delProg sel orig) n = run false orig ((K + 1) * n) := h1
    rw [← h1', e]

/-- Observable form: when the original ends, the fixed program ends the same way and prints the same. -/
theorem unused_literal_fix_behaviour_partial (orig fixed : Program) (sel : Nat → Bool) (K : Nat)
    (h : unusedLiteralCheck orig fixed sel = true) (hk : dokProg sel K orig = true) (n : Nat)
    (hn : (behaviour false orig n).1 ≠ .timeout) : behaviour false fixed n = behaviour false orig n := by
  have hto : isTO (run false orig n).1 = false := by
    simp only [behaviour] at hn
    cases h1 : (run false orig n).1 <;> simp_all [Res.outcome, isTO]
  simp only [behaviour,
    (unused_literal_fix_sound_partial orig fixed sel K (unusedLiteralCheck_sound _ _ _ h) hk).1 n hto]

/-- Non-trivial instance: `fun f() { 1  println("x")  "s"  2 }  f()` loses the statements `1` (node 1)
and `"s"` (node 5); the last statement `2` stays even if selected. -/
example :
    let orig : Program := ⟨[⟨"f", [], [.int 1 false 1, .call 4 false (.var 2 true "println") [.str 3 true "x"],
      .str 5 false "s", .int 6 true 2]⟩], [], [.call 8 true (.var 7 true "f") []]⟩
    let fixed : Program := ⟨[⟨"f", [], [.call 13 false (.var 11 true "println") [.str 12 true "x"],
      .int 14 true 2]⟩], [], [.call 16 true (.var 15 true "f") []]⟩
    unusedLiteralCheck orig fixed (fun i => i == 1 || i == 5 || i == 6) = true ∧
      dokProg (fun i => i == 1 || i == 5 || i == 6) 2 orig = true := by
  simp [unusedLiteralCheck, progEq, WP, WFun, WSeq, W, fin, stripCfg, delProg, delFun, delSeq, delList, del,
    delHere, isLit, Machine.Expr.id, WCfg.i, WCfg.u, seqEq, exprEq, funsEq, funEq, enumsEq, dokProg, dokSeq, dokL,
    dok, dels]

end C22
