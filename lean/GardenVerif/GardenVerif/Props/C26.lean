import GardenVerif.Lemmas.TestRunner
/-!
# C26 — Test verdicts are independent and the exit status is honest

Model: `TestRunner` (Model/TestRunner.lean) — `eval_tests` / `run_tests_in_files` over the
evaluator model M4 extended with `assert`. All statements are for lists of tests of any
length, test bodies of any size over the modelled fragment, any fuel.

* `exit_honest`, `exit_status_values`: the exit status of `garden test` is 1 exactly when a
  selected test has a verdict other than `pass`, and is 0 otherwise (101 only if the Rust panics).
* `counts_match`: the counts of the summary line are the counts of the verdict list.
* `runner_is_map` / `verdict_independent` / `verdict_order_irrelevant` / `verdict_filter_irrelevant`:
  in an environment WITHOUT A TICK LIMIT (which is what `garden test` builds), a test's verdict
  in any list is the verdict it gets alone: `pop_to_toplevel ∘ eval` restores the
  runner-visible state (`Lemmas.after_test`), and the tick counter / accumulated output are
  not read (`Lemmas.stepWith_norm`). Hypothesis `Defined`: each test on its own ends with a
  verdict (no Rust panic, inside the fragment, enough fuel) — otherwise the real run dies /
  the model cannot tell.
* `shared_tick_budget_counterexample`: with a tick limit (`garden sandboxed-test`) the statement
  is FALSE in the model, as in the code: `env.ticks` is never reset, so the budget is shared by
  all tests of the file (finding C26/sandboxed-shared-tick-budget).
-/

set_option linter.unusedVariables false
namespace C26
open Machine TestRunner

/-- `garden test` exits with status 1 exactly when some selected test did not pass. -/
theorem exit_honest (vs : List (String × Verdict)) (s : State) :
    exitCode (.finished vs s) = some 1 ↔ ∃ x ∈ vs, x.2 ≠ Verdict.pass := by
  unfold exitCode numFailed
  constructor
  · intro h
    by_cases hp : (vs.filter fun x => x.2 != Verdict.pass).length > 0
    · obtain ⟨x, hx⟩ := List.exists_mem_of_length_pos hp
      simp at hx
      exact ⟨x, hx.1, hx.2⟩
    · simp [hp] at h
  · rintro ⟨x, hx, hne⟩
    have : x ∈ vs.filter fun x => x.2 != Verdict.pass := by simp [hx, hne]
    have : (vs.filter fun x => x.2 != Verdict.pass).length > 0 := List.length_pos_of_mem this
    simp [this]

/-- The only exit statuses are 0, 1 and (Rust panic) 101; 0 means every selected test passed. -/
theorem exit_status_values (o : Outcome) (c : Nat) (h : exitCode o = some c) :
    c = 0 ∨ c = 1 ∨ c = 101 := by
  cases o <;> simp [exitCode] at h
  · split at h <;> omega
  · omega

theorem exit_zero_all_pass (vs : List (String × Verdict)) (s : State)
    (h : exitCode (.finished vs s) = some 0) : ∀ x ∈ vs, x.2 = Verdict.pass := by
  intro x hx
  by_cases hp : x.2 = Verdict.pass
  · exact hp
  · have := (exit_honest vs s).mpr ⟨x, hx, hp⟩
    rw [this] at h; cases h

/-- The numbers in `Ran N tests: P passed and F failed.` are the counts of the verdict list. -/
theorem counts_match (vs : List (String × Verdict)) :
    numPassed vs + numFailed vs = vs.length ∧
    numFailed vs = (vs.filter fun x => x.2 != Verdict.pass).length ∧
    numPassed vs = (vs.filter fun x => x.2 == Verdict.pass).length := by
  have hle : numFailed vs ≤ vs.length := List.length_filter_le _ _
  have hsum : (vs.filter fun x => x.2 == Verdict.pass).length + (vs.filter fun x => x.2 != Verdict.pass).length
      = vs.length := by
    induction vs with
    | nil => rfl
    | cons x xs ih =>
      have ih' := ih (List.length_filter_le _ _)
      by_cases hx : x.2 = Verdict.pass
      · simp only [List.filter_cons, hx, beq_self_eq_true, bne_self_eq_false, if_true, List.length_cons]
        simp at ih' ⊢; omega
      · have h1 : (x.2 == Verdict.pass) = false := by simp [hx]
        have h2 : (x.2 != Verdict.pass) = true := by simp [hx]
        simp only [List.filter_cons, h1, h2, if_true, List.length_cons]
        simp at ih' ⊢; omega
  unfold numPassed numFailed at *
  refine ⟨by omega, rfl, by omega⟩

/-- Every test of `ts`, run on its own in environment `b`, ends with a verdict. -/
def Defined (fuel : Nat) (b : State) (ts : List TestDef) : Prop :=
  ∀ t ∈ ts, ∃ v, verdictOf dispatchX fuel (norm b) t = some v ∧ v ≠ Verdict.interrupted

/-- The verdict of `t` run alone in `b`. -/
def alone (fuel : Nat) (b : State) (t : TestDef) : Verdict :=
  (verdictOf dispatchX fuel (norm b) t).getD .pass

/-- Running `[t]` reports exactly `alone t`. -/
theorem alone_spec (fuel : Nat) (p : Program) (sl : Option Nat) (t : TestDef)
    (hd : Defined fuel (baseState p none sl) [t]) :
    ∃ s', runTests fuel (baseState p none sl) [t] = .finished [(t.name, alone fuel (baseState p none sl) t)] s' := by
  obtain ⟨s', h, _, _⟩ := runTestsWith_map dispatchX dispatchX_keeps fuel (initFrame []) [t]
    (baseState p none sl) (base_baseState p sl) hd
  exact ⟨s', h⟩

/-- **The runner is a map**: the list of verdicts is the list of the verdicts the tests get
alone, in the order they were run. Unbounded in the number and size of tests. -/
theorem runner_is_map (fuel : Nat) (p : Program) (sl : Option Nat) (ts : List TestDef)
    (hd : Defined fuel (baseState p none sl) ts) :
    ∃ s', runTests fuel (baseState p none sl) ts =
      .finished (ts.map fun t => (t.name, alone fuel (baseState p none sl) t)) s' := by
  obtain ⟨s', h, _, _⟩ := runTestsWith_map dispatchX dispatchX_keeps fuel (initFrame []) ts
    (baseState p none sl) (base_baseState p sl) hd
  exact ⟨s', h⟩

/-- **Independence**: whatever runs before (`ts₁`) and after (`ts₂`), the verdict recorded for
`t` is the one it gets when it runs alone. -/
theorem verdict_independent (fuel : Nat) (p : Program) (sl : Option Nat) (ts₁ ts₂ : List TestDef) (t : TestDef)
    (hd : Defined fuel (baseState p none sl) (ts₁ ++ t :: ts₂)) :
    ∃ vs s' s'', runTests fuel (baseState p none sl) (ts₁ ++ t :: ts₂) = .finished vs s' ∧
      vs[ts₁.length]? = some (t.name, alone fuel (baseState p none sl) t) ∧
      runTests fuel (baseState p none sl) [t] = .finished [(t.name, alone fuel (baseState p none sl) t)] s'' := by
  obtain ⟨s', h⟩ := runner_is_map fuel p sl (ts₁ ++ t :: ts₂) hd
  obtain ⟨s'', h2⟩ := alone_spec fuel p sl t (fun u hu => hd u (by simp at hu; simp [hu]))
  refine ⟨_, s', s'', h, ?_, h2⟩
  simp

/-- Any reordering of the tests reorders the verdict list in the same way. -/
theorem verdict_order_irrelevant (fuel : Nat) (p : Program) (sl : Option Nat) (ts ts' : List TestDef)
    (hperm : ts.Perm ts') (hd : Defined fuel (baseState p none sl) ts) :
    ∃ vs vs' s s', runTests fuel (baseState p none sl) ts = .finished vs s ∧
      runTests fuel (baseState p none sl) ts' = .finished vs' s' ∧ vs.Perm vs' := by
  have hd' : Defined fuel (baseState p none sl) ts' := fun t ht => hd t (hperm.mem_iff.mpr ht)
  obtain ⟨s, h⟩ := runner_is_map fuel p sl ts hd
  obtain ⟨s', h'⟩ := runner_is_map fuel p sl ts' hd'
  exact ⟨_, _, s, s', h, h', hperm.map _⟩

/-- `garden test -n filter`: the verdicts of the selected tests are the verdicts they get in
the unfiltered run (and alone). -/
theorem verdict_filter_irrelevant (fuel : Nat) (p : Program) (tests : List TestDef) (filter : String)
    (hd : Defined fuel (baseState p none none) tests) :
    ∃ s', gardenTest fuel p tests filter =
      .finished ((selected filter tests).map fun t => (t.name, alone fuel (baseState p none none) t)) s' := by
  unfold gardenTest
  exact runner_is_map fuel p none (selected filter tests)
    (fun t ht => hd t (by unfold selected at ht; exact (List.mem_filter.mp ht).1))

/-- The verdict list of a finished `garden test` run names exactly the selected tests, so the
exit status is 1 iff a SELECTED test failed (`exit_honest` on this list). -/
theorem exit_honest_selected (fuel : Nat) (p : Program) (tests : List TestDef) (filter : String)
    (hd : Defined fuel (baseState p none none) tests) :
    exitCode (gardenTest fuel p tests filter) = some 1 ↔
      ∃ t ∈ selected filter tests, alone fuel (baseState p none none) t ≠ Verdict.pass := by
  obtain ⟨s', h⟩ := verdict_filter_irrelevant fuel p tests filter hd
  rw [h, exit_honest]
  constructor
  · rintro ⟨x, hx, hne⟩
    obtain ⟨t, ht, rfl⟩ := List.mem_map.mp hx
    exact ⟨t, ht, hne⟩
  · rintro ⟨t, ht, hne⟩
    exact ⟨_, List.mem_map.mpr ⟨t, ht, rfl⟩, hne⟩

-- ---------------------------------------------------------------- examples

def tOne : TestDef := ⟨"a", [.int 1 true 5]⟩
def tBad : TestDef := ⟨"b", [.invalid 2 true]⟩
def pEmpty : Program := ⟨[], [], []⟩

/-- A passing and an erroring test: verdicts, exit status 1; with `-n a` exit status 0. -/
example : ∃ s, runTests 100 (baseState pEmpty none none) [tOne, tBad] =
    .finished [("a", .pass), ("b", .errored .invalidSyntax)] s := ⟨_, by rfl⟩

example : exitCode (gardenTest 100 pEmpty [tOne, tBad] "") = some 1 := by rfl
example : exitCode (gardenTest 100 pEmpty [tOne, tBad] "a") = some 0 := by rfl

/-- The hypothesis `Defined` holds for these tests. -/
example : Defined 100 (baseState pEmpty none none) [tOne, tBad] := by
  intro t ht
  simp at ht
  rcases ht with rfl | rfl
  · exact ⟨.pass, by rfl, by simp⟩
  · exact ⟨.errored .invalidSyntax, by rfl, by simp⟩

/-- **With a tick limit the verdict depends on what ran before** (the model agrees with the
code: `env.ticks` is not reset between tests). Test `a` passes alone within the budget, but
after another copy of itself the shared budget is exhausted. -/
theorem shared_tick_budget_counterexample :
    (∃ s, runTests 100 (baseState pEmpty (some 2) none) [tOne] = .finished [("a", .pass)] s) ∧
    (∃ s, runTests 100 (baseState pEmpty (some 2) none) [tOne, tOne] =
      .finished [("a", .pass), ("a", .tickLimit)] s) := ⟨⟨_, by rfl⟩, ⟨_, by rfl⟩⟩

end C26
