"""C02 — Evaluation ends in a value or a Garden error, never a crash.

Proof: GardenVerif.Props.C02 — the VALUE-STACK DISCIPLINE of the evaluator machine M4: an invariant WF of
machine states (pending entries never underflow the value stack, typed slot for a running `for`, binding
blocks ≥ 1 + block-owning entries, loop context for break/continue) with `step_no_panic` and
`step_preserves_WF`, for programs satisfying the decidable predicate `okProg` (the `value_is_used` flags as
the parser assigns them; no break/continue in operand position or outside a loop).
Two defects were found while proving the invariant (parenthesised statement leaves a value: `for x in [1,2] { (5) }`
panicked at eval.rs:1746; a used loop left by `break` pushed no value: `(while True { break }, while True { break })`
panicked at eval.rs:6766); both are fixed in /repo HEAD (acc2a71, 7c0ed2e) and are seeds here.

Tie (C): (1) machine correspondence on generated programs (hook ops `astx` + `machine` vs `machine_run`),
including malformed programs and break/continue at statement positions: model `panic` ⇔ real PANIC/DIED, same
outcome, same end state. (1b) the predicate `okProg` is re-evaluated (python mirror of
MachineDiscipline.okE over the `astx` dump) on the REAL parser's tree of every generated program: programs
the generator builds with exits at statement positions only must satisfy it, so the theorem's hypothesis
is not vacuous on real parser output.

Direct oracle (no model): exit status 101 / signal of the real binary on (2) the built-in sweep
(harness/builtin_sweep.py: every arm of Tables.builtinArms, arity 0..declared+1 over a 15-value pool,
through JSON sessions and confirmed through `garden run -c`), (3) integer operators and `+=`/`-=` over the
boundary set, (4) nesting-depth probes, (5) seeds for the excluded program classes.
"""
import os
import re
import shutil

from . import common
from . import machine_corr as MC
from . import prog_core_gen as PG
from . import builtin_sweep as BS
from .common import hexs

LEAN_MODULES = ["GardenVerif.Props.C02"]
SCRATCH_ROOT = os.path.join(common.BUILD, "scratch", "limits")


# ------------------------------------------------------------------------------ astx + okProg mirror
def parse_sexp(s):
    toks = re.findall(r"\(|\)|[^\s()]+", s)
    pos = 0

    def rd():
        nonlocal pos
        t = toks[pos]
        pos += 1
        if t == "(":
            out = []
            while toks[pos] != ")":
                out.append(rd())
            pos += 1
            return out
        return t
    return rd()


def ok_block(b, bu, block):
    stmts = block[1:]
    for i, e in enumerate(stmts):
        last = i + 1 == len(stmts)
        if (e[2] == "1") != (bu and last):
            return "statement used-flag %s, expected %s" % (e[2], bu and last)
        r = ok_e(b and not bu, e)
        if r:
            return r
    return None


def ok_items(items):
    for e in items:
        if e[2] != "1":
            return "operand not used: %s#%s" % (e[0], e[1])
        r = ok_e(False, e)
        if r:
            return r
    return None


def ok_e(b, e):
    """None if the node satisfies MachineDiscipline.okE b, else a reason."""
    kind, u, rest = e[0], e[2] == "1", e[3:]
    if kind in ("int", "str", "var", "invalid", "unsup", "float"):
        return None
    if kind == "binop":
        return ok_items(rest[1:])
    if kind in ("let", "assign", "update"):
        return ok_items([rest[-1]])
    if kind == "if":
        has_else = rest[2] != "noelse"
        bu = u and has_else
        return (ok_items([rest[0]]) or ok_block(b and not u, bu, rest[1]) or
                (ok_block(b and not u, bu, rest[2]) if has_else else None))
    if kind in ("while", "for"):
        cond = rest[0] if kind == "while" else rest[1]
        body = rest[1] if kind == "while" else rest[2]
        return ok_items([cond]) or ok_block(True, False, body)
    if kind == "match":
        r = ok_items([rest[0]])
        for c in rest[1:]:
            r = r or ok_block(b and not u, u, c[-1])
        return r
    if kind == "return":
        return None if rest[0] == "none" else ok_items([rest[0]])
    if kind in ("break", "continue"):
        return None if (b and not u) else "%s outside a statement position of a loop body (b=%s used=%s)" % (kind, b, u)
    if kind in ("list", "tuple"):
        return ok_items(rest)
    if kind == "call":
        return ok_items(rest)
    if kind == "lambda":
        return ok_block(False, True, rest[-1])
    if kind == "paren":
        if (rest[0][2] == "1") != u:
            return "parenthesised expression: inner used=%s, paren used=%s" % (rest[0][2], u)
        return ok_e(False, rest[0])
    return None   # node kinds outside the model (mcall, assert, …): the model answers `unsupported`


def ok_prog(astx):
    """astx = ['astx', nerr, items…]"""
    for it in astx[2:]:
        if it[0] == "fun":
            r = ok_block(False, True, it[-1])
        elif it[0] == "expr":
            r = ok_items([it[1]])
        elif it[0] == "blockitem":
            r = ok_block(False, True, it[1])
        else:
            r = None
        if r:
            return r
    return None


SEEDS = [
    # (key or None, source): excluded classes and today's fixes
    ("C02/break-continue-in-operand-position", "let l = [1, 2, 3]\nfor x in l { for y in [x, break] { } }\nprintln(\"x\")"),
    ("C02/break-continue-in-operand-position", "let i = 0\nwhile i < 3 { i += 1 let t = (i, continue) }\nprintln(\"x\")"),
    ("C02/break-continue-in-operand-position", "for a in [1, 2] { for b in [3, 4] { let z = [a, b, 1 + break] } }\nprintln(\"x\")"),
    (None, "let y = (while True { break }, while True { break })\nprintln(string_repr(y))"),
    (None, "fun f() { let x = [while True { break }, for q in [1] { break }] x }\nprintln(string_repr(f()))"),
    (None, "for x in [1, 2] { (5) }\nprintln(\"ok\")"),
    (None, "for x in [1, 2] { (x) (x + 1) }\nlet i = 0 while i < 2 { (i) i += 1 }\nprintln(\"ok\")"),
    (None, "fun f() { (1) (2) }\nprintln(string_repr(f()))"),
    (None, "println(string_repr(-9223372036854775808 / -1))"),
    (None, "let x = 9223372036854775807\nx += 1\nprintln(string_repr(x))"),
    (None, "println(string_repr(\"abc\".substring(0, \"x\")))"),
    (None, "break"),
    (None, "fun f() { continue 1 }\nf()"),
    (None, "while True { fun g() { break } g() break }"),
]


def run(ctx):
    d = os.path.join(SCRATCH_ROOT, "c02-%d" % os.getpid())
    shutil.rmtree(d, ignore_errors=True)
    os.makedirs(d, exist_ok=True)
    try:
        _run(ctx, d)
    finally:
        shutil.rmtree(d, ignore_errors=True)


def crash_key(prefix, se):
    m = re.search(r"panicked at (src/[\w/]+\.rs):(\d+)", se or "")
    return "%s/%s" % (prefix, m.group(1)) if m else prefix


def _run(ctx, d):
    rng = ctx.rng
    ctx.rule = ("(1) random core-fragment programs (prog_core_gen: early exits at statement positions 50%, injected unbound "
                "names / wrong operand types / wrong arity 5%) + programs with exits in operand position: model vs real "
                "evaluator, and okProg on the real parser's tree; (2) every built-in arm x argument tuples of arity "
                "0..declared+1 over a 15-value pool + typed values (single-position sweeps + random tuples); (3) integer "
                "operators and compound assignments over a 13-value boundary set (all pairs); (4) literal / runtime nesting "
                "probes; (5) seeds. Non-trivial = a call with a wrong-typed or boundary argument, a program with an early "
                "exit or an injected error, a probe.")
    # ---------------------------------------------------------------- (1) correspondence + predicate on real trees
    progs = []
    for _ in range(ctx.scale(400, 5000)):
        progs.append(("stmt-exits", PG.gen_program(rng, size=rng.choice([15, 30, 50]), err_rate=0.05, exits=0.5)[0]))
    res = MC.run_pairs(ctx, [s for _, s in progs], tick_limit=50000, trace=False)
    ast = ctx.garden_batch(["astx " + hexs(s) for _, s in progs])
    n_ok = n_rej = n_panic_agree = 0
    rej_reasons = {}
    for (fam, src), (i, m), a in zip(progs, res, ast):
        ctx.case(src, bool(re.search(r"\b(break|continue|return|nosuch)\b", src)))
        dsc = MC.compare(i, m, with_trace=False)
        if dsc:
            ctx.disagree("machine", {"src": src}, m.get("outcome", m.get("raw")), i.get("outcome", i.get("raw")), detail=dsc)
        if i["kind"] in ("panic", "died"):
            ctx.fail(crash_key("C02/crash/generated", i.get("raw", "")), "evaluator crashed: %s" % i.get("raw"), src=src)
        if a and a.startswith("OK (astx 0"):
            why = ok_prog(parse_sexp(a[3:]))
            if why is None:
                n_ok += 1
                if m["kind"] == "panic":
                    ctx.disagree("okProg/no-panic", {"src": src}, "model panics on an okProg program: %s" % m.get("raw"),
                                 i.get("kind"))
            else:
                n_rej += 1
                k = why.split(":")[0][:40]
                rej_reasons[k] = rej_reasons.get(k, 0) + 1
    ctx.cov["okProg_on_real_parser_trees"] = {"satisfied": n_ok, "rejected": n_rej, "reasons": rej_reasons}
    if n_ok < 0.5 * (n_ok + n_rej):
        ctx.disagree("okProg", "generated programs", "most programs satisfy okProg", "satisfied %d rejected %d %s"
                     % (n_ok, n_rej, rej_reasons))
    ctx.log("correspondence: %d programs, okProg satisfied %d / rejected %d" % (len(progs), n_ok, n_rej))

    # ---------------------------------------------------------------- (5) seeds
    def run_src(src, timeout=30):
        r = ctx.garden(["run", "-c", src], timeout=timeout, cwd=d, input="", env={"RUST_BACKTRACE": "0"})
        if r[0] == -9999:     # loaded machine: once more with a long timeout before calling it non-termination
            r = ctx.garden(["run", "-c", src], timeout=300, cwd=d, input="", env={"RUST_BACKTRACE": "0"})
        return r
    for (key, src), (rc, so, se) in zip(SEEDS, common.pmap(lambda ks: run_src(ks[1]), SEEDS)):
        ctx.case(("seed", src), True)
        if common.crashed(rc):
            ctx.fail(key or crash_key("C02/crash/seed", se), "interpreter crashed (rc %d): %s" % (rc, (se or "").strip()[:300]),
                     src=src)
        elif rc == -9999:
            ctx.fail("C02/timeout/seed", "seed did not finish", src=src)
    ctx.sample({"seed": SEEDS[3][1]})

    # ---------------------------------------------------------------- (2) built-in sweep
    arms = BS_tables()["builtinArms"]
    n_calls, crashes, per = BS.sweep_builtins(ctx, arms, d, ctx.scale(30, 400))
    for _ in range(n_calls):
        ctx.evaluations += 1
    ctx.nontrivial.add(b"sweep")
    ctx.cov["builtin_calls"] = n_calls
    ctx.cov["builtin_arms_swept"] = len(per)
    ctx.cov["calls_per_arm_min_max"] = [min(per.values()), max(per.values())]
    for arm, call, rc, what in crashes:
        ctx.fail("C02/crash/builtin/%s" % arm, "built-in call crashed the interpreter (rc %s): %s" % (rc, what), call=call)
    ctx.log("built-in sweep: %d calls over %d arms, %d crashes" % (n_calls, len(per), len(crashes)))

    # ---------------------------------------------------------------- (3) operators
    ops = BS.operator_programs()
    for (fam, src, expect), (rc, so, se) in zip(ops, common.pmap(lambda p: run_src(p[1]), ops)):
        ctx.case(("op", src), True)
        if common.crashed(rc):
            ctx.fail(crash_key("C02/crash/operator", se), "operator crashed the interpreter: %s" % (se or "").strip()[:300],
                     src=src[:400])
        elif rc == -9999:
            ctx.fail("C02/timeout/operator", "operator program did not finish within 300 s", src=src[:400])
        elif expect and expect not in so:
            ctx.fail("C02/operator-batch-raised", "a non-raising operator raised: %s" % (so + se)[-300:], src=src[:400])
    rcalls = BS.raising_operator_calls()
    chunks = [rcalls[i:i + 130] for i in range(0, len(rcalls), 130)]
    sts = common.pmap(lambda ic: BS.session_batch(ctx, d, "op%d" % ic[0], [], ic[1]), list(enumerate(chunks)))
    for ch, st in zip(chunks, sts):
        for call, s_ in zip(ch, st):
            ctx.case(("op", call), True)
            if s_ is not None and s_ != "answered":
                rc, so, se = run_src("println(string_repr(%s))" % call)
                if common.crashed(rc) or rc == -9999:
                    ctx.fail(crash_key("C02/crash/operator", se), "operator crashed the interpreter: %s" % (se or "").strip()[:300],
                             src=call)
    ctx.cov["operator_programs"] = len(ops) + len(rcalls)

    # ---------------------------------------------------------------- (4) nesting probes
    depths = ctx.scale([100, 1000, 20000], [100, 300, 1000, 3000, 10000, 20000])
    nest = BS.nesting_programs(depths)

    def run_file(p):
        fam, n, src = p
        path = os.path.join(d, "n-%s-%d.gdn" % (fam, n))
        with open(path, "w") as fh:
            fh.write(src + "\n")
        return ctx.garden(["run", path], timeout=20, cwd=d, input="", env={"RUST_BACKTRACE": "0"})
    hist = {}
    for (fam, n, src), (rc, so, se) in zip(nest, common.pmap(run_file, nest)):
        ctx.case(("nest", fam, n), True)
        cls = "crash" if common.crashed(rc) else "timeout" if rc == -9999 else "ok"
        hist["%s@%d" % (fam, n)] = cls + ("" if "built" not in so else "+built") + ("" if "shown" not in so else "+shown")
        if cls == "crash":
            ctx.fail("C02/native-stack-deep-values", "deep nesting (%s, depth %d) crashed the interpreter (rc %d): %s"
                     % (fam, n, rc, (se or "").strip()[-200:]), family=fam, depth=n)
    ctx.cov["nesting_probe_results"] = hist
    ctx.assumptions += [
        "the model theorem covers the core fragment of M4 (no method calls, struct/dict literals, assert, try, floats); "
        "built-in arms and the remaining node kinds are covered by the sweep and the correspondence only",
        "native stack and heap are outside the model: nesting probes at fixed depths on the real binary",
        "okProg is evaluated on real parser output by a python mirror of MachineDiscipline.okE",
    ]


def BS_tables():
    import importlib.util
    spec = importlib.util.spec_from_file_location("extract_tables", os.path.join(common.ROOT, "tools", "extract_tables.py"))
    mod = importlib.util.module_from_spec(spec)
    spec.loader.exec_module(mod)
    return mod.extract(common.REPO)
