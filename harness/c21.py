"""C21 — Wrap-in-dbg and add-type-annotation preserve behaviour.

Level: translation validation (certified validator, DESIGN §3 (V)).
Proof (GardenVerif.Props.C21, closure-free restriction of the reference semantics RefSem, all programs, all fuel):
`eval_congr_partial` (replacing any set of sub-expressions e by wrap(e), where wrap(e) evaluates like e in every
state, preserves the run), `run_mono` (fuel monotonicity), `strip_invariant_partial` (node ids / use flags do not
matter), `dbg_identity_partial` / `dbg_identity_behaviour_partial` / `dbgwrapCheck_behaviour_partial`,
`annot_sound_partial` (a hint modelled as a partial-identity check around the bound expression: same run unless the
check fails), `dbgwrapCheck_sound`, `annotCheck_sound`.

Per input. Programs: RGen programs (refactor_common; closures, assignment, loops, match) + "typed" programs (generic
functions, lists, nested lists, tuples, Option / Result, user enums, closures with and without hints, Unit; lets bound to
FUNCTION VALUES — generic functions with the type parameter nested in List / Option / tuple / Fun, plain functions,
closures —, lets inside generic functions and inside closures in them, early `return`, lets written without spaces
around `=`) + struct programs (generic and plain struct values; annotation only).
* wrap-in-dbg at expression positions (every node kind, sampled per program): the real tool (hook op `refactor
  wrap_in_dbg` = the function behind `garden reftest-wrap-in-dbg`; a sample also through the CLI) is called with the
  node's span. Validator: the Lean driver (`dbgwrap_check`) matches the two REAL parser trees against `IsDbgWrap`
  (exactly that node wrapped, nothing else changed) and evaluates the theorem's hypothesis `dbgFree`. A `let` target is
  outside the schema (RefSem has no `let` in expression position): oracle only, counted.
  Direct oracle: output text = input with exactly that node's text wrapped in `dbg(` `)`; it parses; the real
  evaluator prints the same stdout and ends the same way (differences re-run through `garden run`).
* add-type-annotation at every `let` symbol, every parameter (functions and closures) and every function header.
  Validator (`annot_check`): hint-free trees equal up to ids / flags, exactly one hint slot changed from empty to a hint,
  and it is the slot asked for. Direct oracle: the output is the input plus one inserted `: T` right after the symbol
  (after `)` for a return type); it parses; `check` reports no NEW diagnostic (multiset of severity + message); same
  stdout and same end of the run.

Failure keys (fixed; classified by tool + construct, never by the input):
  C21/crash, C21/generator,
  C21/wrap-in-dbg/{refused,wrong-text,does-not-parse}/<node kind>, C21/wrap-in-dbg/behaviour-changed/<node kind>
     (node kinds: the 23 `astq` kinds int str var binop let assign update if while for match return break continue
      list tuple call mcall lambda assert paren invalid unsup),
  C21/add-type-annotation/{wrong-text,does-not-parse,new-diagnostic,behaviour-changed}/<site>/<type shape>
     (site: let | let-in-closure | param | return | return-with-early-return | closure-param | closure-return; type shape: Int String Bool Unit List Tuple Option Result Fun NoValue
      generic struct-missing-type-args other).
"""
import os
import re
import shutil
from . import common
from . import refactor_common as RC
from .common import hexs, unhex
from .c22 import parse_check

LEAN_MODULES = ["GardenVerif.Props.C21"]
LEVEL = "translation_validation"


# ------------------------------------------------------------------------- typed programs (annotation)
VALUES = [
    ("Int", "1 + 2"), ("Int", "g2(3, 4)"), ("String", '"a" ^ "b"'), ("Bool", "1 < 2"), ("Bool", "True"),
    ("List", "[1, 2]"), ("List", '["a", "b"]'), ("List", "[[1], []]"), ("List", "[]"), ("List", "[(1, \"x\")]"),
    ("Tuple", '(1, "a")'), ("Tuple", "(1, 2, True)"), ("Tuple", "([1], Some(2))"), ("Tuple", "((1, 2), 3)"),
    ("Option", "Some(3)"), ("Option", "None"), ("Option", "Some([1])"), ("Option", 'Some((1, "s"))'),
    ("Result", "Ok(1)"), ("Result", 'Err("e")'),
    ("Fun", "fun(q) { q + 1 }"), ("Fun", "fun(q: Int): Int { q + 1 }"), ("Fun", "fun(q: Int, r: String) { (q, r) }"),
    ("Fun", "fun() { 7 }"),
    ("Unit", 'println("u")'), ("generic", "idt(3)"), ("generic", "idt([1])"), ("generic", 'idt((1, "s"))'),
    ("generic", "idt(Some(1))"), ("enum", "Red"), ("enum", "Green(2)"), ("Int", "mk_int()"), ("List", "mk_list(2)"),
    ("Tuple", "mk_pair(1)"), ("Option", "mk_opt(0)"), ("Fun", "mk_fun()"), ("Fun", "g2"), ("Fun", "idt"),
    # function VALUES: generic functions with the type parameter nested in List / Option / tuple / Fun, plain functions
    ("FunL", "firsts"), ("FunO", "optid"), ("FunP", "pairup"), ("FunA", "applyf"), ("Fun0", "mk_int"), ("Fun1", "mk_opt"),
    ("generic", "firsts([1, 2])"), ("generic", "optid(Some(2))"), ("generic", "pairup(\"s\")"),
    ("generic", "applyf(fun(q: Int): Int { q + 1 }, 2)"), ("generic", "inner(5)"), ("Int", "early2(0)"),
]

PRELUDE = """fun idt<T>(v: T): T {
  v
}
fun g2(a: Int, b: Int) {
  a + b
}
enum Color {
  Red,
  Green(Int),
}
fun mk_int() {
  41
}
fun mk_list(n) {
  [n, n + 1]
}
fun mk_pair(n: Int) {
  (n, "p")
}
fun mk_opt(n: Int) {
  if n > 0 { Some(n) } else { None }
}
fun mk_fun() {
  fun(z: Int) { z * 2 }
}
fun early(n: Int) {
  if n > 1 { return "big" }
  "small"
}
fun early2(n: Int) {
  if n > 1 { return "x" }
  1
}
fun pickx(x, fallback: Bool) {
  if fallback { return x }
  1
}
fun pickif(n: Int, y) {
  if n > 5 { return if n > 8 { y } else { 2 } }
  3
}
fun pickm(o, n: Int) {
  if n > 1 { return match o { Some(q) => { q } None => { 0 } } }
  7
}
fun pickp(n: Int, y) {
  if n > 1 { return (y) }
  "tail"
}
fun firsts<T>(xs: List<T>): List<T> {
  xs
}
fun optid<T>(o: Option<T>): Option<T> {
  o
}
fun pairup<T>(a: T): (T, T) {
  (a, a)
}
fun applyf<T>(f: Fun<(T), T>, v: T): T {
  f(v)
}
fun inner<T>(v: T): T {
  let direct = v
  let c = fun() {
    let ww = v
    ww
  }
  let c2 = fun(q) {
    let zz = (q, v)
    zz
  }
  println(string_repr(c2(1)))
  println(string_repr(direct))
  c()
}
"""


def gen_typed_program(rng):
    """Lets of many inferred types at toplevel, in blocks, loops, match arms, closures and functions; every bound
    value is printed (closures are called) so that a wrong hint that fails at run time is observable."""
    out = [PRELUDE]
    cnt = [0]
    feats = {}

    def use(name, ty, src):
        calls = {"FunL": "%s([1])", "FunO": "%s(Some(1))", "FunP": "%s(1)", "FunA": "%s(fun(q) { q }, 1)", "Fun0": "%s()",
                 "Fun1": "%s(1)"}
        if ty in calls:
            return "println(string_repr(%s))" % (calls[ty] % name)
        if ty == "Fun":
            if "q: Int, r" in src:
                return 'println(string_repr(%s(1, "r")))' % name
            if src in ("fun() { 7 }",):
                return "println(string_repr(%s()))" % name
            if src == "g2":
                return "println(string_repr(%s(1, 2)))" % name
            if src == "mk_fun()":
                return "println(string_repr(%s(4)))" % name
            return "println(string_repr(%s(5)))" % name
        if ty == "Unit":
            return "println(string_repr(%s))" % name
        return "println(string_repr(%s))" % name

    def let(ind):
        ty, src = rng.choice(VALUES)
        cnt[0] += 1
        nm = "v%d" % cnt[0]
        feats[ty] = feats.get(ty, 0) + 1
        pad = "  " * ind
        eq = rng.choice([" = ", " = ", " = ", "=", "= ", " ="])       # `let xs=[1]`: the hint is followed by `=`
        return ["%slet %s%s%s" % (pad, nm, eq, src), pad + use(nm, ty, src)]

    def stmts(ind, depth):
        res = []
        for _ in range(rng.randrange(1, 4)):
            k = rng.randrange(10)
            pad = "  " * ind
            if k < 5 or depth >= 2:
                res += let(ind)
            elif k == 5:
                res += [pad + "if %s {" % rng.choice(["True", "1 < 2", "2 < 1"])] + stmts(ind + 1, depth + 1) + [pad + "}"]
            elif k == 6:
                res += [pad + "for it%d in [1, 2] {" % cnt[0]] + stmts(ind + 1, depth + 1) + [pad + "}"]
            elif k == 7:
                cnt[0] += 1
                res += [pad + "match %s {" % rng.choice(["Some(1)", "None", "mk_opt(1)"]),
                        pad + "  Some(pl%d) => {" % cnt[0]] + stmts(ind + 2, depth + 1) + [
                        pad + "  }", pad + "  None => {"] + stmts(ind + 2, depth + 1) + [pad + "  }", pad + "}"]
            elif k == 8:
                cnt[0] += 1
                nm = "c%d" % cnt[0]
                res += [pad + "let %s = fun(w) {" % nm] + stmts(ind + 1, depth + 1) + [pad + "  w", pad + "}",
                                                                                        pad + "println(string_repr(%s(1)))" % nm]
            else:
                cnt[0] += 1
                res += [pad + 'let (da%d, db%d) = (1, "d")' % (cnt[0], cnt[0]), pad + "println(string_repr(da%d))" % cnt[0]]
        return res

    for _ in range(rng.randrange(1, 3)):
        cnt[0] += 1
        fname = "h%d" % cnt[0]
        ps = rng.choice([[], ["pa"], ["pa", "pb: Int"], ["pa: List<Int>"]])
        ty, src = rng.choice(VALUES)
        body = stmts(1, 1) + ["  " + src]
        out.append("fun %s(%s) {\n%s\n}" % (fname, ", ".join(ps), "\n".join(body)))
        args = ", ".join("[1]" if "List" in p_ else "1" for p_ in ps)
        if ty == "Fun":
            out.append("let r%s = %s(%s)" % (fname, fname, args))
        else:
            out.append("println(string_repr(%s(%s)))" % (fname, args))
    out += stmts(0, 0)
    out.append('println(early(2) ^ early(0))')
    # early returns of values the checker types as Any, every path taken, with values of different runtime types
    out += ['println(string_repr(pickx("spare", True)))', "println(string_repr(pickx(2, False)))",
            'println(string_repr(pickif(9, "y")))', "println(string_repr(pickif(6, 1)))", "println(string_repr(pickif(1, 1)))",
            'println(string_repr(pickm(Some("s"), 2)))', "println(string_repr(pickm(None, 2)))", "println(string_repr(pickm(None, 0)))",
            "println(string_repr(pickp(2, 5)))", "println(string_repr(pickp(0, 5)))",
            "let lamr = fun(x, fb: Bool) {\n  if fb { return x }\n  1\n}",
            'println(string_repr(lamr("l", True)))', "println(string_repr(lamr(0, False)))"]
    return "\n".join(out) + "\n", feats


STRUCT_PRELUDE = """struct Box<T> {
  v: T,
}
struct Pt {
  x: Int,
  y: Int,
}
fun unbox<T>(b: Box<T>): T {
  b.v
}
"""


def gen_struct_program(rng):
    """Generic and plain struct values bound by unannotated lets (annotation jobs only: structs are outside the
    trees the dbg validator reads)."""
    out = [STRUCT_PRELUDE]
    vals = [("Box{ v: 1 }", "%s.v"), ('Box{ v: "s" }', "%s.v"), ("Pt{ x: 1, y: 2 }", "%s.x"), ("Box{ v: [1] }", "%s.v"),
            ("unbox(Box{ v: 2 })", "%s"), ("[Pt{ x: 1, y: 2 }]", "%s"), ("Some(Box{ v: 1 })", "%s")]
    for k in range(rng.randrange(2, 6)):
        src, use = rng.choice(vals)
        nm = "s%d" % k
        out.append("let %s = %s" % (nm, src))
        if "%s" in use and use != "%s":
            out.append("println(string_repr(%s))" % (use % nm))
    return "\n".join(out) + "\n", {"struct": 1}


def type_shape(hint, src=""):
    h0 = hint.strip()
    for gs in re.findall(r"\bstruct (\w+)<", src):
        if re.search(r"\b%s\b(?!<)" % re.escape(gs), h0):       # a generic struct named without type arguments
            return "struct-missing-type-args"
    h = hint.strip()
    if h.startswith("("):
        return "Tuple"
    m = re.match(r"[A-Za-z_]+", h)
    w = m.group(0) if m else ""
    if w in ("Int", "String", "Bool", "Unit", "List", "Option", "Result", "Fun", "NoValue", "Tuple"):
        return w
    if re.fullmatch(r"[A-Z]", w or ""):
        return "generic"
    return "other"


def diag_multiset(resp):
    pc = parse_check(resp)
    if pc is None:
        return None
    ms = {}
    for sev, msg, pos, fixes in pc[1]:
        # messages quote source text; identifiers stay the same under both tools
        ms[(sev, msg)] = ms.get((sev, msg), 0) + 1
    return pc[0], ms


def slot_list(astq_text):
    """Hint slots of an `astq` dump in textual order: None (empty) or the hint's source text."""
    out = []
    for m in re.finditer(r"(?<!\(s )\bnohint\b|\(hint s:([0-9a-f]*)[^)]*\)", astq_text):
        out.append(None if m.group(0) == "nohint" else unhex(m.group(1)))
    return out


def annotation_sites(astq_text, src):
    """[(site kind, query start, query end, slot index, allowed insertion offsets {offset: (kind, slot)})] for every
    EMPTY hint slot owned by a `let` symbol, a parameter or a function / closure header. Slots are numbered in the
    textual order of the dump (every let, parameter and return type is a slot). A query on a parameter whose type is
    unknown may legitimately annotate the enclosing header's return type instead (the header is the next trigger
    region around the cursor), so that insertion point is allowed too."""
    top = RC.parse_sexp(astq_text)[0]
    b = src.encode()
    sites = []
    counter = [0]

    def slot(x):
        i = counter[0]
        counter[0] += 1
        return i, (x == "nohint")

    depth = [0]

    def has_return(x):
        """a `return` in the body, not inside a nested closure"""
        if not isinstance(x, list) or not x:
            return False
        if x[0] == "return":
            return True
        if x[0] in ("lambda", "s", "sym", "destr", "hint"):
            return False
        return any(has_return(y) for y in x[1:])

    def header(params, rh, block, trigger, kind_ret="return"):
        block_start = int(block[1])
        ret_ins = b.rfind(b")", 0, block_start) + 1
        pslots = []
        for p_ in params[1:]:
            i, empty = slot(p_[2])
            pslots.append((p_[1], i, empty))
        ri, rempty = slot(rh)
        for sym, i, empty in pslots:
            if empty and sym[1] != "_":
                allowed = {int(sym[3]): ("param", i)}
                if rempty:
                    allowed[ret_ins] = ("return-with-early-return" if has_return(block) else "return", ri)
                sites.append(("param", int(sym[2]), int(sym[3]), i, allowed))
        if rempty and trigger is not None:
            rk = "return-with-early-return" if has_return(block) else "return"
            sites.append((rk, trigger[0], trigger[1], ri, {ret_ins: (rk, ri)}))
        walk(block)

    def walk(x):
        if not isinstance(x, list) or not x:
            return
        h = x[0]
        if h == "fun":
            header(x[2], x[3], x[4], (int(x[1][2]), int(x[1][3])))
        elif h == "lambda":
            open_paren = b.find(b"(", int(x[3]))
            depth[0] += 1
            n0 = len(sites)
            header(x[5], x[6], x[7], (open_paren, open_paren + 1))
            depth[0] -= 1
            # the header sites of a closure are keyed apart from those of toplevel functions
            ren = {"param": "closure-param", "return": "closure-return", "return-with-early-return": "closure-return"}
            for q in range(n0, len(sites)):
                sk, a0, a1, sl, al = sites[q]
                if sk in ren and (a0, a1) in ([(open_paren, open_paren + 1)] + [(int(p_[1][2]), int(p_[1][3])) for p_ in x[5][1:]]):
                    sites[q] = (ren[sk], a0, a1, sl, {o_: (ren.get(kk, kk), ii) for o_, (kk, ii) in al.items()})
        elif h == "let":
            d = x[5]
            i, empty = slot(x[6])
            if empty and d[0] == "sym" and d[1][1] != "_":
                lk = "let-in-closure" if depth[0] > 0 else "let"
                sites.append((lk, int(d[1][2]), int(d[1][3]), i, {int(d[1][3]): (lk, i)}))
            walk(x[7])
        elif h in ("s", "sym", "destr", "enum", "hint"):
            return
        else:
            for y in x[1:]:
                walk(y)
    for it in top[2:]:
        walk(it)
    return sites


def scratch_dir():
    d = os.path.join(common.BUILD, "scratch", "extract", "c21-%d" % os.getpid())
    os.makedirs(d, exist_ok=True)
    return d


def run_pair_differs(b, a):
    """Same stdout and same way of ending (ok / error class)."""
    return (b[0], b[2]) != (a[0], a[2]) or (b[0] == "error" and RC.err_class(b[1]).split(" ")[0] != RC.err_class(a[1]).split(" ")[0])


def run(ctx):
    rng = ctx.rng
    n_r = ctx.scale(200, 1000)
    n_t = ctx.scale(100, 600)
    max_dbg = ctx.scale(5, 30)
    max_ann = ctx.scale(7, 40)
    ctx.rule = ("%d RGen programs (6-name pool, closures, assignment, loops, match) and %d typed programs (generic "
                "functions, lists, tuples, Option / Result, user enum, closures, Unit); wrap-in-dbg at up to %d expression "
                "nodes per program (one per node kind first, then random), add-type-annotation at let symbols, "
                "parameters and function / closure headers with an empty hint slot (all of them in the thorough tier). Non-trivial = dbg: the node is not the whole "
                "statement (something around it must stay); annotation: the tool produced a hint." % (n_r, n_t, max_dbg))
    progs = [RC.gen_program(rng, size=rng.choice([15, 28, 40]), closures=rng.random() < 0.7) for _ in range(n_r)]
    progs += [gen_typed_program(rng) for _ in range(n_t)]
    n_s = ctx.scale(30, 300)
    ann_only = set(range(len(progs), len(progs) + n_s))
    progs += [gen_struct_program(rng) for _ in range(n_s)]
    srcs = [p for p, _ in progs]
    n = len(srcs)
    feats = {}
    for _, f in progs:
        for k, v in f.items():
            feats[k] = feats.get(k, 0) + v
    r = ctx.garden_batch(["astq " + hexs(s) for s in srcs] + ["astx " + hexs(s) for s in srcs] +
                         [RC.run_line(s) for s in srcs] + ["check " + hexs(s) for s in srcs])
    astq, astx, runs, chks = r[:n], r[n:2 * n], r[2 * n:3 * n], r[3 * n:]
    before = [RC.run_result(x) for x in runs]
    trees = {}
    dbg_jobs, ann_jobs = [], []
    for i, s in enumerate(srcs):
        if not astq[i] or not astq[i].startswith("OK (astq 0"):
            ctx.fail("C21/generator", "generated program does not parse", src=s)
            continue
        if before[i][0] in ("panic", "died"):
            ctx.fail("C21/crash", "evaluator crashed on a generated program: %s" % before[i][1], src=s)
            continue
        t = RC.Tree(astq[i])
        trees[i] = t
        nodes = [e for e in t.exprs]
        by_kind = {}
        for e in nodes:
            by_kind.setdefault(e[0], []).append(e)
        chosen = [rng.choice(v) for v in by_kind.values()]
        rest = [e for e in nodes if not any(e is c for c in chosen)]
        rng.shuffle(rest)
        chosen = (chosen + rest)[:max_dbg] if len(chosen) <= max_dbg else rng.sample(chosen, max_dbg)
        if i not in ann_only:
            for e in chosen:
                dbg_jobs.append((i, e))
        if i >= n_r or rng.random() < 0.25:
            sites = annotation_sites(astq[i][3:], s)
            if len(sites) > max_ann:
                sites = rng.sample(sites, max_ann)
            for site in sites:
                ann_jobs.append((i, site))
    ctx.log("programs %d, dbg jobs %d, annotation jobs %d" % (n, len(dbg_jobs), len(ann_jobs)))
    res = ctx.garden_batch([RC.tool_line("wrap_in_dbg", srcs[i], int(e[3]), int(e[4])) for i, e in dbg_jobs] +
                           [RC.tool_line("add_type_annotation", srcs[i], st[1], st[2]) for i, st in ann_jobs])
    dres, ares = res[:len(dbg_jobs)], res[len(dbg_jobs):]

    # ------------------------------------------------------------------ wrap-in-dbg: text oracle
    dstat = {"ok": 0, "let-target": 0, "refused": 0}
    kinds_hist = {}
    dchecked = []
    for (i, e), x in zip(dbg_jobs, dres):
        src = srcs[i]
        kind, st, en = e[0], int(e[3]), int(e[4])
        k, txt = RC.tool_result(x)
        stmt_spans = {(int(q[3]), int(q[4])) for q in trees[i].exprs}
        ctx.case(("dbg", src, st, en), True)
        kinds_hist[kind] = kinds_hist.get(kind, 0) + 1
        rep = dict(src=src, offset=st, end=en, node=kind, cmd="garden reftest-wrap-in-dbg f.gdn %d %d" % (st, en))
        if k in ("panic", "died"):
            ctx.fail("C21/crash", "wrap_in_dbg crashed: %s" % txt[:200], **rep)
            continue
        if k == "err":
            dstat["refused"] += 1
            ctx.fail("C21/wrap-in-dbg/refused/" + kind, "wrap-in-dbg refused an expression position: %s" % txt, **rep)
            continue
        dstat["ok"] += 1
        b = src.encode()
        exp = (b[:st] + b"dbg(" + b[st:en] + b")" + b[en:]).decode()
        if txt != exp:
            ctx.fail("C21/wrap-in-dbg/wrong-text/" + kind, "the output is not the input with exactly the selected "
                     "expression wrapped in dbg( )", expected=exp, got=txt, **rep)
        dchecked.append((i, e, txt))
        if len(ctx.samples) < 4 and kind in ("binop", "call", "if"):
            ctx.sample(dict(tool="wrap_in_dbg", src=src, offset=st, end=en, output=txt))

    # ------------------------------------------------------------------ annotation: text oracle
    astat = {"ok": 0, "declined": 0}
    shape_hist = {}
    achecked = []
    for (i, site), x in zip(ann_jobs, ares):
        src = srcs[i]
        skind, st, en, slot, allowed = site
        k, txt = RC.tool_result(x)
        rep = dict(src=src, offset=st, end=en, site=skind, cmd="garden reftest-add-type-annotation f.gdn %d %d" % (st, en))
        if k in ("panic", "died"):
            ctx.fail("C21/crash", "add_type_annotation crashed: %s" % txt[:200], **rep)
            continue
        if k == "err":
            astat["declined"] += 1
            ctx.case(("ann", src, st), False)
            continue
        astat["ok"] += 1
        ctx.case(("ann", src, st), True)
        # the output must be the input plus ONE inserted `: T` at an allowed place
        b, a = src.encode(), txt.encode()
        hint, where = None, None
        extra = len(a) - len(b)
        if extra > 0:
            for at, own in allowed.items():
                if a[:at] == b[:at] and a[at + extra:] == b[at:] and a[at:at + 2] == b": ":
                    hint, where = a[at:at + extra].decode("utf-8", "replace"), own
                    break
        if hint is None or not hint.startswith(": "):
            ctx.fail("C21/add-type-annotation/wrong-text/%s/other" % skind, "the output is not the input plus one `: T` "
                     "inserted right after the selected symbol / the parameter list around it", got=txt, **rep)
            continue
        skind, slot = where
        site = (skind, st, en, slot, allowed)
        shape = type_shape(hint[2:], src)
        shape_hist[skind + "/" + shape] = shape_hist.get(skind + "/" + shape, 0) + 1
        achecked.append((i, site, txt, hint[2:], shape))
        if len(ctx.samples) < 8 and shape in ("List", "Tuple", "Fun", "Option"):
            ctx.sample(dict(tool="add_type_annotation", src=src, offset=st, hint=hint, site=skind))

    # ------------------------------------------------------------------ after-texts: parse, check, run
    texts = sorted({t for _, _, t in dchecked} | {t for _, _, t, _, _ in achecked})
    atexts = sorted({t for _, _, t, _, _ in achecked})
    m, ma = len(texts), len(atexts)
    ctx.log("tool calls done: %d distinct outputs" % m)
    r2 = ctx.garden_batch(["astx " + hexs(t) for t in texts] + [RC.run_line(t) for t in texts] +
                          ["check " + hexs(t) for t in atexts] + ["astq " + hexs(t) for t in atexts])
    ax2 = dict(zip(texts, r2[:m]))
    run2 = dict(zip(texts, r2[m:2 * m]))
    chk2 = dict(zip(atexts, r2[2 * m:2 * m + ma]))
    aq2 = dict(zip(atexts, r2[2 * m + ma:]))
    ctx.log("after-programs parsed, checked and run")
    scratch = scratch_dir()
    cli_rechecked = [0]

    def behaviour_changed(i, txt, tag):
        b, a = before[i], RC.run_result(run2[txt])
        if not run_pair_differs(b, a):
            return None
        if b[0] == "error" and b[1].startswith("tick-limit"):
            # the original does not end within the step budget (dbg / the hint check use steps too): the two runs are
            # cut at different points; only demand that one output is a prefix of the other
            if a[0] == "error" and a[1].startswith("tick-limit") and (a[2].startswith(b[2]) or b[2].startswith(a[2])):
                return None
        cli_rechecked[0] += 1
        c1 = RC.cli_run(ctx, srcs[i], scratch, "b%s" % tag)
        c2 = RC.cli_run(ctx, txt, scratch, "a%s" % tag)
        if c1[1] != c2[1] or c1[0] != c2[0] or (b[0] != a[0]):
            return b, a
        return None

    dbg_let = 0
    model_lines, model_meta = [], []
    for j, (i, e, txt) in enumerate(dchecked):
        kind, st, en = e[0], int(e[3]), int(e[4])
        rep = dict(src=srcs[i], offset=st, end=en, node=kind, after=txt,
                   cmd="garden reftest-wrap-in-dbg f.gdn %d %d" % (st, en))
        if not (ax2[txt] or "").startswith("OK (astx 0"):
            ctx.fail("C21/wrap-in-dbg/does-not-parse/" + kind, "the wrapped program has parse errors", **rep)
            continue
        d = behaviour_changed(i, txt, "d%d" % j)
        if d:
            ctx.fail("C21/wrap-in-dbg/behaviour-changed/" + kind, "the wrapped program prints or ends differently",
                     before_run=d[0], after_run=d[1], **rep)
        if kind == "let":
            dbg_let += 1
            continue
        model_lines.append("dbgwrap_check %s %s %s" % (e[1], astx[i][3:], ax2[txt][3:]))
        model_meta.append(("dbg", i, e, txt))
    for j, (i, site, txt, hint, shape) in enumerate(achecked):
        skind, st, en, slot, allowed = site
        rep = dict(src=srcs[i], offset=st, end=en, site=skind, hint=hint, after=txt,
                   cmd="garden reftest-add-type-annotation f.gdn %d %d" % (st, en))
        keytail = "%s/%s" % (skind, shape)
        if not (ax2[txt] or "").startswith("OK (astx 0"):
            ctx.fail("C21/add-type-annotation/does-not-parse/" + keytail, "the annotated program has parse errors", **rep)
            continue
        d0, d1 = diag_multiset(chks[i]), diag_multiset(chk2[txt])
        if d0 is None or d1 is None:
            ctx.fail("C21/crash", "check failed on the program before / after annotation", **rep)
        else:
            new = {k: c - d0[1].get(k, 0) for k, c in d1[1].items() if c > d0[1].get(k, 0)}
            if new or d1[0] > d0[0]:
                ctx.fail("C21/add-type-annotation/new-diagnostic/" + keytail, "check reports a diagnostic that the "
                         "unannotated program does not have: %s" % sorted(new)[:3], **rep)
        d = behaviour_changed(i, txt, "a%d" % j)
        if d:
            ctx.fail("C21/add-type-annotation/behaviour-changed/" + keytail, "the annotated program prints or ends "
                     "differently", before_run=d[0], after_run=d[1], **rep)
        model_lines.append("annot_check %s %s" % (astx[i][3:], ax2[txt][3:]))
        model_meta.append(("ann", i, site, txt))
    # ------------------------------------------------------------------ the Lean validators on the real trees
    lr = ctx.model_batch(model_lines)
    vstat = {"dbg-accepted": 0, "dbg-closure-free": 0, "dbg-dbgfree": 0, "ann-accepted": 0}
    for meta, x in zip(model_meta, lr):
        if meta[0] == "dbg":
            _, i, e, txt = meta
            mm = re.match(r"^OK \(dbgwrap (\d) (\d) (\d) (\d+)\)$", x or "")
            inp = {"src": srcs[i], "offset": int(e[3]), "end": int(e[4]), "node": e[0], "id": e[1], "after": txt}
            if not mm:
                ctx.disagree("dbgwrap_check", inp, x, "tool output accepted by the text oracle")
                continue
            chk, free, cf, hits = mm.groups()
            if chk != "1" or hits != "1" or free != "1":
                ctx.disagree("dbgwrap_check", inp, "IsDbgWrap=%s dbgFree=%s nodes-with-id=%s" % (chk, free, hits),
                             "tool output accepted by the text oracle")
            else:
                vstat["dbg-accepted"] += 1
                vstat["dbg-closure-free"] += cf == "1"
                vstat["dbg-dbgfree"] += free == "1"
        else:
            _, i, site, txt = meta
            skind, st, en, slot, allowed = site
            mm = re.match(r"^OK \(annot (\d) (\d+) (\d+) \(changed((?: \S+)*)\)\)$", x or "")
            inp = {"src": srcs[i], "offset": st, "site": skind, "after": txt}
            if not mm:
                ctx.disagree("annot_check", inp, x, "tool output accepted by the text oracle")
                continue
            chk, nb, na, changed = mm.groups()
            changed = changed.split()
            ok = chk == "1" and nb == na and len(changed) == 1 and changed[0].startswith("%d:-:" % slot)
            # independent reading of the slots from the astq dumps
            sb, sa = slot_list(astq[i][3:]), slot_list((aq2[txt] or "")[3:])
            diff = [q for q in range(min(len(sb), len(sa))) if sb[q] != sa[q]]
            if not ok:
                ctx.disagree("annot_check", inp, "IsAnnotationAdd=%s slots %s/%s changed=%s (wanted slot %d)" % (
                    chk, nb, na, changed, slot), "tool output accepted by the text oracle")
            elif len(sb) != len(sa) or diff != [slot] or sb[slot] is not None:
                ctx.disagree("annot_slots", inp, changed, {"astq-diff": diff})
            else:
                vstat["ann-accepted"] += 1
    # ------------------------------------------------------------------ CLI = hook on a sample
    def cli_job(job):
        tool, i, a, b, want = job
        path = os.path.join(scratch, "c%d_%s_%d.gdn" % (i, tool[-3:], a))
        with open(path, "w") as f:
            f.write(srcs[i])
        rc, so, se = ctx.garden([tool, path, str(a), str(b)], timeout=60)
        return job, rc, so
    sample = [("reftest-wrap-in-dbg", i, int(e[3]), int(e[4]), t) for i, e, t in dchecked[::max(1, len(dchecked) // ctx.scale(40, 600))]]
    sample += [("reftest-add-type-annotation", i, s_[1], s_[2], t) for i, s_, t, _, _ in achecked[::max(1, len(achecked) // ctx.scale(40, 600))]]
    for (tool, i, a, b, want), rc, so in common.pmap(cli_job, sample):
        if so != want:
            ctx.disagree("hook-vs-cli", {"src": srcs[i], "tool": tool, "offset": a, "end": b}, want, {"rc": rc, "stdout": so})
    shutil.rmtree(scratch, ignore_errors=True)
    ctx.cov.update(programs=n, dbg_calls=len(dbg_jobs), dbg_by_node_kind=kinds_hist, dbg_stats=dstat,
                   dbg_let_targets_oracle_only=dbg_let, annotation_calls=len(ann_jobs), annotation_stats=astat,
                   annotation_by_site_and_type=shape_hist, distinct_outputs=m, validator=vstat,
                   disagreements_checked=len(model_lines), runs_reexamined_by_cli=cli_rechecked[0],
                   cli_compared=len(sample), features=feats,
                   failure_keys=sorted({f["key"] for f in ctx.failures}),
                   known_keys_hit=sorted({k["key"] for k in ctx.known_hit}))
    ctx.assumptions += [
        "RefSem (Model/RefSem.lean) is a reference semantics tied to the real evaluator by C19's refsem_run comparison; "
        "the C21 theorems are about its closure-free restriction; closures are covered by the decidable relation "
        "(evaluated on every input) and by the direct oracle",
        "a `let` wrapped in dbg( ) is outside the validator's schema (RefSem has no let in expression position): the "
        "real evaluator binds the variable in the enclosing block; covered by the direct oracle only",
        "type hints are not in RefSem: annot_sound_partial models a hint as a partial-identity check around the bound "
        "expression; parameter hints (checked at call time) are not modelled; whether the suggested hint's check "
        "passes is decided per input by the oracle (check diagnostics, run)",
        "sources are ASCII (byte offsets = char offsets)",
    ]
    ctx.log("dbg %s kinds %s; annotation %s shapes %s; validator %s; cli re-runs %d" % (
        dstat, kinds_hist, astat, shape_hist, vstat, cli_rechecked[0]))
