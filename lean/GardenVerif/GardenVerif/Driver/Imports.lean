import GardenVerif.Driver.Sexp
import GardenVerif.Model.Imports
/-!
Driver op for M12 (C34): `imports_eval`.

Request (one line):
  `imports_eval (cfg A B) (main PATH) (files (file PATH ITEM*)*) (probes PROBE*)`
  ITEM  ::= `(imp PATH ALIAS|-)` | `(fn PUB NAME TAG BODY|-)` | `(struct PUB NAME)`
          | `(enum PUB NAME VARIANT*)` | `(meth PUB RECV NAME TAG)`          (PUB, A, B ∈ {0,1})
  PROBE ::= `(qual NS NAME CALL)` | `(bare NAME CALL)` | `(slit TY)` | `(mint NAME)` | `(mstruct TY NAME)`
Response:
  `OK calls=N seen=K diags=D fuel=F;run=R check=C;…`  one `run=… check=…` group per probe,
     R ::= `ok:TAG` | `ok:-` | `err:KIND`,  C ::= `none` | KIND
  `PANIC <site>` when the loader panics, `ERR …` on malformed input.
-/

namespace DriverImports
open Imports

def bit : Sexp → Option Bool
  | .atom "1" => some true
  | .atom "0" => some false
  | _ => none

def optName : Sexp → Option (Option String)
  | .atom "-" => some none
  | .atom s => some (some s)
  | _ => none

def toProbe : Sexp → Option Probe
  | .list [.atom "qual", .atom a, .atom x, c] => (bit c).map (Probe.qual a x)
  | .list [.atom "bare", .atom x, c] => (bit c).map (Probe.bare x)
  | .list [.atom "slit", .atom t] => some (.structLit t)
  | .list [.atom "mint", .atom g] => some (.methInt g)
  | .list [.atom "mstruct", .atom t, .atom g] => some (.methStruct t g)
  | _ => none

def atomOf : Sexp → Option String
  | .atom s => some s
  | _ => none

def toItem : Sexp → Option Item
  | .list [.atom "imp", .atom p, a] => (optName a).map (Item.imp p)
  | .list [.atom "fn", pub, .atom name, .atom tag, body] =>
    match bit pub, tag.toNat?, body with
    | some pub, some tag, .atom "-" => some (.fn pub name tag none)
    | some pub, some tag, b => (toProbe b).map (fun b => .fn pub name tag (some b))
    | _, _, _ => none
  | .list [.atom "struct", pub, .atom name] => (bit pub).map (fun b => .struct b name)
  | .list (.atom "enum" :: pub :: .atom name :: vs) =>
    match bit pub, vs.mapM atomOf with
    | some pub, some vs => some (.enum pub name vs)
    | _, _ => none
  | .list [.atom "meth", pub, .atom recv, .atom name, .atom tag] =>
    match bit pub, tag.toNat? with
    | some pub, some tag => some (.meth pub recv name tag)
    | _, _ => none
  | _ => none

def toFile : Sexp → Option (String × List Item)
  | .list (.atom "file" :: .atom p :: items) => (items.mapM toItem).map (fun is => (p, is))
  | _ => none

def showErr : ErrKind → String
  | .unbound => "unbound" | .notExternal => "notExternal" | .noItem => "noItem"
  | .noType => "noType" | .noMethod => "noMethod" | .notNamespace => "notNamespace"
  | .notCallable => "notCallable" | .notStruct => "notStruct" | .missingFile => "missingFile"
  | .depth => "depth"

def showRun : RunOut → String
  | .ok (some t) => s!"ok:{t}"
  | .ok none => "ok:-"
  | .err k => s!"err:{showErr k}"

def showCheck : Option ErrKind → String
  | none => "none"
  | some k => showErr k

def handle (op : String) (rest : String) : Option String :=
  if op != "imports_eval" then none else
  match Sexp.parseAll rest with
  | some [.list [.atom "cfg", a, b], .list [.atom "main", .atom main],
          .list (.atom "files" :: files), .list (.atom "probes" :: probes)] =>
    match bit a, bit b, files.mapM toFile, probes.mapM toProbe with
    | some a, some b, some proj, some probes =>
      let cfg : Cfg := ⟨a, b⟩
      let fuel := defaultFuel proj
      match load cfg proj main fuel with
      | .outOfFuel => some "ERR outOfFuel"
      | .panic s => some s!"PANIC {s}"
      | .ok st =>
        let hdr := s!"OK calls={st.calls} seen={st.seen.length} diags={st.diags.length} fuel={fuel}"
        let body := probes.map fun p => s!"run={showRun (runProbe st main p)} check={showCheck (checkProbe st main p)}"
        some (";".intercalate (hdr :: body))
    | _, _, _, _ => some "ERR decode"
  | _ => some "ERR parse"

end DriverImports
