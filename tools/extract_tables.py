#!/usr/bin/env python3
"""The TRANSLATOR (DESIGN.md section 3, tie "T").

    python3 tools/extract_tables.py <repo_dir> <lean_project_dir>

Reads literal tables and arm shapes out of the Rust sources of garden and (re)writes
<lean_project_dir>/GardenVerif/Generated/Tables.lean (only if its content changed, so
that lake stays incremental). Exit status 0 = ok (last stdout line is a one-line
summary), non-zero = a table could not be found (a broken tie; the message names it).

No Rust parser is available offline; this is a small tokenizer that blanks out comments
and the contents of string/char literals (so brackets and patterns are only ever matched
in code), plus bracket matching and a `match`-arm splitter.

`--json` as third argument additionally prints the tables as JSON (used by harnesses
that need the same data, e.g. harness/c24.py).
"""
import json
import os
import re
import sys


class Missing(Exception):
    pass


# --------------------------------------------------------------------------- tokenizer
class Src:
    """Rust source with a same-length `masked` copy: comments and the contents of
    string / char literals are replaced by spaces (newlines kept). `lits` maps the
    start offset of every string/char literal to (end_offset, kind, decoded value)."""

    def __init__(self, path):
        self.path = path
        try:
            self.text = open(path, encoding="utf-8").read()
        except OSError as e:
            raise Missing("source file %s (%s)" % (path, e))
        self.lits = {}
        self.masked = self._mask()

    def _mask(self):
        t = self.text
        n = len(t)
        out = list(t)
        i = 0

        def blank(a, b):
            for k in range(a, b):
                if out[k] != "\n":
                    out[k] = " "

        while i < n:
            c = t[i]
            if c == "/" and i + 1 < n and t[i + 1] == "/":
                j = t.find("\n", i)
                j = n if j < 0 else j
                blank(i, j)
                i = j
            elif c == "/" and i + 1 < n and t[i + 1] == "*":
                depth, j = 1, i + 2
                while j < n and depth:
                    if t.startswith("/*", j):
                        depth += 1
                        j += 2
                    elif t.startswith("*/", j):
                        depth -= 1
                        j += 2
                    else:
                        j += 1
                blank(i, j)
                i = j
            elif c == '"' or (c in "rb" and self._str_prefix(i)):
                i = self._string(i, blank)
            elif c == "'":
                # char literal or lifetime
                if i + 1 < n and t[i + 1] == "\\":
                    j = t.find("'", i + 2)
                    if t[i + 2:i + 3] == "'":        # '\''
                        j = t.find("'", i + 3)
                    j = n - 1 if j < 0 else j
                    self.lits[i] = (j + 1, "char", _unescape(t[i + 1:j]))
                    blank(i + 1, j)
                    i = j + 1
                elif i + 2 < n and t[i + 2] == "'":
                    self.lits[i] = (i + 3, "char", t[i + 1])
                    blank(i + 1, i + 2)
                    i += 3
                else:
                    i += 1                            # lifetime
            else:
                i += 1
        return "".join(out)

    def _str_prefix(self, i):
        t = self.text
        if i > 0 and (t[i - 1].isalnum() or t[i - 1] == "_"):
            return False
        m = re.compile(r'b?r#*"|b"').match(t, i)
        return m is not None

    def _string(self, i, blank):
        t = self.text
        n = len(t)
        m = re.compile(r'(b?)(r?)(#*)"').match(t, i)
        raw, hashes = m.group(2) == "r", m.group(3)
        start = m.end()
        if raw:
            close = '"' + hashes
            j = t.find(close, start)
            j = n if j < 0 else j
            self.lits[i] = (j + len(close), "str", t[start:j])
            blank(start, j)
            return j + len(close)
        j = start
        while j < n and t[j] != '"':
            j += 2 if t[j] == "\\" else 1
        self.lits[i] = (j + 1, "str", _unescape(t[start:j]))
        blank(start, j)
        return j + 1

    # ---- helpers on the masked text
    def match_bracket(self, i):
        """Offset of the bracket closing the one at offset i."""
        m = self.masked
        pairs = {"(": ")", "[": "]", "{": "}"}
        stack = []
        k = i
        while k < len(m):
            c = m[k]
            if c in pairs:
                stack.append(pairs[c])
            elif c in ")]}":
                if not stack or stack.pop() != c:
                    raise Missing("balanced brackets in %s near offset %d" % (self.path, k))
                if not stack:
                    return k
            k += 1
        raise Missing("closing bracket in %s for offset %d" % (self.path, i))

    def line_of(self, off):
        return self.text.count("\n", 0, off) + 1

    def fn_body(self, name, what=None):
        """(start, end) offsets of the `{`...`}` body of `fn name`."""
        m = re.search(r"\bfn\s+%s\b" % re.escape(name), self.masked)
        if not m:
            raise Missing(what or "fn %s in %s" % (name, self.path))
        k = m.end()
        while k < len(self.masked):
            c = self.masked[k]
            if c in "([":
                k = self.match_bracket(k)
            elif c == "{":
                return k, self.match_bracket(k)
            elif c == ";":
                break
            k += 1
        raise Missing("body of fn %s in %s" % (name, self.path))

    def all_fns(self):
        """name -> list of (start, end) bodies, for every `fn` in the file."""
        out = {}
        for m in re.finditer(r"\bfn\s+([A-Za-z_][A-Za-z0-9_]*)", self.masked):
            k = m.end()
            body = None
            while k < len(self.masked):
                c = self.masked[k]
                if c in "([":
                    k = self.match_bracket(k)
                elif c == "{":
                    body = (k, self.match_bracket(k))
                    break
                elif c == ";":
                    break
                k += 1
            if body:
                out.setdefault(m.group(1), []).append(body)
        return out

    def literals_in(self, a, b, kind=None):
        return [(s, v) for s, (e, k, v) in sorted(self.lits.items())
                if a <= s < b and (kind is None or k == kind)]

    def match_arms(self, open_brace, close_brace):
        """Split the inside of a `match … { … }` block into arms:
        list of dict(pat=(a,b), body=(a,b), block=bool)."""
        m = self.masked
        arms = []
        i = open_brace + 1
        while True:
            while i < close_brace and m[i] in " \t\r\n,":
                i += 1
            if i >= close_brace:
                break
            ps = i
            k = i
            while k < close_brace:
                c = m[k]
                if c in "([{":
                    k = self.match_bracket(k)
                elif c == "=" and m[k + 1] == ">":
                    break
                k += 1
            if k >= close_brace:
                raise Missing("`=>` of a match arm in %s line %d" % (self.path, self.line_of(ps)))
            pe = k
            k += 2
            while m[k] in " \t\r\n":
                k += 1
            if m[k] == "{":
                be = self.match_bracket(k)
                arms.append(dict(pat=(ps, pe), body=(k, be + 1), block=True))
                i = be + 1
            else:
                bs = k
                while k < close_brace:
                    c = m[k]
                    if c in "([{":
                        k = self.match_bracket(k)
                    elif c == ",":
                        break
                    k += 1
                arms.append(dict(pat=(ps, pe), body=(bs, k), block=False))
                i = k + 1
        return arms


def _unescape(s):
    out = []
    i = 0
    while i < len(s):
        c = s[i]
        if c != "\\":
            out.append(c)
            i += 1
            continue
        d = s[i + 1] if i + 1 < len(s) else ""
        if d == "n":
            out.append("\n"); i += 2
        elif d == "t":
            out.append("\t"); i += 2
        elif d == "r":
            out.append("\r"); i += 2
        elif d == "0":
            out.append("\0"); i += 2
        elif d == "x":
            out.append(chr(int(s[i + 2:i + 4], 16))); i += 4
        elif d == "u":
            j = s.index("}", i)
            out.append(chr(int(s[i + 3:j].replace("_", ""), 16))); i = j + 1
        elif d == "\n":
            i += 2
            while i < len(s) and s[i] in " \t\r\n":
                i += 1
        else:
            out.append(d); i += 2
    return "".join(out)


# --------------------------------------------------------------------------- Lean output
def lstr(s):
    out = ['"']
    for ch in s:
        if ch == "\\":
            out.append("\\\\")
        elif ch == '"':
            out.append('\\"')
        elif ch == "\n":
            out.append("\\n")
        elif ch == "\t":
            out.append("\\t")
        elif ch == "\r":
            out.append("\\r")
        elif ord(ch) < 32 or ord(ch) == 127:
            out.append("\\x%02x" % ord(ch))
        else:
            out.append(ch)
    out.append('"')
    return "".join(out)


def lchar(c):
    if c == "'":
        return "'\\''"
    if c == "\\":
        return "'\\\\'"
    if c == "\n":
        return "'\\n'"
    if c == "\t":
        return "'\\t'"
    return "'%s'" % c


def llist(items, f=lstr, wrap=100, indent="  "):
    parts = [f(x) for x in items]
    one = "[" + ", ".join(parts) + "]"
    if len(one) <= wrap:
        return one
    lines, cur = [], indent
    for p in parts:
        if len(cur) + len(p) + 2 > wrap and cur.strip():
            lines.append(cur.rstrip())
            cur = indent
        cur += p + ", "
    lines.append(cur.rstrip().rstrip(","))
    return "[\n" + "\n".join(lines) + "]"


def lbool(b):
    return "true" if b else "false"


def lopt_nat(v):
    return "none" if v is None else "some %d" % v


# --------------------------------------------------------------------------- (1) lexer
def const_array(src, name, what):
    """Literals of `const NAME: &[…] = &[ … ];` (also `static`)."""
    m = re.search(r"\b(?:const|static)\s+%s\s*:[^=;]*=\s*&?\s*\[" % re.escape(name), src.masked)
    if not m:
        raise Missing(what)
    ob = m.end() - 1
    cb = src.match_bracket(ob)
    vals = [v for _, v in src.literals_in(ob, cb)]
    if not vals:
        raise Missing(what + " (no literal elements)")
    inner = src.masked[ob + 1:cb]
    if re.search(r"[A-Za-z_]", re.sub(r"\bb(?=['\"])", "", inner)):
        raise Missing(what + " (non-literal element: %r)" % inner.strip()[:60])
    return vals


def const_int(src, name, what):
    m = re.search(r"\b(?:const|static)\s+%s\s*:[^=;]*=\s*([0-9][0-9_]*)\s*;" % re.escape(name), src.masked)
    if not m:
        raise Missing(what)
    return int(m.group(1).replace("_", ""))


def regex_source(src, name, what):
    m = re.search(r"\b%s\s*:\s*Regex\s*=\s*Regex::new\s*\(" % re.escape(name), src.masked)
    if not m:
        raise Missing(what)
    ob = m.end() - 1
    cb = src.match_bracket(ob)
    lits = src.literals_in(ob, cb, "str")
    if len(lits) != 1:
        raise Missing(what + " (expected one string literal argument)")
    return lits[0][1]


def lex_tables(repo):
    src = Src(os.path.join(repo, "src", "parser", "lex.rs"))
    t = {}
    for key, name in [("twoCharOperators", "TWO_CHAR_OPERATORS"), ("twoCharTokens", "TWO_CHAR_TOKENS"),
                      ("oneCharOperators", "ONE_CHAR_OPERATORS"), ("oneCharTokens", "ONE_CHAR_TOKENS")]:
        t[key] = const_array(src, name, "%s in src/parser/lex.rs" % name)
    for key in ("oneCharOperators", "oneCharTokens"):
        if any(len(c) != 1 for c in t[key]):
            raise Missing("%s: elements are not single chars" % key)
    for key, name in [("floatRe", "FLOAT_RE"), ("integerRe", "INTEGER_RE"), ("stringRe", "STRING_RE"),
                      ("symbolRe", "SYMBOL_RE")]:
        t[key] = regex_source(src, name, "%s regex source in src/parser/lex.rs" % name)
    # order in which the lexer tries them (the model depends on it): offsets of first use in lex_between
    try:
        a, b = src.fn_body("lex_between")
        order = []
        for nm in ["TWO_CHAR_OPERATORS", "TWO_CHAR_TOKENS", "FLOAT_RE", "INTEGER_RE", "ONE_CHAR_OPERATORS",
                   "ONE_CHAR_TOKENS", "STRING_RE", "SYMBOL_RE"]:
            k = src.masked.find(nm, a, b)
            if k >= 0:
                order.append((k, nm))
        t["lexTryOrder"] = [nm for _, nm in sorted(order)]
    except Missing:
        t["lexTryOrder"] = []
    return t


# --------------------------------------------------------------------------- (2) parser
def parser_tables(repo):
    src = Src(os.path.join(repo, "src", "parser.rs"))
    t = {"keywords": const_array(src, "KEYWORDS", "KEYWORDS in src/parser.rs")}
    a, b = src.fn_body("token_as_binary_op", "fn token_as_binary_op in src/parser.rs")
    m = re.compile(r"\bmatch\s+token\s*\.\s*text\s*\{").search(src.masked, a, b)
    if not m:
        raise Missing("`match token.text {` in token_as_binary_op (src/parser.rs)")
    ob = m.end() - 1
    arms = src.match_arms(ob, src.match_bracket(ob))
    ops = []
    default = None
    for arm in arms:
        pa, pb = arm["pat"]
        ba, bb = arm["body"]
        body = src.masked[ba:bb]
        lits = src.literals_in(pa, pb, "str")
        km = re.search(r"BinaryOperatorKind::([A-Za-z0-9_]+)", body)
        if lits:
            if not km:
                raise Missing("BinaryOperatorKind in arm %r of token_as_binary_op" % (lits[0][1],))
            for _, v in lits:           # "a" | "b" => …
                ops.append((v, km.group(1)))
        elif src.masked[pa:pb].strip() == "_":
            default = "none" if re.search(r"\bNone\b", body) else body.strip()
    if not ops:
        raise Missing("arms of token_as_binary_op (src/parser.rs)")
    t["binaryOps"] = ops
    t["binaryOpDefault"] = default or "missing"
    return t


def format_tables(repo):
    """Optional (not fatal if absent: no property of this table's owner depends on them yet)."""
    t = {}
    try:
        src = Src(os.path.join(repo, "src", "format.rs"))
        t["spacedBeforeParen"] = const_array(src, "SPACED_BEFORE_PAREN", "SPACED_BEFORE_PAREN")
        t["maxSignatureLineLen"] = const_int(src, "MAX_SIGNATURE_LINE_LEN", "MAX_SIGNATURE_LINE_LEN")
    except Missing:
        pass
    return t


# --------------------------------------------------------------------------- (3)(4) built-ins
# Every way an arm can touch files, processes, stdin, the network, the process working
# directory or the process environment. (category, label, regex over MASKED code.)
EFFECT_PATTERNS = [
    ("stdin", "std::io::stdin", r"\bio\s*::\s*stdin\b"),
    ("stdin", "stdin()", r"(?<![\w:])stdin\s*\(\s*\)"),
    ("stdin", "read_line", r"\.\s*read_line\s*\("),
    ("stdin", "Stdin", r"\bStdin\b"),
    ("process", "std::process", r"\bstd\s*::\s*process\s*::\s*\w+"),
    ("process", "Command::new", r"\bCommand\s*::\s*new\b"),
    ("process", "process::", r"(?<![\w:])process\s*::\s*(?:Command|exit|abort|Stdio|Child)\b"),
    ("process", "spawn", r"\.\s*spawn\s*\("),
    ("fs", "std::fs", r"\bstd\s*::\s*fs\s*::\s*\w+"),
    ("fs", "fs::", r"(?<![\w:])fs\s*::\s*\w+"),
    ("fs", "File::", r"\bFile\s*::\s*\w+"),
    ("fs", "OpenOptions", r"\bOpenOptions\b"),
    ("fs", "read_dir", r"\.\s*read_dir\s*\("),
    ("fs", "read_to_string", r"\bread_to_string\s*\("),
    ("fs", "remove_file", r"\bremove_file\s*\("),
    ("fs", "remove_dir", r"\bremove_dir(?:_all)?\s*\("),
    ("fs", "create_dir", r"\bcreate_dir(?:_all)?\s*\("),
    ("fs", "write(", r"(?<![\w.])write\s*\("),
    ("fs", "exists", r"\.\s*(?:try_)?exists\s*\(\s*\)"),
    ("fs", "metadata", r"\.\s*(?:symlink_)?metadata\s*\(\s*\)"),
    ("fs", "is_file", r"\.\s*is_file\s*\(\s*\)"),
    ("fs", "is_dir", r"\.\s*is_dir\s*\(\s*\)"),
    ("fs", "is_symlink", r"\.\s*is_symlink\s*\(\s*\)"),
    ("fs", "canonicalize", r"\.\s*canonicalize\s*\(\s*\)"),
    ("fs", "read_link", r"\.\s*read_link\s*\(\s*\)"),
    ("fs", "tempfile", r"\b(?:tempfile|NamedTempFile|TempDir)\b"),
    ("net", "std::net", r"\bstd\s*::\s*net\b"),
    ("net", "TcpStream", r"\bTcpStream\b"),
    ("net", "TcpListener", r"\bTcpListener\b"),
    ("net", "UdpSocket", r"\bUdpSocket\b"),
    ("net", "UnixStream", r"\bUnix(?:Stream|Listener|Datagram)\b"),
    ("cwd", "set_current_dir", r"\bset_current_dir\b"),
    ("envset", "set_var", r"\bset_var\s*\("),
    ("envset", "remove_var", r"\bremove_var\s*\("),
    ("unsafe", "libc::", r"\blibc\s*::"),
    ("unsafe", "unsafe", r"\bunsafe\s*\{"),
    ("unsafe", "extern", r"\bextern\s+\"?"),
]
# Reads of ambient process state that the property does not list (reported, not gated).
AMBIENT_PATTERNS = [
    ("envread", "std::env::var", r"\benv\s*::\s*vars?(?:_os)?\s*\("),
    ("envread", "std::env::args", r"\benv\s*::\s*args(?:_os)?\s*\("),
    ("cwdread", "current_dir", r"\bcurrent_dir\s*\(\s*\)"),
    ("cwdread", "current_exe", r"\bcurrent_exe\s*\(\s*\)"),
    ("cwdread", "temp_dir", r"\btemp_dir\s*\(\s*\)"),
    ("tty", "is_terminal", r"\.\s*is_terminal\s*\(\s*\)"),
    ("clock", "SystemTime", r"\bSystemTime\b"),
    ("clock", "Instant::now", r"\bInstant\s*::\s*now\b"),
    ("random", "rand::", r"\brand\s*::\s*\w+"),
    ("stdout", "print!", r"\bprint(?:ln)?!\s*\("),
    ("stderr", "eprint!", r"\beprint(?:ln)?!\s*\("),
    ("stdout", "print_as_json", r"\bprint_as_json\s*\("),
]
# A file-system *query* of the program's own source path (`reflect::source_file()`):
# resolves `position.path`, which is the path the sandboxed file was given on the command
# line; no argument of the Garden program reaches it. Reported as ambient, not as effect.
OWN_PATH_RE = re.compile(r"\bstd\s*::\s*fs\s*::\s*canonicalize\s*\(\s*position\s*\.\s*path\b[^()]*(?:\([^()]*\))?\s*\)")

GUARD_IF_RE = re.compile(r"if\s+env\s*\.\s*enforce_sandbox\s*\{")
GUARD_CALL_RE = re.compile(r"env\s*\.\s*enforce_sandbox\s*\([^;{}]*\)\s*\?\s*;")
# helpers that never touch the OS are still followed (cheap); evaluator entry points are not:
# a built-in arm does not re-enter the evaluator, and following them would pull in `import`.
NO_FOLLOW_RE = re.compile(r"^(eval|load_toplevel|push_test|run_)")


def scan_effects(code):
    """(effects, ambient) labels found in a piece of MASKED code."""
    amb = []
    own = OWN_PATH_RE.search(code)
    if own:
        amb.append("ownpath:std::fs::canonicalize(position.path)")
        code = code[:own.start()] + " " * (own.end() - own.start()) + code[own.end():]
    eff = []
    for cat, label, rx in EFFECT_PATTERNS:
        for m in re.finditer(rx, code):
            txt = re.sub(r"\s+", "", m.group(0))
            if label in ("std::fs", "fs::", "File::", "std::process"):
                lab = "%s:%s" % (cat, txt)
            else:
                lab = "%s:%s" % (cat, label)
            if lab not in eff:
                eff.append(lab)
    # `std::fs::write` is also matched by `fs::write`; keep the most specific label only
    eff = [e for e in eff if not (e.startswith("fs:fs::") and ("fs:std::" + e[3:]) in eff)]
    # generic labels are dropped when a specific `std::fs::x` / `std::process::x` label covers them
    specific = {e.split("::")[-1] for e in eff if e.startswith("fs:std::fs::") or e.startswith("fs:fs::")}
    generic = {"fs:write(": "write", "fs:read_to_string": "read_to_string", "fs:remove_file": "remove_file",
               "fs:remove_dir": "remove_dir", "fs:create_dir": "create_dir"}
    eff = [e for e in eff if not (e in generic and any(x.startswith(generic[e]) for x in specific))]
    if any(e.startswith("process:std::process::Command") for e in eff):
        eff = [e for e in eff if e != "process:Command::new"]
    for cat, label, rx in AMBIENT_PATTERNS:
        if re.search(rx, code):
            amb.append("%s:%s" % (cat, label))
    # io::ErrorKind etc. are not effects: `std::io::ErrorKind` never matches the patterns above.
    return eff, amb


def first_statement_guard(src, a, b):
    """Is the first statement of the block [a,b) (a = `{`) the sandbox guard?
    Returns (guard_first, guard_end_offset)."""
    m = src.masked
    k = a + 1
    while k < b and m[k] in " \t\r\n":
        k += 1
    g = GUARD_IF_RE.match(m, k)
    if g:
        ob = g.end() - 1
        cb = src.match_bracket(ob)
        blk = m[ob:cb + 1]
        ok = (re.search(r"\breturn\s+Err\s*\(", blk) is not None
              and re.search(r"\bEvalError\s*::\s*ForbiddenInSandbox\b", blk) is not None)
        # the guard block itself must be effect free and must not fall through
        eff, _ = scan_effects(blk)
        # no `else` continuation that could skip the return
        tail = m[cb + 1:cb + 20].lstrip()
        if ok and not eff and not tail.startswith("else"):
            return True, cb + 1
        return False, k
    g = GUARD_CALL_RE.match(m, k)
    if g:
        return True, g.end()
    return False, k


def guard_present(src, a, b):
    m = src.masked
    for g in GUARD_IF_RE.finditer(m, a, b):
        ob = g.end() - 1
        cb = src.match_bracket(ob)
        if "ForbiddenInSandbox" in m[ob:cb]:
            return True
    return GUARD_CALL_RE.search(m, a, b) is not None


SAVED_RE = re.compile(r"\bsaved_values\s*=\s*vec!\s*\[")
LOOP_RE = re.compile(r"\s*for\s+(\w+)\s+in\s+arg_values\s*\.\s*iter\s*\(\s*\)\s*(\.\s*rev\s*\(\s*\))?\s*\{")
PUSH_RECV_RE = re.compile(r"\s*saved_values\s*\.\s*push\s*\(\s*receiver_value\s*\.\s*clone\s*\(\s*\)\s*\)\s*;")


def restore_shapes(src, a, b):
    """Shape of every `saved_values = vec![…]` construction and every literal
    `RestoreValues(vec![…])` in [a,b): where the receiver / function value sits relative
    to the argument values. Best effort; anything unrecognised is "unknown"."""
    m = src.masked
    shapes = []

    def order_of(content):
        r = content.find("receiver_value")
        g = content.find("arg_values")
        if r < 0 and g < 0:
            return None
        if r < 0:
            return "argsOnly"
        if g < 0:
            return "receiverOnly"
        return "receiverFirst" if r < g else "receiverLast"

    for s in SAVED_RE.finditer(m, a, b):
        ob = s.end() - 1
        cb = src.match_bracket(ob)
        init = m[ob + 1:cb].strip()
        k = cb + 1
        if m[k:k + 1] == ";":
            k += 1
        else:
            shapes.append("unknown")
            continue
        loop = LOOP_RE.match(m, k)
        shape = "unknown"
        if loop:
            lob = loop.end() - 1
            lcb = src.match_bracket(lob)
            body = m[lob + 1:lcb]
            var = loop.group(1)
            pushes_val = re.search(r"saved_values\s*\.\s*push\s*\(\s*%s\s*\.\s*clone\s*\(\s*\)\s*\)" % var, body) is not None
            pushes_recv = PUSH_RECV_RE.search(body) is not None
            post = PUSH_RECV_RE.match(m, lcb + 1) is not None
            fwd = "" if loop.group(2) else "Fwd"
            if not pushes_val:
                shape = "unknown"
            elif init == "" and not pushes_recv and post:
                shape = "receiverLast" + fwd
            elif init == "" and not pushes_recv and not post:
                shape = "argsOnly" + fwd
            elif init == "" and pushes_recv and not post:
                shape = "receiverInterleaved" + fwd
            elif re.fullmatch(r"receiver_value\s*\.\s*clone\s*\(\s*\)", init) and not pushes_recv and not post:
                shape = "receiverFirst" + fwd
        else:
            o = order_of(init)
            if o and PUSH_RECV_RE.match(m, k) and o == "argsOnly":
                shape = "receiverLast"
            elif o:
                shape = o
            elif init == "" and PUSH_RECV_RE.match(m, k):
                shape = "receiverOnly"
        shapes.append(shape)
    for s in re.finditer(r"\bRestoreValues\s*\(\s*vec!\s*\[", m[a:b]):
        ob = a + s.end() - 1
        cb = src.match_bracket(ob)
        shapes.append(order_of(m[ob + 1:cb]) or ("empty" if not m[ob + 1:cb].strip() else "unknown"))
    return shapes


def gdn_stubs(repo):
    """Declared signatures of every `__BUILT_IN_IMPLEMENTATION` stub in src/__*.gdn:
    (file, kind 'fun'|'method', name, receiver type or '', [param types], return type)."""
    out = []
    d = os.path.join(repo, "src")
    for f in sorted(os.listdir(d)):
        if not (f.startswith("__") and f.endswith(".gdn")):
            continue
        text = open(os.path.join(d, f), encoding="utf-8").read()
        for m in re.finditer(
                r"^(?:public\s+|shared\s+)*(fun|method)\s+([A-Za-z_][A-Za-z0-9_]*)\s*(<[^>(]*>)?\s*\(([^)]*(?:\([^)]*\)[^)]*)*)\)\s*(?::\s*([^{\n]+?))?\s*\{\s*\n(?:\s*//[^\n]*\n)*\s*__BUILT_IN_IMPLEMENTATION\s*\n\s*\}",
                text, re.M):
            kind, name, _, params, ret = m.groups()
            ps = []
            depth = 0
            cur = ""
            for ch in params:
                if ch in "<(":
                    depth += 1
                elif ch in ">)":
                    depth -= 1
                if ch == "," and depth == 0:
                    ps.append(cur)
                    cur = ""
                else:
                    cur += ch
            if cur.strip():
                ps.append(cur)
            ptypes = []
            for p in ps:
                if ":" in p:
                    ptypes.append((p.split(":", 1)[0].strip(), p.split(":", 1)[1].strip()))
                else:
                    ptypes.append((p.strip(), "Any"))
            recv = ""
            if kind == "method":
                if not ptypes or ptypes[0][0] != "this":
                    continue
                recv = ptypes[0][1]
                ptypes = ptypes[1:]
            out.append(dict(file=f, kind=kind, name=name, receiver=recv,
                            params=[t for _, t in ptypes], ret=(ret or "").strip()))
    return out


def builtin_tables(repo):
    ev = Src(os.path.join(repo, "src", "eval.rs"))
    values = Src(os.path.join(repo, "src", "values.rs"))
    envs = Src(os.path.join(repo, "src", "env.rs"))
    fns = ev.all_fns()

    # ---- Garden-level names: Display for BuiltInFunctionKind, namespace_path, method registration
    fun_name, fun_ns = {}, {}
    mm = re.search(r"\bimpl\s+(?:std\s*::\s*fmt\s*::\s*)?Display\s+for\s+BuiltInFunctionKind\s*\{", values.masked)
    if not mm:
        raise Missing("impl Display for BuiltInFunctionKind (src/values.rs): Garden-level names of built-in functions")
    ob = mm.end() - 1
    cb = values.match_bracket(ob)
    m2 = re.compile(r"\bmatch\s+self\s*\{").search(values.masked, ob, cb)
    if not m2:
        raise Missing("`match self {` in Display for BuiltInFunctionKind (src/values.rs)")
    for arm in values.match_arms(m2.end() - 1, values.match_bracket(m2.end() - 1)):
        kinds = re.findall(r"BuiltInFunctionKind\s*::\s*(\w+)", values.masked[arm["pat"][0]:arm["pat"][1]])
        lits = values.literals_in(arm["body"][0], arm["body"][1], "str")
        if kinds and len(lits) == 1:
            for k in kinds:
                fun_name[k] = lits[0][1]
    a, b = values.fn_body("namespace_path", "fn namespace_path of BuiltInFunctionKind (src/values.rs)")
    m2 = re.compile(r"\bmatch\s+self\s*\{").search(values.masked, a, b)
    if not m2:
        raise Missing("`match self {` in BuiltInFunctionKind::namespace_path (src/values.rs)")
    for arm in values.match_arms(m2.end() - 1, values.match_bracket(m2.end() - 1)):
        kinds = re.findall(r"BuiltInFunctionKind\s*::\s*(\w+)", values.masked[arm["pat"][0]:arm["pat"][1]])
        lits = values.literals_in(arm["body"][0], arm["body"][1], "str")
        if kinds and len(lits) == 1:
            for k in kinds:
                fun_ns[k] = lits[0][1]
    # enum variants (to make sure no kind is silently without an arm)
    def enum_variants(src, name):
        m3 = re.search(r"\benum\s+%s\s*\{" % name, src.masked)
        if not m3:
            return None
        ob3 = m3.end() - 1
        body = src.masked[ob3 + 1:src.match_bracket(ob3)]
        body = re.sub(r"#\[[^\]]*\]", " ", body)
        return [v for v in re.findall(r"(?:^|,)\s*([A-Z]\w*)", body)]
    fun_variants = enum_variants(values, "BuiltInFunctionKind")
    if fun_variants is None:
        raise Missing("enum BuiltInFunctionKind (src/values.rs)")
    meth_variants = None
    for p in ("parser/ast.rs", "values.rs", "env.rs"):
        try:
            s = Src(os.path.join(repo, "src", p))
        except Missing:
            continue
        meth_variants = enum_variants(s, "BuiltInMethodKind")
        if meth_variants is not None:
            break
    if meth_variants is None:
        raise Missing("enum BuiltInMethodKind (src/parser/ast.rs)")

    # method registration list in env.rs: ("Type", vec![("name", BuiltInMethodKind::X), …])
    meth_reg = {}
    mm = re.search(r"\bbuilt_in_methods\s*=\s*vec!\s*\[", envs.masked)
    if not mm:
        raise Missing("built_in_methods registration list (src/env.rs)")
    ob = mm.end() - 1
    cb = envs.match_bracket(ob)
    k = ob + 1
    while k < cb:
        if envs.masked[k] == "(":
            ce = envs.match_bracket(k)
            lits = envs.literals_in(k, ce, "str")
            inner = re.compile(r"vec!\s*\[").search(envs.masked, k, ce)
            if lits and inner:
                ty = lits[0][1]
                io = inner.end() - 1
                ic = envs.match_bracket(io)
                j = io + 1
                while j < ic:
                    if envs.masked[j] == "(":
                        je = envs.match_bracket(j)
                        l2 = envs.literals_in(j, je, "str")
                        km = re.search(r"BuiltInMethodKind\s*::\s*(\w+)", envs.masked[j:je])
                        if l2 and km:
                            meth_reg[km.group(1)] = (ty, l2[0][1])
                        j = je
                    j += 1
            k = ce
        k += 1
    if not meth_reg:
        raise Missing("entries of the built_in_methods registration list (src/env.rs)")

    stubs = gdn_stubs(repo)
    stub_fun = {(s["file"], s["name"]): s for s in stubs if s["kind"] == "fun"}
    stub_meth = {}
    for s in stubs:
        if s["kind"] == "method":
            base = re.sub(r"<.*", "", s["receiver"]).strip()
            stub_meth[(base, s["name"])] = s

    def helper_closure(a, b):
        """Effects of eval.rs free functions called (transitively) from [a,b)."""
        seen, eff, amb = set(), [], []
        work = [(ev.masked[a:b], None)]
        depth = 0
        while work and depth < 6:
            nxt = []
            for code, via in work:
                for cm in re.finditer(r"(?<![\w.:])([a-z_][a-z0-9_]*)\s*\(", code):
                    nm = cm.group(1)
                    if nm in seen or nm not in fns or NO_FOLLOW_RE.match(nm):
                        continue
                    seen.add(nm)
                    for (fa, fb) in fns[nm]:
                        body = ev.masked[fa:fb]
                        e2, a2 = scan_effects(body)
                        eff += ["%s@%s" % (x, nm) for x in e2]
                        amb += ["%s@%s" % (x, nm) for x in a2]
                        nxt.append((body, nm))
            work = nxt
            depth += 1
        return eff, amb

    def arms_of(fn_name, enum_name, what):
        a, b = ev.fn_body(fn_name, "fn %s in src/eval.rs (%s)" % (fn_name, what))
        mk = re.compile(r"\bmatch\s+kind\s*\{").search(ev.masked, a, b)
        if not mk:
            raise Missing("`match kind {` in %s (src/eval.rs)" % fn_name)
        ob = mk.end() - 1
        cb = ev.match_bracket(ob)
        # anything effectful in the function outside the big match (before/after) applies to all arms
        outer = ev.masked[a:ob] + ev.masked[cb + 1:b]
        outer_eff, outer_amb = scan_effects(outer)
        res = []
        for arm in ev.match_arms(ob, cb):
            pa, pb = arm["pat"]
            pat = ev.masked[pa:pb]
            kinds = re.findall(r"%s\s*::\s*(\w+)" % enum_name, pat)
            ba, bb = arm["body"]
            if not kinds:
                kinds = ["_wildcard_" + re.sub(r"\s+", "", pat)[:20]]
            if arm["block"]:
                gfirst, _ = first_statement_guard(ev, ba, bb - 1)
            else:
                gfirst = False
            gpresent = guard_present(ev, ba, bb)
            eff, amb = scan_effects(ev.masked[ba:bb])
            e2, a2 = helper_closure(ba, bb)
            eff = outer_eff + eff + e2
            amb = outer_amb + amb + a2
            ar = re.compile(r"\bcheck_arity\s*\(").search(ev.masked, ba, bb)
            arity = None
            if ar:
                aob = ar.end() - 1
                acb = ev.match_bracket(aob)
                # arguments at depth 0: the 4th is the expected arity
                parts, depth, cur = [], 0, ""
                for ch in ev.masked[aob + 1:acb]:
                    if ch in "([{":
                        depth += 1
                    elif ch in ")]}":
                        depth -= 1
                    if ch == "," and depth == 0:
                        parts.append(cur.strip())
                        cur = ""
                    else:
                        cur += ch
                parts.append(cur.strip())
                nums = [p for p in parts if re.fullmatch(r"[0-9]+", p)]
                if len(nums) == 1:
                    arity = int(nums[0])
            shapes = restore_shapes(ev, ba, bb)
            for kname in kinds:
                res.append(dict(name=kname, line=ev.line_of(pa), guardFirst=gfirst, guardPresent=gpresent,
                                effects=eff, ambient=amb, arity=arity, restoreShapes=shapes))
        return res

    fun_arms = arms_of("eval_built_in_call", "BuiltInFunctionKind", "built-in function dispatch")
    meth_arms = arms_of("eval_built_in_method_call", "BuiltInMethodKind", "built-in method dispatch")
    if len(fun_arms) < 5:
        raise Missing("arms of eval_built_in_call (found %d)" % len(fun_arms))
    if len(meth_arms) < 5:
        raise Missing("arms of eval_built_in_method_call (found %d)" % len(meth_arms))

    arms = []
    for arm in fun_arms:
        k = arm["name"]
        if k.startswith("_wildcard_"):
            raise Missing("eval_built_in_call has a wildcard arm `%s` (cannot attribute effects per kind)" % k[10:])
        if k not in fun_name:
            raise Missing("Garden-level name of BuiltInFunctionKind::%s (Display impl, src/values.rs)" % k)
        if k not in fun_ns:
            raise Missing("namespace file of BuiltInFunctionKind::%s (namespace_path, src/values.rs)" % k)
        st = stub_fun.get((fun_ns[k], fun_name[k]))
        arm.update(isMethod=False, gardenName=fun_name[k], namespaceFile=fun_ns[k], receiverType="",
                   params=(st["params"] if st else None), hasStub=st is not None)
        if arm["params"] is None:
            arm["params"] = ["Any"] * (arm["arity"] or 0)
        arms.append(arm)
    for arm in meth_arms:
        k = arm["name"]
        if k.startswith("_wildcard_"):
            raise Missing("eval_built_in_method_call has a wildcard arm `%s`" % k[10:])
        if k not in meth_reg:
            raise Missing("registration of BuiltInMethodKind::%s in built_in_methods (src/env.rs)" % k)
        ty, nm = meth_reg[k]
        st = stub_meth.get((ty, nm))
        arm.update(isMethod=True, gardenName=nm, namespaceFile="__prelude.gdn", receiverType=ty,
                   params=(st["params"] if st else None), hasStub=st is not None)
        if arm["params"] is None:
            arm["params"] = ["Any"] * (arm["arity"] or 0)
        arms.append(arm)
    have_f = {a["name"] for a in fun_arms}
    have_m = {a["name"] for a in meth_arms}
    miss = [v for v in fun_variants if v not in have_f] + [v for v in meth_variants if v not in have_m]
    if miss:
        raise Missing("dispatch arm for built-in kind(s) %s (src/eval.rs)" % ", ".join(miss))

    # ---- file reads reachable from sandboxed evaluation OUTSIDE the built-in dispatch
    other = []
    fa, fb = ev.fn_body("eval_built_in_call")
    ma, mb = ev.fn_body("eval_built_in_method_call")
    test_mod = re.search(r"#\[cfg\(test\)\]\s*mod\s+\w+\s*\{", ev.masked)
    test_start = test_mod.start() if test_mod else len(ev.masked)
    for nm, bodies in sorted(fns.items()):
        for (a, b) in bodies:
            if a >= test_start or (fa <= a <= fb) or (ma <= a <= mb):
                continue
            # direct effects only (no nested fn bodies counted twice: acceptable over-approximation)
            eff, _ = scan_effects(ev.masked[a:b])
            eff = [e for e in eff]
            if eff and nm not in ("eval_built_in_call", "eval_built_in_method_call"):
                guarded = "enforce_sandbox" in ev.masked[a:b]
                other.append(dict(function=nm, line=ev.line_of(a), effects=eff, checksSandbox=guarded))
    return arms, other


# --------------------------------------------------------------------------- (5) sandbox configs
def sandbox_tables(repo):
    out = []
    envs = Src(os.path.join(repo, "src", "env.rs"))
    dm = re.search(r"\benforce_sandbox\s*:\s*(true|false)\s*,", envs.masked)
    if not dm:
        raise Missing("default of Env.enforce_sandbox in Env::new (src/env.rs)")
    default_flag = dm.group(1) == "true"

    def default_limit(field):
        m = re.search(r"\b%s\s*:\s*(None|Some\s*\(\s*([0-9_]+)\s*\))\s*," % field, envs.masked)
        if not m:
            raise Missing("default of Env.%s in Env::new (src/env.rs)" % field)
        return None if m.group(1) == "None" else int(m.group(2).replace("_", ""))
    dt, ds = default_limit("tick_limit"), default_limit("stack_limit")
    for entry, rel, fn, evalre in [
            ("playground-run", "sandboxed_playground.rs", "run_sandboxed_playground", r"\beval_\w+\s*\("),
            ("sandboxed-test", "test_runner.rs", "sandboxed_tests_summary", r"\beval_\w+\s*\(")]:
        src = Src(os.path.join(repo, "src", rel))
        a, b = src.fn_body(fn, "sandbox configuration: fn %s in src/%s" % (fn, rel))
        if not re.compile(r"\bEnv\s*::\s*new\s*\(").search(src.masked, a, b):
            raise Missing("sandbox configuration: Env::new in %s (src/%s)" % (fn, rel))
        em = re.compile(evalre).search(src.masked, a, b)
        if not em:
            raise Missing("sandbox configuration: call of the evaluator in %s (src/%s)" % (fn, rel))
        stop = em.start()

        def last_assign(field, conv):
            val, found = None, False
            for m in re.finditer(r"\benv\s*\.\s*%s\s*=\s*([^;]+);" % field, src.masked[a:stop]):
                val, found = conv(m.group(1).strip()), True
            return found, val

        def conv_limit(s):
            m = re.fullmatch(r"Some\s*\(\s*([0-9_]+)\s*\)", s)
            if m:
                return int(m.group(1).replace("_", ""))
            if s == "None":
                return None
            raise Missing("sandbox configuration: literal limit in %s (got `%s`)" % (fn, s))

        def conv_flag(s):
            if s in ("true", "false"):
                return s == "true"
            raise Missing("sandbox configuration: literal enforce_sandbox in %s (got `%s`)" % (fn, s))
        ft, tick = last_assign("tick_limit", conv_limit)
        fs_, stack = last_assign("stack_limit", conv_limit)
        ff, flag = last_assign("enforce_sandbox", conv_flag)
        # is the entry point really wired to this function?
        mainrs = Src(os.path.join(repo, "src", "main.rs"))
        wired = fn in mainrs.masked or any(
            re.search(r"\b%s\s*\(" % re.escape(fn), Src(os.path.join(repo, "src", rel)).masked[x:y])
            for x, y in [(0, a), (b, len(src.masked))])
        out.append(dict(entry=entry, file="src/" + rel, function=fn,
                        tickLimit=tick if ft else dt, stackLimit=stack if fs_ else ds,
                        enforceSandbox=flag if ff else default_flag,
                        setBeforeEval=ff, wired=bool(wired)))
    # every write of the flag anywhere in src (outside the Env::new default)
    writes = []
    d = os.path.join(repo, "src")
    for root, _, files in os.walk(d):
        for f in sorted(files):
            if not f.endswith(".rs"):
                continue
            p = os.path.join(root, f)
            try:
                if "enforce_sandbox" not in open(p, encoding="utf-8").read():
                    continue
            except OSError:
                continue
            s = Src(p)
            for m in re.finditer(r"\.\s*enforce_sandbox\s*=\s*([^;=][^;]*);", s.masked):
                writes.append((os.path.relpath(p, repo), s.line_of(m.start()), m.group(1).strip()))
    writes.sort()
    return out, dict(defaultEnforceSandbox=default_flag, flagWrites=writes)


# --------------------------------------------------------------------------- (6) LSP
def lsp_tables(repo):
    src = Src(os.path.join(repo, "src", "lsp.rs"))
    a, b = src.fn_body("handle_message", "fn handle_message in src/lsp.rs")
    mm = re.compile(r"\bmatch\s+parsed\s*\.\s*method\s*\.\s*as_deref\s*\(\s*\)\s*\{").search(src.masked, a, b)
    if not mm:
        mm = re.compile(r"\bmatch\s+[^{;]*\bmethod\b[^{;]*\{").search(src.masked, a, b)
    if not mm:
        raise Missing("method `match` in handle_message (src/lsp.rs)")
    ob = mm.end() - 1
    cb = src.match_bracket(ob)
    methods = []
    default = None
    nomethod = None
    for arm in src.match_arms(ob, cb):
        pa, pb = arm["pat"]
        ba, bb = arm["body"]
        pat = src.masked[pa:pb].strip()
        body = src.masked[ba:bb]
        lits = src.literals_in(pa, pb, "str")
        needs_id = re.search(r"if\s+let\s+Some\s*\(\s*id\s*\)\s*=\s*parsed\s*\.\s*id", body) is not None
        responder = None
        for r in ("push_request_response", "push_response", "push_error"):
            if re.search(r"\b%s\s*\(" % r, body):
                responder = r
                break
        handler = None
        hm = re.findall(r"\b(handle_[a-z_]+)\b", body)
        if hm:
            handler = hm[0]
        am = re.search(r"\baction\s*=\s*Action\s*::\s*(\w+)", body)
        action = am.group(1) if am else "Continue"
        extends = re.search(r"\boutgoing\s*\.\s*extend\s*\(", body) is not None
        # error code used when responding with an error
        code = re.search(r"ErrorCodes\s*::\s*(\w+)", body)
        if lits:
            # the method name repeated inside push_request_response must equal the matched one
            inner = [v for _, v in src.literals_in(ba, bb, "str")]
            for _, v in lits:
                methods.append(dict(method=v, isRequest=bool(needs_id and responder),
                                    responder=responder or ("extend" if extends else "none"),
                                    handler=handler or "", action=action,
                                    nameRepeated=(v in inner) if responder == "push_request_response" else True))
        elif re.match(r"Some\s*\(\s*\w+\s*\)$", pat):
            default = dict(respondsIfId=bool(needs_id and responder), responder=responder or "none",
                           errorCode=code.group(1) if code else "", action=action)
        elif pat == "None":
            nomethod = dict(responds=bool(responder), action=action)
        elif pat == "_":
            default = dict(respondsIfId=bool(needs_id and responder), responder=responder or "none",
                           errorCode=code.group(1) if code else "", action=action)
    if not methods:
        raise Missing("method arms of handle_message (src/lsp.rs)")
    if default is None:
        raise Missing("default arm of the method match in handle_message (src/lsp.rs)")
    # malformed message path (before the match)
    pre = src.masked[a:ob]
    pe = dict(respondsIfId=bool(re.search(r"message\s*\.\s*get\s*\(", pre) and "push_error" in pre),
              errorCode=(re.search(r"ErrorCodes\s*::\s*(\w+)", pre) or [None, ""])[1])
    return dict(lspMethods=methods, lspDefault=default, lspNoMethod=nomethod or dict(responds=False, action="Continue"),
                lspParseError=pe)


# --------------------------------------------------------------------------- (7) REPL commands
def repl_tables(repo):
    src = Src(os.path.join(repo, "src", "commands.rs"))
    # the from_string of `impl Command`
    im = re.search(r"\bimpl\s+Command\s*\{", src.masked)
    if not im:
        raise Missing("impl Command (src/commands.rs)")
    iob = im.end() - 1
    icb = src.match_bracket(iob)
    fm = re.compile(r"\bfn\s+from_string\b").search(src.masked, iob, icb)
    if not fm:
        raise Missing("Command::from_string (src/commands.rs)")
    k = fm.end()
    while src.masked[k] != "{":
        k = src.match_bracket(k) if src.masked[k] in "([" else k
        k += 1
    a, b = k, src.match_bracket(k)
    mm = re.compile(r"\bmatch\s+([^{;]+)\{").search(src.masked, a, b)
    if not mm:
        raise Missing("command `match` in Command::from_string (src/commands.rs)")
    scrut = re.sub(r"\s+", "", mm.group(1))
    ob = mm.end() - 1
    cmds = []
    default = None
    for arm in src.match_arms(ob, src.match_bracket(ob)):
        pa, pb = arm["pat"]
        ba, bb = arm["body"]
        body = src.masked[ba:bb]
        lits = src.literals_in(pa, pb, "str")
        vm = re.search(r"Command\s*::\s*(\w+)\s*(\()?", body)
        if lits:
            if not vm:
                raise Missing("Command variant for %r in Command::from_string" % lits[0][1])
            arg = ""
            if vm.group(2):
                po = ba + vm.end() - 1
                arg = re.sub(r"\s+", "", src.masked[po + 1:src.match_bracket(po)])
            if not vm.group(2):
                args = "none"
            elif arg == "args":
                args = "optional"
            elif "unwrap_or_default" in arg:
                args = "defaulted"
            else:
                args = "other:" + arg
            for _, v in lits:
                cmds.append(dict(name=v, variant=vm.group(1), args=args))
        elif src.masked[pa:pb].strip() == "_":
            default = []
            for e in re.finditer(r"CommandParseError\s*::\s*(\w+)", body):
                default.append(e.group(1))
    if not cmds:
        raise Missing("arms of Command::from_string (src/commands.rs)")
    return dict(replCommands=cmds, replCommandsLowercased="to_lowercase" in scrut,
                replDefaultErrors=default or [])


# --------------------------------------------------------------------------- emit
def emit(t):
    L = []
    w = L.append
    w("/-!")
    w("GENERATED by tools/extract_tables.py from the Rust sources of garden — DO NOT EDIT.")
    w("Regenerated on every `./check` run; rewritten only when the content changes.")
    w("Import-free; literal data only. Theorems stated over `Tables.*` are re-checked (or break)")
    w("by themselves when the corresponding Rust table or arm shape changes.")
    w("-/")
    w("")
    w("namespace Tables")
    w("")
    w("/-- One arm of `eval_built_in_call` / `eval_built_in_method_call` (src/eval.rs).")
    w("`guardFirst`: the arm's first statement is the `env.enforce_sandbox` guard returning")
    w("`ForbiddenInSandbox` (before any argument is inspected). `effects`: std calls in the arm (or in")
    w("eval.rs helpers it calls, marked `@helper`) that touch files, processes, stdin, the network, the")
    w("process cwd or environment. `ambient`: reads of ambient process state that the sandbox property")
    w("does not list (env vars, tty, clock, randomness, stdout/stderr). `restoreShapes`: for every")
    w("`saved_values` construction in the arm, where the receiver/function value sits relative to the")
    w("argument values. `params`: declared parameter types of the `__BUILT_IN_IMPLEMENTATION` stub. -/")
    w("structure BuiltinArm where")
    w("  name : String")
    w("  isMethod : Bool")
    w("  gardenName : String")
    w("  namespaceFile : String")
    w("  receiverType : String")
    w("  params : List String")
    w("  arity : Option Nat")
    w("  guardFirst : Bool")
    w("  guardPresent : Bool")
    w("  effects : List String")
    w("  ambient : List String")
    w("  restoreShapes : List String")
    w("  deriving Repr, DecidableEq")
    w("")
    w("/-- A place where a sandboxed entry point configures its `Env`. -/")
    w("structure SandboxConfig where")
    w("  entry : String")
    w("  file : String")
    w("  function : String")
    w("  tickLimit : Option Nat")
    w("  stackLimit : Option Nat")
    w("  enforceSandbox : Bool")
    w("  /-- the flag is assigned textually before the first call of the evaluator -/")
    w("  setBeforeEval : Bool")
    w("  /-- the function is referenced from main.rs / its public wrapper -/")
    w("  wired : Bool")
    w("  deriving Repr, DecidableEq")
    w("")
    w("/-- A function of eval.rs outside the built-in dispatch that contains an effectful std call. -/")
    w("structure OtherEffectSite where")
    w("  function : String")
    w("  effects : List String")
    w("  checksSandbox : Bool")
    w("  deriving Repr, DecidableEq")
    w("")
    w("/-- One arm of the method `match` in `handle_message` (src/lsp.rs). -/")
    w("structure LspMethod where")
    w("  method : String")
    w("  /-- answers with the request id (`if let Some(id) = parsed.id { push_…response }`) -/")
    w("  isRequest : Bool")
    w("  responder : String")
    w("  handler : String")
    w("  action : String")
    w("  deriving Repr, DecidableEq")
    w("")
    w("structure LspDefault where")
    w("  respondsIfId : Bool")
    w("  responder : String")
    w("  errorCode : String")
    w("  action : String")
    w("  deriving Repr, DecidableEq")
    w("")
    w("/-- One arm of `Command::from_string` (src/commands.rs). `args`: \"none\" | \"optional\" (passes")
    w("`args`) | \"defaulted\" (`Some(args.unwrap_or_default())`). -/")
    w("structure ReplCommand where")
    w("  name : String")
    w("  variant : String")
    w("  args : String")
    w("  deriving Repr, DecidableEq")
    w("")
    w("-- (1) src/parser/lex.rs")
    w("def twoCharOperators : List String := " + llist(t["twoCharOperators"]))
    w("def twoCharTokens : List String := " + llist(t["twoCharTokens"]))
    w("def oneCharOperators : List Char := " + llist(t["oneCharOperators"], lchar))
    w("def oneCharTokens : List Char := " + llist(t["oneCharTokens"], lchar))
    w("def floatRe : String := " + lstr(t["floatRe"]))
    w("def integerRe : String := " + lstr(t["integerRe"]))
    w("def stringRe : String := " + lstr(t["stringRe"]))
    w("def symbolRe : String := " + lstr(t["symbolRe"]))
    w("/-- order in which `lex_between` first mentions the tables / regexes -/")
    w("def lexTryOrder : List String := " + llist(t["lexTryOrder"]))
    w("")
    w("-- (2) src/parser.rs")
    w("def keywords : List String := " + llist(t["keywords"]))
    w("/-- arms of `token_as_binary_op`: token text ↦ `BinaryOperatorKind` variant -/")
    w("def binaryOps : List (String × String) := " + llist(
        t["binaryOps"], lambda p: "(%s, %s)" % (lstr(p[0]), lstr(p[1]))))
    w("def binaryOpDefault : String := " + lstr(t["binaryOpDefault"]))
    if "spacedBeforeParen" in t:
        w("")
        w("-- src/format.rs")
        w("def spacedBeforeParen : List String := " + llist(t["spacedBeforeParen"]))
        w("def maxSignatureLineLen : Nat := %d" % t["maxSignatureLineLen"])
    w("")
    w("-- (3)(4) src/eval.rs built-in dispatch (+ names from src/values.rs, src/env.rs, src/__*.gdn)")
    w("def builtinArms : List BuiltinArm := [")
    rows = []
    for a in t["builtinArms"]:
        rows.append(
            "  { name := %s, isMethod := %s, gardenName := %s, namespaceFile := %s, receiverType := %s,\n"
            "    params := %s, arity := %s, guardFirst := %s, guardPresent := %s,\n"
            "    effects := %s,\n    ambient := %s,\n    restoreShapes := %s }" % (
                lstr(a["name"]), lbool(a["isMethod"]), lstr(a["gardenName"]), lstr(a["namespaceFile"]),
                lstr(a["receiverType"]), llist(a["params"], wrap=10**6), lopt_nat(a["arity"]),
                lbool(a["guardFirst"]), lbool(a["guardPresent"]), llist(a["effects"], wrap=10**6),
                llist(a["ambient"], wrap=10**6), llist(a["restoreShapes"], wrap=10**6)))
    w(",\n".join(rows) + "]")
    w("")
    w("/-- effectful std calls in eval.rs outside the two dispatch functions (e.g. `import` reading a file) -/")
    w("def otherEffectSites : List OtherEffectSite := " + llist(
        t["otherEffectSites"],
        lambda o: "{ function := %s, effects := %s, checksSandbox := %s }" % (
            lstr(o["function"]), llist(o["effects"], wrap=10**6), lbool(o["checksSandbox"])), wrap=0))
    w("")
    w("-- (5) sandbox entry points")
    w("def sandboxConfigs : List SandboxConfig := " + llist(
        t["sandboxConfigs"],
        lambda c: "{ entry := %s, file := %s, function := %s, tickLimit := %s, stackLimit := %s,\n"
                  "    enforceSandbox := %s, setBeforeEval := %s, wired := %s }" % (
            lstr(c["entry"]), lstr(c["file"]), lstr(c["function"]), lopt_nat(c["tickLimit"]),
            lopt_nat(c["stackLimit"]), lbool(c["enforceSandbox"]), lbool(c["setBeforeEval"]), lbool(c["wired"])),
        wrap=0))
    w("/-- `enforce_sandbox: …` in `Env::new` -/")
    w("def defaultEnforceSandbox : Bool := " + lbool(t["defaultEnforceSandbox"]))
    w("/-- every assignment `….enforce_sandbox = v;` in src/**/*.rs: (file, value) -/")
    w("def sandboxFlagWrites : List (String × String) := " + llist(
        t["flagWrites"], lambda x: "(%s, %s)" % (lstr(x[0]), lstr(x[2]))))
    w("")
    w("-- (6) src/lsp.rs handle_message")
    w("def lspMethods : List LspMethod := " + llist(
        t["lspMethods"],
        lambda m: "{ method := %s, isRequest := %s, responder := %s, handler := %s, action := %s }" % (
            lstr(m["method"]), lbool(m["isRequest"]), lstr(m["responder"]), lstr(m["handler"]),
            lstr(m["action"])), wrap=0))
    d = t["lspDefault"]
    w("/-- the `Some(method) =>` arm: unknown method -/")
    w("def lspDefault : LspDefault := { respondsIfId := %s, responder := %s, errorCode := %s, action := %s }" % (
        lbool(d["respondsIfId"]), lstr(d["responder"]), lstr(d["errorCode"]), lstr(d["action"])))
    w("/-- the `None =>` arm (message without method): does it send anything? -/")
    w("def lspNoMethodResponds : Bool := " + lbool(t["lspNoMethod"]["responds"]))
    w("/-- message that does not deserialize: error response iff it has an id; error code -/")
    w("def lspParseErrorRespondsIfId : Bool := " + lbool(t["lspParseError"]["respondsIfId"]))
    w("def lspParseErrorCode : String := " + lstr(t["lspParseError"]["errorCode"]))
    w("")
    w("-- (7) src/commands.rs Command::from_string")
    w("def replCommands : List ReplCommand := " + llist(
        t["replCommands"],
        lambda c: "{ name := %s, variant := %s, args := %s }" % (lstr(c["name"]), lstr(c["variant"]), lstr(c["args"])),
        wrap=0))
    w("/-- the command name is lower-cased before matching -/")
    w("def replCommandsLowercased : Bool := " + lbool(t["replCommandsLowercased"]))
    w("/-- `CommandParseError` variants produced by the default arm, in source order -/")
    w("def replDefaultErrors : List String := " + llist(t["replDefaultErrors"]))
    w("")
    w("end Tables")
    return "\n".join(L) + "\n"


def extract(repo):
    t = {}
    t.update(lex_tables(repo))
    t.update(parser_tables(repo))
    t.update(format_tables(repo))
    arms, other = builtin_tables(repo)
    t["builtinArms"] = arms
    t["otherEffectSites"] = other
    cfgs, extra = sandbox_tables(repo)
    t["sandboxConfigs"] = cfgs
    t.update(extra)
    t.update(lsp_tables(repo))
    t.update(repl_tables(repo))
    return t


def main(argv):
    if len(argv) < 3:
        print("usage: extract_tables.py <repo_dir> <lean_project_dir> [--json]")
        return 2
    repo, lean_dir = argv[1], argv[2]
    try:
        t = extract(repo)
    except Missing as e:
        print("extract_tables: BROKEN TIE: cannot find %s" % e)
        return 3
    text = emit(t)
    out_dir = os.path.join(lean_dir, "GardenVerif", "Generated")
    os.makedirs(out_dir, exist_ok=True)
    path = os.path.join(out_dir, "Tables.lean")
    old = None
    try:
        old = open(path, encoding="utf-8").read()
    except OSError:
        pass
    changed = old != text
    if changed:
        tmp = path + ".tmp.%d" % os.getpid()
        with open(tmp, "w", encoding="utf-8") as f:
            f.write(text)
        os.replace(tmp, path)
    if "--json" in argv:
        print(json.dumps(t, indent=1, default=str))
    n_eff = sum(1 for a in t["builtinArms"] if a["effects"])
    n_ung = [a["name"] for a in t["builtinArms"] if a["effects"] and not a["guardFirst"]]
    print("Tables.lean %s: %d operators, %d keywords, %d binary ops, %d built-in arms (%d effectful, "
          "unguarded: %s), %d sandbox configs, %d lsp methods, %d repl commands" % (
              "rewritten" if changed else "unchanged",
              len(t["twoCharOperators"]) + len(t["oneCharOperators"]), len(t["keywords"]), len(t["binaryOps"]),
              len(t["builtinArms"]), n_eff, ",".join(n_ung) or "none", len(t["sandboxConfigs"]),
              len(t["lspMethods"]), len(t["replCommands"])))
    return 0


if __name__ == "__main__":
    sys.exit(main(sys.argv))
