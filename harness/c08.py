"""C08 — An evaluation interrupted anywhere resumes to the same outcome.

Proof: GardenVerif.Props.C08 over the machine model M4 (interrupt_is_stutter, run_sim,
interrupts_unobservable). Tie: the real evaluator (hook `machine`, per-tick trace H2, interrupt
injection H3, resuming with `eval` exactly as `:resume` does) vs the model machine on the real
parser's tree, with the same interrupt schedules. Direct oracle on the implementation alone: for
every program and every schedule the interrupted-and-resumed run prints the same output and ends
with the same result/error as the uninterrupted run, and its trace with the stutter lines removed
is the uninterrupted trace (nothing lost, repeated or reordered). A sample also goes through a real
JSON session (`reftest-json-session` + `:resume`, schedule from GARDEN_VERIF_INTERRUPT_AT).
"""
import json
import os
import re
from . import machine_corr as MC
from . import prog_core_gen as PG
from .common import pmap

LEAN_MODULES = ["GardenVerif.Props.C08"]


def strip_ticks(trace):
    return [re.sub(r"^T \d+ ", "T ", l) for l in trace]


def run(ctx):
    rng = ctx.rng
    nprog = ctx.scale(70, 700)
    progs = []
    while len(progs) < nprog:
        src, info = PG.gen_program(rng, size=rng.choice([8, 15, 25]), err_rate=0.03, exits=0.4)
        progs.append(src)
    ctx.rule = ("core-fragment programs from the type-directed generator (loops, early exits, calls, closures, "
                "match, prints, a few runtime errors); for each program EVERY single-interrupt position k in "
                "1..ticks (exhaustive per program, programs up to %d ticks) plus random multi-interrupt schedules "
                "(2-6 interrupts, also at consecutive ticks). Non-trivial = the interrupt landed strictly inside "
                "the run (the implementation reported >= 1 Interrupted outcome)." % ctx.scale(160, 400))
    base = MC.run_pairs(ctx, progs, tick_limit=None)
    srcs, scheds, base_idx = [], [], []
    max_ticks = ctx.scale(160, 400)
    hist = {"programs": 0, "skipped_long": 0, "base_err": 0, "base_ok": 0}
    for pi, (src, (bi, bm)) in enumerate(zip(progs, base)):
        d = MC.compare(bi, bm)
        if d:
            ctx.disagree("machine(no interrupt)", {"src": src}, bm.get("outcome"), bi.get("outcome"), detail=d)
            continue
        if bi["kind"] not in ("ok", "err"):
            if bi["kind"] in ("panic", "died"):
                ctx.fail("C08/crash-uninterrupted", "evaluator crashed: %s" % bi.get("raw"), src=src)
            continue
        hist["base_ok" if bi["kind"] == "ok" else "base_err"] += 1
        t = len(bi["trace"])
        if t > max_ticks or t == 0:
            hist["skipped_long"] += 1
            continue
        hist["programs"] += 1
        for k in range(1, t + 1):
            srcs.append(src)
            scheds.append([k])
            base_idx.append(pi)
        for _ in range(ctx.scale(6, 20)):
            n = rng.randrange(2, 7)
            ks = sorted(set(rng.randrange(1, t + n) for _ in range(n)))
            if rng.random() < 0.3:
                k0 = rng.randrange(1, t + 1)
                ks = sorted(set(ks + [k0, k0 + 1, k0 + 2]))
            srcs.append(src)
            scheds.append(ks)
            base_idx.append(pi)
    ctx.cov["input_distribution"] = hist
    res = MC.run_pairs(ctx, srcs, interrupts=scheds, tick_limit=None)
    fired_hist = {}
    for src, ks, pi, (i, m) in zip(srcs, scheds, base_idx, res):
        bi = base[pi][0]
        fired = i.get("interrupted", 0)
        fired_hist[fired] = fired_hist.get(fired, 0) + 1
        ctx.case((src, tuple(ks)), fired >= 1)
        d = MC.compare(i, m)
        if d:
            ctx.disagree("machine(interrupts)", {"src": src, "interrupt_at": ks}, m.get("outcome"),
                         i.get("outcome"), detail=d)
        # direct oracle (implementation only)
        if i["kind"] in ("panic", "died"):
            ctx.fail("C08/crash-on-resume", "evaluator crashed after interrupt+resume: %s" % i.get("raw"),
                     src=src, interrupt_at=ks)
            continue
        if i["kind"] != bi["kind"] or i.get("outcome") != bi.get("outcome") or i.get("msg") != bi.get("msg") \
                or i.get("pos") != bi.get("pos"):
            ctx.fail("C08/outcome-differs", "interrupted+resumed run ends differently from the uninterrupted run",
                     src=src, interrupt_at=ks, uninterrupted=[bi["kind"], bi.get("outcome"), bi.get("msg")],
                     interrupted=[i["kind"], i.get("outcome"), i.get("msg")])
        elif i["out"] != bi["out"]:
            ctx.fail("C08/output-differs", "interrupted+resumed run prints different output", src=src,
                     interrupt_at=ks, uninterrupted=bi["out"], interrupted=i["out"])
        else:
            # steps: removing each stutter line (a line identical, up to the tick number, to the next one)
            # must give the uninterrupted trace
            tr = strip_ticks(i["trace"])
            dedup = [l for q, l in enumerate(tr) if not (q + 1 < len(tr) and tr[q + 1] == l and
                                                         _is_stutter(i["trace"], q, ks))]
            if dedup != strip_ticks(bi["trace"]) and len(tr) - fired == len(bi["trace"]):
                ctx.fail("C08/steps-differ", "after removing the interrupted steps the trace is not the "
                         "uninterrupted trace (a step was lost, repeated or reordered)", src=src, interrupt_at=ks)
            elif len(tr) - fired != len(bi["trace"]):
                ctx.fail("C08/step-count", "interrupted run takes %d steps, expected %d + %d interrupts" % (
                    len(tr), len(bi["trace"]), fired), src=src, interrupt_at=ks)
    ctx.cov["interrupts_fired_histogram"] = {str(k): v for k, v in sorted(fired_hist.items())}
    ctx.sample({"src": srcs[0], "interrupt_at": scheds[0], "impl_outcome": res[0][0].get("outcome"),
                "impl_interrupted": res[0][0].get("interrupted")})
    ctx.sample({"src": srcs[-1], "interrupt_at": scheds[-1], "impl_outcome": res[-1][0].get("outcome"),
                "impl_interrupted": res[-1][0].get("interrupted")})

    # ---- a sample through a real JSON session with :resume
    sess = ctx.scale(25, 200)
    cand = [(s, len(b[0]["trace"])) for s, b in zip(progs, base)
            if b[0]["kind"] == "ok" and 3 < len(b[0].get("trace", [])) < max_ticks and "fun " not in s
            and "enum " not in s]
    jobs = []
    for s, t in cand[:sess]:
        ks = sorted(set(rng.randrange(1, t + 1) for _ in range(rng.randrange(1, 4))))
        jobs.append((s, ks))
    d = ctx.scratch("sess")

    def run_session(job):
        idx, (s, ks) = job
        lines = [json.dumps({"method": "run", "input": s})] + [json.dumps({"method": "run", "input": ":resume"})] * len(ks)
        outs = []
        for sched in ("", ",".join(map(str, ks))):
            p = os.path.join(d, "s%d_%d.jsonl" % (idx, 1 if sched else 0))
            body = lines if sched else lines[:1]
            open(p, "w").write("\n".join(body) + "\n")
            rc, so, se = ctx.garden(["reftest-json-session", p], timeout=30,
                                    env={"GARDEN_VERIF_INTERRUPT_AT": sched} if sched else None)
            printed = "".join(x for x in re.findall(r'"printed": \{\s*"s": ("(?:[^"\\]|\\.)*")', so))
            ninter = len(re.findall(r'"interrupted": \{', so))
            last_val = re.findall(r'"Ok": ("(?:[^"\\]|\\.)*")', so)
            outs.append((rc, printed, ninter, last_val[-1:] if last_val else []))
        return s, ks, outs
    for s, ks, outs in pmap(run_session, list(enumerate(jobs))):
        (rc0, p0, n0, v0), (rc1, p1, n1, v1) = outs
        ctx.case(("session", s, tuple(ks)), n1 >= 1)
        if rc1 != 0 and rc0 == 0:
            ctx.fail("C08/session-crash", "JSON session died after interrupt + :resume", src=s, interrupt_at=ks, rc=rc1)
        elif p0 != p1 or v0 != v1:
            ctx.fail("C08/session-differs", "JSON session: interrupted + :resume gives different output/value",
                     src=s, interrupt_at=ks, plain=[p0, v0], interrupted=[p1, v1])
    ctx.cov["json_session_runs"] = len(jobs)
    import shutil
    shutil.rmtree(d, ignore_errors=True)
    ctx.assumptions += ["machine model M4 is hand-written from src/eval.rs; tied by per-tick trace equality on every run",
                        "theorem needs tickLimit = none (with a limit an interrupt consumes a tick)",
                        "interrupt delivery is modelled as the flag being set before a step's check (Ctrl-C / interrupt "
                        "request between two steps); the fragment excludes floats, dicts, structs, methods, try"]


def _is_stutter(trace, q, ks):
    m = re.match(r"^T (\d+) ", trace[q])
    return bool(m) and int(m.group(1)) in ks
