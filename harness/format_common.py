"""Shared by c17.py and c18.py: input corpus, hook plumbing, canonicalisation."""
import os
import re

from . import prog_gen as G
from .common import hexs, unhex, REPO

AST_RE = re.compile(r"OK \(ast (\w*)\)(.*)$")
TEXT_RE = re.compile(r"\(text (\w+) s:(\w*)\) ")
COMMA_RE = re.compile(r"comma: (?:None|Some\(\s*Position \{ \.\.\. \},\s*\))")

# Hand-written probes: known suspects, kept so that they are exercised on every run.
PROBES = [
    'fun f() {\n  let s = "x\n   y" }\n',
    'fun f() {\n    let s = "x\n   y"\n    s }\n',
    'fun f() {\nlet s = "a\n\n\n b"\n}\n',
    'let s = "a\n\n\nb"\nfun f() {}\n',
    'fun f() {\n  foo("a\nb",\n1)\n}\n',
    '"abc\nxyz" fun foo() {}\n',
    'let x = 1\nfun f() { 1 }\nfun g() {\n1 }\n',
    'fun f() {\n  return\n  1\n}\n',
    'fun f() {\n  return 1\n}\n',
    'fun f() { if x { 1 } else{ 2 } }\n',
    'fun f() { if(x){ 1 } }\n',
    'let y = foo (1)\nlet z = foo(1)\n',
    'let p = Point{ x: 1 }\nlet q = x . y\n',
    'let x = a - 1\nlet y = a -1\nlet z = a- 1\n',
    'fun f(x:Int,y:List<Int>):Int { x }\n',
    'let x:List<Int> = []\nlet   y :  Option<Int>  =  None\n',
    'let x\n  = 1\nfun f() {\n1\n}\n',
    'fun f() {\n  let x = 1 // = 2\n  // c\n}\n// end',
    '// only a comment',
    '',
    '\n\n\n',
    'x\n\n\n',
    'x',
    'fun a_very_long_function_name_for_wrapping(first_parameter: Int, second_parameter: String, third_parameter: List<Int>): Int { 1 }\n',
    'fun a_very_long_function_name_for_wrapping(first_parameter: Int, second_parameter: String, third_parameter: List<Int>,): Int { 1 }\n',
    '  fun a_very_long_function_name_for_wrapping(first_parameter: Int, second_parameter: String, third_parameter: List<Int>): Int {\n1 }\n',
    'public method a_very_long_method_name_for_wrapping(this: String, second_parameter: String, third_parameter: List<(Int, String)>): Int { 1 }\n',
    'fun f() {\n  foo(\n1,\n        2,\n  3\n    )\n}\n',
    'fun f() {\n  foo(bar(\n1), fun() {\n2\n})\n}\n',
    'fun f() {\n  match x {\n  Some(y) => y,\n None => { 1 }\n _ => {\n2\n}\n}\n}\n',
    'fun f() {\n  x\n    .foo()\n    .bar()\n}\n',
    'fun f() {\n  let x = 1 +\n2 // c\n}\n',
    'test t { assert(1 == 1) }\nenum E { A, B(Int) }\nstruct S { x: Int, }\nimport "a.gdn"\nimport "b.gdn" as b\n',
    'fun f() {} fun g() {}\n',
    'let x = 1\r\nlet y = 2\r\n',
    'let x = 1\r\r\r\nlet y = 2\n',
    'let s = "a\r\nb"\r\n',
    '/// doc\r\nfun f() {}\r\n',
    'fun f() {\n\tlet x = 1\n\t\tlet y = 2\n}\n',
    'fun f() { let s = "é" let t = "日本" } // é\n',
    # comment after the closing quote of a multi-line string (the line starts inside the token)
    'fun usage(): String {\n  let text = "Usage:\n      garden run FILE" // second line is indented on purpose\n  text\n}\n\nprintln(usage())\n',
    'fun f() {\n  let s = "a\n          b" // c\n}\n',
    'fun f() {\n  foo("a\nb") // c\n  // d\n  bar()\n}\n',
    'fun f() {\n      let s = "a\n\t\tb" // c\n      // own line\n}\n',
    'let s = "x\n    y" // toplevel\n// next\nlet t = 1\n',
    'fun f() {\n  return "a\n      b" // c\n}\n',
    # long signature with an empty-tuple type hint (TypeHint::as_src)
    'fun a_very_long_function_name_for_wrapping(callback_parameter: Fun<(), Unit>, second_parameter: String, third: ()): Int { 1 }\n',
    # a `// args: ` comment that is not a testing footer (code follows)
    'let x = 1\n// args: not a footer\nlet y = 2\n',
]


def corpus(ctx, n_gen, n_variants, seeds_perturb=1):
    """[(origin, text)] — generated programs (canonical + perturbed renderings), repo .gdn files
    (as-is + perturbed), hand-written probes. Deterministic in ctx.rng."""
    rng = ctx.rng
    out = [("probe%d" % i, p) for i, p in enumerate(PROBES)]
    for i in range(n_gen):
        size = rng.choice([1, 1, 2, 2, 3, 4, 6])
        canon, vs = G.gen_program_variants(rng, size, n_variants)
        out.append(("gen%d" % i, canon))
        for k, v in enumerate(vs):
            out.append(("gen%d.v%d" % (i, k), v))
        if rng.random() < 0.15:
            out.append(("gen%d.pw" % i, G.perturb_whitespace(rng, canon)))
    seeds = G.seed_files(REPO)
    if ctx.quick():
        fmt = [s for s in seeds if "/format/" in s[0] or "sample_programs" in s[0] or s[0].count("/") == 1]
        rest = [s for s in seeds if s not in fmt]
        seeds = fmt + rng.sample(rest, min(len(rest), 60))
    for path, text in seeds:
        if len(text) > 60000:
            continue
        out.append((path, text))
        for k in range(seeds_perturb):
            out.append((path + ".pw%d" % k, G.perturb_whitespace(rng, text)))
    return out


def model_batch(ctx, lines):
    """Like ctx.model_batch, but on a private copy of the driver binary taken right after this run's
    `lake build` (other checks relink the shared binary concurrently)."""
    import shutil
    from .common import DRIVER, batch
    path = getattr(ctx, "_fmt_driver", None)
    if path is None:
        path = os.path.join(ctx.scratch("driver"), "gvdriver")
        shutil.copy2(DRIVER, path)
        ctx._fmt_driver = path
    res = batch([path], lines)
    redo = [k for k, r in enumerate(res) if r is None or r.startswith("DIED")]
    for k in redo[:200]:
        res[k] = batch([path], [lines[k]], shards=1, timeout=300)[0]
    return res


def garden_batch(ctx, lines, **kw):
    """ctx.garden_batch, then every request that got no answer (`None` / `DIED rc`: the shard's process
    was killed by the wall-clock limit under machine load, or really died) is asked again on its own.
    A request that kills the process deterministically still ends as `DIED`."""
    res = ctx.garden_batch(lines, **kw)
    redo = [k for k, r in enumerate(res) if r is None or r.startswith("DIED")]
    for k in redo[:200]:
        res[k] = ctx.garden_batch([lines[k]], shards=1, timeout=300)[0]
    return res


def has_nonascii_outside(src):
    """Non-ASCII characters outside string literals and comments make the lexer panic (C01)."""
    spans = G.protected_spans(src)
    pos = 0
    for a, b in spans:
        if any(ord(c) > 127 for c in src[pos:a]):
            return True
        pos = b
    return any(ord(c) > 127 for c in src[pos:])


def parse_ast(resp):
    """→ (dump, n_parse_errors) or None if the hook did not answer OK."""
    m = AST_RE.match(resp or "")
    if not m:
        return None
    return unhex(m.group(1)), m.group(2).count("(perr ")


def canon_dump(d):
    return COMMA_RE.sub("comma: _", d)


def lex_comments(resp):
    """Comment texts (line terminator stripped) in order, from a `lex` response."""
    out = []
    for m in re.finditer(r"\((?:c|trail) (\w*) [\d:]+\)", resp or ""):
        t = unhex(m.group(1))
        if t.endswith("\n"):
            t = t[:-1]
        if t.endswith("\r"):
            t = t[:-1]
        out.append(t)
    return out


def lex_spans(resp):
    """Byte spans of tokens and comments in ascending order, as `(sp S E)` items."""
    spans = []
    for m in re.finditer(r"\((?:tok|c|trail) \w* (\d+):(\d+):", resp or ""):
        spans.append((int(m.group(1)), int(m.group(2))))
    spans.sort()
    return " ".join("(sp %d %d)" % s for s in spans)


def lex_ntoks(resp):
    return (resp or "").count("(tok ")


def trace_texts(resp):
    return {m.group(1): m.group(2) for m in TEXT_RE.finditer(resp or "")}


def trace_tail(resp):
    return TEXT_RE.sub("", resp[3:] if resp.startswith("OK ") else resp)


def line_starts_in_string(src):
    """Does some line of `src` begin inside a string literal?"""
    for a, b in G.protected_spans(src):
        if src[a] == '"' and "\n" in src[a:b]:
            return True
    return False
