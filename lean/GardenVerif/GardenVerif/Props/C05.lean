import GardenVerif.Lemmas.BigStep
/-!
# C05 — Core-language programs behave as the reference semantics says

Reference semantics: `BigStep.eval` (Model/BigStep.lean, M5), an environment-passing definitional
interpreter that shares no evaluation code with the machine model M4 (`Machine.step`), which is
compared tick-by-tick with the real evaluator (C06/C08) — and both are compared with
`garden run` on every generated program (harness/c05.py, three-way differential).

TARGET (DESIGN §7 C05), kept visible; NOT yet proved in full:

    theorem machine_refines_bigstep (p : Program)
        (hwf : wfProgram p = true) (hex : exitsProgram p = true) (hlv : levelProgram p ≤ 2)
        (fuel : Nat) :
        match BigStep.runProgram p fuel with
        | (out, .val v) => ∃ n s, runN n (Machine.init p [] none none) = .done s v ∧ s.out = out
        | (out, .err e) => ∃ n s, runN n (Machine.init p [] none none) = .error s e ∧ s.out = out
        | _ => True          -- out of fuel / outside the fragment: nothing claimed

    staged as  machine_refines_bigstep_exprs  (levelProgram p = 0: expressions, blocks, let,
    assignment, `+=`, if, match, built-in calls),  _loops (≤ 1: + while, for, break, continue),
    _funs (≤ 2: + named functions, closures, return).

PROVED here: `machine_refines_bigstep_exprs_partial` — the statement above, for ALL programs
whose toplevel expressions are built from integer and string literals, variables (local, or
namespace: functions, enum variants, constructors, built-ins), parentheses and syntactically
invalid nodes (`BigStepLemmas.covB`), any number of them, with the parser's use flags
(`wfAll`), for every fuel and for the FULL reference interpreter `BigStep.runProgram` (the
simulation lemma `BigStepLemmas.sim` is proved for every way of applying functions). It covers
the run protocol end to end: toplevel values piling up on the value stack, the last one returned
by `eval`, `No such variable` / invalid-syntax errors stopping the run at the same point with
the same output log.

What is in place for the rest (Lemmas/BigStep.lean): the frame-context simulation statement
`Holds` (pending entries `K`, values `V`, scopes, with the clauses for errors and for
break / continue / return), soundness of frame-local runs w.r.t. `Machine.step` (`MS_sound`),
the `E`-step of every binary operator against `BigStep.binop` (`binop_E`), the scope-ADT facts
(`declareAll_length`, `setExisting_length`, `setExisting_isSome`). MISSING: the cases of `sim_succ`
for binary operators, `let`, assignment, `+=`, `if`, `match`, list / tuple literals, calls
(stage a), loops and exits (stage b; `C06.evalBreakLoop_spec` gives the block balance), frames
(stage c; needs a well-formedness invariant on closure values). These stages are covered by the
three-way differential runs only.
-/
namespace C05
open Machine BigStep BigStepLemmas

theorem init_eq (p : Program) :
    Machine.init p [] none none =
      Q p [F (initFrame []) (p.toplevel.map (fun e => (St.N, e))) [vUnit] [[]]] 0 "" := rfl

/-- **Machine refines big-step, expression stage, partial** (see the header for the fragment):
whenever the reference interpreter, with any fuel, ends with a value or an error, the machine
started as `garden run` starts it reaches `done` with the same value, resp. `error` with the
same error kind, and the same output. -/
theorem machine_refines_bigstep_exprs_partial (p : Program)
    (hcov : covB p.toplevel = true) (hwf : wfAll p.toplevel = true) (fuel : Nat) :
    match BigStep.runProgram p fuel with
    | (out, .val v) => ∃ n s, runN n (Machine.init p [] none none) = .done s v ∧ s.out = out
    | (out, .err e) => ∃ n s, runN n (Machine.init p [] none none) = .error s e ∧ s.out = out
    | _ => True := by
  have ih := sim (fun ev σ out fv vs => apply ev p σ out fv vs) p fuel
  have h := sim_top p _ ih (initFrame []) p.toplevel vUnit [[]] "" [] hcov hwf
  rw [init_eq]
  simp only [runProgram, runProgramWith, eval]
  revert h
  cases hr : (evalSeq (evalWith (fun ev σ out fv vs => apply ev p σ out fv vs) p fuel) vUnit p.toplevel [[]] "").outcome <;>
    dsimp only <;> intro h
  case val v =>
    obtain ⟨V', h1⟩ := h
    obtain ⟨n, hn⟩ := MS_sound h1 [] 0
    exact finish_done p _ _ n _ v V' _ _ hn
  case err er =>
    obtain ⟨g, h1, h2⟩ := h
    obtain ⟨n, hn⟩ := MS_sound h1 [] 0
    obtain ⟨s', hs, ho⟩ := step_err p g [] (0 + n) _ er h2
    exact ⟨n + 1, s', runN_last _ _ n _ hn hs (by intro x; simp), ho⟩
  all_goals first
    | exact h.elim
    | trivial

-- Non-vacuity of the hypotheses and of the conclusion: a program in the fragment, run by both.
example : covB [.int 1 true 5, .paren 3 true (.var 2 true "None")] = true ∧
    wfAll [.int 1 true 5, .paren 3 true (.var 2 true "None")] = true := by
  simp [covB, covE, wfAll, wfE, Expr.used]

/-
Both interpreters on a concrete program with a loop and a `break` (stage b, not yet covered by a
theorem; checked by evaluation and by the driver ops `bigstep_run` / `machine_run` on every
harness run):
  let i = 0  while True { i += 1  if i > 2 { break } }  i
#eval (BigStep.runProgram prog 100).2   -- val (int 3)
-/
end C05
