import GardenVerif.Lemmas.StringLit
import GardenVerif.Lemmas.Display
/-!
# C12 — Printed values read back as equal values

Models: `StringLit` (escape_string_literal, STRING_RE, unescape_string) and `Display`
(Value::display and a reader for the literal fragment), tied to the Rust by harness/c12.py.
`scanString` is the deterministic scanner for the repaired `STRING_RE = ^"(\\.|[^"])*("|\z)`;
`scanStringOld` is the pinned tree's `^"(\\"|[^"])*("|\z)`.
-/
set_option linter.unusedVariables false

namespace C12
open StringLit Display

/-- Reading the printed form of a string gives the string back, with no diagnostics. -/
theorem unescape_escape (s : List Char) :
    unescapeString (escapeStringLiteral s) = some (s, 0) :=
  unescapeString_escape s

example : unescapeString (escapeStringLiteral ['a', '\\', '"', '\n', '\t', 'é']) =
    some (['a', '\\', '"', '\n', '\t', 'é'], 0) := unescape_escape _

/-- The (repaired) string regex matches exactly the printed literal, whatever follows it:
no side condition on `rest` is needed. -/
theorem scan_escape (s rest : List Char) :
    scanString (escapeStringLiteral s ++ rest) = some (escapeStringLiteral s).length :=
  scanString_escape s rest

/-- … and the lexer makes exactly that text the token, without "Unclosed string literal.". -/
theorem lex_escape (s rest : List Char) :
    lexString (escapeStringLiteral s ++ rest) = some (escapeStringLiteral s, false) :=
  lexString_escape s rest

example : lexString (escapeStringLiteral ['a', '\\'] ++ " \"b\"".toList) =
    some ("\"a\\\\\"".toList, false) := lex_escape _ _

/-- The pinned tree's regex does not have this property: the printed form of `a\` followed by
another string literal is scanned as one 9-character match instead of the 5-character literal. -/
theorem scan_escape_fails_on_pinned_regex :
    ∃ s rest, scanStringOld (escapeStringLiteral s ++ rest) ≠ some (escapeStringLiteral s).length :=
  ⟨['a', '\\'], " \"b\"".toList, by decide⟩

/-! ## Values

`wf sig v` (Lemmas/Display.lean): integers are `i64`, dict entries are in strictly ascending key
order (the order `display` emits), enum values name variants of `sig`, struct values carry exactly
the declared fields.  `FloatRepr` is the assumption about Rust's `{}` / `parse` for finite `f64`. -/

/-- The reader, started anywhere a printed value can stand (end of text or before `,` `]` `)`
or a space), with any fuel `≥ need v`, reads exactly the printed text and returns the value. -/
theorem display_read {F} (fr : FloatRepr F) (sig : Sig) (v : DValue F) (hw : wf sig v)
    (fuel : Nat) (rest : List Char) (hf : need v ≤ fuel) (hr : okRest rest = true) :
    readValue fr.toFloatOps sig fuel (display fr.shw v ++ rest) = some (v, rest) :=
  readValue_display fr sig v hw fuel rest hf hr

/-- Printed values read back as equal values: lexing, parsing and evaluating (the model of) the
text that `display` prints gives the original value — for all integers, strings, lists, tuples
(0-, 1- and n-tuples), dicts, enum values with and without payload, structs, nested to any
depth, and floats under `FloatRepr`. `readTop` runs the reader with fuel `length + 1`. -/
theorem display_roundtrip {F} (fr : FloatRepr F) (sig : Sig) (v : DValue F) (hw : wf sig v) :
    readTop fr.toFloatOps sig (display fr.shw v) = some v :=
  readTop_display fr sig v hw

/-- The fuel bound used by `readTop`. -/
theorem fuel_bound {F} (fr : FloatRepr F) (sig : Sig) (v : DValue F) (hw : wf sig v) :
    need v ≤ (display fr.shw v).length :=
  need_le_length fr sig v hw

/-- `FloatRepr` is satisfiable (a one-point float type printing as `0.0`). -/
def unitFloat : FloatRepr Unit where
  shw _ := ['0', '.', '0']
  read _ := some ()
  neg _ := false
  ipart _ := ['0']
  fpart _ := ['0']
  shape _ := rfl
  ipart_digits _ := by decide
  fpart_digits _ := by decide
  read_shw _ := rfl

/-- A non-trivial well-formed value: `(-5, "a\\", Dict["" => None, "a\\" => Some([])], Pt{ a: (1,) })`. -/
def exampleSig : Sig where
  variant := preludeVariant
  structFields n := if n = "Pt".toList then some ["a".toList] else none

def exampleValue : DValue Unit :=
  .tuple [.int (-5), .str ['a', '\\'],
          .dict [([], .enum0 "None".toList), (['a', '\\'], .enum1 "Some".toList (.list []))],
          .struct "Pt".toList [("a".toList, .tuple [.int 1])]]

theorem exampleValue_wf : wf exampleSig exampleValue := by
  simp [exampleValue, wf, wfItems, wfPairs, ascending, exampleSig, preludeVariant, isSymbol, dictKw,
    fieldsOk, strLt]
  decide

example : readTop unitFloat.toFloatOps exampleSig (display unitFloat.shw exampleValue) = some exampleValue :=
  display_roundtrip unitFloat exampleSig exampleValue exampleValue_wf

end C12
