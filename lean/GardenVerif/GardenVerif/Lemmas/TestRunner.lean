import GardenVerif.Model.TestRunner
/-! Lemmas for C26 / C27 about `stepWith d` (hence about `Machine.step` and `TestRunner.tstep`). -/

set_option linter.unusedVariables false
namespace TestRunner
open Machine

theorem stepWith_dispatch (s : State) : stepWith dispatch s = step s := rfl

-- ---------------------------------------------------------------- dispatch keeps `callerUses`

/-- Dispatch only rewrites the entry / value / binding stacks of the current frame. -/
def Keeps (f : Frame) : Disp → Prop
  | .ok f' => f'.callerUses = f.callerUses
  | .okOut f' _ => f'.callerUses = f.callerUses
  | .newFrame f' _ => f'.callerUses = f.callerUses
  | .err f' _ _ _ => f'.callerUses = f.callerUses
  | .panic _ => True
  | .unsupported _ => True

@[simp] theorem pushE_uses (f : Frame) (st : St) (e : Expr) : (f.pushE st e).callerUses = f.callerUses := rfl
@[simp] theorem pushV_uses (f : Frame) (v : Value) : (f.pushV v).callerUses = f.callerUses := rfl
@[simp] theorem pushVIf_uses (f : Frame) (c : Bool) (v : Value) : (f.pushVIf c v).callerUses = f.callerUses := by
  unfold Frame.pushVIf; split <;> rfl
@[simp] theorem evalBlock_uses (f : Frame) (u : Bool) (body : List Expr) :
    (evalBlock f u body).callerUses = f.callerUses := by
  unfold evalBlock; split <;> rfl

theorem popBlock_uses (f f' : Frame) (h : popBlock f = some f') : f'.callerUses = f.callerUses := by
  unfold popBlock at h; split at h
  · cases h; rfl
  · simp at h

@[simp] theorem foldl_pushE_uses (items : List Expr) (f : Frame) :
    (items.foldl (fun f x => f.pushE .N x) f).callerUses = f.callerUses := by
  induction items generalizing f with
  | nil => rfl
  | cons x xs ih => simp only [List.foldl]; rw [ih]; rfl

theorem matchCases_uses (p : Program) (used : Bool) (ty : String) (idx : Nat) (payload : Option Value) :
    ∀ (cases : List Case) (f f' : Frame), matchCases p f used ty idx payload cases = .ok f' →
    f'.callerUses = f.callerUses
  | [], f, f', h => by simp [matchCases] at h
  | .mk variant dest body :: rest, f, f', h => by
      have ih := matchCases_uses p used ty idx payload rest f f'
      unfold matchCases at h
      split at h
      · cases h; simp
      · split at h
        · simp at h
        · split at h
          · simp at h
          · split at h
            · split at h
              · cases h; simp
              · simp at h
              · exact ih h
            · exact ih h

theorem evalCall_keeps (p : Program) (f : Frame) (cid : Nat) (used : Bool) (n : Nat) :
    Keeps f (evalCall p f cid used n) := by
  unfold evalCall
  repeat' split
  all_goals simp [Keeps]

macro "keeps_auto" : tactic => `(tactic| (
  try (repeat' split)
  all_goals (
    try simp only [Keeps]
    try simp [Frame.pushE, Frame.pushV] at *)))

theorem dispatch_keeps (p : Program) (f : Frame) (st : St) (e : Expr) : Keeps f (dispatch p f st e) := by
  cases e
  case call id u recv args =>
    unfold dispatch
    cases st <;> simp
    case E => exact evalCall_keeps p f _ _ _
    all_goals simp [Keeps]
  case list id u items =>
    unfold dispatch
    cases st <;> simp
    case E => keeps_auto
    all_goals simp [Keeps]
  case tuple id u items =>
    unfold dispatch
    cases st <;> simp
    case E => keeps_auto
    all_goals simp [Keeps]
  case int => unfold dispatch; simp [Keeps]
  case str => unfold dispatch; simp [Keeps]
  case var => unfold dispatch; keeps_auto
  case lambda => unfold dispatch; simp [Keeps]
  case paren => unfold dispatch; simp [Keeps]
  case invalid => unfold dispatch; simp [Keeps]
  case unsup => unfold dispatch; simp [Keeps]
  case binop => unfold dispatch; cases st <;> simp <;> keeps_auto
  case letE => unfold dispatch; cases st <;> simp <;> keeps_auto
  case assign => unfold dispatch; cases st <;> simp <;> keeps_auto
  case update => unfold dispatch; cases st <;> simp <;> keeps_auto
  case ret => unfold dispatch; cases st <;> simp <;> keeps_auto
  case brk => unfold dispatch; keeps_auto
  case cont => unfold dispatch; keeps_auto
  case ifE id u c thn els =>
    unfold dispatch
    cases st <;> simp
    case N => simp [Keeps]
    case E =>
      split
      · simp [Keeps]
      · rename_i f' hp
        simp [Keeps, popBlock_uses _ _ hp]
    all_goals keeps_auto
  case whileE id u c body =>
    unfold dispatch
    cases st <;> simp
    case N => simp [Keeps]
    case E => simp [Keeps]
    case PN => simp [Keeps]
    case PD =>
      split
      · simp [Keeps]
      · rename_i f' hp
        simp [Keeps, popBlock_uses _ _ hp]
    case PW => keeps_auto
  case forE id u d it body =>
    unfold dispatch
    cases st <;> simp
    case N => simp [Keeps]
    case PN => simp [Keeps]
    case E =>
      split
      · simp [Keeps]
      · rename_i f' hp
        simp [Keeps, popBlock_uses _ _ hp]
    case PD =>
      split
      · simp [Keeps]
      · rename_i f' hp
        simp [Keeps, popBlock_uses _ _ hp]
    case PW => keeps_auto
  case matchE id u scrut cases =>
    unfold dispatch
    cases st <;> simp
    case N => simp [Keeps]
    case E =>
      split
      · simp [Keeps]
      · rename_i f' hp
        simp [Keeps, popBlock_uses _ _ hp]
    all_goals (
      repeat' split
      all_goals (
        try simp only [Keeps]
        try (rename_i hm; have := matchCases_uses _ _ _ _ _ _ _ _ hm; simpa [Frame.pushE] using this)))

theorem evalAssert_keeps (p : Program) (f : Frame) (used : Bool) (inner : Expr) :
    Keeps f (evalAssert p f used inner) := by
  unfold evalAssert
  repeat' split
  all_goals simp [Keeps]

theorem dispatchX_keeps (p : Program) (f : Frame) (st : St) (e : Expr) : Keeps f (dispatchX p f st e) := by
  unfold dispatchX
  split
  · unfold assertDisp
    cases st <;> simp
    case E => exact evalAssert_keeps p f _ _
    all_goals keeps_auto
  · exact dispatch_keeps p f st e

-- ---------------------------------------------------------------- bookkeeping of one step

def stateOf : StepResult → Option State
  | .cont s => some s
  | .done s _ => some s
  | .error s _ => some s
  | .panic _ => none
  | .unsupported _ => none

def mapState (g : State → State) : StepResult → StepResult
  | .cont s => .cont (g s)
  | .done s v => .done (g s) v
  | .error s e => .error (g s) e
  | .panic site => .panic site
  | .unsupported w => .unsupported w

theorem stopCheck_state (a : State) (f : Frame) (st : St) (e : Expr) :
    stateOf (stopCheck a f st e) = some a := by
  unfold stopCheck
  repeat' split
  all_goals simp [stateOf]

theorem stopCheck_none (a : State) (f : Frame) (st : St) (e : Expr) (h : a.stopAt = none) :
    stopCheck a f st e = .cont a := by
  unfold stopCheck; simp [h]

@[simp] theorem restore_uses (f : Frame) (st : St) (e : Expr) (vals : List Value) :
    (restore f st e vals).callerUses = f.callerUses := by
  unfold restore
  have : ∀ (vals : List Value) (f : Frame), (vals.foldl (fun f v => f.pushV v) f).callerUses = f.callerUses := by
    intro vals; induction vals with
    | nil => intro f; rfl
    | cons v vs ih => intro f; simp only [List.foldl]; rw [ih]; rfl
  simp [this]

/-- The fields of the environment a step never changes; the interrupt flag stays clear in a
session nobody interrupts. -/
structure Static (s s' : State) : Prop where
  prog : s'.prog = s.prog
  tl : s'.tickLimit = s.tickLimit
  sl : s'.stackLimit = s.stackLimit
  ia : s'.interruptAt = s.interruptAt
  sa : s'.stopAt = s.stopAt
  quiet : s.interrupted = false → s.interruptAt = [] → s'.interrupted = false

theorem Static.refl (s : State) : Static s s := ⟨rfl, rfl, rfl, rfl, rfl, fun h _ => h⟩

theorem Static.trans {a b c : State} (h1 : Static a b) (h2 : Static b c) : Static a c :=
  ⟨h2.prog.trans h1.prog, h2.tl.trans h1.tl, h2.sl.trans h1.sl, h2.ia.trans h1.ia, h2.sa.trans h1.sa,
   fun hi ha => h2.quiet (h1.quiet hi ha) (h1.ia.trans ha)⟩

theorem stepWith_static (d : Program → Frame → St → Expr → Disp) (s s' : State)
    (h : stateOf (stepWith d s) = some s') : Static s s' := by
  unfold stepWith at h
  match hf : s.frames with
  | [] => simp [hf, stateOf] at h
  | f :: callers =>
    simp only [hf] at h
    match he : f.exprs with
    | [] =>
      simp only [he] at h
      cases callers with
      | nil =>
        cases hv : f.values <;> simp [hv, stateOf] at h
        subst h; constructor <;> simp [setTop, hf]
        intro hi _; exact hi
      | cons caller rest =>
        cases hv : f.values with
        | nil => simp [hv, stateOf] at h
        | cons v vs =>
          simp only [hv] at h
          split at h <;> simp [stateOf] at h <;> subst h <;> constructor <;> simp <;>
            (intro hi _; exact hi)
    | (st, e) :: rest =>
      simp only [he] at h
      split at h
      · simp [stateOf] at h; subst h; constructor <;> simp [setTop]
      · split at h
        · rename_i hni _
          simp [stateOf] at h; subst h; constructor <;> simp [setTop]
          intro hi ha; simp [hi, ha]
        · split at h
          · rename_i hni _ _
            simp [stateOf] at h; subst h; constructor <;> simp [setTop]
            intro hi ha; simp [hi, ha]
          · rename_i hni _ _
            split at h <;> (try rw [stopCheck_state] at h) <;> simp [stateOf] at h <;> subst h <;>
              constructor <;> simp [setTop] <;> (intro hi ha; simp [hi, ha])

-- ---------------------------------------------------------------- the bottom frame during a test

/-- The call stack is `… ++ [tf, f0]`: the toplevel frame `f0` is at the bottom, the frame
directly above it (the test's frame) hands its value to its caller. -/
def Above (f0 : Frame) (frames : List Frame) : Prop :=
  ∃ fs tf, frames = fs ++ [tf, f0] ∧ tf.callerUses = true

theorem above_replace_top {f0 f f' : Frame} {callers : List Frame} (h : Above f0 (f :: callers))
    (hu : f'.callerUses = f.callerUses) : Above f0 (f' :: callers) := by
  obtain ⟨fs, tf, hfr, htf⟩ := h
  cases fs with
  | nil =>
    simp at hfr; obtain ⟨h1, h2⟩ := hfr; subst h1; subst h2
    exact ⟨[], f', rfl, by rw [hu]; exact htf⟩
  | cons x xs =>
    simp at hfr; obtain ⟨h1, h2⟩ := hfr; subst h1; subst h2
    exact ⟨f' :: xs, tf, rfl, htf⟩

theorem above_push {f0 : Frame} {frames : List Frame} (c : Frame) (h : Above f0 frames) :
    Above f0 (c :: frames) := by
  obtain ⟨fs, tf, hfr, htf⟩ := h
  exact ⟨c :: fs, tf, by simp [hfr], htf⟩

theorem above_ne_nil {f0 : Frame} (h : Above f0 []) : False := by
  obtain ⟨fs, tf, hfr, _⟩ := h
  cases fs <;> simp at hfr

theorem above_single {f0 f : Frame} (h : Above f0 [f]) : False := by
  obtain ⟨fs, tf, hfr, _⟩ := h
  cases fs with
  | nil => simp at hfr
  | cons x xs => cases xs <;> simp at hfr

/-- Returning from the top frame. -/
theorem above_pop {f0 f caller : Frame} {rest : List Frame} (h : Above f0 (f :: caller :: rest)) :
    (rest = [] ∧ caller = f0 ∧ f.callerUses = true) ∨
    (rest ≠ [] ∧ ∀ c' : Frame, c'.callerUses = caller.callerUses → Above f0 (c' :: rest)) := by
  obtain ⟨fs, tf, hfr, htf⟩ := h
  cases fs with
  | nil =>
    simp at hfr; obtain ⟨h1, h2, h3⟩ := hfr; subst h1; subst h2; subst h3
    exact Or.inl ⟨rfl, rfl, htf⟩
  | cons x xs =>
    simp at hfr; obtain ⟨h1, h2⟩ := hfr; subst h1
    cases xs with
    | nil =>
      simp at h2; obtain ⟨h2, h3⟩ := h2; subst h2; subst h3
      exact Or.inr ⟨by simp, fun c' hc => ⟨[], c', rfl, by rw [hc]; exact htf⟩⟩
    | cons y ys =>
      simp at h2; obtain ⟨h2, h3⟩ := h2; subst h2; subst h3
      exact Or.inr ⟨by simp, fun c' hc => ⟨c' :: ys, tf, rfl, htf⟩⟩

def AboveRes (f0 : Frame) : StepResult → Prop
  | .cont s' => Above f0 s'.frames ∨ ∃ v, s'.frames = [f0.pushV v]
  | .done _ _ => False
  | .error s' _ => Above f0 s'.frames
  | .panic _ => True
  | .unsupported _ => True

/-- While a test runs (at least two frames), a step keeps the toplevel frame at the bottom
untouched; the only way down is the return of the test frame, which hands its value to the
toplevel frame. `eval` cannot finish or stop here. -/
theorem stepWith_above (d : Program → Frame → St → Expr → Disp)
    (hd : ∀ p f st e, Keeps f (d p f st e)) (f0 : Frame) (s : State)
    (h : Above f0 s.frames) (hs : s.stopAt = none) : AboveRes f0 (stepWith d s) := by
  unfold stepWith
  match hf : s.frames with
  | [] => rw [hf] at h; exact (above_ne_nil h).elim
  | f :: callers =>
    rw [hf] at h
    simp only []
    match he : f.exprs with
    | [] =>
      simp only []
      cases callers with
      | nil => exact (above_single h).elim
      | cons caller rest =>
        cases hv : f.values with
        | nil => simp [AboveRes]
        | cons v vs =>
          have hstop : (f.callerId.isSome && s.stopAt == f.callerId) = false := by
            rw [hs]; cases f.callerId <;> simp
          simp only [hstop, Bool.false_eq_true, if_false]
          rcases above_pop h with ⟨hr, hc, hu⟩ | ⟨hr, hall⟩
          · subst hr; subst hc
            simp only [AboveRes, hu, if_true]
            exact Or.inr ⟨v, rfl⟩
          · simp only [AboveRes]
            refine Or.inl (hall _ ?_)
            split <;> rfl
    | (st, e) :: restE =>
      simp only []
      split
      · simp only [AboveRes, setTop, hf]
        exact above_replace_top h (by simp)
      · split
        · simp only [AboveRes, setTop, hf]
          exact above_replace_top h (by simp)
        · split
          · simp only [AboveRes, setTop, hf]
            exact above_replace_top h (by simp)
          · have hk := hd s.prog { f with exprs := restE } st e
            split
            · rename_i f' hdd
              rw [hdd] at hk
              rw [stopCheck_none _ _ _ _ (by simp [setTop, hf, hs])]
              simp only [AboveRes, setTop, hf]
              exact Or.inl (above_replace_top h hk)
            · rename_i f' o hdd
              rw [hdd] at hk
              rw [stopCheck_none _ _ _ _ (by simp [setTop, hf, hs])]
              simp only [AboveRes, setTop, hf]
              exact Or.inl (above_replace_top h hk)
            · rename_i f' callee hdd
              rw [hdd] at hk
              simp only [AboveRes]
              exact Or.inl (above_push callee (above_replace_top h hk))
            · rename_i f' st' vals er hdd
              rw [hdd] at hk
              simp only [AboveRes, setTop, hf]
              exact above_replace_top h (by simp; exact hk)
            · simp [AboveRes]
            · simp [AboveRes]

/-- After the test frame has returned, `eval` pops the value it handed down and returns:
the toplevel frame is exactly what it was. -/
theorem stepWith_landed (d : Program → Frame → St → Expr → Disp) (f0 : Frame) (s : State) (v : Value)
    (h : s.frames = [f0.pushV v]) (he : f0.exprs = []) :
    stepWith d s = .done { s with frames := [f0] } v := by
  cases f0 with
  | mk exprs values blocks nb cu kind cid =>
    simp at he; subst he
    simp [stepWith, h, Frame.pushV, setTop]

-- ---------------------------------------------------------------- ticks and output are not read

/-- Forget the tick counter and the output written so far. -/
def norm (s : State) : State := { s with ticks := 0, out := "" }

theorem stopCheck_norm (a b : State) (f : Frame) (st : St) (e : Expr) (h : norm a = norm b) :
    mapState norm (stopCheck a f st e) = mapState norm (stopCheck b f st e) := by
  have hsa : a.stopAt = b.stopAt := by have := congrArg State.stopAt h; simpa [norm] using this
  unfold stopCheck
  rw [hsa]
  repeat' split
  all_goals simp [mapState, h]

/-- Without a tick limit and without scheduled interrupts a step does not depend on the tick
counter or on the output written so far. -/
theorem stepWith_norm (d : Program → Frame → St → Expr → Disp) (s : State)
    (hl : s.tickLimit = none) (hi : s.interruptAt = []) :
    mapState norm (stepWith d s) = mapState norm (stepWith d (norm s)) := by
  match hf : s.frames with
  | [] => simp [stepWith, hf, norm, mapState]
  | f :: callers =>
    match he : f.exprs with
    | [] =>
      unfold stepWith
      simp only [norm, hf, he]
      cases callers with
      | nil => cases hv : f.values <;> simp [mapState, norm, setTop, hf]
      | cons caller rest =>
        cases hv : f.values with
        | nil => simp [mapState, norm]
        | cons v vs =>
          by_cases hc : (f.callerId.isSome && s.stopAt == f.callerId) = true <;>
            simp [hc, mapState, norm]
    | (st, e) :: rest =>
      unfold stepWith
      simp only [norm, hf, he, hl, hi, limitReached]
      simp only [List.contains_nil, Bool.or_false]
      cases s.interrupted
      · simp only [Bool.false_eq_true, if_false]
        cases limitExceeded s.stackLimit (f :: callers).length
        · simp only [Bool.false_eq_true, if_false]
          cases d s.prog { f with exprs := rest } st e <;>
            first
            | (apply stopCheck_norm; simp [norm, setTop, hf])
            | simp [mapState, norm, setTop, hf]
        · simp [mapState, norm, setTop, hf]
      · simp [mapState, norm, setTop, hf]

-- ---------------------------------------------------------------- one test

def mapRun (g : State → State) : RunResult → RunResult
  | .done s v => .done (g s) v
  | .error s e => .error (g s) e
  | .panic site => .panic site
  | .unsupported w => .unsupported w
  | .outOfFuel s => .outOfFuel (g s)

theorem runWith_norm (d : Program → Frame → St → Expr → Disp) : ∀ (n : Nat) (s : State),
    s.tickLimit = none → s.interruptAt = [] →
    mapRun norm (runWith d n s) = mapRun norm (runWith d n (norm s))
  | 0, s, _, _ => by simp [runWith, mapRun, norm]
  | n + 1, s, hl, hi => by
    have hstep := stepWith_norm d s hl hi
    unfold runWith
    cases h1 : stepWith d s <;> cases h2 : stepWith d (norm s) <;>
      simp [h1, h2, mapState] at hstep
    · -- cont / cont
      rename_i s1 s2
      have st1 := stepWith_static d s s1 (by simp [h1, stateOf])
      have st2 := stepWith_static d (norm s) s2 (by simp [h2, stateOf])
      have ih1 := runWith_norm d n s1 (st1.tl.trans hl) (st1.ia.trans hi)
      have ih2 := runWith_norm d n s2 (st2.tl.trans (by simpa [norm] using hl)) (st2.ia.trans (by simpa [norm] using hi))
      show mapRun norm (runWith d n s1) = mapRun norm (runWith d n s2)
      rw [ih1, ih2, hstep]
    all_goals simp [mapRun, hstep]

def Mid (f0 : Frame) (s : State) : Prop := Above f0 s.frames ∨ ∃ v, s.frames = [f0.pushV v]

/-- What `eval` leaves behind when it was started on a test frame above the idle toplevel
frame `f0`: on success exactly `[f0]`; on an error a stack that still has `f0` at the bottom. -/
theorem runWith_test (d : Program → Frame → St → Expr → Disp)
    (hd : ∀ p f st e, Keeps f (d p f st e)) (f0 : Frame) (he : f0.exprs = []) :
    ∀ (n : Nat) (s : State), Mid f0 s → s.stopAt = none →
    match runWith d n s with
    | .done s' _ => s'.frames = [f0] ∧ Static s s'
    | .error s' _ => Above f0 s'.frames ∧ Static s s'
    | _ => True
  | 0, s, _, _ => by simp [runWith]
  | n + 1, s, hm, hs => by
    unfold runWith
    rcases hm with ha | ⟨v, hv⟩
    · have hres := stepWith_above d hd f0 s ha hs
      cases h1 : stepWith d s with
      | cont s1 =>
        rw [h1] at hres
        have st1 := stepWith_static d s s1 (by simp [h1, stateOf])
        have ih := runWith_test d hd f0 he n s1 hres (st1.sa.trans hs)
        simp only []
        cases h2 : runWith d n s1 with
        | done s' v' => rw [h2] at ih; exact ⟨ih.1, st1.trans ih.2⟩
        | error s' e' => rw [h2] at ih; exact ⟨ih.1, st1.trans ih.2⟩
        | panic _ => trivial
        | unsupported _ => trivial
        | outOfFuel _ => trivial
      | done s1 v1 => rw [h1] at hres; exact hres.elim
      | error s1 e1 =>
        rw [h1] at hres
        exact ⟨hres, stepWith_static d s s1 (by simp [h1, stateOf])⟩
      | panic _ => trivial
      | unsupported _ => trivial
    · have h1 := stepWith_landed d f0 s v hv he
      rw [h1]
      exact ⟨rfl, stepWith_static d s _ (by simp [h1, stateOf])⟩

/-- The runner-visible environment between two tests. -/
structure Base (f0 : Frame) (s : State) : Prop where
  frames : s.frames = [f0]
  idle : f0.exprs = []
  vals : keepBottom f0.values = f0.values
  blocks : keepBottom f0.blocks = f0.blocks
  stop : s.stopAt = none
  flag : s.interrupted = false
  sched : s.interruptAt = []
  limit : s.tickLimit = none

theorem getLast_above {f0 : Frame} {frames : List Frame} (h : Above f0 frames) : frames.getLast? = some f0 := by
  obtain ⟨fs, tf, hfr, _⟩ := h
  subst hfr
  simp [List.getLast?_append]

theorem norm_eq_of {s s' : State} (hf : s'.frames = s.frames) (hst : Static s s')
    (hi : s.interrupted = false) (ha : s.interruptAt = []) : norm s' = norm s := by
  have := hst.quiet hi ha
  cases s; cases s'
  simp [norm] at *
  exact ⟨hst.prog, hf, by simp_all, hst.tl, hst.sl, hst.ia, hst.sa⟩

def verdictOfRun : RunResult → Option Verdict
  | .done _ _ => some .pass
  | .error _ e => some (classifyErr e)
  | _ => none

theorem verdictOfRun_mapRun (g : State → State) (r : RunResult) : verdictOfRun (mapRun g r) = verdictOfRun r := by
  cases r <;> rfl

/-- The verdict of test `t` run on its own in environment `b`. -/
def verdictOf (d : Program → Frame → St → Expr → Disp) (fuel : Nat) (b : State) (t : TestDef) : Option Verdict :=
  verdictOfRun (evalWith d fuel (pushTestFrame b t))

theorem evalWith_push (d : Program → Frame → St → Expr → Disp) (fuel : Nat) (s : State) (t : TestDef)
    (f0 : Frame) (h : s.frames = [f0]) :
    evalWith d fuel (pushTestFrame s t) = runWith d fuel (pushTestFrame s t) := by
  simp [evalWith, pushTestFrame, h]

theorem verdictOf_norm (d : Program → Frame → St → Expr → Disp) (fuel : Nat) (s : State) (t : TestDef)
    (f0 : Frame) (hb : Base f0 s) :
    verdictOfRun (evalWith d fuel (pushTestFrame s t)) = verdictOf d fuel (norm s) t := by
  unfold verdictOf
  rw [evalWith_push d fuel s t f0 hb.frames, evalWith_push d fuel (norm s) t f0 (by simp [norm, hb.frames])]
  have := runWith_norm d fuel (pushTestFrame s t) (by simp [pushTestFrame, hb.limit]) (by simp [pushTestFrame, hb.sched])
  have h2 : norm (pushTestFrame s t) = pushTestFrame (norm s) t := rfl
  rw [h2] at this
  rw [← verdictOfRun_mapRun norm, this, verdictOfRun_mapRun]

def outcomeVerdicts : Outcome → Option (List (String × Verdict))
  | .finished vs _ => some vs
  | _ => none

/-- After a test that ended with a verdict, `pop_to_toplevel` gives back the environment the
test was started in, up to the tick counter and the output. -/
theorem after_test (d : Program → Frame → St → Expr → Disp)
    (hd : ∀ p f st e, Keeps f (d p f st e)) (fuel : Nat) (s : State) (t : TestDef) (f0 : Frame)
    (hb : Base f0 s) :
    match evalWith d fuel (pushTestFrame s t) with
    | .done s' _ => Base f0 (popToToplevel s') ∧ norm (popToToplevel s') = norm s
    | .error s' _ => Base f0 (popToToplevel s') ∧ norm (popToToplevel s') = norm s
    | _ => True := by
  rw [evalWith_push d fuel s t f0 hb.frames]
  have hmid : Mid f0 (pushTestFrame s t) := Or.inl ⟨[], testFrame t, by simp [pushTestFrame, hb.frames], rfl⟩
  have hrun := runWith_test d hd f0 hb.idle fuel (pushTestFrame s t) hmid (by simp [pushTestFrame, hb.stop])
  have key : ∀ s' : State, s'.frames.getLast? = some f0 → Static (pushTestFrame s t) s' →
      Base f0 (popToToplevel s') ∧ norm (popToToplevel s') = norm s := by
    intro s' hl hst
    have hp : popToToplevel s' = { s' with frames := [f0] } := by
      unfold popToToplevel
      rw [hl]
      simp only []
      rw [hb.vals, hb.blocks]
      have hidle : ({ f0 with exprs := [] } : Frame) = f0 := by
        have hi := hb.idle
        cases f0 with
        | mk exprs values blocks nb cu kind cid => simp at hi; subst hi; rfl
      exact congrArg (fun f => ({ s' with frames := [f] } : State)) hidle
    have hst' : Static s { s' with frames := [f0] } :=
      ⟨hst.prog, hst.tl, hst.sl, hst.ia, hst.sa, fun hi ha => hst.quiet hi ha⟩
    rw [hp]
    refine ⟨⟨rfl, hb.idle, hb.vals, hb.blocks, ?_, ?_, ?_, ?_⟩, ?_⟩
    · exact hst'.sa.trans hb.stop
    · exact hst'.quiet hb.flag hb.sched
    · exact hst'.ia.trans hb.sched
    · exact hst'.tl.trans hb.limit
    · exact norm_eq_of (by simp [hb.frames]) hst' hb.flag hb.sched
  cases h : runWith d fuel (pushTestFrame s t) with
  | done s' v => rw [h] at hrun; exact key s' (by rw [hrun.1]; rfl) hrun.2
  | error s' e => rw [h] at hrun; exact key s' (getLast_above hrun.1) hrun.2
  | panic _ => trivial
  | unsupported _ => trivial
  | outOfFuel _ => trivial

theorem base_norm {f0 : Frame} {s : State} (hb : Base f0 s) : Base f0 (norm s) :=
  ⟨by simp [norm, hb.frames], hb.idle, hb.vals, hb.blocks, by simp [norm, hb.stop], by simp [norm, hb.flag],
   by simp [norm, hb.sched], by simp [norm, hb.limit]⟩

/-- **The runner is a map.** In an environment without a tick limit, if every listed test on
its own ends with a verdict (no Rust panic, inside the fragment, enough fuel, not
interrupted), then running the list yields, for each test, exactly the verdict it gets on
its own in the initial environment — whatever ran before it. -/
theorem runTestsWith_map (d : Program → Frame → St → Expr → Disp)
    (hd : ∀ p f st e, Keeps f (d p f st e)) (fuel : Nat) (f0 : Frame) :
    ∀ (ts : List TestDef) (s : State), Base f0 s →
    (∀ t ∈ ts, ∃ v, verdictOf d fuel (norm s) t = some v ∧ v ≠ .interrupted) →
    ∃ s', runTestsWith d fuel s ts =
        .finished (ts.map fun t => (t.name, (verdictOf d fuel (norm s) t).getD .pass)) s' ∧
      Base f0 s' ∧ norm s' = norm s
  | [], s, hb, _ => ⟨s, rfl, hb, rfl⟩
  | t :: ts, s, hb, hall => by
    obtain ⟨v, hv, hni⟩ := hall t (by simp)
    have hvn := verdictOf_norm d fuel s t f0 hb
    have haft := after_test d hd fuel s t f0 hb
    unfold runTestsWith
    cases hr : evalWith d fuel (pushTestFrame s t) with
    | done s' v' =>
      rw [hr] at haft hvn
      obtain ⟨hb', hn'⟩ := haft
      obtain ⟨s'', hrun, hb'', hn''⟩ := runTestsWith_map d hd fuel f0 ts (popToToplevel s') hb'
        (by intro u hu; rw [hn']; exact hall u (by simp [hu]))
      refine ⟨s'', ?_, hb'', hn''.trans hn'⟩
      simp only [hrun, Outcome.cons, List.map, hn']
      rw [← hvn]; rfl
    | error s' e =>
      rw [hr] at haft hvn
      obtain ⟨hb', hn'⟩ := haft
      obtain ⟨s'', hrun, hb'', hn''⟩ := runTestsWith_map d hd fuel f0 ts (popToToplevel s') hb'
        (by intro u hu; rw [hn']; exact hall u (by simp [hu]))
      have hce : classifyErr e = v := by
        have : some (classifyErr e) = some v := by rw [← hv, ← hvn]; rfl
        exact Option.some.inj this
      refine ⟨s'', ?_, hb'', hn''.trans hn'⟩
      rw [hn'] at hrun
      simp only [List.map, hv, Option.getD_some, hce]
      cases v <;> simp_all [Outcome.cons]
    | panic site => rw [hr] at hvn; rw [← hvn] at hv; simp [verdictOfRun] at hv
    | unsupported w => rw [hr] at hvn; rw [← hvn] at hv; simp [verdictOfRun] at hv
    | outOfFuel s' => rw [hr] at hvn; rw [← hvn] at hv; simp [verdictOfRun] at hv

theorem base_baseState (p : Program) (sl : Option Nat) : Base (initFrame []) (baseState p none sl) :=
  ⟨rfl, rfl, rfl, rfl, rfl, rfl, rfl, rfl⟩

end TestRunner
