import GardenVerif.Generated.Tables
/-!
# M12 — sandbox gating in the built-in dispatch

Transcribed from `eval_built_in_call` / `eval_built_in_method_call` (src/eval.rs): the only
places where evaluating Garden code reaches `std::fs`, `std::process`, stdin … are the arms of
these two `match kind { … }` blocks. An arm that is gated starts with

    if env.enforce_sandbox {
        … saved_values …
        return Err((RestoreValues(saved_values), EvalError::ForbiddenInSandbox(receiver_pos.clone())));
    }

*before* `check_arity` and before any argument is looked at. The per-arm facts (`guardFirst`,
`effects`) are not hand-copied: they are `Tables.builtinArms`, regenerated from the Rust source
by tools/extract_tables.py on every run.

The model is deliberately parametric in what an arm body does with its arguments (`Body`): the
gate never inspects them, which is why the theorems hold for all arguments.
-/

namespace Sandbox
open Tables

/-- Argument values, as far as gating is concerned. -/
inductive Val where
  | int (i : Int)
  | str (s : String)
  | path (p : String)
  | list (xs : List Val)
  | other (tag : String)
  deriving Repr

/-- What one built-in call did. -/
inductive Outcome where
  /-- `Err((RestoreValues(…), EvalError::ForbiddenInSandbox(pos)))`: the evaluation ends with
  "Tried to execute unsafe code in sandboxed mode" -/
  | forbidden
  /-- the arm body executed (it may still have raised an ordinary exception, e.g. an arity or
  type error); `effects` are the OS-touching calls it made -/
  | ran (effects : List String)
  deriving Repr, DecidableEq

def Outcome.effects : Outcome → List String
  | .forbidden => []
  | .ran es => es

/-- Behaviour of the arm bodies: which OS-touching calls an arm makes on given arguments. -/
abbrev Body := BuiltinArm → List Val → List String

/-- An arm can only make calls that occur in its source text (or in the helpers it calls):
this is what the translator's `effects` column means. -/
def Body.sound (b : Body) : Prop := ∀ arm args e, e ∈ b arm args → e ∈ arm.effects

/-- The worst sound body: every OS-touching call that occurs in the arm is made. -/
def Body.all : Body := fun arm _ => arm.effects

theorem Body.all_sound : Body.all.sound := fun _ _ _ h => h

/-- One built-in call. In sandboxed mode an arm whose first statement is the guard returns
`ForbiddenInSandbox` without looking at `args`; every other arm runs its body. A guard that is
present but *not* first gives no protection in the model (the statements before it run). -/
def runArm (body : Body) (sandboxed : Bool) (arm : BuiltinArm) (args : List Val) : Outcome :=
  if sandboxed && arm.guardFirst then .forbidden else .ran (body arm args)

/-- A call reaching the dispatch: `BuiltInFunctionKind::kind` / `BuiltInMethodKind::kind`. -/
structure Call where
  isMethod : Bool
  kind : String
  args : List Val
  deriving Repr

def lookup (arms : List BuiltinArm) (isMethod : Bool) (kind : String) : Option BuiltinArm :=
  arms.find? (fun a => a.isMethod == isMethod && a.name == kind)

/-- How a run ended. -/
inductive End where
  | completed
  | forbiddenAt (i : Nat)
  /-- cannot happen in the Rust (the `match` is exhaustive; the translator checks that every enum
  variant has an arm); kept so that the model is total -/
  | noSuchKind (i : Nat)
  deriving Repr, DecidableEq

/-- The effects of a whole evaluation, seen as the sequence of built-in calls it makes. Whatever
the surrounding program does (toplevel, functions, tests, closures, prelude functions written in
Garden), its only access to the OS is this sequence; `ForbiddenInSandbox` is not catchable by
Garden code, so the first one ends the evaluation. -/
def runCalls (arms : List BuiltinArm) (body : Body) (sandboxed : Bool) :
    List Call → Nat → List String × End
  | [], _ => ([], .completed)
  | c :: rest, i =>
    match lookup arms c.isMethod c.kind with
    | none => ([], .noSuchKind i)
    | some arm =>
      match runArm body sandboxed arm c.args with
      | .forbidden => ([], .forbiddenAt i)
      | .ran es =>
        let r := runCalls arms body sandboxed rest (i + 1)
        (es ++ r.1, r.2)

/-- Does this call resolve to an arm that contains OS-touching calls? -/
def Call.effectful (arms : List BuiltinArm) (c : Call) : Bool :=
  match lookup arms c.isMethod c.kind with
  | some arm => !arm.effects.isEmpty
  | none => false

def Call.known (arms : List BuiltinArm) (c : Call) : Bool :=
  (lookup arms c.isMethod c.kind).isSome

end Sandbox
