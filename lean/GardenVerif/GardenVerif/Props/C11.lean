import GardenVerif.Lemmas.IncrementalGlue
/-!
C11 — Incremental session input equals running it as one program.

Session model: `Resume.request` / `Resume.incremental` / `Resume.batch` (Model/Resume.lean) on top of
the machine model M4 (`Machine.step`, unchanged).

FULL STATEMENT (not proved in this form):

  theorem incremental_eq_batch (is : List Input) (hfresh : FreshNames is)
      (h : incremental fuel sessionInit is = .value s (some v)) (hne : NoEscape is) :
      ∃ fuel' s', batch fuel' sessionInit is = .value s' (some v)

PROVED: `incremental_eq_batch_partial` — for every history `is` (any number of inputs, any sizes) with
* `histOK`: the FUNCTION names defined by the inputs are fresh (not yet resolvable when they are loaded:
  no function, enum variant or built-in of that name — decidable), and ENUM definitions occur in the first
  input only;
* `canon b fuel sessionInit is = some (C, some v)`: the REFERENCE RUN of the history answers `v`
  (decidable by running it). The reference run is the incremental run with frame 0's value stack
  emptied at the start of every request and these tests on the way (`Incr.evalC`): no request errs, crashes
  or runs out of fuel; every request comes to rest at the toplevel frame with nothing pending (this
  excludes the eval-up-to special case that leaves a trailing `for` loop pending — known finding
  C11/trailing-for-not-run — and a stop inside a call); in every request but the last no step drops
  the rest of frame 0's pending entries (toplevel `return`, loop-less `break`/`continue`: in the
  concatenated input those would drop the LATER inputs, by design) or touches the node `b` the
  concatenated run stops at (`b` = id of the last expression of the last input; ids are unique in the
  real session);
BOTH the real incremental session AND the concatenated request answer `v`:
  `(∃ s, incremental fuel sessionInit is = .value s (some v)) ∧ (∃ fuel' s', batch fuel' sessionInit is = .value s' (some v))`.
Moreover the two final states hold the same definitions and the same toplevel variables
(`incremental_eq_batch_state_partial`).

The proof is a simulation in both directions from the reference run:
* (b) sequencing — **frame parametricity** of the evaluator (`Incr.dispatch_fx`, all 21 node kinds:
  a dispatch that does not crash on a frame does the same on the frame with further pending entries and
  further values BELOW its own), lifted to `step` (`Incr.step_diff`: other stop id + later inputs'
  entries below; `Incr.step_same`: only values below) and to whole requests (`Incr.seg_diff`, `seg_same`);
* definition monotonicity (`C11.eval_mono_partial` …, Lemmas/IncrementalMono.lean) for the definitions the
  concatenated request loads up front;
* (c) gluing by induction over the history (`Incr.incremental_of_canon`, `Incr.batch_of_canon`).

WHAT IS MISSING for the full statement (hence `_partial`):
1. (a) definition monotonicity for added ENUM definitions (`C11.Ext.enums` demands equal enums: `display`
   looks variant names up in the program, so one needs the invariant that every enum value on the stacks
   has a defined type). Here: enums only in the first input.
2. the hypothesis is on the reference run instead of on `incremental` itself. The two differ only in what
   lies BELOW the values a request pushes on frame 0's value stack; for programs with value-stack
   discipline (C02: `MachineDiscipline.okProg`, i.e. no `break`/`continue` in operand position) the
   reference run is error-free iff the incremental run is — this link to C02's invariant is not made.
Both are exercised by the harness (model vs real sessions, incremental and batch replies).
-/
set_option linter.unusedVariables false
set_option linter.unusedSimpArgs false

namespace C11
open Machine Resume Incr

/-- Decidable well-formedness of a history w.r.t. definitions: when an input has been loaded, none of
the function names of the LATER inputs is resolvable yet (function, enum variant, built-in), and the
later inputs define no enums. -/
def histOK (p : Program) : List Input → Bool
  | [] => true
  | i :: rest =>
    freshFuns (loadP p i) (rest.flatMap (·.funs)) && rest.all (fun j => j.enums.isEmpty) &&
      histOK (loadP p i) rest

theorem flatMap_enums_nil : ∀ (rest : List Input), rest.all (fun j => j.enums.isEmpty) = true →
    rest.flatMap (·.enums) = []
  | [], _ => rfl
  | j :: js, h => by
    simp only [List.all_cons, Bool.and_eq_true] at h
    have h1 : j.enums = [] := by simpa using h.1
    simp [List.flatMap_cons, h1, flatMap_enums_nil js h.2]

theorem extAll_of_histOK : ∀ (is : List Input) (p : Program), histOK p is = true →
    ExtAll (loadP p (concatInputs is)) p is
  | [], p, _ => trivial
  | i :: rest, p, h => by
    simp only [histOK, Bool.and_eq_true] at h
    obtain ⟨⟨hf, he⟩, hr⟩ := h
    have hen := flatMap_enums_nil rest he
    refine ⟨?_, ?_⟩
    · have hx := ext_of_fresh (loadP p i) (rest.flatMap (·.funs)) hf
      have : loadP p (concatInputs (i :: rest)) =
          { loadP p i with funs := (loadP p i).funs ++ rest.flatMap (·.funs) } := by
        simp [loadP, concatInputs, List.flatMap_cons, List.append_assoc, hen]
      rw [this]; exact hx
    · rw [loadP_concat_cons]; exact extAll_of_histOK rest (loadP p i) hr

/-- the last expression of the concatenation is the last expression of the last input -/
theorem concat_last (b fuel : Nat) : ∀ (is : List Input) (C C' : State) (v : Value),
    canon b fuel C is = some (C', some v) → LastIs b is →
    ∃ last, (is.flatMap (·.exprs)).getLast? = some last ∧ last.id = b
  | [], C, C', v, h, _ => by simp [canon] at h
  | [i], C, C', v, h, hl => by
    simp only [canon, requestC] at h
    cases hlast : i.exprs.getLast? with
    | none => simp [hlast] at h
    | some last => exact ⟨last, by simpa using hlast, hl last hlast⟩
  | i :: i2 :: rest, C, C', v, h, hl => by
    simp only [canon] at h
    cases hq : requestC (some b) fuel C i with
    | none => simp [hq] at h
    | some r =>
      obtain ⟨C1, ov1⟩ := r
      simp only [hq] at h
      obtain ⟨last, h1, h2⟩ := concat_last b fuel (i2 :: rest) C1 C' v h hl
      refine ⟨last, ?_, h2⟩
      rw [List.flatMap_cons, List.getLast?_append, h1]; rfl

theorem sessionInit_Rest : Rest sessionInit := ⟨_, rfl, rfl⟩

theorem LF_sessionInit : LF [] [] sessionInit.stopAt sessionInit = sessionInit := by
  simp [LF, sessionInit, init, mapLast, fx, initFrame]

/-- **Incremental = batch, with the final states** (`_partial`: see the header for the two missing
links). For every history whose reference run answers `v`: the incremental session answers `v` to its
last request; the concatenation of all inputs submitted as ONE request answers `v`; and the two sessions
end with the same definitions (`prog`) and the same variables (binding blocks of every frame — there is
one frame, the toplevel). -/
theorem incremental_eq_batch_state_partial (is : List Input) (b fuel : Nat) (C : State) (v : Value)
    (hdefs : histOK sessionInit.prog is = true) (hb : LastIs b is)
    (hc : canon b fuel sessionInit is = some (C, some v)) :
    ∃ (si sb : State) (fuel' : Nat),
      incremental fuel sessionInit is = .value si (some v) ∧
      batch fuel' sessionInit is = .value sb (some v) ∧
      sb.prog = si.prog ∧ sb.frames.map (·.blocks) = si.frames.map (·.blocks) ∧
      sb.frames.length = 1 := by
  obtain ⟨RI', hi⟩ := incremental_of_canon b fuel is sessionInit C (some v) [] sessionInit_Rest hc
  rw [LF_sessionInit] at hi
  have hx := extAll_of_histOK is sessionInit.prog hdefs
  obtain ⟨last, hlast, hid⟩ := concat_last b fuel is sessionInit C v hc hb
  obtain ⟨m, RB', hm⟩ := batch_of_canon b fuel (loadP sessionInit.prog (concatInputs is)) is sessionInit C v
    [vUnit] sessionInit_Rest hc hx hb
  have hbatch : batch m sessionInit is =
      .value { LF [] RB' (some b) (withProg (loadP sessionInit.prog (concatInputs is)) C) with stopAt := none }
        (some v) := by
    unfold batch request
    have hl : (concatInputs is).exprs.getLast? = some last := hlast
    simp only [hl]
    have hst : ({ setExprs (load sessionInit (concatInputs is)) (concatInputs is).exprs with
          stopAt := some last.id } : State) =
        LFend (allExprs is) [vUnit] (some b) (withProg (loadP sessionInit.prog (concatInputs is)) sessionInit) := by
      simp [setExprs, load, LFend, withProg, sessionInit, init, initFrame, allExprs, concatInputs, loadP, hid]
    rw [hst, hm]
    simp [load, sessionInit, init]
  have hrest : Rest C := by
    cases is with
    | nil => simp [canon] at hc
    | cons i rest =>
      -- every request leaves the reference run at rest
      have : ∀ (l : List Input) (C0 C1 : State) (ov : Option Value), Rest C0 →
          canon b fuel C0 l = some (C1, ov) → Rest C1 := by
        intro l
        induction l with
        | nil => intro C0 C1 ov hr h; simp [canon] at h; obtain ⟨h1, _⟩ := h; subst h1; exact hr
        | cons j js ih =>
          intro C0 C1 ov hr h
          cases js with
          | nil => simp only [canon] at h; exact requestC_Rest _ _ _ _ _ _ hr h
          | cons j2 js2 =>
            simp only [canon] at h
            cases hq : requestC (some b) fuel C0 j with
            | none => simp [hq] at h
            | some r =>
              obtain ⟨C2, ov2⟩ := r
              simp only [hq] at h
              exact ih C2 C1 ov (requestC_Rest _ _ _ _ _ _ hr hq) h
      exact this _ _ _ _ sessionInit_Rest hc
  obtain ⟨fc, hfc, _⟩ := hrest
  refine ⟨_, _, m, hi, hbatch, ?_, ?_, ?_⟩
  · simp [LF, withProg, canon_prog b fuel is sessionInit C (some v) hc]
  · simp [LF, withProg, mapLast_blocks]
  · simp [LF, withProg, hfc, mapLast]

/-- **Incremental = batch** (`_partial`: see the header for the two missing links). For every
history whose reference run answers `v`: the incremental session answers `v` to its last request, and
the concatenation of all inputs submitted as ONE request answers `v`. -/
theorem incremental_eq_batch_partial (is : List Input) (b fuel : Nat) (C : State) (v : Value)
    (hdefs : histOK sessionInit.prog is = true) (hb : LastIs b is)
    (hc : canon b fuel sessionInit is = some (C, some v)) :
    (∃ s, incremental fuel sessionInit is = .value s (some v)) ∧
    (∃ fuel' s', batch fuel' sessionInit is = .value s' (some v)) := by
  obtain ⟨si, sb, fuel', h1, h2, _⟩ := incremental_eq_batch_state_partial is b fuel C v hdefs hb hc
  exact ⟨⟨si, h1⟩, ⟨fuel', sb, h2⟩⟩

-- ------------------------------------------------------------------ non-vacuity

/-- `fun f(x) { x + 1 }  let a = 1` -/
def in1 : Input :=
  { funs := [⟨"f", ["x"], [.binop 1 true .add (.var 2 true "x") (.int 3 true 1)]⟩], enums := [],
    exprs := [.letE 4 true (.sym "a") (.int 5 true 1)] }
/-- `f(a)` — ends with the return of a user function (the incremental request does not push the value,
the concatenated run does) -/
def in2 : Input := { funs := [], enums := [], exprs := [.call 6 true (.var 7 true "f") [.var 8 true "a"]] }
/-- `fun g() { 7 }  a + g()` — a definition that the concatenated request loads before input 1 runs -/
def in3 : Input :=
  { funs := [⟨"g", [], [.int 9 true 7]⟩], enums := [],
    exprs := [.binop 10 true .add (.var 11 true "a") (.call 12 true (.var 13 true "g") [])] }

def answersInt (k : Int64) : Option (State × Option Value) → Bool
  | some (_, some (.int n)) => n == k
  | _ => false

theorem answersInt_spec (k : Int64) (r : Option (State × Option Value)) (h : answersInt k r = true) :
    ∃ C, r = some (C, some (.int k)) := by
  match r, h with
  | some (C, some (.int n)), h =>
    have : n = k := by simpa [answersInt] using h
    exact ⟨C, by rw [this]⟩

/-- The hypotheses are satisfiable by a history that exercises a definition loaded early, a request
ending in a call, and a toplevel variable used across requests: both sessions answer 8. -/
example :
    (∃ s, incremental 60 sessionInit [in1, in2, in3] = .value s (some (.int 8))) ∧
    (∃ fuel' s', batch fuel' sessionInit [in1, in2, in3] = .value s' (some (.int 8))) := by
  obtain ⟨C, hc⟩ := answersInt_spec 8 (canon 10 60 sessionInit [in1, in2, in3]) (by decide)
  exact incremental_eq_batch_partial [in1, in2, in3] 10 60 C (.int 8) (by decide)
    (by intro last hl; simp [in3] at hl; subst hl; rfl) hc

end C11
