import GardenVerif.Lemmas.RefSem
/-! Alpha-renaming with closures (C19): the runs of `p` and `renProg c p` are related by a value
relation `VRel` (closure values carry code and a captured environment, which differ by the renaming),
not equal. This file: the relations and the simulation `SoundC` by induction on the fuel, for the
FULL reference semantics (any `cl`). -/
set_option linter.unusedVariables false
set_option linter.unusedSimpArgs false

namespace Validators
open Machine (Expr Case Dest BinOp Program FunDef EnumDef)
open RefSem

mutual
/-- Values of the original run / of the renamed run. Closures are related when the captured
environments are pointwise related (`CER`, which also says whether `c.x`, looked up in the captured
environment, resolves to the renamed binder) and parameters / body are the renaming of the original
ones under that resolution state. -/
inductive VRel (c : RenCfg) : Val → Val → Prop
  | int (v : Int64) : VRel c (.int v) (.int v)
  | str (s : String) : VRel c (.str s) (.str s)
  | list {a b : List Val} : VRelL c a b → VRel c (.list a) (.list b)
  | tuple {a b : List Val} : VRelL c a b → VRel c (.tuple a) (.tuple b)
  | enumN (t : String) (i : Nat) : VRel c (.enumV t i none) (.enumV t i none)
  | enumS (t : String) (i : Nat) {v v' : Val} : VRel c v v' →
      VRel c (.enumV t i (some v)) (.enumV t i (some v'))
  | enumC (t : String) (i : Nat) : VRel c (.enumC t i) (.enumC t i)
  | fn (n : String) : VRel c (.fn n) (.fn n)
  | builtin (n : String) : VRel c (.builtin n) (.builtin n)
  | closure {act : Bool} {cenv cenv' : List (String × Val)} (hit : Option Nat) (ps : List String)
      (body : List Expr) :
      CER c act cenv cenv' → freshNames c.y ps = true → freshSeq c.y body = true →
      VRel c (.closure cenv ps body)
        (.closure cenv' (renNames c hit act 0 ps).1 (renSeq c (renNames c hit act 0 ps).2 body))
inductive VRelL (c : RenCfg) : List Val → List Val → Prop
  | nil : VRelL c [] []
  | cons {v v' : Val} {l l' : List Val} : VRel c v v' → VRelL c l l' → VRelL c (v :: l) (v' :: l')
/-- Captured environments (name ↦ value), like `ER` for name ↦ location. -/
inductive CER (c : RenCfg) : Bool → List (String × Val) → List (String × Val) → Prop
  | nil : CER c false [] []
  | other {a : Bool} {e e' : List (String × Val)} (k : String) {v v' : Val} :
      k ≠ c.x → k ≠ c.y → VRel c v v' → CER c a e e' → CER c a ((k, v) :: e) ((k, v') :: e')
  | hit {a : Bool} {e e' : List (String × Val)} {v v' : Val} : VRel c v v' → CER c a e e' →
      CER c true ((c.x, v) :: e) ((c.y, v') :: e')
  | shadow {a : Bool} {e e' : List (String × Val)} {v v' : Val} : VRel c v v' → CER c a e e' →
      CER c false ((c.x, v) :: e) ((c.x, v') :: e')
end

theorem VRelL.length {c : RenCfg} : ∀ {l l' : List Val}, VRelL c l l' → l'.length = l.length
  | _, _, .nil => rfl
  | _, _, .cons h t => by simp [VRelL.length t]

mutual
theorem VRel.display {c : RenCfg} (en : List EnumDef) :
    ∀ {v v' : Val}, VRel c v v' → display en v' = display en v
  | _, _, .int _ => rfl
  | _, _, .str _ => rfl
  | _, _, .list h => by simp only [RefSem.display, VRelL.display en h]
  | _, _, .tuple h => by simp only [RefSem.display, VRelL.display en h, VRelL.length h]
  | _, _, .enumN _ _ => rfl
  | _, _, .enumS _ _ h => by simp only [RefSem.display, VRel.display en h]
  | _, _, .enumC _ _ => rfl
  | _, _, .fn _ => rfl
  | _, _, .builtin _ => rfl
  | _, _, .closure _ _ _ _ _ _ => rfl
theorem VRelL.display {c : RenCfg} (en : List EnumDef) :
    ∀ {l l' : List Val}, VRelL c l l' → displayList en l' = displayList en l
  | _, _, .nil => rfl
  | _, _, .cons h t => by simp only [RefSem.displayList, VRel.display en h, VRelL.display en t]
end

mutual
theorem VRel.valueEq {c : RenCfg} :
    ∀ {a a' b b' : Val}, VRel c a a' → VRel c b b' → valueEq a' b' = valueEq a b
  | _, _, _, _, .int _, hb => by cases hb <;> simp only [RefSem.valueEq]
  | _, _, _, _, .str _, hb => by cases hb <;> simp only [RefSem.valueEq]
  | _, _, _, _, .list h, hb => by
      cases hb <;> simp only [RefSem.valueEq]
      rename_i h2; exact VRelL.valueEq h h2
  | _, _, _, _, .tuple h, hb => by
      cases hb <;> simp only [RefSem.valueEq]
      rename_i h2; exact VRelL.valueEq h h2
  | _, _, _, _, .enumN _ _, hb => by cases hb <;> simp only [RefSem.valueEq]
  | _, _, _, _, .enumS _ _ h, hb => by
      cases hb <;> simp only [RefSem.valueEq]
      rename_i h2; rw [VRel.valueEq h h2]
  | _, _, _, _, .enumC _ _, hb => by cases hb <;> simp only [RefSem.valueEq]
  | _, _, _, _, .fn _, hb => by cases hb <;> simp only [RefSem.valueEq]
  | _, _, _, _, .builtin _, hb => by cases hb <;> simp only [RefSem.valueEq]
  | _, _, _, _, .closure _ _ _ _ _ _, hb => by cases hb <;> simp only [RefSem.valueEq]
theorem VRelL.valueEq {c : RenCfg} :
    ∀ {a a' b b' : List Val}, VRelL c a a' → VRelL c b b' → valueEqList a' b' = valueEqList a b
  | _, _, _, _, .nil, hb => by cases hb <;> simp only [RefSem.valueEqList]
  | _, _, _, _, .cons h t, hb => by
      cases hb <;> simp only [RefSem.valueEqList]
      rename_i h2 t2; rw [VRel.valueEq h h2, VRelL.valueEq t t2]
end

theorem VRel.asBool {c : RenCfg} {v v' : Val} (h : VRel c v v') : v'.asBool = v.asBool := by
  cases h <;> first | rfl | simp [Val.asBool]

theorem VRel.unit (c : RenCfg) : VRel c vUnit vUnit := VRel.enumN _ _
theorem VRel.bool (c : RenCfg) (b : Bool) : VRel c (vBool b) (vBool b) := VRel.enumN _ _

theorem VRelL.getElem? {c : RenCfg} : ∀ {l l' : List Val}, VRelL c l l' → ∀ i : Nat,
    (l[i]? = none ∧ l'[i]? = none) ∨ ∃ v v', l[i]? = some v ∧ l'[i]? = some v' ∧ VRel c v v'
  | _, _, .nil, i => by simp
  | _, _, .cons h t, 0 => Or.inr ⟨_, _, rfl, rfl, h⟩
  | _, _, .cons h t, i + 1 => by simpa using VRelL.getElem? t i

theorem VRelL.set {c : RenCfg} : ∀ {l l' : List Val}, VRelL c l l' → ∀ (i : Nat) {v v' : Val}, VRel c v v' →
    VRelL c (l.set i v) (l'.set i v')
  | _, _, .nil, i, _, _, hv => by simpa using VRelL.nil
  | _, _, .cons h t, 0, _, _, hv => by simpa using VRelL.cons hv t
  | _, _, .cons h t, i + 1, _, _, hv => by simpa using VRelL.cons h (VRelL.set t i hv)

theorem VRelL.append {c : RenCfg} : ∀ {l l' m m' : List Val}, VRelL c l l' → VRelL c m m' →
    VRelL c (l ++ m) (l' ++ m')
  | _, _, _, _, .nil, hm => by simpa using hm
  | _, _, _, _, .cons h t, hm => by simpa using VRelL.cons h (VRelL.append t hm)

/-- States: stores pointwise related, same printed output. -/
def SRel (c : RenCfg) (s s' : RefSem.St) : Prop := VRelL c s.store s'.store ∧ s'.out = s.out

inductive RRel (c : RenCfg) : Res → Res → Prop
  | val {v v' : Val} : VRel c v v' → RRel c (.val v) (.val v')
  | ret {v v' : Val} : VRel c v v' → RRel c (.ret v) (.ret v')
  | brk : RRel c .brk .brk
  | cont : RRel c .cont .cont
  | err (k : EK) : RRel c (.err k) (.err k)
  | unsup (w : String) : RRel c (.unsup w) (.unsup w)
  | timeout : RRel c .timeout .timeout

/-- Related outcomes of an evaluation. -/
def PR (c : RenCfg) (a a' : Res × RefSem.St) : Prop := RRel c a.1 a'.1 ∧ SRel c a.2 a'.2

theorem RRel.outcome {c : RenCfg} {r r' : Res} (h : RRel c r r') : r'.outcome = r.outcome := by
  cases h <;> rfl

theorem bind_rel {c : RenCfg} {a a' : Res × RefSem.St} {k k' : Val → RefSem.St → Res × RefSem.St}
    (h : PR c a a')
    (hk : ∀ v v' s1 s1', VRel c v v' → SRel c s1 s1' → PR c (k v s1) (k' v' s1')) :
    PR c (RefSem.bind a k) (RefSem.bind a' k') := by
  obtain ⟨r, s⟩ := a
  obtain ⟨r', s'⟩ := a'
  obtain ⟨hr, hs⟩ := h
  cases hr <;> simp only [RefSem.bind]
  · exact hk _ _ _ _ ‹_› hs
  all_goals exact ⟨by constructor <;> assumption, hs⟩

/-- Closure-free values are related to themselves. -/
def simpleV : Val → Bool
  | .int _ | .str _ | .enumV _ _ none | .enumC _ _ | .fn _ | .builtin _ => true
  | _ => false

theorem VRel.refl_simple (c : RenCfg) {v : Val} (h : simpleV v = true) : VRel c v v := by
  cases v <;> simp [simpleV] at h <;> try constructor
  rename_i t i o; cases o <;> simp [simpleV] at h; constructor

theorem findVariant_simple {enums : List EnumDef} {n : String} {v : Val}
    (h : findVariant enums n = some v) : simpleV v = true := by
  unfold findVariant at h
  obtain ⟨e, _, he⟩ := List.exists_of_findSome?_eq_some h
  split at he
  · cases he
  · split at he <;> first | (cases he; rfl) | cases he

theorem nsLookup_simple {fns : List String} {enums : List EnumDef} {n : String} {v : Val}
    (h : nsLookup fns enums n = some v) : simpleV v = true := by
  unfold nsLookup at h
  split at h
  · injection h with h; subst h; rfl
  · split at h
    · rename_i hv; injection h with h; subst h; exact findVariant_simple hv
    · split at h
      · injection h with h; subst h; rfl
      · cases h

/-- Option-valued lookups: both fail or both give related values. -/
def ORel (c : RenCfg) (a a' : Option Val) : Prop :=
  (a = none ∧ a' = none) ∨ ∃ v v', a = some v ∧ a' = some v' ∧ VRel c v v'

theorem lookupVarR {c : RenCfg} {p p' : Program} (hc : RCtx c p p') {act env env'}
    (h : ER c act env env') {st st' : List Val} (hs : VRelL c st st') (n : String) (hn : n ≠ c.y) :
    ORel c (RefSem.lookupVar p env st n) (RefSem.lookupVar p' env' st' (rn c act n)) := by
  have := h.lookup_rn hc.hxy n hn
  unfold RefSem.lookupVar
  rw [this.1, hc.funNames, hc.enums]
  cases hl : lookup env n with
  | some l => exact hs.getElem? l
  | none =>
    have hnu : isUse c act n = false := by
      cases hu : isUse c act n with
      | false => rfl
      | true => have := this.2 hu; simp [hl] at this
    have e : rn c act n = n := by
      unfold isUse at hnu; simp [rn, hnu]
    rw [e]
    show ORel c (nsLookup (RefSem.funNames p) p.enums n) (nsLookup (RefSem.funNames p) p.enums n)
    cases hv : nsLookup (RefSem.funNames p) p.enums n with
    | none => exact Or.inl ⟨rfl, rfl⟩
    | some v => exact Or.inr ⟨v, v, rfl, rfl, VRel.refl_simple c (nsLookup_simple hv)⟩

theorem RRel.refl_simple (c : RenCfg) {v : Val} (h : simpleV v = true) : RRel c (.val v) (.val v) :=
  .val (VRel.refl_simple c h)

theorem ofSimple_simple (v : Machine.Value) : simpleV (ofSimple v) = true := by
  cases v <;> try rfl
  rename_i t i o; cases o <;> rfl

/-- The arithmetic / comparison arm of `RefSem.binop`. -/
def intOp (o : BinOp) (lv rv : Val) : Res :=
  match lv, rv with
  | .int a, .int b =>
    match Machine.intBinop o a b with
    | .ok v => .val (ofSimple v)
    | .err _ => .err .arith
    | .panic site => .unsup site
  | _, _ => .err .typeError

theorem intOp_rel {c : RenCfg} (o : BinOp) {lv lv' rv rv' : Val} (hl : VRel c lv lv') (hr : VRel c rv rv') :
    RRel c (intOp o lv rv) (intOp o lv' rv') := by
  cases hl <;> cases hr <;> try exact RRel.err _
  rename_i a b
  simp only [intOp]
  generalize Machine.intBinop o a b = r
  cases r
  · exact RRel.refl_simple c (ofSimple_simple _)
  · exact RRel.err _
  · exact RRel.unsup _

theorem binop_rel {c : RenCfg} (op : BinOp) {lv lv' rv rv' : Val} (hl : VRel c lv lv') (hr : VRel c rv rv') :
    RRel c (RefSem.binop op lv rv) (RefSem.binop op lv' rv') := by
  cases op
  case eq => simp only [RefSem.binop, VRel.valueEq hl hr]; exact .val (VRel.bool c _)
  case ne => simp only [RefSem.binop, VRel.valueEq hl hr]; exact .val (VRel.bool c _)
  case and =>
    simp only [RefSem.binop, hl.asBool, hr.asBool]
    cases lv.asBool <;> cases rv.asBool <;> first | exact RRel.err _ | exact .val (VRel.bool c _)
  case or =>
    simp only [RefSem.binop, hl.asBool, hr.asBool]
    cases lv.asBool <;> cases rv.asBool <;> first | exact RRel.err _ | exact .val (VRel.bool c _)
  case concat =>
    simp only [RefSem.binop]
    cases hl <;> cases hr <;> first | exact RRel.err _ | exact .val (VRel.str _)
  case floatOp => exact RRel.unsup _
  case add => exact intOp_rel .add hl hr
  case sub => exact intOp_rel .sub hl hr
  case mul => exact intOp_rel .mul hl hr
  case div => exact intOp_rel .div hl hr
  case mod => exact intOp_rel .mod hl hr
  case pow => exact intOp_rel .pow hl hr
  case bitand => exact intOp_rel .bitand hl hr
  case bitor => exact intOp_rel .bitor hl hr
  case lt => exact intOp_rel .lt hl hr
  case le => exact intOp_rel .le hl hr
  case gt => exact intOp_rel .gt hl hr
  case ge => exact intOp_rel .ge hl hr

theorem funResult_rel {c : RenCfg} {a a' : Res × RefSem.St} (h : PR c a a') : PR c (funResult a) (funResult a') := by
  obtain ⟨r, s⟩ := a
  obtain ⟨r', s'⟩ := a'
  obtain ⟨hr, hs⟩ := h
  cases hr <;> simp only [funResult]
  · exact ⟨.val ‹_›, hs⟩
  · exact ⟨.val ‹_›, hs⟩
  · exact ⟨.err _, hs⟩
  · exact ⟨.err _, hs⟩
  · exact ⟨.err _, hs⟩
  · exact ⟨.unsup _, hs⟩
  · exact ⟨.timeout, hs⟩

/-- Binding (renamed) names to related values in related states. -/
theorem ER.bindNamesR {c : RenCfg} (hx : c.x ≠ "_") (hy : c.y ≠ "_") (hit : Option Nat) :
    ∀ (ns : List String) (vs vs' : List Val) (act : Bool) (i : Nat) (env env' : Env) (s s' : RefSem.St),
      ER c act env env' → freshNames c.y ns = true → VRelL c vs vs' → vs.length = ns.length → SRel c s s' →
      ER c (renNames c hit act i ns).2 (RefSem.bindNames ns vs env s).1
        (RefSem.bindNames (renNames c hit act i ns).1 vs' env' s').1 ∧
      SRel c (RefSem.bindNames ns vs env s).2 (RefSem.bindNames (renNames c hit act i ns).1 vs' env' s').2
  | [], vs, vs', act, i, env, env', s, s', h, _, hv, _, hs => by
      cases hv <;> simp [renNames, RefSem.bindNames, h, hs]
  | n :: ns, _, _, act, i, env, env', s, s', h, hf, .nil, hl, hs => by simp at hl
  | n :: ns, _, _, act, i, env, env', s, s', h, hf, .cons (v := v) (v' := v') (l := vs) (l' := vs') hv hvs, hl, hs => by
      have hl' : vs.length = ns.length := by simpa using hl
      simp only [freshNames, List.all_cons, Bool.and_eq_true, bne_iff_ne, ne_eq] at hf
      obtain ⟨hny, hrest⟩ := hf
      have hrest' : freshNames c.y ns = true := by simpa [freshNames] using hrest
      have hlen : s'.store.length = s.store.length := hs.1.length
      have hs2 : SRel c { s with store := s.store ++ [v] } { s' with store := s'.store ++ [v'] } :=
        ⟨hs.1.append (.cons hv .nil), hs.2⟩
      simp only [renNames, RefSem.bindNames, hlen]
      by_cases hnx : n = c.x
      · subst hnx
        have hne : (c.x == "_") = false := by simpa using hx
        have hne' : (c.y == "_") = false := by simpa using hy
        by_cases hh : (hit == some i) = true
        · simp only [renName, beq_self_eq_true, if_true, hh, hne, hne', Bool.false_eq_true, if_false]
          exact ER.bindNamesR hx hy hit ns vs vs' true (i + 1) _ _ _ _ (ER.hit _ h) hrest' hvs hl' hs2
        · simp only [renName, beq_self_eq_true, if_true, hh, hne, Bool.false_eq_true, if_false]
          exact ER.bindNamesR hx hy hit ns vs vs' false (i + 1) _ _ _ _ (ER.shadow _ h) hrest' hvs hl' hs2
      · have hnx' : (n == c.x) = false := by simpa using hnx
        simp only [renName, hnx', Bool.false_eq_true, if_false]
        by_cases hu : (n == "_") = true
        · simp only [hu, if_true]
          exact ER.bindNamesR hx hy hit ns vs vs' act (i + 1) _ _ _ _ h hrest' hvs hl' hs2
        · simp only [hu, Bool.false_eq_true, if_false]
          exact ER.bindNamesR hx hy hit ns vs vs' act (i + 1) _ _ _ _ (ER.other _ _ hnx hny h) hrest' hvs hl' hs2

/-- Binding a (renamed) destination to related values: same error, or related environments and states. -/
theorem ER.bindDestR {c : RenCfg} (hx : c.x ≠ "_") (hy : c.y ≠ "_") (hit : Option Nat) {act env env'}
    (h : ER c act env env') (dest : Dest) {v v' : Val} (hv : VRel c v v') {s s' : RefSem.St} (hs : SRel c s s')
    (hf : freshDest c.y dest = true) :
    (∃ k, RefSem.bindDest dest v env s = .error k ∧ RefSem.bindDest (renDest c hit act dest).1 v' env' s' = .error k) ∨
    (∃ e1 e1' s1 s1', RefSem.bindDest dest v env s = .ok (e1, s1) ∧
      RefSem.bindDest (renDest c hit act dest).1 v' env' s' = .ok (e1', s1') ∧
      ER c (renDest c hit act dest).2 e1 e1' ∧ SRel c s1 s1') := by
  cases dest with
  | sym n =>
    right
    have hf' : freshNames c.y [n] = true := by simpa [freshDest, freshNames] using hf
    have := ER.bindNamesR hx hy hit [n] [v] [v'] act 0 env env' s s' h hf' (.cons hv .nil) rfl hs
    simp only [renNames] at this
    exact ⟨_, _, _, _, rfl, rfl, this.1, this.2⟩
  | destr ns =>
    simp only [renDest, RefSem.bindDest]
    cases hv with
    | tuple hitems =>
      rename_i items items'
      have hlen := hitems.length
      by_cases hl : items.length = ns.length
      · right
        have hf' : freshNames c.y ns = true := by simpa [freshDest] using hf
        have := ER.bindNamesR hx hy hit ns items items' act 0 env env' s s' h hf' hitems hl hs
        simp only [renNames_fst_length, hl, hlen, bne_self_eq_false, Bool.false_eq_true, if_false]
        exact ⟨_, _, _, _, rfl, rfl, this.1, this.2⟩
      · left
        have : (items.length != ns.length) = true := by simpa using hl
        exact ⟨.tupleSize, by simp [this], by simp [renNames_fst_length, hlen, this]⟩
    | _ => left; exact ⟨_, rfl, rfl⟩

theorem capture_rel {c : RenCfg} {act env env'} (h : ER c act env env') {st st' : List Val}
    (hs : VRelL c st st') : CER c act (capture env st) (capture env' st') := by
  have hval : ∀ l : Nat, VRel c ((st[l]?).getD vUnit) ((st'[l]?).getD vUnit) := by
    intro l
    rcases hs.getElem? l with ⟨h1, h2⟩ | ⟨v, v', h1, h2, hv⟩
    · rw [h1, h2]; exact VRel.unit c
    · rw [h1, h2]; exact hv
  induction h with
  | nil => exact CER.nil
  | other k l h1 h2 _ ih => exact CER.other k h1 h2 (hval l) ih
  | hit l _ ih => exact CER.hit (hval l) ih
  | shadow l _ ih => exact CER.shadow (hval l) ih

theorem bindNames_snoc (ks : List String) (k : String) :
    ∀ (vs : List Val) (v : Val) (env : Env) (s : RefSem.St), vs.length = ks.length →
      RefSem.bindNames (ks ++ [k]) (vs ++ [v]) env s
        = RefSem.bindNames [k] [v] (RefSem.bindNames ks vs env s).1 (RefSem.bindNames ks vs env s).2 := by
  induction ks with
  | nil => intro vs v env s h; cases vs <;> simp_all [RefSem.bindNames]
  | cons k0 ks ih =>
    intro vs v env s h
    cases vs with
    | nil => simp at h
    | cons v0 vs =>
      simp only [List.cons_append, RefSem.bindNames]
      exact ih vs v _ _ (by simpa using h)

/-- Re-allocating a captured environment gives related location environments. -/
theorem CER.rebind {c : RenCfg} (hx : c.x ≠ "_") (hy : c.y ≠ "_") :
    ∀ {act : Bool} {cenv cenv' : List (String × Val)}, CER c act cenv cenv' →
      ∀ (s s' : RefSem.St), SRel c s s' →
      ER c act (RefSem.bindNames (cenv.reverse.map (·.1)) (cenv.reverse.map (·.2)) [] s).1
        (RefSem.bindNames (cenv'.reverse.map (·.1)) (cenv'.reverse.map (·.2)) [] s').1 ∧
      SRel c (RefSem.bindNames (cenv.reverse.map (·.1)) (cenv.reverse.map (·.2)) [] s).2
        (RefSem.bindNames (cenv'.reverse.map (·.1)) (cenv'.reverse.map (·.2)) [] s').2
  | _, _, _, .nil, s, s', hs => by simpa [RefSem.bindNames] using ⟨ER.nil, hs⟩
  | _, _, _, .other (e := e) (e' := e') k (v := v) (v' := v') h1 h2 hv ht, s, s', hs => by
      have ih := CER.rebind hx hy ht s s' hs
      simp only [List.reverse_cons, List.map_append, List.map_cons, List.map_nil]
      rw [bindNames_snoc _ _ _ _ _ _ (by simp), bindNames_snoc _ _ _ _ _ _ (by simp)]
      have hlen := ih.2.1.length
      simp only [RefSem.bindNames, hlen]
      by_cases hu : (k == "_") = true
      · simp only [hu, if_true]
        exact ⟨ih.1, ih.2.1.append (.cons hv .nil), ih.2.2⟩
      · simp only [hu, Bool.false_eq_true, if_false]
        exact ⟨ER.other _ _ h1 h2 ih.1, ih.2.1.append (.cons hv .nil), ih.2.2⟩
  | _, _, _, .hit (e := e) (e' := e') (v := v) (v' := v') hv ht, s, s', hs => by
      have ih := CER.rebind hx hy ht s s' hs
      have hne : (c.x == "_") = false := by simpa using hx
      have hne' : (c.y == "_") = false := by simpa using hy
      simp only [List.reverse_cons, List.map_append, List.map_cons, List.map_nil]
      rw [bindNames_snoc _ _ _ _ _ _ (by simp), bindNames_snoc _ _ _ _ _ _ (by simp)]
      have hlen := ih.2.1.length
      simp only [RefSem.bindNames, hlen, hne, hne', Bool.false_eq_true, if_false]
      exact ⟨ER.hit _ ih.1, ih.2.1.append (.cons hv .nil), ih.2.2⟩
  | _, _, _, .shadow (e := e) (e' := e') (v := v) (v' := v') hv ht, s, s', hs => by
      have ih := CER.rebind hx hy ht s s' hs
      have hne : (c.x == "_") = false := by simpa using hx
      simp only [List.reverse_cons, List.map_append, List.map_cons, List.map_nil]
      rw [bindNames_snoc _ _ _ _ _ _ (by simp), bindNames_snoc _ _ _ _ _ _ (by simp)]
      have hlen := ih.2.1.length
      simp only [RefSem.bindNames, hlen, hne, Bool.false_eq_true, if_false]
      exact ⟨ER.shadow _ ih.1, ih.2.1.append (.cons hv .nil), ih.2.2⟩

theorem applyBuiltin_rel {c : RenCfg} {p p' : Program} (he : p'.enums = p.enums) (name : String)
    {args args' : List Val} (ha : VRelL c args args') {s s' : RefSem.St} (hs : SRel c s s') :
    PR c (applyBuiltin p name args s) (applyBuiltin p' name args' s') := by
  unfold applyBuiltin
  cases ha with
  | nil => exact ⟨.err _, hs⟩
  | cons hv ht =>
    cases ht with
    | cons _ _ => exact ⟨.err _, hs⟩
    | nil =>
      simp only []
      split
      · cases hv <;> first | exact ⟨.err _, hs⟩ | exact ⟨.val (VRel.unit c), hs.1, by simp [hs.2]⟩
      · split
        · cases hv <;> first | exact ⟨.err _, hs⟩ | exact ⟨.val (VRel.unit c), hs.1, by simp [hs.2]⟩
        · split
          · rw [he, hv.display]; exact ⟨.val (.str _), hs⟩
          · split
            · exact ⟨.val hv, hs⟩
            · exact ⟨.unsup _, hs⟩

theorem applyVal_closure (cl : Bool) (p : Program) (n : Nat) (s : RefSem.St) (cenv : List (String × Val))
    (ps : List String) (body : List Expr) (args : List Val) :
    applyVal cl p (n + 1) s (.closure cenv ps body) args =
      if !cl then (.unsup "closure", s)
      else if ps.length != args.length then (.err .arity, s)
      else funResult (evalSeq cl p n
        (RefSem.bindNames ps args (RefSem.bindNames (cenv.reverse.map (·.1)) (cenv.reverse.map (·.2)) [] s).1
          (RefSem.bindNames (cenv.reverse.map (·.1)) (cenv.reverse.map (·.2)) [] s).2).1
        (RefSem.bindNames ps args (RefSem.bindNames (cenv.reverse.map (·.1)) (cenv.reverse.map (·.2)) [] s).1
          (RefSem.bindNames (cenv.reverse.map (·.1)) (cenv.reverse.map (·.2)) [] s).2).2 body) := by
  simp only [applyVal]

theorem applyVal_fn (cl : Bool) (p : Program) (n : Nat) (s : RefSem.St) (name : String) (args : List Val) :
    applyVal cl p (n + 1) s (.fn name) args =
      match p.funs.find? (fun d => d.name == name) with
      | none => (.unsup "function value without definition", s)
      | some d =>
        if d.params.length != args.length then (.err .arity, s)
        else funResult (evalSeq cl p n (RefSem.bindNames d.params args [] s).1
          (RefSem.bindNames d.params args [] s).2 d.body) := by
  simp only [applyVal]; rfl

/-- The simulation at a given amount of fuel, full semantics (`cl` arbitrary). -/
structure SoundC (c : RenCfg) (cl : Bool) (p p' : Program) (n : Nat) : Prop where
  ev : ∀ act env env' s s' e, ER c act env env' → SRel c s s' → fresh c.y e = true →
    PR c (eval cl p n env s e) (eval cl p' n env' s' (ren c act e))
  seq : ∀ act env env' s s' es, ER c act env env' → SRel c s s' → freshSeq c.y es = true →
    PR c (evalSeq cl p n env s es) (evalSeq cl p' n env' s' (renSeq c act es))
  lst : ∀ act env env' s s' es, ER c act env env' → SRel c s s' → freshSeq c.y es = true →
    PR c (evalList cl p n env s es) (evalList cl p' n env' s' (renList c act es))
  whl : ∀ act env env' s s' cnd body, ER c act env env' → SRel c s s' → fresh c.y cnd = true →
    freshSeq c.y body = true →
    PR c (evalWhile cl p n env s cnd body) (evalWhile cl p' n env' s' (ren c act cnd) (renSeq c act body))
  for_ : ∀ act env env' s s' hit dest items items' body, ER c act env env' → SRel c s s' →
    VRelL c items items' → freshDest c.y dest = true → freshSeq c.y body = true →
    PR c (evalFor cl p n env s dest items body)
      (evalFor cl p' n env' s' (renDest c hit act dest).1 items' (renSeq c (renDest c hit act dest).2 body))
  cases : ∀ act env env' s s' ty idx pl pl' id k cs, ER c act env env' → SRel c s s' → ORel c pl pl' →
    freshCases c.y cs = true →
    PR c (evalCases cl p n env s ty idx pl cs) (evalCases cl p' n env' s' ty idx pl' (renCases c act id k cs))
  app : ∀ s s' f f' args args', SRel c s s' → VRel c f f' → VRelL c args args' →
    PR c (applyVal cl p n s f args) (applyVal cl p' n s' f' args')

theorem soundC_zero (c : RenCfg) (cl : Bool) (p p' : Program) : SoundC c cl p p' 0 := by
  refine ⟨?_, ?_, ?_, ?_, ?_, ?_, ?_⟩ <;> intros <;>
    simp only [eval, evalSeq, evalList, evalWhile, evalFor, evalCases, applyVal] <;>
    exact ⟨.timeout, ‹SRel c _ _›⟩

theorem soundC_succ {c : RenCfg} {cl : Bool} {p p' : Program} (hc : RCtx c p p') (n : Nat)
    (ih : SoundC c cl p p' n) : SoundC c cl p p' (n + 1) := by
  refine ⟨?ev, ?seq, ?lst, ?whl, ?for_, ?cases, ?app⟩
  case ev =>
    intro act env env' s s' e hER hs hf
    cases e with
    | int id u v => simp only [ren, eval]; exact ⟨.val (.int _), hs⟩
    | str id u v => simp only [ren, eval]; exact ⟨.val (.str _), hs⟩
    | var id u nm =>
      simp only [fresh, bne_iff_ne, ne_eq] at hf
      simp only [ren, eval]
      rcases lookupVarR hc hER hs.1 nm hf with ⟨h1, h2⟩ | ⟨v, v', h1, h2, hv⟩
      · rw [h1, h2]; exact ⟨.err _, hs⟩
      · rw [h1, h2]; exact ⟨.val hv, hs⟩
    | binop id u op l r =>
      simp only [fresh, Bool.and_eq_true] at hf
      simp only [ren, eval]
      refine bind_rel (ih.ev _ _ _ _ _ _ hER hs hf.1) ?_
      intro lv lv' s1 s1' hlv hs1
      refine bind_rel (ih.ev _ _ _ _ _ _ hER hs1 hf.2) ?_
      intro rv rv' s2 s2' hrv hs2
      exact ⟨binop_rel _ hlv hrv, hs2⟩
    | letE id u d r => simp only [ren, eval]; exact ⟨.unsup _, hs⟩
    | assign id u nm rhs =>
      simp only [fresh, Bool.and_eq_true, bne_iff_ne, ne_eq] at hf
      simp only [ren, eval]
      refine bind_rel (ih.ev _ _ _ _ _ _ hER hs hf.2) ?_
      intro v v' s1 s1' hv hs1
      rw [(hER.lookup_rn hc.hxy nm hf.1).1]
      cases lookup env nm with
      | none => exact ⟨.err _, hs1⟩
      | some l => exact ⟨.val (VRel.unit c), hs1.1.set l hv, hs1.2⟩
    | update id u a nm rhs =>
      simp only [fresh, Bool.and_eq_true, bne_iff_ne, ne_eq] at hf
      simp only [ren, eval]
      refine bind_rel (ih.ev _ _ _ _ _ _ hER hs hf.2) ?_
      intro rv rv' s1 s1' hrv hs1
      rw [(hER.lookup_rn hc.hxy nm hf.1).1]
      cases lookup env nm with
      | none => exact ⟨.err _, hs1⟩
      | some l =>
        simp only []
        rcases hs1.1.getElem? l with ⟨h1, h2⟩ | ⟨w, w', h1, h2, hw⟩
        · rw [h1, h2]; exact ⟨.err _, hs1⟩
        · rw [h1, h2]
          cases hw <;> cases hrv <;>
            first | exact ⟨.err _, hs1⟩ | exact ⟨.val (VRel.unit c), hs1.1.set l (.int _), hs1.2⟩
    | ifE id u cnd thn els =>
      simp only [fresh, Bool.and_eq_true] at hf
      simp only [ren, eval]
      refine bind_rel (ih.ev _ _ _ _ _ _ hER hs hf.1.1) ?_
      intro cv cv' s1 s1' hcv hs1
      rw [hcv.asBool]
      cases cv.asBool with
      | none => exact ⟨.err _, hs1⟩
      | some b =>
        cases els with
        | none =>
          cases b
          · simp only [renOpt, Bool.false_eq_true, if_false]; exact ⟨.val (VRel.unit c), hs1⟩
          · simp only [renOpt, if_true]
            exact bind_rel (ih.seq _ _ _ _ _ _ hER hs1 hf.1.2) (fun _ _ _ _ _ h2 => ⟨.val (VRel.unit c), h2⟩)
        | some eb =>
          have hfe : freshSeq c.y eb = true := by simpa [freshOpt] using hf.2
          cases b
          · simp only [renOpt, Bool.false_eq_true, if_false]; exact ih.seq _ _ _ _ _ _ hER hs1 hfe
          · simp only [renOpt, if_true]; exact ih.seq _ _ _ _ _ _ hER hs1 hf.1.2
    | whileE id u cnd body =>
      simp only [fresh, Bool.and_eq_true] at hf
      simp only [ren, eval]
      exact ih.whl _ _ _ _ _ _ _ hER hs hf.1 hf.2
    | forE id u dest iter body =>
      simp only [fresh, Bool.and_eq_true] at hf
      simp only [ren, eval]
      refine bind_rel (ih.ev _ _ _ _ _ _ hER hs hf.1.2) ?_
      intro iv iv' s1 s1' hiv hs1
      cases hiv <;> first
        | exact ⟨.err _, hs1⟩
        | exact ih.for_ _ _ _ _ _ (hitNode c id 0) _ _ _ _ hER hs1 ‹VRelL c _ _› hf.1.1 hf.2
    | matchE id u scrut cs =>
      simp only [fresh, Bool.and_eq_true] at hf
      simp only [ren, eval]
      refine bind_rel (ih.ev _ _ _ _ _ _ hER hs hf.1) ?_
      intro sv sv' s1 s1' hsv hs1
      cases hsv <;> first
        | exact ⟨.err _, hs1⟩
        | exact ih.cases _ _ _ _ _ _ _ _ _ id 0 _ hER hs1 (Or.inl ⟨rfl, rfl⟩) hf.2
        | exact ih.cases _ _ _ _ _ _ _ _ _ id 0 _ hER hs1 (Or.inr ⟨_, _, rfl, rfl, ‹VRel c _ _›⟩) hf.2
    | ret id u o =>
      cases o with
      | none => simp only [ren, eval]; exact ⟨.ret (VRel.unit c), hs⟩
      | some x =>
        simp only [fresh] at hf
        simp only [ren, eval]
        exact bind_rel (ih.ev _ _ _ _ _ _ hER hs hf) (fun _ _ _ _ hv h2 => ⟨.ret hv, h2⟩)
    | brk id u => simp only [ren, eval]; exact ⟨.brk, hs⟩
    | cont id u => simp only [ren, eval]; exact ⟨.cont, hs⟩
    | list id u items =>
      simp only [fresh] at hf
      simp only [ren, eval]
      exact ih.lst _ _ _ _ _ _ hER hs hf
    | tuple id u items =>
      simp only [fresh] at hf
      simp only [ren, eval]
      refine bind_rel (ih.lst _ _ _ _ _ _ hER hs hf) ?_
      intro vs vs' s1 s1' hvs hs1
      cases hvs <;> first | exact ⟨.unsup _, hs1⟩ | exact ⟨.val (.tuple ‹VRelL c _ _›), hs1⟩
    | call id u recv args =>
      simp only [fresh, Bool.and_eq_true] at hf
      simp only [ren, eval]
      refine bind_rel (ih.ev _ _ _ _ _ _ hER hs hf.1) ?_
      intro fv fv' s1 s1' hfv hs1
      refine bind_rel (ih.lst _ _ _ _ _ _ hER hs1 hf.2) ?_
      intro vs vs' s2 s2' hvs hs2
      cases hvs <;> first | exact ⟨.unsup _, hs2⟩ | exact ih.app _ _ _ _ _ _ hs2 hfv ‹VRelL c _ _›
    | lambda id u ps body =>
      simp only [fresh, Bool.and_eq_true] at hf
      cases cl
      · simp only [ren, eval, Bool.false_eq_true, if_false]; exact ⟨.unsup _, hs⟩
      · simp only [ren, eval, if_true]
        exact ⟨.val (VRel.closure (hitNode c id 0) ps body (capture_rel hER hs.1) hf.1 hf.2), hs⟩
    | paren id u x =>
      simp only [fresh] at hf
      simp only [ren, eval]
      exact ih.ev _ _ _ _ _ _ hER hs hf
    | invalid id u => simp only [ren, eval]; exact ⟨.err _, hs⟩
    | unsup id u w => simp only [ren, eval]; exact ⟨.unsup _, hs⟩
  case seq =>
    intro act env env' s s' es hER hs hf
    cases es with
    | nil => simp only [renSeq, evalSeq]; exact ⟨.val (VRel.unit c), hs⟩
    | cons e rest =>
      simp only [freshSeq, Bool.and_eq_true] at hf
      by_cases hl : isLet e = true
      · obtain ⟨id, u, d, r, rfl⟩ := isLet_iff.mp hl
        simp only [fresh, Bool.and_eq_true] at hf
        simp only [renSeq, ren, actAfter, evalSeq]
        refine bind_rel (ih.ev _ _ _ _ _ _ hER hs hf.1.2) ?_
        intro v v' s1 s1' hv hs1
        rcases hER.bindDestR hc.hx hc.hy (hitNode c id 0) d hv hs1 hf.1.1 with
          ⟨k, h1, h2⟩ | ⟨e1, e1', s2, s2', h1, h2, hER', hs2⟩
        · rw [h1, h2]; exact ⟨.err _, hs1⟩
        · rw [h1, h2]; exact ih.seq _ _ _ _ _ _ hER' hs2 hf.2
      · have hl' : isLet e = false := by simpa using hl
        have hl2 : isLet (ren c act e) = false := by rw [isLet_ren]; exact hl'
        simp only [renSeq, actAfter_nonlet c act hl']
        rw [evalSeq_cons_nonlet _ _ _ _ _ _ hl2, evalSeq_cons_nonlet _ _ _ _ _ _ hl']
        cases rest with
        | nil => simp only [renSeq]; exact ih.ev _ _ _ _ _ _ hER hs hf.1
        | cons e2 rest2 =>
          simp only [renSeq]
          refine bind_rel (ih.ev _ _ _ _ _ _ hER hs hf.1) ?_
          intro _ _ s1 s1' _ hs1
          have := ih.seq act env env' s1 s1' (e2 :: rest2) hER hs1 hf.2
          simpa only [renSeq] using this
  case lst =>
    intro act env env' s s' es hER hs hf
    cases es with
    | nil => simp only [renList, evalList]; exact ⟨.val (.list .nil), hs⟩
    | cons e rest =>
      simp only [freshSeq, Bool.and_eq_true] at hf
      simp only [renList, evalList]
      refine bind_rel (ih.ev _ _ _ _ _ _ hER hs hf.1) ?_
      intro v v' s1 s1' hv hs1
      refine bind_rel (ih.lst _ _ _ _ _ _ hER hs1 hf.2) ?_
      intro vs vs' s2 s2' hvs hs2
      cases hvs <;> first | exact ⟨.unsup _, hs2⟩ | exact ⟨.val (.list (.cons hv ‹VRelL c _ _›)), hs2⟩
  case whl =>
    intro act env env' s s' cnd body hER hs hf1 hf2
    simp only [evalWhile]
    refine bind_rel (ih.ev _ _ _ _ _ _ hER hs hf1) ?_
    intro cv cv' s1 s1' hcv hs1
    rw [hcv.asBool]
    cases cv.asBool with
    | none => exact ⟨.err _, hs1⟩
    | some b =>
      cases b
      · exact ⟨.val (VRel.unit c), hs1⟩
      · have h := ih.seq act env env' s1 s1' body hER hs1 hf2
        simp only []
        generalize evalSeq cl p n env s1 body = a at h ⊢
        generalize evalSeq cl p' n env' s1' (renSeq c act body) = a' at h ⊢
        obtain ⟨r, s2⟩ := a
        obtain ⟨r', s2'⟩ := a'
        obtain ⟨hr, hs2⟩ := h
        cases hr <;> simp only []
        · exact ih.whl _ _ _ _ _ _ _ hER hs2 hf1 hf2
        · exact ⟨.ret ‹_›, hs2⟩
        · exact ⟨.val (VRel.unit c), hs2⟩
        · exact ih.whl _ _ _ _ _ _ _ hER hs2 hf1 hf2
        · exact ⟨.err _, hs2⟩
        · exact ⟨.unsup _, hs2⟩
        · exact ⟨.timeout, hs2⟩
  case for_ =>
    intro act env env' s s' hit dest items items' body hER hs hitems hf1 hf2
    cases hitems with
    | nil => simp only [evalFor]; exact ⟨.val (VRel.unit c), hs⟩
    | cons hv ht =>
      simp only [evalFor]
      rcases hER.bindDestR hc.hx hc.hy hit dest hv hs hf1 with
        ⟨k, h1, h2⟩ | ⟨e1, e1', s2, s2', h1, h2, hER', hs2⟩
      · rw [h1, h2]; exact ⟨.err _, hs⟩
      · rw [h1, h2]
        have h := ih.seq _ e1 e1' s2 s2' body hER' hs2 hf2
        simp only []
        generalize evalSeq cl p n e1 s2 body = a at h ⊢
        generalize evalSeq cl p' n e1' s2' (renSeq c (renDest c hit act dest).2 body) = a' at h ⊢
        obtain ⟨r, s3⟩ := a
        obtain ⟨r', s3'⟩ := a'
        obtain ⟨hr, hs3⟩ := h
        cases hr <;> simp only []
        · exact ih.for_ _ _ _ _ _ hit _ _ _ _ hER hs3 ht hf1 hf2
        · exact ⟨.ret ‹_›, hs3⟩
        · exact ⟨.val (VRel.unit c), hs3⟩
        · exact ih.for_ _ _ _ _ _ hit _ _ _ _ hER hs3 ht hf1 hf2
        · exact ⟨.err _, hs3⟩
        · exact ⟨.unsup _, hs3⟩
        · exact ⟨.timeout, hs3⟩
  case cases =>
    intro act env env' s s' ty idx pl pl' id k cs hER hs hpl hf
    cases cs with
    | nil => simp only [renCases, evalCases]; exact ⟨.err _, hs⟩
    | cons cs0 rest =>
      simp only [freshCases, Bool.and_eq_true] at hf
      have h3 := ih.cases act env env' s s' ty idx pl pl' id (k + 1) rest hER hs hpl hf.2
      obtain ⟨variant, dest, body⟩ := cs0
      cases dest with
      | none =>
        simp only [freshCase] at hf
        simp only [renCases, renCase, evalCases, hc.patKey]
        by_cases hv : (variant == "_") = true
        · simp only [hv, if_true]; exact ih.seq _ _ _ _ _ _ hER hs hf.1
        · simp only [hv, Bool.false_eq_true, if_false]
          cases hpk : patKey p variant with
          | none => exact ⟨.err _, hs⟩
          | some key =>
            obtain ⟨pty, pidx⟩ := key
            simp only []
            by_cases hm : (ty == pty && idx == pidx) = true
            · simp only [hm, if_true]
              rcases hpl with ⟨rfl, rfl⟩ | ⟨v, v', rfl, rfl, hvv⟩
              · exact ih.seq _ _ _ _ _ _ hER hs hf.1
              · exact h3
            · simp only [hm, Bool.false_eq_true, if_false]; exact h3
      | some d =>
        simp only [freshCase, Bool.and_eq_true] at hf
        simp only [renCases, renCase, evalCases, hc.patKey]
        cases hpk : patKey p variant with
        | none => exact ⟨.err _, hs⟩
        | some key =>
          obtain ⟨pty, pidx⟩ := key
          simp only []
          by_cases hm : (ty == pty && idx == pidx) = true
          · simp only [hm, if_true]
            rcases hpl with ⟨rfl, rfl⟩ | ⟨v, v', rfl, rfl, hvv⟩
            · exact h3
            · simp only []
              rcases hER.bindDestR hc.hx hc.hy (hitNode c id k) d hvv hs hf.1.1 with
                ⟨k', h1, h2⟩ | ⟨e1, e1', s2, s2', h1, h2, hER', hs2⟩
              · rw [h1, h2]; exact ⟨.err _, hs⟩
              · rw [h1, h2]; exact ih.seq _ _ _ _ _ _ hER' hs2 hf.1.2
          · simp only [hm, Bool.false_eq_true, if_false]; exact h3
  case app =>
    intro s s' f f' args args' hs hf hargs
    have hlen := hargs.length
    cases hf with
    | closure hit ps body hcer hfp hfb =>
      rw [applyVal_closure, applyVal_closure]
      cases cl
      · simp only [Bool.not_false, if_true]; exact ⟨.unsup _, hs⟩
      · simp only [Bool.not_true, Bool.false_eq_true, if_false, renNames_fst_length, hlen]
        by_cases hl : ps.length = args.length
        · have hl' : (ps.length != args.length) = false := by simpa using hl
          simp only [hl', Bool.false_eq_true, if_false]
          have h0 := CER.rebind hc.hx hc.hy hcer s s' hs
          have h1 := ER.bindNamesR hc.hx hc.hy hit ps args args' _ 0 _ _ _ _ h0.1 hfp hargs hl.symm h0.2
          exact funResult_rel (ih.seq _ _ _ _ _ body h1.1 h1.2 hfb)
        · have hl' : (ps.length != args.length) = true := by simpa using hl
          simp only [hl', if_true]; exact ⟨.err _, hs⟩
    | fn name =>
      rw [applyVal_fn, applyVal_fn]
      simp only [hc.funs, List.find?_map]
      cases hfind : p.funs.find? (fun d => d.name == name) with
      | none =>
        have : List.find? ((fun d => d.name == name) ∘ renFun c) p.funs = none := by
          simpa [Function.comp_def, renFun] using hfind
        simp only [this, Option.map_none]; exact ⟨.unsup _, hs⟩
      | some d =>
        have : List.find? ((fun d => d.name == name) ∘ renFun c) p.funs = some d := by
          simpa [Function.comp_def, renFun] using hfind
        simp only [this, Option.map_some]
        have hmem : d ∈ p.funs := List.mem_of_find?_eq_some hfind
        have hfr := hc.freshFuns d hmem
        simp only [freshFun, Bool.and_eq_true] at hfr
        simp only [renFun, renNames_fst_length, hlen]
        by_cases hl : d.params.length = args.length
        · have hl' : (d.params.length != args.length) = false := by simpa using hl
          simp only [hl', Bool.false_eq_true, if_false]
          have h1 := ER.bindNamesR hc.hx hc.hy (hitFun c d.name) d.params args args' false 0 [] [] s s'
            ER.nil hfr.1 hargs hl.symm hs
          exact funResult_rel (ih.seq _ _ _ _ _ d.body h1.1 h1.2 hfr.2)
        · have hl' : (d.params.length != args.length) = true := by simpa using hl
          simp only [hl', if_true]; exact ⟨.err _, hs⟩
    | builtin name => simp only [applyVal]; exact applyBuiltin_rel hc.enums name hargs hs
    | enumC t i =>
      simp only [applyVal]
      cases hargs with
      | nil => exact ⟨.err _, hs⟩
      | cons hv ht =>
        cases ht with
        | nil => exact ⟨.val (.enumS _ _ hv), hs⟩
        | cons _ _ => exact ⟨.err _, hs⟩
    | int v => simp only [applyVal]; exact ⟨.err _, hs⟩
    | str v => simp only [applyVal]; exact ⟨.err _, hs⟩
    | list h => simp only [applyVal]; exact ⟨.err _, hs⟩
    | tuple h => simp only [applyVal]; exact ⟨.err _, hs⟩
    | enumN t i => simp only [applyVal]; exact ⟨.err _, hs⟩
    | enumS t i h => simp only [applyVal]; exact ⟨.err _, hs⟩

theorem soundC_all {c : RenCfg} {cl : Bool} {p p' : Program} (hc : RCtx c p p') : ∀ n, SoundC c cl p p' n
  | 0 => soundC_zero c cl p p'
  | n + 1 => soundC_succ hc n (soundC_all hc n)

end Validators
