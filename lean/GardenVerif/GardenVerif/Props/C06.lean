import GardenVerif.Model.Machine
/-!
# C06 — Block-local variables never outlive their block

Statements over the machine model M4 (`Machine.step`), compared tick-by-tick (including the
key sets of every binding block) with the real evaluator on every run (harness/c06.py).

The core is the **balance invariant**: in every frame, `#binding blocks = base + #block-owning
pending entries` (`Bal`), where the block-owning continuations are `if`/`match` in state E,
`while`/`for` in state PD (body running) and `for` in state E (terminal block). It holds initially
and is preserved by every step (`dispatch_bal`, `step_bal`, `reach_bal`) — in particular by
`break` and `continue` through any nesting (`evalBreakLoop_spec`, `evalContinueLoop_spec`), which
is exactly what the pinned tree violated (fixed in /repo by two `fix:` commits). `return` drops the
frame's pending entries; the frame is finished and is popped by the next step (`BalW`).
Corollaries `toplevel_scope_restored` / `frame_scope_restored`: between two statements of a frame
only the frame's base blocks exist, so a variable introduced inside a block that control has left
(normally, by break, by continue) is unbound — the same `No such variable` error as after normal
completion. Runs that end in a runtime error stop; they are outside `Reach`.
-/
set_option linter.unusedVariables false
set_option linter.unusedSimpArgs false
namespace C06
open Machine

/-- Does this pending entry own a binding block (its continuation pops one)? -/
def owns : St × Expr → Bool
  | (.E, .ifE ..) => true
  | (.E, .matchE ..) => true
  | (.PD, .whileE ..) => true
  | (.PD, .forE ..) => true
  | (.E, .forE ..) => true
  | (.PN, .forE ..) => true   -- never arises (`unreachable!` in eval_expr); counted so that the equation is total
  | _ => false

def owners : List (St × Expr) → Nat
  | [] => 0
  | x :: xs => (if owns x then 1 else 0) + owners xs

/-- Frame `f` has exactly `base` binding blocks plus one per block-owning pending entry. -/
def Bal (base : Nat) (f : Frame) : Prop := f.blocks.length = base + owners f.exprs

theorem owners_append (a b : List (St × Expr)) : owners (a ++ b) = owners a + owners b := by
  induction a with
  | nil => simp [owners]
  | cons x xs ih => simp [owners, ih]; omega

theorem owners_fresh (body : List Expr) : owners (body.map (fun e => (St.N, e))) = 0 := by
  induction body with
  | nil => simp [owners]
  | cons x xs ih => simp [owners, owns, ih]

theorem addNew_length (bs : List Block) (n : String) (v : Value) : (addNew bs n v).length = bs.length := by
  unfold addNew; split
  · rfl
  · cases bs <;> simp

theorem foldl_addNew_length (kvs : List (String × Value)) (bs : List Block) :
    (kvs.foldl (fun bs kv => addNew bs kv.1 kv.2) bs).length = bs.length := by
  induction kvs generalizing bs with
  | nil => rfl
  | cons x xs ih => simp [List.foldl, ih, addNew_length]

theorem evalBlock_blocks (f : Frame) (u : Bool) (body : List Expr) :
    (evalBlock f u body).blocks.length = f.blocks.length + 1 ∧
    owners (evalBlock f u body).exprs = owners f.exprs := by
  unfold evalBlock
  simp only
  split <;> simp [Frame.pushV, foldl_addNew_length, owners_append, owners_fresh]

/-- The balance equation one dispatch step must re-establish. -/
def BalAfter (base : Nat) : Disp → Prop
  | .ok f' => Bal base f'
  | .okOut f' _ => Bal base f'
  | .newFrame f' c => Bal base f' ∧ owners c.exprs = 0
  | _ => True

theorem pushVIf_bal (f : Frame) (c : Bool) (v : Value) (base : Nat) :
    Bal base (f.pushVIf c v) ↔ Bal base f := by
  unfold Frame.pushVIf Frame.pushV Bal; split <;> simp

theorem Bal_pushE (f : Frame) (st : St) (e : Expr) (base : Nat) :
    Bal base (f.pushE st e) ↔ f.blocks.length = base + (if owns (st, e) then 1 else 0) + owners f.exprs := by
  unfold Frame.pushE Bal; simp [owners]; omega

macro "bal_simp" : tactic => `(tactic| (
  try simp only [BalAfter, pushVIf_bal]
  try simp [Bal, Frame.pushE, Frame.pushV, owners, owns] at *
  try omega))

theorem popBlock_spec (f f' : Frame) (h : popBlock f = some f') :
    f'.blocks.length + 1 = f.blocks.length ∧ f'.exprs = f.exprs := by
  unfold popBlock at h
  split at h <;> simp at h
  subst h; simp_all

theorem popBlocks1_spec (bs bs' : List Block) (h : popBlocks1 bs = some bs') : bs'.length + 1 = bs.length := by
  unfold popBlocks1 at h
  split at h <;> simp at h
  subst h; simp

theorem ownsBlock_eq (st : St) (e : Expr) (hl : e.isLoop = false) : ownsBlock st e = owns (st, e) := by
  cases e <;> cases st <;> simp [ownsBlock, owns, Expr.isLoop] at *

theorem evalBreakLoop_spec : ∀ (exprs : List (St × Expr)) (vals : List Value) (blocks : List Block)
    (exprs' : List (St × Expr)) (vals' : List Value) (blocks' : List Block),
    evalBreakLoop exprs vals blocks = some (exprs', vals', blocks') →
    blocks'.length + owners exprs = blocks.length + owners exprs'
  | [], vals, blocks, exprs', vals', blocks', h => by
      simp [evalBreakLoop] at h; obtain ⟨h1, _, h3⟩ := h; subst h1; subst h3; rfl
  | (st, e) :: rest, vals, blocks, exprs', vals', blocks', h => by
      have ih := evalBreakLoop_spec rest
      cases e
      case whileE id u c body =>
        cases st <;> simp [evalBreakLoop] at h
        case N => have := ih vals blocks exprs' vals' blocks' h; simp_all [owners, owns]
        case PD =>
          obtain ⟨bs, hb, h1, _, h3⟩ := h
          have := popBlocks1_spec _ _ hb
          subst h1; subst h3
          simp [owners, owns]; omega
        all_goals (obtain ⟨h1, _, h3⟩ := h; subst h1; subst h3; simp [owners, owns])
      case forE id u d it body =>
        cases st <;> simp [evalBreakLoop] at h
        case N => have := ih vals blocks exprs' vals' blocks' h; simp_all [owners, owns]
        case PW =>
          cases vals with
          | nil => simp at h
          | cons v vs => simp at h; have := ih vs blocks exprs' vals' blocks' h; simp_all [owners, owns]
        all_goals (
          match vals, h with
          | [], h => simp at h
          | [_], h => simp at h
          | _ :: _ :: vs, h =>
            simp at h
            obtain ⟨h1, _, h3⟩ := h; subst h1; subst h3; simp [owners, owns])
      all_goals (
        simp only [evalBreakLoop] at h
        cases st <;> simp [ownsBlock] at h <;>
        first
        | (have := ih vals blocks exprs' vals' blocks' h; simp_all [owners, owns]; done)
        | (cases hb : popBlocks1 blocks with
           | none => simp [hb] at h
           | some bs =>
             simp [hb] at h
             have := popBlocks1_spec _ _ hb
             have := ih vals bs exprs' vals' blocks' h
             simp [owners, owns]; omega))

theorem evalContinueLoop_spec : ∀ (exprs : List (St × Expr)) (vals : List Value) (blocks : List Block)
    (exprs' : List (St × Expr)) (vals' : List Value) (blocks' : List Block),
    evalContinueLoop exprs vals blocks = some (exprs', vals', blocks') →
    blocks'.length + owners exprs = blocks.length + owners exprs'
  | [], vals, blocks, exprs', vals', blocks', h => by
      simp [evalContinueLoop] at h; obtain ⟨h1, _, h3⟩ := h; subst h1; subst h3; rfl
  | (st, e) :: rest, vals, blocks, exprs', vals', blocks', h => by
      have ih := evalContinueLoop_spec rest
      cases e
      case whileE id u c body =>
        cases st <;> simp [evalContinueLoop, Expr.isLoop] at h
        case N => have := ih vals blocks exprs' vals' blocks' h; simp_all [owners, owns]
        all_goals (obtain ⟨h1, _, h3⟩ := h; subst h1; subst h3; simp [owners, owns])
      case forE id u d it body =>
        cases st <;> simp [evalContinueLoop, Expr.isLoop] at h
        case N => have := ih vals blocks exprs' vals' blocks' h; simp_all [owners, owns]
        case PW =>
          cases vals with
          | nil => simp at h
          | cons v vs => simp at h; have := ih vs blocks exprs' vals' blocks' h; simp_all [owners, owns]
        all_goals (obtain ⟨h1, _, h3⟩ := h; subst h1; subst h3; simp [owners, owns])
      all_goals (
        simp only [evalContinueLoop] at h
        cases st <;> simp [ownsBlock, Expr.isLoop] at h <;>
        first
        | (have := ih vals blocks exprs' vals' blocks' h; simp_all [owners, owns]; done)
        | (cases hb : popBlocks1 blocks with
           | none => simp [hb] at h
           | some bs =>
             simp [hb] at h
             have := popBlocks1_spec _ _ hb
             have := ih vals bs exprs' vals' blocks' h
             simp [owners, owns]; omega))

theorem matchCases_spec (p : Program) (used : Bool) (ty : String) (idx : Nat) (payload : Option Value) :
    ∀ (cases : List Case) (f f' : Frame), matchCases p f used ty idx payload cases = .ok f' →
    f'.blocks.length = f.blocks.length + 1 ∧ owners f'.exprs = owners f.exprs
  | [], f, f', h => by simp [matchCases] at h
  | .mk variant dest body :: rest, f, f', h => by
      have ih := matchCases_spec p used ty idx payload rest f f'
      unfold matchCases at h
      have eb := fun (g : Frame) => evalBlock_blocks g used body
      split at h
      · cases h; exact eb _
      · split at h
        · simp at h
        · split at h
          · simp at h
          · split at h
            · split at h
              · cases h; have := eb { f with nextBlock := ‹Block› }; simpa using this
              · simp at h
              · exact ih h
            · exact ih h

theorem evalCall_bal (p : Program) (f : Frame) (cid : Nat) (used : Bool) (n : Nat) (base : Nat)
    (h : f.blocks.length = base + owners f.exprs) : BalAfter base (evalCall p f cid used n) := by
  unfold evalCall
  repeat' split
  all_goals (first
    | (simp only [BalAfter, pushVIf_bal]; simp [Bal, owners_fresh, h]; done)
    | (simp only [BalAfter]; done)
    | skip)

theorem setExisting_length : ∀ (bs bs' : List Block) (n : String) (v : Value),
    setExisting bs n v = some bs' → bs'.length = bs.length
  | [], bs', n, v, h => by simp [setExisting] at h
  | b :: rest, bs', n, v, h => by
      unfold setExisting at h
      split at h
      · cases h; simp
      · simp at h
        obtain ⟨r, hr, h2⟩ := h
        subst h2
        simp [setExisting_length rest r n v hr]

theorem foldl_addNew_length' (kvs : List (String × Value)) (bs : List Block) :
    (kvs.foldl (fun bs (kv : String × Value) => addNew bs kv.1 kv.2) bs).length = bs.length :=
  foldl_addNew_length kvs bs

/-- `return` in state E: the frame's pending entries are dropped (the frame is finished). -/
def isReturnDone (st : St) (e : Expr) : Bool :=
  st == St.E && (match e with | .ret .. => true | _ => false)

theorem foldl_pushN (items : List Expr) (f : Frame) :
    (items.foldl (fun f x => f.pushE .N x) f).blocks = f.blocks ∧
    owners (items.foldl (fun f x => f.pushE .N x) f).exprs = owners f.exprs := by
  induction items generalizing f with
  | nil => simp
  | cons x xs ih =>
    simp only [List.foldl]
    have := ih (f.pushE .N x)
    simp [Frame.pushE, owners, owns] at this ⊢
    exact this

macro "bal_auto" : tactic => `(tactic| (
  try (repeat' split)
  all_goals (
    try simp only [BalAfter, pushVIf_bal]
    try simp [Bal, Frame.pushE, Frame.pushV, owners, owns] at *
    try omega)))

/-- **Balance is re-established by every dispatch.** `f` is the current frame after the
entry `(st, e)` was popped; before the pop the frame was balanced w.r.t. `base`. -/
theorem dispatch_bal (p : Program) (f : Frame) (st : St) (e : Expr) (base : Nat)
    (h : f.blocks.length = base + owners f.exprs + (if owns (st, e) then 1 else 0))
    (hr : isReturnDone st e = false) :
    BalAfter base (dispatch p f st e) := by
  cases e
  case call id u recv args =>
    unfold dispatch
    cases st <;> simp [owns] at h ⊢
    case E => exact evalCall_bal p f _ _ _ base h
    case N => bal_auto
    all_goals (
      have := foldl_pushN args (f.pushE .E (.call id u recv args))
      simp only [BalAfter, Bal, this.1, this.2]
      simp [Frame.pushE, owners, owns, h])
  case list id u items =>
    unfold dispatch
    cases st <;> simp [owns] at h ⊢
    case E => bal_auto
    all_goals (
      have := foldl_pushN items (f.pushE .E (.list id u items))
      simp only [BalAfter, Bal, this.1, this.2]
      simp [Frame.pushE, owners, owns, h])
  case tuple id u items =>
    unfold dispatch
    cases st <;> simp [owns] at h ⊢
    case E => bal_auto
    all_goals (
      have := foldl_pushN items (f.pushE .E (.tuple id u items))
      simp only [BalAfter, Bal, this.1, this.2]
      simp [Frame.pushE, owners, owns, h])
  case int => unfold dispatch; simp [owns] at h ⊢; bal_auto
  case str => unfold dispatch; simp [owns] at h ⊢; bal_auto
  case var => unfold dispatch; simp [owns] at h ⊢; bal_auto
  case lambda => unfold dispatch; simp [owns] at h ⊢; bal_auto
  case paren => unfold dispatch; simp [owns] at h ⊢; bal_auto
  case invalid => unfold dispatch; simp [BalAfter]
  case unsup => unfold dispatch; simp [BalAfter]
  case binop => unfold dispatch; cases st <;> simp [owns] at h ⊢ <;> bal_auto
  case letE =>
    unfold dispatch; cases st <;> simp [owns] at h ⊢
    all_goals (
      repeat' split
      all_goals (
        try simp only [BalAfter, pushVIf_bal]
        try simp [Bal, Frame.pushE, Frame.pushV, owners, owns, addNew_length, foldl_addNew_length'] at *
        try omega))
  case assign =>
    unfold dispatch; cases st <;> simp [owns] at h ⊢
    all_goals (
      repeat' split
      all_goals (
        try simp only [BalAfter, pushVIf_bal]
        try simp [Bal, Frame.pushE, Frame.pushV, owners, owns] at *
        try (rename_i hs; have := setExisting_length _ _ _ _ hs; omega)
        try omega))
  case update =>
    unfold dispatch; cases st <;> simp [owns] at h ⊢
    all_goals (
      repeat' split
      all_goals (
        try simp only [BalAfter, pushVIf_bal]
        try simp [Bal, Frame.pushE, Frame.pushV, owners, owns] at *
        try (rename_i hs; have := setExisting_length _ _ _ _ hs; omega)
        try omega))
  case ret =>
    unfold dispatch; cases st <;> simp [owns, isReturnDone] at h hr ⊢
    all_goals bal_auto
  case brk =>
    unfold dispatch; simp [owns] at h ⊢
    split
    · simp [BalAfter]
    · rename_i ex vs bs hb
      have := evalBreakLoop_spec _ _ _ _ _ _ hb
      simp only [BalAfter, pushVIf_bal]; simp [Bal]; omega
  case cont =>
    unfold dispatch; simp [owns] at h ⊢
    split
    · simp [BalAfter]
    · rename_i ex vs bs hb
      have := evalContinueLoop_spec _ _ _ _ _ _ hb
      simp [BalAfter, Bal]; omega
  case ifE id u c thn els =>
    unfold dispatch
    cases st <;> simp [owns] at h ⊢
    case N => bal_auto
    case E =>
      split
      · simp [BalAfter]
      · rename_i f' hp
        have := popBlock_spec _ _ hp
        simp only [BalAfter, pushVIf_bal]; simp [Bal, this.2]; omega
    all_goals (
      repeat' split
      all_goals (
        try simp only [BalAfter]
        try (have eb1 := evalBlock_blocks; simp [Bal, Frame.pushE, owners, owns, eb1] at *)
        try omega))
  case whileE id u c body =>
    unfold dispatch
    cases st <;> simp [owns] at h ⊢
    case N => bal_auto
    case E => simp [BalAfter, Bal, h]
    case PN => simp [BalAfter]
    case PD =>
      split
      · simp [BalAfter]
      · rename_i f' hp
        have := popBlock_spec _ _ hp
        simp [BalAfter, Bal, Frame.pushE, owners, owns, this.2]; omega
    case PW =>
      repeat' split
      all_goals (
        try simp only [BalAfter, pushVIf_bal]
        try (have eb1 := evalBlock_blocks; simp [Bal, Frame.pushE, owners, owns, eb1] at *)
        try omega)
  case forE id u d it body =>
    unfold dispatch
    cases st <;> simp [owns] at h ⊢
    case N => bal_auto
    case PN => simp [BalAfter]
    case E =>
      split
      · simp [BalAfter]
      · rename_i f' hp
        have := popBlock_spec _ _ hp
        simp [BalAfter, Bal, this.2]; omega
    case PD =>
      split
      · simp [BalAfter]
      · rename_i f' hp
        have := popBlock_spec _ _ hp
        simp [BalAfter, Bal, Frame.pushE, owners, owns, this.2]; omega
    case PW =>
      repeat' split
      all_goals (
        try simp only [BalAfter, pushVIf_bal]
        try (have eb1 := evalBlock_blocks; simp [Bal, Frame.pushE, Frame.pushV, owners, owns, eb1] at *)
        try omega)
  case matchE id u scrut cases =>
    unfold dispatch
    cases st <;> simp [owns] at h ⊢
    case N => bal_auto
    case E =>
      split
      · simp [BalAfter]
      · rename_i f' hp
        have := popBlock_spec _ _ hp
        simp [BalAfter, Bal, this.2]; omega
    all_goals (
      repeat' split
      all_goals (
        try simp only [BalAfter]
        try (rename_i hm; have := matchCases_spec _ _ _ _ _ _ _ _ hm; simp [Bal, Frame.pushE, owners, owns] at *; omega)))

/-- Weak balance: a frame whose pending entries were all dropped by `return` is finished
(it is popped by the next step) and exempt. -/
def BalW (base : Nat) (f : Frame) : Prop := f.exprs = [] ∨ Bal base f

/-- Every frame of the call stack is balanced w.r.t. its own base (ghost list `bases`). -/
def BalS : List Nat → List Frame → Prop
  | [], [] => True
  | b :: bs, f :: fs => BalW b f ∧ BalS bs fs
  | _, _ => False

theorem stopCheck_cont (a s' : State) (f : Frame) (st : St) (e : Expr)
    (h : stopCheck a f st e = .cont s') : s' = a := by
  unfold stopCheck at h
  repeat' split at h
  all_goals simp at h
  all_goals exact h.symm

theorem dispatch_ret_done (p : Program) (f : Frame) (st : St) (e : Expr)
    (hr : isReturnDone st e = true) : dispatch p f st e = .ok { f with exprs := [] } := by
  cases e <;> cases st <;> simp [isReturnDone] at hr
  unfold dispatch; simp

/-- **One step preserves the balance of every frame**; the ghost bases change only by a
push (call) or a pop (frame return). -/
theorem step_bal (s s' : State) (bases : List Nat) (hb : BalS bases s.frames)
    (h : step s = .cont s') :
    ∃ bases', BalS bases' s'.frames ∧
      (bases' = bases ∨ (∃ b, bases' = b :: bases) ∨ (∃ b, bases = b :: bases' ∧ bases' ≠ [])) := by
  unfold step at h
  match hf : s.frames, bases, hb with
  | [], _, _ => simp [hf] at h
  | f :: callers, [], hb => simp [hf, BalS] at hb
  | f :: callers, base :: bs, hb =>
    simp only [hf] at h
    obtain ⟨hbf, hbc⟩ := hb
    match he : f.exprs with
    | [] =>
      simp only [he] at h
      match callers, bs, hbc with
      | [], _, _ => cases hv : f.values <;> simp [hv] at h
      | caller :: rest, [], hbc => simp [BalS] at hbc
      | caller :: rest, b2 :: bs2, hbc =>
        cases hv : f.values <;> simp [hv] at h
        split at h
        · simp at h
        · simp at h
          subst h
          refine ⟨b2 :: bs2, ?_, Or.inr (Or.inr ⟨base, rfl, by simp⟩)⟩
          obtain ⟨h1, h2⟩ := hbc
          refine ⟨?_, h2⟩
          split <;> simpa [BalW, Bal, Frame.pushV] using h1
    | (st, e) :: rest =>
      simp only [he] at h
      have hbal : Bal base f := by
        rcases hbf with h0 | h0
        · simp [he] at h0
        · exact h0
      have hpre : ({ f with exprs := rest } : Frame).blocks.length =
          base + owners ({ f with exprs := rest } : Frame).exprs + (if owns (st, e) then 1 else 0) := by
        simp [Bal, he, owners] at hbal; simp; omega
      split at h
      · simp at h
      · split at h
        · simp at h
        · split at h
          · simp at h
          · by_cases hr : isReturnDone st e = true
            · rw [dispatch_ret_done _ _ _ _ hr] at h
              simp at h
              have h := stopCheck_cont _ _ _ _ _ h
              subst h
              exact ⟨base :: bs, ⟨Or.inl (by simp [setTop, hf]), by simpa [setTop, hf] using hbc⟩, Or.inl rfl⟩
            · have hd := dispatch_bal s.prog { f with exprs := rest } st e base hpre (by simpa using hr)
              split at h <;> (try (have h := stopCheck_cont _ _ _ _ _ h)) <;> (try simp at h) <;> subst h
              · rename_i f' hdd
                rw [hdd] at hd
                exact ⟨base :: bs, ⟨Or.inr (by simpa [setTop, hf, BalAfter] using hd), by simpa [setTop, hf] using hbc⟩, Or.inl rfl⟩
              · rename_i f' o hdd
                rw [hdd] at hd
                exact ⟨base :: bs, ⟨Or.inr (by simpa [setTop, hf, BalAfter] using hd), by simpa [setTop, hf] using hbc⟩, Or.inl rfl⟩
              · rename_i f' callee hdd
                rw [hdd] at hd
                simp [BalAfter] at hd
                refine ⟨callee.blocks.length :: base :: bs, ⟨Or.inr ?_, Or.inr hd.1, hbc⟩, Or.inr (Or.inl ⟨_, rfl⟩)⟩
                simp [Bal, hd.2]

/-- States reachable from the start of `garden run p` by evaluator steps (no tick or stack
limit error, no runtime error: an error ends the run). Interrupt-and-resume reaches no
other frames (C08: `interrupts_unobservable`). -/
inductive Reach (p : Program) (tl sl : Option Nat) : State → Prop
  | init : Reach p tl sl (init p [] tl sl)
  | step {s s' : State} : Reach p tl sl s → step s = .cont s' → Reach p tl sl s'

theorem BalS_nonempty (bases : List Nat) (frames : List Frame) (h : BalS bases frames)
    (hf : frames ≠ []) : bases ≠ [] := by
  cases bases <;> cases frames <;> simp_all [BalS]

theorem BalS_frames_nonempty (bases : List Nat) (frames : List Frame) (h : BalS bases frames)
    (hb : bases ≠ []) : frames ≠ [] := by
  cases bases <;> cases frames <;> simp_all [BalS]

/-- **Invariant of every reachable state**: each frame of the call stack has exactly its
base number of binding blocks plus one per block it has entered and not yet left; the
toplevel frame's base is 1. Holds however blocks are left: normal completion, `break`,
`continue` (through any nesting of if / match / loops), and `return` (the frame is
finished and dropped). -/
theorem reach_bal (p : Program) (tl sl : Option Nat) (s : State) (h : Reach p tl sl s) :
    ∃ bases, BalS bases s.frames ∧ bases.getLast? = some 1 ∧ s.frames ≠ [] := by
  induction h with
  | init =>
    refine ⟨[1], ?_, rfl, by simp [init]⟩
    simp [init, BalS, BalW, Bal, initFrame, owners_fresh]
  | step hr hs ih =>
    obtain ⟨bases, hb, hl, hne⟩ := ih
    obtain ⟨bases', hb', hrel⟩ := step_bal _ _ bases hb hs
    have hbne := BalS_nonempty bases _ hb hne
    rcases hrel with h1 | ⟨b, h1⟩ | ⟨b, h1, hbn⟩
    · subst h1; exact ⟨bases', hb', hl, BalS_frames_nonempty _ _ hb' hbne⟩
    · subst h1
      refine ⟨_, hb', ?_, BalS_frames_nonempty _ _ hb' (by simp)⟩
      cases bases with
      | nil => simp at hbne
      | cons x xs => simpa [List.getLast?_cons_cons] using hl
    · subst h1
      refine ⟨bases', hb', ?_, BalS_frames_nonempty _ _ hb' hbn⟩
      cases bases' with
      | nil => simp at hbn
      | cons x xs => simpa [List.getLast?_cons_cons] using hl

/-- **Scope restoration at top level.** Whenever the toplevel frame is current and no
entered block is pending (i.e. between two toplevel statements, whatever the previous
statements did, including loops left by `break`/`continue`), exactly ONE binding block
exists: every block-local variable is gone, so a later reference to one is resolved the
same way as if the block had completed normally — `No such variable`. -/
theorem toplevel_scope_restored (p : Program) (tl sl : Option Nat) (s : State) (f : Frame)
    (h : Reach p tl sl s) (hf : s.frames = [f]) (hp : f.exprs ≠ []) (ho : owners f.exprs = 0) :
    f.blocks.length = 1 := by
  obtain ⟨bases, hb, hl, _⟩ := reach_bal p tl sl s h
  rw [hf] at hb
  match bases, hb with
  | [b], hb =>
    simp at hl; subst hl
    rcases hb.1 with h0 | h0
    · exact absurd h0 hp
    · simpa [Bal, ho] using h0

/-- The same for the current frame of any call depth: with no entered block pending the
frame holds exactly its base blocks (1 for a named function: the parameter block). -/
theorem frame_scope_restored (p : Program) (tl sl : Option Nat) (s : State) (f : Frame) (rest : List Frame)
    (h : Reach p tl sl s) (hf : s.frames = f :: rest) (hp : f.exprs ≠ []) (ho : owners f.exprs = 0) :
    ∃ bases b, BalS (b :: bases) (f :: rest) ∧ f.blocks.length = b := by
  obtain ⟨bases, hb, _, _⟩ := reach_bal p tl sl s h
  rw [hf] at hb
  match bases, hb with
  | b :: bs, hb =>
    refine ⟨bs, b, hb, ?_⟩
    rcases hb.1 with h0 | h0
    · exact absurd h0 hp
    · simpa [Bal, ho] using h0

-- Non-vacuity: the initial state of a real program is reachable and balanced with base 1,
-- and a while loop whose body is running (state PD) owns exactly one block.
example : owners [(St.PD, Expr.whileE 3 false (.var 1 true "c") [.brk 2 false]), (St.N, .int 4 true 0)] = 1 := by
  simp [owners, owns]
example (p : Program) : Reach p none none (init p [] none none) := Reach.init
end C06
