import GardenVerif.Model.TypedSem
import GardenVerif.Lemmas.Types
/-! Helper lemmas for C16: value typing `hasTy` (deep, structural; agrees with
`is_subtype(Type::from_value(v), T)` on well-formed types: `hasTy_sub_typeOf`), subsumption,
compatibility with `unify`, canonical forms, environment typing. -/
set_option linter.unusedVariables false
set_option linter.unusedSimpArgs false

namespace Check

-- ------------------------------------------------------------------ well-formed fragment types

def goodName0 (n : String) : Bool :=
  n == "Int" || n == "String" || n == "Bool" || n == "Unit" || n == "NoValue"

mutual
/-- Types of the fragment: `Any`, tuples, the nullary core types, `List<T>` / `Option<T>` with
exactly one argument. No `Error`, no function types, no type parameters. -/
def good : Ty → Bool
  | .any => true
  | .tuple ts => goodL ts
  | .user _ n [] => goodName0 n
  | .user _ n [a] => (n == "List" || n == "Option") && good a
  | _ => false
def goodL : List Ty → Bool
  | [] => true
  | t :: ts => good t && goodL ts
end

mutual
theorem Hint.toTy_good : ∀ h : Hint, good h.toTy = true
  | .int => by simp [Hint.toTy, tInt, good, goodName0]
  | .bool => by simp [Hint.toTy, tBool, good, goodName0]
  | .str => by simp [Hint.toTy, tStr, good, goodName0]
  | .unit => by simp [Hint.toTy, tUnit, good, goodName0]
  | .list h => by simp [Hint.toTy, tList, good, Hint.toTy_good h]
  | .option h => by simp [Hint.toTy, tOption, good, Hint.toTy_good h]
  | .tuple hs => by simp [Hint.toTy, good, Hint.toTys_good hs]
theorem Hint.toTys_good : ∀ hs : List Hint, goodL (Hint.toTys hs) = true
  | [] => by simp [Hint.toTys, goodL]
  | h :: hs => by simp [Hint.toTys, goodL, Hint.toTy_good h, Hint.toTys_good hs]
end

-- ------------------------------------------------------------------ value typing

def isNamed (T : Ty) (n : String) : Bool :=
  match T with
  | .any => true
  | .user _ m _ => m == n
  | _ => false

mutual
/-- `v` is a value of static type `T` (deep: every element of a list has the element type). -/
def hasTy : Val → Ty → Bool
  | .int _, T => isNamed T "Int"
  | .str _, T => isNamed T "String"
  | .bool _, T => isNamed T "Bool"
  | .unit, T => isNamed T "Unit"
  | .none, T => isNamed T "Option"
  | .some p, T =>
    (match T with
     | .any => true
     | .user _ n (a :: _) => n == "Option" && hasTy p a
     | _ => false)
  | .list items, T =>
    (match T with
     | .any => true
     | .user _ n (a :: _) => n == "List" && hasTyAll items a
     | _ => false)
  | .tuple items, T =>
    (match T with
     | .any => true
     | .tuple ts => hasTyZip items ts
     | _ => false)
def hasTyAll : List Val → Ty → Bool
  | [], _ => true
  | v :: vs, a => hasTy v a && hasTyAll vs a
def hasTyZip : List Val → List Ty → Bool
  | [], [] => true
  | v :: vs, t :: ts => hasTy v t && hasTyZip vs ts
  | _, _ => false
end

theorem hasTy_any (v : Val) : hasTy v .any = true := by
  cases v <;> simp [hasTy, isNamed]

/-- Shape of the supertypes of a named type. -/
theorem sub_user_cases (k : Kind) (n : String) (as : List Ty) (B : Ty) (hn : n ≠ "NoValue")
    (h : Ty.sub (.user k n as) B = true) :
    B = .any ∨ B = .err ∨ ∃ k2 bs, B = .user k2 n bs ∧ Ty.subAll as bs = true := by
  cases B <;> simp [Ty.sub, hn] at h
  case any => exact Or.inl rfl
  case err => exact Or.inr (Or.inl rfl)
  case user k2 n2 bs =>
    obtain ⟨h1, h2⟩ := h
    subst h1
    exact Or.inr (Or.inr ⟨k2, bs, rfl, h2⟩)

theorem sub_tuple_cases (as : List Ty) (B : Ty) (h : Ty.sub (.tuple as) B = true) :
    B = .any ∨ B = .err ∨ ∃ bs, B = .tuple bs ∧ as.length = bs.length ∧ Ty.subAll as bs = true := by
  cases B <;> simp [Ty.sub] at h ⊢
  case tuple bs => exact h

theorem isNamed_sub (A B : Ty) (n : String) (hn : n ≠ "NoValue") (hA : isNamed A n = true) (hA' : A ≠ .any)
    (hs : Ty.sub A B = true) (hB : good B = true) : isNamed B n = true := by
  cases A <;> simp [isNamed] at hA hA'
  case user k m as =>
    subst hA
    rcases sub_user_cases k m as B hn hs with h | h | ⟨k2, bs, h, _⟩
    · subst h; simp [isNamed]
    · subst h; simp [good] at hB
    · subst h; simp [isNamed]

theorem sub_any_left (B : Ty) (h : Ty.sub .any B = true) : B = .any ∨ B = .err := by
  cases B <;> simp [Ty.sub] at h ⊢

mutual
/-- Subsumption: a value of type `A` is a value of every well-formed supertype of `A`. -/
theorem hasTy_sub : ∀ (v : Val) (A B : Ty), hasTy v A = true → Ty.sub A B = true → good B = true →
    hasTy v B = true
  | .int i, A, B, hv, hs, hB => by
    by_cases hA : A = .any
    · subst hA; rcases sub_any_left B hs with h | h <;> subst h <;> simp [hasTy, isNamed, good] at hB ⊢
    · simp [hasTy] at hv ⊢; exact isNamed_sub A B _ (by decide) hv hA hs hB
  | .str i, A, B, hv, hs, hB => by
    by_cases hA : A = .any
    · subst hA; rcases sub_any_left B hs with h | h <;> subst h <;> simp [hasTy, isNamed, good] at hB ⊢
    · simp [hasTy] at hv ⊢; exact isNamed_sub A B _ (by decide) hv hA hs hB
  | .bool i, A, B, hv, hs, hB => by
    by_cases hA : A = .any
    · subst hA; rcases sub_any_left B hs with h | h <;> subst h <;> simp [hasTy, isNamed, good] at hB ⊢
    · simp [hasTy] at hv ⊢; exact isNamed_sub A B _ (by decide) hv hA hs hB
  | .unit, A, B, hv, hs, hB => by
    by_cases hA : A = .any
    · subst hA; rcases sub_any_left B hs with h | h <;> subst h <;> simp [hasTy, isNamed, good] at hB ⊢
    · simp [hasTy] at hv ⊢; exact isNamed_sub A B _ (by decide) hv hA hs hB
  | .none, A, B, hv, hs, hB => by
    by_cases hA : A = .any
    · subst hA; rcases sub_any_left B hs with h | h <;> subst h <;> simp [hasTy, isNamed, good] at hB ⊢
    · simp [hasTy] at hv ⊢; exact isNamed_sub A B _ (by decide) hv hA hs hB
  | .some p, A, B, hv, hs, hB => by
    cases A <;> simp [hasTy] at hv
    case any => rcases sub_any_left B hs with h | h <;> subst h <;> simp [hasTy, good] at hB ⊢
    case user k n as =>
      cases as with
      | nil => simp at hv
      | cons a as =>
        simp at hv
        obtain ⟨hn, hp⟩ := hv
        subst hn
        rcases sub_user_cases k _ (a :: as) B (by decide) hs with h | h | ⟨k2, bs, h, hsub⟩
        · subst h; simp [hasTy]
        · subst h; simp [good] at hB
        · subst h
          cases bs with
          | nil => simp [good, goodName0] at hB
          | cons b bs =>
            cases bs with
            | nil =>
              simp [good] at hB
              simp [Ty.subAll] at hsub
              simp [hasTy]
              exact hasTy_sub p a b hp hsub hB
            | cons b2 bs => simp [good] at hB
  | .list items, A, B, hv, hs, hB => by
    cases A <;> simp [hasTy] at hv
    case any => rcases sub_any_left B hs with h | h <;> subst h <;> simp [hasTy, good] at hB ⊢
    case user k n as =>
      cases as with
      | nil => simp at hv
      | cons a as =>
        simp at hv
        obtain ⟨hn, hp⟩ := hv
        subst hn
        rcases sub_user_cases k _ (a :: as) B (by decide) hs with h | h | ⟨k2, bs, h, hsub⟩
        · subst h; simp [hasTy]
        · subst h; simp [good] at hB
        · subst h
          cases bs with
          | nil => simp [good, goodName0] at hB
          | cons b bs =>
            cases bs with
            | nil =>
              simp [good] at hB
              simp [Ty.subAll] at hsub
              simp [hasTy]
              exact hasTyAll_sub items a b hp hsub hB
            | cons b2 bs => simp [good] at hB
  | .tuple items, A, B, hv, hs, hB => by
    cases A <;> simp [hasTy] at hv
    case any => rcases sub_any_left B hs with h | h <;> subst h <;> simp [hasTy, good] at hB ⊢
    case tuple as =>
      rcases sub_tuple_cases as B hs with h | h | ⟨bs, h, hl, hsub⟩
      · subst h; simp [hasTy]
      · subst h; simp [good] at hB
      · subst h
        simp [good] at hB
        simp [hasTy]
        exact hasTyZip_sub items as bs hv hl hsub hB
theorem hasTyAll_sub : ∀ (vs : List Val) (a b : Ty), hasTyAll vs a = true → Ty.sub a b = true → good b = true →
    hasTyAll vs b = true
  | [], a, b, hv, hs, hB => by simp [hasTyAll]
  | v :: vs, a, b, hv, hs, hB => by
    simp [hasTyAll] at hv ⊢
    exact ⟨hasTy_sub v a b hv.1 hs hB, hasTyAll_sub vs a b hv.2 hs hB⟩
theorem hasTyZip_sub : ∀ (vs : List Val) (as bs : List Ty), hasTyZip vs as = true → as.length = bs.length →
    Ty.subAll as bs = true → goodL bs = true → hasTyZip vs bs = true
  | [], as, bs, hv, hl, hs, hB => by
    cases as <;> simp [hasTyZip] at hv
    cases bs <;> simp [hasTyZip] at hl ⊢
  | v :: vs, as, bs, hv, hl, hs, hB => by
    cases as with
    | nil => simp [hasTyZip] at hv
    | cons a as =>
      cases bs with
      | nil => simp at hl
      | cons b bs =>
        simp [hasTyZip, Ty.subAll, goodL] at hv hl hs hB ⊢
        exact ⟨hasTy_sub v a b hv.1 hs.1 hB.1, hasTyZip_sub vs as bs hv.2 hl hs.2 hB.2⟩
end

-- ------------------------------------------------------------------ runtime annotation checks pass

theorem sub_noValue (T : Ty) : Ty.sub Ty.noValue T = true := by
  cases T <;> simp [Ty.sub, Ty.noValue]

theorem good_user_cases (k : Kind) (n : String) (args : List Ty) (h : good (.user k n args) = true) :
    (args = [] ∧ goodName0 n = true) ∨ ∃ a, args = [a] ∧ (n = "List" ∨ n = "Option") ∧ good a = true := by
  cases args with
  | nil => simp [good] at h; exact Or.inl ⟨rfl, h⟩
  | cons a rest =>
    cases rest with
    | nil => simp [good] at h; exact Or.inr ⟨a, rfl, h.1, h.2⟩
    | cons b rest => simp [good] at h

theorem sub_named (k k2 : Kind) (n : String) (args : List Ty) (hn : n ≠ "NoValue") :
    Ty.sub (.user k n []) (.user k2 n args) = true := by
  simp [Ty.sub, hn, Ty.subAll]

mutual
/-- A value of static type `T` passes the evaluator's `check_type(v, T)`:
`is_subtype(Type::from_value(v), T)`. -/
theorem hasTy_sub_typeOf : ∀ (v : Val) (T : Ty), hasTy v T = true → Ty.sub (typeOf v) T = true
  | .int i, T, h => by
    cases T <;> simp [hasTy, isNamed] at h
    · simp [Ty.sub]
    · subst h; simp [typeOf, tInt, Ty.sub, Ty.subAll]
  | .str i, T, h => by
    cases T <;> simp [hasTy, isNamed] at h
    · simp [Ty.sub]
    · subst h; simp [typeOf, tStr, Ty.sub, Ty.subAll]
  | .bool i, T, h => by
    cases T <;> simp [hasTy, isNamed] at h
    · simp [Ty.sub]
    · subst h; simp [typeOf, tBool, Ty.sub, Ty.subAll]
  | .unit, T, h => by
    cases T <;> simp [hasTy, isNamed] at h
    · simp [Ty.sub]
    · subst h; simp [typeOf, tUnit, Ty.sub, Ty.subAll]
  | .none, T, h => by
    cases T <;> simp [hasTy, isNamed] at h
    · simp [Ty.sub]
    · subst h
      rename_i k args
      cases args <;> simp [typeOf, tOption, Ty.sub, Ty.subAll, sub_noValue]
  | .some p, T, h => by
    cases T <;> simp [hasTy] at h
    · simp [Ty.sub]
    · rename_i k n args
      cases args with
      | nil => simp at h
      | cons a rest =>
        simp at h
        obtain ⟨hn, hp⟩ := h
        subst hn
        simp [typeOf, tOption, Ty.sub, Ty.subAll, hasTy_sub_typeOf p a hp]
  | .list items, T, h => by
    cases T <;> simp [hasTy] at h
    · simp [Ty.sub]
    · rename_i k n args
      cases args with
      | nil => simp at h
      | cons a rest =>
        simp at h
        obtain ⟨hn, hp⟩ := h
        subst hn
        simp [typeOf, tList, Ty.sub, Ty.subAll, hasTyAll_sub_typeOfLast items a hp]
  | .tuple items, T, h => by
    cases T <;> simp [hasTy] at h
    · simp [Ty.sub]
    · rename_i ts
      have := hasTyZip_sub_typeOfs items ts h
      simp [typeOf, Ty.sub, this.1, this.2]
theorem hasTyAll_sub_typeOfLast : ∀ (vs : List Val) (a : Ty), hasTyAll vs a = true →
    Ty.sub (typeOfLast vs) a = true
  | [], a, h => by simp [typeOfLast, sub_noValue]
  | [v], a, h => by
    simp [hasTyAll] at h
    simp [typeOfLast, hasTy_sub_typeOf v a h]
  | v :: w :: rest, a, h => by
    simp [hasTyAll] at h
    simp [typeOfLast]
    exact hasTyAll_sub_typeOfLast (w :: rest) a (by simp [hasTyAll, h.2.1, h.2.2])
theorem hasTyZip_sub_typeOfs : ∀ (vs : List Val) (ts : List Ty), hasTyZip vs ts = true →
    (typeOfs vs).length = ts.length ∧ Ty.subAll (typeOfs vs) ts = true
  | [], ts, h => by
    cases ts <;> simp [hasTyZip] at h
    simp [typeOfs, Ty.subAll]
  | v :: vs, ts, h => by
    cases ts with
    | nil => simp [hasTyZip] at h
    | cons t ts =>
      simp [hasTyZip] at h
      have ih := hasTyZip_sub_typeOfs vs ts h.2
      simp [typeOfs, Ty.subAll, hasTy_sub_typeOf v t h.1, ih.1, ih.2]
end

-- ------------------------------------------------------------------ canonical forms

theorem canon_int (v : Val) (h : hasTy v tInt = true) : ∃ i, v = .int i := by
  cases v <;> simp [hasTy, isNamed, tInt] at h ⊢
theorem canon_str (v : Val) (h : hasTy v tStr = true) : ∃ s, v = .str s := by
  cases v <;> simp [hasTy, isNamed, tStr] at h ⊢
theorem canon_bool (v : Val) (h : hasTy v tBool = true) : ∃ b, v = .bool b := by
  cases v <;> simp [hasTy, isNamed, tBool] at h ⊢
theorem hasTy_noValue (v : Val) (T : Ty) (hT : T.isNoValue = true) : hasTy v T = false := by
  cases T <;> simp [Ty.isNoValue] at hT
  subst hT
  rename_i k args
  cases v <;> simp [hasTy, isNamed]
  all_goals (cases args <;> simp)
theorem hasTy_err (v : Val) : hasTy v .err = false := by
  cases v <;> simp [hasTy, isNamed]
theorem hasTy_fn (v : Val) (a : Option String) (b : List String) (c : List Ty) (d : Ty) :
    hasTy v (.fn a b c d) = false := by
  cases v <;> simp [hasTy, isNamed]

-- ------------------------------------------------------------------ environment typing

def blockOK : List (String × Ty) → List (String × Val) → Prop
  | [], [] => True
  | (k, T) :: g, (k', v) :: r => k = k' ∧ hasTy v T = true ∧ blockOK g r
  | _, _ => False

def envOK : Blocks Ty → Blocks Val → Prop
  | [], [] => True
  | g :: G, r :: R => blockOK g r ∧ envOK G R
  | _, _ => False

theorem lookupBlock_ok : ∀ (g : List (String × Ty)) (r : List (String × Val)) (x : String), blockOK g r →
    (∀ T, lookupBlock g x = some T → ∃ v, lookupBlock r x = some v ∧ hasTy v T = true) ∧
    (lookupBlock g x = none → lookupBlock r x = none)
  | [], [], x, h => by simp [lookupBlock]
  | [], _ :: _, x, h => by simp [blockOK] at h
  | _ :: _, [], x, h => by simp [blockOK] at h
  | (k, T) :: g, (k', v) :: r, x, h => by
    simp [blockOK] at h
    obtain ⟨hk, hv, hr⟩ := h
    subst hk
    have ih := lookupBlock_ok g r x hr
    simp only [lookupBlock]
    by_cases hx : (k == x) = true
    · simp [hx, hv]
    · simp [hx]; exact ih

theorem lookupB_ok : ∀ (G : Blocks Ty) (R : Blocks Val) (x : String), envOK G R →
    (∀ T, lookupB G x = some T → ∃ v, lookupB R x = some v ∧ hasTy v T = true) ∧
    (lookupB G x = none → lookupB R x = none)
  | [], [], x, h => by simp [lookupB]
  | [], _ :: _, x, h => by simp [envOK] at h
  | _ :: _, [], x, h => by simp [envOK] at h
  | g :: G, r :: R, x, h => by
    simp [envOK] at h
    have hb := lookupBlock_ok g r x h.1
    have ih := lookupB_ok G R x h.2
    simp only [lookupB]
    cases hg : lookupBlock g x with
    | some T =>
      obtain ⟨v, hv1, hv2⟩ := hb.1 T hg
      simp [hv1, hv2]
    | none =>
      simp [hb.2 hg]
      exact ih

theorem setBlock_ok : ∀ (g : List (String × Ty)) (r : List (String × Val)) (x : String) (T : Ty) (v : Val),
    blockOK g r → hasTy v T = true → blockOK (setBlock g x T) (setBlock r x v)
  | [], [], x, T, v, h, hv => by simp [setBlock, blockOK, hv]
  | [], _ :: _, x, T, v, h, hv => by simp [blockOK] at h
  | _ :: _, [], x, T, v, h, hv => by simp [blockOK] at h
  | (k, T0) :: g, (k', v0) :: r, x, T, v, h, hv => by
    simp [blockOK] at h
    obtain ⟨hk, hv0, hr⟩ := h
    subst hk
    simp only [setBlock]
    by_cases hx : (k == x) = true
    · simp [hx, blockOK, hv, hr]
    · simp [hx, blockOK, hv0]; exact setBlock_ok g r x T v hr hv

theorem setB_ok (G : Blocks Ty) (R : Blocks Val) (x : String) (T : Ty) (v : Val)
    (h : envOK G R) (hv : hasTy v T = true) : envOK (setB G x T) (setB R x v) := by
  cases G <;> cases R <;> simp [envOK, setB] at h ⊢
  exact ⟨setBlock_ok _ _ x T v h.1 hv, h.2⟩

theorem envOK_push (G : Blocks Ty) (R : Blocks Val) (h : envOK G R) : envOK ([] :: G) ([] :: R) := by
  simp [envOK, blockOK, h]

theorem envOK_tail (G : Blocks Ty) (R : Blocks Val) (h : envOK G R) : envOK G.tail R.tail := by
  cases G <;> cases R <;> simp [envOK] at h ⊢
  exact h.2

-- ------------------------------------------------------------------ soundness of the straight-line fragment

/-- Outcomes allowed for a well-typed expression of type `T` (function return type `retT`). -/
def ResOK (retT T : Ty) (Γ' : Blocks Ty) : Res → Prop
  | .val v ρ' => hasTy v T = true ∧ envOK Γ' ρ'
  | .ret v => hasTy v retT = true
  | .brk _ => False
  | .cont _ => False
  | .err e => e.isTypeError = false
  | .timeout => True

theorem fin_inv (exp : Option Ty) (T T' : Ty) (Γ Γ' : Blocks Ty) (d : List Diag)
    (h : fin exp T Γ d = (T', Γ', [])) :
    T' = T ∧ Γ' = Γ ∧ d = [] ∧ (∀ E, exp = some E → Ty.sub T E = true) := by
  unfold fin at h
  split at h
  · simp at h; simp [h]
  · rename_i E
    split at h
    · rename_i hs
      simp at h
      obtain ⟨h1, h2, h3⟩ := h
      subst h1 h2 h3
      simp [hs]
    · simp at h

theorem intBinop_ok_val (op : BinOp) (hop : isIntArith op = true ∨ op = .lt ∨ op = .le ∨ op = .gt ∨ op = .ge)
    (a b : Int64) (v : Val) (h : intBinop op a b = .ok v) :
    hasTy v (if isIntArith op then tInt else tBool) = true := by
  cases op <;> simp [isIntArith] at hop <;> simp only [intBinop] at h
  all_goals (repeat' split at h)
  all_goals (first | cases h | skip)
  all_goals simp [hasTy, isNamed, tInt, tBool, isIntArith]

theorem intBinop_ok_err (op : BinOp) (hop : isIntArith op = true ∨ op = .lt ∨ op = .le ∨ op = .gt ∨ op = .ge)
    (a b : Int64) (e : RErr) (h : intBinop op a b = .error e) : e.isTypeError = false := by
  cases op <;> simp [isIntArith] at hop <;> simp only [intBinop] at h
  all_goals (repeat' split at h)
  all_goals (first | cases h | skip)
  all_goals simp [RErr.isTypeError]

mutual
def slE (P : Program) : Nat → TExpr → Bool
  | 0, _ => false
  | d + 1, e =>
    match e with
    | .int _ | .str _ | .retUnit => true
    | .var x => (isValueGlobal x && (findFun P x).isNone) || !(isGlobalName P x)
    | .paren e => slE P d e
    | .binop _ l r => slE P d l && slE P d r
    | .letE _ _ e => slE P d e
    | .ret e => slE P d e
    | _ => false
def slL (P : Program) : Nat → List TExpr → Bool
  | 0, _ => false
  | _ + 1, [] => true
  | d + 1, [e] => slE P d e
  | d + 1, e :: e2 :: rest => slE P d e && slL P d (e2 :: rest)
end

/-- In checked position the inferred type is below the expected one. -/
theorem tc_chk_sub (P : Program) (d : Nat) (e : TExpr) (ret E T : Ty) (Γ Γ' : Blocks Ty)
    (hs : slE P d e = true) (h : tcExpr P ret (some E) Γ e = (T, Γ', [])) : Ty.sub T E = true := by
  cases d with
  | zero => simp [slE] at hs
  | succ d =>
  cases e <;> simp only [slE] at hs <;> simp only [tcExpr] at h
  all_goals (try (simp at hs; done))
  all_goals (repeat' split at h)
  all_goals (first
    | (obtain ⟨hT, _, _, hsub⟩ := fin_inv _ _ _ _ _ _ h; rw [hT]; exact hsub E rfl)
    | skip)


theorem resOK_pass (retT T T' : Ty) (Γ1 Γ' : Blocks Ty) (r : Res) (h : ResOK retT T Γ1 r)
    (hv : ∀ v ρ, r ≠ .val v ρ) : ResOK retT T' Γ' r := by
  cases r <;> simp [ResOK] at h ⊢
  case val v ρ => exact absurd rfl (hv v ρ)
  all_goals exact h

theorem binop_eval_ok (P : Program) (n : Nat) (ρ : Blocks Val) (l r : TExpr) (op : BinOp)
    (ret T1 T2 opnd res : Ty) (Γ1 Γ2 : Blocks Ty)
    (ihl : ResOK ret T1 Γ1 (eval P n ρ l)) (hs1 : Ty.sub T1 opnd = true) (gO : good opnd = true)
    (ihr : ∀ ρ1, envOK Γ1 ρ1 → ResOK ret T2 Γ2 (eval P n ρ1 r)) (hs2 : Ty.sub T2 opnd = true)
    (hop : ∀ lv rv, hasTy lv opnd = true → hasTy rv opnd = true →
      (∀ v, binopVal op lv rv = .ok v → hasTy v res = true) ∧
      (∀ e, binopVal op lv rv = .error e → e.isTypeError = false)) :
    ResOK ret res Γ2 (eval P (n + 1) ρ (.binop op l r)) := by
  simp only [eval]
  cases hl : eval P n ρ l with
  | val lv ρ1 =>
    rw [hl] at ihl
    simp [ResOK] at ihl
    have ihr' := ihr ρ1 ihl.2
    simp only []
    cases hr : eval P n ρ1 r with
    | val rv ρ2 =>
      rw [hr] at ihr'
      simp [ResOK] at ihr'
      have h := hop lv rv (hasTy_sub lv T1 opnd ihl.1 hs1 gO) (hasTy_sub rv T2 opnd ihr'.1 hs2 gO)
      cases hb : binopVal op lv rv with
      | ok v => simp only [hb]; simp [ResOK, ihr'.2, h.1 v hb]
      | error er => simp only [hb]; simp [ResOK, h.2 er hb]
    | _ => rw [hr] at ihr'; simp [ResOK] at ihr' ⊢; try exact ihr'
  | _ => rw [hl] at ihl; simp [ResOK] at ihl ⊢; try exact ihl

theorem hop_eq (op : BinOp) (h : op = .eq ∨ op = .ne) (lv rv : Val) :
    (∀ v, binopVal op lv rv = .ok v → hasTy v tBool = true) ∧
    (∀ e, binopVal op lv rv = .error e → e.isTypeError = false) := by
  rcases h with rfl | rfl <;> simp [binopVal, hasTy, isNamed, tBool]

theorem hop_cmp (op : BinOp) (h : op = .lt ∨ op = .le ∨ op = .gt ∨ op = .ge) (lv rv : Val)
    (h1 : hasTy lv tInt = true) (h2 : hasTy rv tInt = true) :
    (∀ v, binopVal op lv rv = .ok v → hasTy v tBool = true) ∧
    (∀ e, binopVal op lv rv = .error e → e.isTypeError = false) := by
  obtain ⟨a, rfl⟩ := canon_int lv h1
  obtain ⟨b, rfl⟩ := canon_int rv h2
  have hbv : binopVal op (.int a) (.int b) = intBinop op a b := by
    rcases h with rfl | rfl | rfl | rfl <;> simp [binopVal]
  rw [hbv]
  constructor
  · intro v hv
    have := intBinop_ok_val op (Or.inr h) a b v hv
    rcases h with rfl | rfl | rfl | rfl <;> simpa [isIntArith] using this
  · intro e he
    exact intBinop_ok_err op (Or.inr h) a b e he

theorem hop_bool (op : BinOp) (h : op = .and ∨ op = .or) (lv rv : Val)
    (h1 : hasTy lv tBool = true) (h2 : hasTy rv tBool = true) :
    (∀ v, binopVal op lv rv = .ok v → hasTy v tBool = true) ∧
    (∀ e, binopVal op lv rv = .error e → e.isTypeError = false) := by
  obtain ⟨a, rfl⟩ := canon_bool lv h1
  obtain ⟨b, rfl⟩ := canon_bool rv h2
  rcases h with rfl | rfl <;> simp [binopVal, hasTy, isNamed, tBool]

theorem hop_concat (lv rv : Val) (h1 : hasTy lv tStr = true) (h2 : hasTy rv tStr = true) :
    (∀ v, binopVal .concat lv rv = .ok v → hasTy v tStr = true) ∧
    (∀ e, binopVal .concat lv rv = .error e → e.isTypeError = false) := by
  obtain ⟨a, rfl⟩ := canon_str lv h1
  obtain ⟨b, rfl⟩ := canon_str rv h2
  simp [binopVal, hasTy, isNamed, tStr]

theorem sound_sl (P : Program) : ∀ n,
    (∀ d e ret exp Γ ρ T Γ', slE P d e = true → tcExpr P ret exp Γ e = (T, Γ', []) →
      (∀ E, exp = some E → good E = true) → good ret = true →
      envOK Γ ρ → ResOK ret T Γ' (eval P n ρ e)) ∧
    (∀ d es ret exp Γ ρ T Γ', slL P d es = true → tcSeq P ret exp Γ es = (T, Γ', []) →
      (∀ E, exp = some E → good E = true) → good ret = true →
      envOK Γ ρ → ResOK ret T Γ' (evalSeq P n ρ es)) := by
  intro n
  induction n with
  | zero =>
    constructor
    · intros; simp [eval, ResOK]
    · intros; simp [evalSeq, ResOK]
  | succ n ih =>
    obtain ⟨ihE, ihL⟩ := ih
    constructor
    · intro d e ret exp Γ ρ T Γ' hs htc hexp hret henv
      cases d with
      | zero => simp [slE] at hs
      | succ d =>
      cases e with
      | int v =>
        simp only [tcExpr] at htc
        obtain ⟨h1, h2, _, _⟩ := fin_inv _ _ _ _ _ _ htc
        subst h1 h2
        simp [eval, ResOK, hasTy, isNamed, tInt, henv]
      | str v =>
        simp only [tcExpr] at htc
        obtain ⟨h1, h2, _, _⟩ := fin_inv _ _ _ _ _ _ htc
        subst h1 h2
        simp [eval, ResOK, hasTy, isNamed, tStr, henv]
      | retUnit =>
        simp only [tcExpr] at htc
        obtain ⟨h1, h2, h3, _⟩ := fin_inv _ _ _ _ _ _ htc
        simp [eval, ResOK]
        split at h3
        · rename_i hsub
          exact hasTy_sub .unit tUnit ret (by simp [hasTy, isNamed, tUnit]) hsub hret
        · simp at h3
      | paren e =>
        simp only [slE] at hs
        simp only [tcExpr] at htc
        cases h1 : tcExpr P ret none Γ e with
        | mk T1 r1 =>
        cases r1 with
        | mk Γ1 d1 =>
        rw [h1] at htc
        simp only at htc
        obtain ⟨hT, hΓ, hd, _⟩ := fin_inv _ _ _ _ _ _ htc
        subst hT hΓ hd
        have := ihE d e ret none Γ ρ T Γ' hs h1 (by simp) hret henv
        simp only [eval]
        exact this
      | ret e =>
        simp only [slE] at hs
        simp only [tcExpr] at htc
        cases h1 : tcExpr P ret (some ret) Γ e with
        | mk T1 r1 =>
        cases r1 with
        | mk Γ1 d1 =>
        rw [h1] at htc
        simp only at htc
        obtain ⟨hT, hΓ, hd, _⟩ := fin_inv _ _ _ _ _ _ htc
        subst hd
        have ih1 := ihE d e ret (some ret) Γ ρ T1 Γ1 hs h1 (by intro E hE; cases hE; exact hret) hret henv
        have hsub := tc_chk_sub P d e ret ret T1 Γ Γ1 hs h1
        simp only [eval]
        cases hev : eval P n ρ e with
        | val v ρ1 =>
          rw [hev] at ih1
          simp [ResOK] at ih1 ⊢
          exact hasTy_sub v T1 ret ih1.1 hsub hret
        | _ => rw [hev] at ih1; simp [ResOK] at ih1 ⊢; try exact ih1
      | letE x hint e =>
        simp only [slE] at hs
        simp only [tcExpr] at htc
        cases hint with
        | some h =>
          simp only at htc
          cases h1 : tcExpr P ret (some h.toTy) Γ e with
          | mk T1 r1 =>
          cases r1 with
          | mk Γ1 d1 =>
          rw [h1] at htc
          simp only at htc
          obtain ⟨hT, hΓ, hd, _⟩ := fin_inv _ _ _ _ _ _ htc
          subst hT hΓ hd
          have hg := Hint.toTy_good h
          have ih1 := ihE d e ret (some h.toTy) Γ ρ T1 Γ1 hs h1 (by intro E hE; cases hE; exact hg) hret henv
          have hsub := tc_chk_sub P d e ret h.toTy T1 Γ Γ1 hs h1
          simp only [eval]
          cases hev : eval P n ρ e with
          | val v ρ1 =>
            rw [hev] at ih1
            simp [ResOK] at ih1
            have hv := hasTy_sub v T1 h.toTy ih1.1 hsub hg
            have hchk := hasTy_sub_typeOf v h.toTy hv
            simp [hchk, ResOK, hasTy, isNamed, tUnit]
            exact setB_ok _ _ x _ v ih1.2 hv
          | _ => rw [hev] at ih1; simp [ResOK] at ih1 ⊢; try exact ih1
        | none =>
          simp only at htc
          cases h1 : tcExpr P ret none Γ e with
          | mk T1 r1 =>
          cases r1 with
          | mk Γ1 d1 =>
          rw [h1] at htc
          simp only at htc
          obtain ⟨hT, hΓ, hd, _⟩ := fin_inv _ _ _ _ _ _ htc
          subst hT hΓ hd
          have ih1 := ihE d e ret none Γ ρ T1 Γ1 hs h1 (by simp) hret henv
          simp only [eval]
          cases hev : eval P n ρ e with
          | val v ρ1 =>
            rw [hev] at ih1
            simp [ResOK] at ih1
            simp [ResOK, hasTy, isNamed, tUnit]
            exact setB_ok _ _ x _ v ih1.2 ih1.1
          | _ => rw [hev] at ih1; simp [ResOK] at ih1 ⊢; try exact ih1
      | var x =>
        simp only [slE] at hs
        simp only [tcExpr] at htc
        cases h1 : inferVar P Γ x with
        | mk T1 r1 =>
        cases r1 with
        | mk Γ1 d1 =>
        rw [h1] at htc
        simp only at htc
        obtain ⟨hT, hΓ, hd, _⟩ := fin_inv _ _ _ _ _ _ htc
        subst hT hΓ hd
        have hl := lookupB_ok Γ ρ x henv
        unfold inferVar at h1
        cases hg : lookupB Γ x with
        | some T0 =>
          rw [hg] at h1
          simp at h1
          obtain ⟨e1, e2⟩ := h1
          subst e1 e2
          obtain ⟨v, hv1, hv2⟩ := hl.1 T0 hg
          simp [eval, hv1, ResOK, hv2, henv]
        | none =>
          rw [hg] at h1
          simp only at h1
          have hρ := hl.2 hg
          simp at hs
          rcases hs with ⟨hvg, hff⟩ | hng
          · simp [isValueGlobal] at hvg
            rcases hvg with ((rfl | rfl) | rfl) | rfl
            all_goals
              simp [globalOf, hff, Global.ty] at h1
              obtain ⟨e1, e2⟩ := h1
              subst e1 e2
              simp [eval, hρ, globalVal, ResOK, hasTy, isNamed, tOption, tBool, tUnit, henv]
          · simp [isGlobalName, reservedNames] at hng
            simp [globalOf, hng] at h1
      | binop op l r =>
        simp only [slE] at hs
        simp at hs
        simp only [tcExpr] at htc
        by_cases hA : isIntArith op = true
        · simp only [hA, if_true] at htc
          cases h1 : tcExpr P ret none Γ l with
          | mk lt r1 =>
          cases r1 with
          | mk Γ1 d1 =>
          rw [h1] at htc
          simp only at htc
          cases h2 : tcExpr P ret none Γ1 r with
          | mk rt r2 =>
          cases r2 with
          | mk Γ2 d2 =>
          rw [h2] at htc
          simp only at htc
          cases h3 : intBinopTy op lt rt with
          | mk T3 d3 =>
          rw [h3] at htc
          simp only at htc
          obtain ⟨hT, hΓ, hd, _⟩ := fin_inv _ _ _ _ _ _ htc
          simp at hd
          obtain ⟨hd1, hd2, hd3⟩ := hd
          subst hd1
          subst hd2
          subst hd3
          subst hT
          subst hΓ
          unfold intBinopTy at h3
          split at h3
          · simp at h3
          split at h3
          · simp at h3
          simp at h3
          obtain ⟨hT3, hsl, hsr⟩ := h3
          subst hT3
          have gInt : good tInt = true := by simp [good, tInt, goodName0]
          have ihl := ihE d l ret none Γ ρ lt Γ1 hs.1 h1 (by simp) hret henv
          simp only [eval]
          cases hl : eval P n ρ l with
          | val lv ρ1 =>
            rw [hl] at ihl
            simp [ResOK] at ihl
            have ihr := ihE d r ret none Γ1 ρ1 rt Γ' hs.2 h2 (by simp) hret ihl.2
            simp only []
            cases hr : eval P n ρ1 r with
            | val rv ρ2 =>
              rw [hr] at ihr
              simp [ResOK] at ihr
              obtain ⟨a, rfl⟩ := canon_int lv (hasTy_sub lv lt tInt ihl.1 hsl gInt)
              obtain ⟨b, rfl⟩ := canon_int rv (hasTy_sub rv rt tInt ihr.1 hsr gInt)
              have hbv : binopVal op (.int a) (.int b) = intBinop op a b := by
                cases op <;> simp [isIntArith] at hA <;> simp [binopVal]
              simp only [hbv]
              cases hb : intBinop op a b with
              | ok v =>
                have := intBinop_ok_val op (Or.inl hA) a b v hb
                simp [hA] at this
                simp [ResOK, ihr.2, this]
              | error er =>
                simp [ResOK]
                exact intBinop_ok_err op (Or.inl hA) a b er hb
            | _ => rw [hr] at ihr; simp [ResOK] at ihr ⊢; try exact ihr
          | _ => rw [hl] at ihl; simp [ResOK] at ihl ⊢; try exact ihl
        · simp only [hA] at htc
          have gBool : good tBool = true := by simp [good, tBool, goodName0]
          have gInt : good tInt = true := by simp [good, tInt, goodName0]
          have gStr : good tStr = true := by simp [good, tStr, goodName0]
          by_cases hB : (op == .eq || op == .ne) = true
          · simp only [hB, if_true] at htc
            cases h1 : tcExpr P ret none Γ l with
            | mk lt r1 =>
            cases r1 with
            | mk Γ1 d1 =>
            rw [h1] at htc
            simp only at htc
            cases h2 : tcExpr P ret none Γ1 r with
            | mk rt r2 =>
            cases r2 with
            | mk Γ2 d2 =>
            rw [h2] at htc
            simp only at htc
            obtain ⟨hT, hΓ, hd, _⟩ := fin_inv _ _ _ _ _ _ htc
            simp at hd
            obtain ⟨hd1, hd2⟩ := hd
            subst hd1
            subst hd2
            subst hT
            subst hΓ
            have hop' : op = .eq ∨ op = .ne := by simpa using hB
            exact binop_eval_ok P n ρ l r op ret lt rt .any tBool Γ1 Γ'
              (ihE d l ret none Γ ρ lt Γ1 hs.1 h1 (by simp) hret henv) (Ty.sub_any lt) (by simp [good])
              (fun ρ1 h => ihE d r ret none Γ1 ρ1 rt Γ' hs.2 h2 (by simp) hret h) (Ty.sub_any rt)
              (fun lv rv _ _ => hop_eq op hop' lv rv)
          · simp only [hB] at htc
            have key : ∀ opnd res, good opnd = true →
                fin exp res (tcExpr P ret (some opnd) (tcExpr P ret (some opnd) Γ l).2.fst r).2.fst
                  ((tcExpr P ret (some opnd) Γ l).2.snd ++
                    (tcExpr P ret (some opnd) (tcExpr P ret (some opnd) Γ l).2.fst r).2.snd) = (T, Γ', []) →
                (∀ lv rv, hasTy lv opnd = true → hasTy rv opnd = true →
                  (∀ v, binopVal op lv rv = .ok v → hasTy v res = true) ∧
                  (∀ e, binopVal op lv rv = .error e → e.isTypeError = false)) →
                ResOK ret T Γ' (eval P (n + 1) ρ (.binop op l r)) := by
              intro opnd res gO htc' hop
              cases h1 : tcExpr P ret (some opnd) Γ l with
              | mk lt r1 =>
              cases r1 with
              | mk Γ1 d1 =>
              rw [h1] at htc'
              simp only at htc'
              cases h2 : tcExpr P ret (some opnd) Γ1 r with
              | mk rt r2 =>
              cases r2 with
              | mk Γ2 d2 =>
              rw [h2] at htc'
              simp only at htc'
              obtain ⟨hT, hΓ, hd, _⟩ := fin_inv _ _ _ _ _ _ htc'
              simp at hd
              obtain ⟨hd1, hd2⟩ := hd
              subst hd1
              subst hd2
              subst hT
              subst hΓ
              have hE : ∀ E, some opnd = some E → good E = true := by
                intro E hE; cases hE; exact gO
              exact binop_eval_ok P n ρ l r op ret lt rt opnd T Γ1 Γ'
                (ihE d l ret (some opnd) Γ ρ lt Γ1 hs.1 h1 hE hret henv)
                (tc_chk_sub P d l ret opnd lt Γ Γ1 hs.1 h1) gO
                (fun ρ1 h => ihE d r ret (some opnd) Γ1 ρ1 rt Γ' hs.2 h2 hE hret h)
                (tc_chk_sub P d r ret opnd rt Γ1 Γ' hs.2 h2) hop
            cases op <;> simp [isIntArith] at hA hB
            all_goals simp at htc
            case lt => exact key tInt tBool gInt htc (fun lv rv a b => hop_cmp _ (by simp) lv rv a b)
            case le => exact key tInt tBool gInt htc (fun lv rv a b => hop_cmp _ (by simp) lv rv a b)
            case gt => exact key tInt tBool gInt htc (fun lv rv a b => hop_cmp _ (by simp) lv rv a b)
            case ge => exact key tInt tBool gInt htc (fun lv rv a b => hop_cmp _ (by simp) lv rv a b)
            case and => exact key tBool tBool gBool htc (fun lv rv a b => hop_bool _ (by simp) lv rv a b)
            case or => exact key tBool tBool gBool htc (fun lv rv a b => hop_bool _ (by simp) lv rv a b)
            case concat => exact key tStr tStr gStr htc (fun lv rv a b => hop_concat lv rv a b)
      | _ => simp [slE] at hs
    · intro d es ret exp Γ ρ T Γ' hs htc hexp hret henv
      cases d with
      | zero => simp [slL] at hs
      | succ d =>
      match es with
      | [] =>
        simp only [tcSeq] at htc
        simp at htc
        obtain ⟨h1, h2, h3⟩ := htc
        subst h1 h2
        simp [evalSeq, ResOK, hasTy, isNamed, tUnit, henv]
      | [e] =>
        simp only [slL] at hs
        simp only [tcSeq] at htc
        simp only [evalSeq]
        exact ihE d e ret exp Γ ρ T Γ' hs htc hexp hret henv
      | e :: e2 :: rest =>
        simp only [slL] at hs
        simp at hs
        simp only [tcSeq] at htc
        cases h1 : tcExpr P ret none Γ e with
        | mk T1 r1 =>
        cases r1 with
        | mk Γ1 d1 =>
        rw [h1] at htc
        simp only at htc
        cases h2 : tcSeq P ret exp Γ1 (e2 :: rest) with
        | mk T2 r2 =>
        cases r2 with
        | mk Γ2 d2 =>
        rw [h2] at htc
        simp at htc
        obtain ⟨hT, hΓ, hd1, hd2⟩ := htc
        subst hT hΓ hd1 hd2
        have ih1 := ihE d e ret none Γ ρ T1 Γ1 hs.1 h1 (by simp) hret henv
        simp only [evalSeq]
        cases hev : eval P n ρ e with
        | val v ρ1 =>
          rw [hev] at ih1
          simp [ResOK] at ih1
          exact ihL d (e2 :: rest) ret exp Γ1 ρ1 T2 Γ2 hs.2 h2 hexp hret ih1.2
        | _ => rw [hev] at ih1; simp [ResOK] at ih1 ⊢; try exact ih1


end Check
