/-
M4: the explicit-stack evaluator of src/eval.rs for the core language.

`step` mirrors ONE iteration of the loop in `eval` (src/eval.rs): pop an entry of
the top frame (or return from the frame), tick, interrupt check, limits,
`eval_expr` dispatch per `ExpressionState`, restore on error. Every `expect`,
`unreachable!`, `assert!` on the modelled path is an explicit `panic` result.
Transcription notes: DESIGN.md Appendix A.

Import-free (the driver links it).
-/

namespace Machine

/-- `ExpressionState` (+ `BlockState`): N = NotEvaluated, PW/PD/PN = PartiallyEvaluated
(WillRunBlock / DoneRunBlock / NotBlock), E = EvaluatedSubexpressions. -/
inductive St where
  | N | PW | PD | PN | E
  deriving DecidableEq, Repr, Inhabited

inductive BinOp where
  | add | sub | mul | div | mod | pow | bitand | bitor
  | lt | le | gt | ge | eq | ne | and | or | concat | floatOp
  deriving DecidableEq, Repr, Inhabited

/-- `LetDestination`. -/
inductive Dest where
  | sym (name : String)
  | destr (names : List String)
  deriving DecidableEq, Repr, Inhabited

mutual
/-- `Expression` without positions: every node carries its `SyntaxId` and
`value_is_used` flag. -/
inductive Expr where
  | int (id : Nat) (used : Bool) (v : Int64)
  | str (id : Nat) (used : Bool) (s : String)
  | var (id : Nat) (used : Bool) (name : String)
  | binop (id : Nat) (used : Bool) (op : BinOp) (l r : Expr)
  | letE (id : Nat) (used : Bool) (dest : Dest) (e : Expr)
  | assign (id : Nat) (used : Bool) (name : String) (e : Expr)
  | update (id : Nat) (used : Bool) (isAdd : Bool) (name : String) (e : Expr)
  | ifE (id : Nat) (used : Bool) (c : Expr) (thn : List Expr) (els : Option (List Expr))
  | whileE (id : Nat) (used : Bool) (c : Expr) (body : List Expr)
  | forE (id : Nat) (used : Bool) (dest : Dest) (e : Expr) (body : List Expr)
  | matchE (id : Nat) (used : Bool) (scrut : Expr) (cases : List Case)
  | ret (id : Nat) (used : Bool) (e : Option Expr)
  | brk (id : Nat) (used : Bool)
  | cont (id : Nat) (used : Bool)
  | list (id : Nat) (used : Bool) (items : List Expr)
  | tuple (id : Nat) (used : Bool) (items : List Expr)
  | call (id : Nat) (used : Bool) (recv : Expr) (args : List Expr)
  | lambda (id : Nat) (used : Bool) (params : List String) (body : List Expr)
  | paren (id : Nat) (used : Bool) (e : Expr)
  | invalid (id : Nat) (used : Bool)
  /-- a node kind outside the modelled fragment -/
  | unsup (id : Nat) (used : Bool) (what : String)
/-- One `match` case: variant name, optional payload destination, body. -/
inductive Case where
  | mk (variant : String) (dest : Option Dest) (body : List Expr)
end

instance : Inhabited Expr := ⟨.invalid 0 false⟩

def Expr.id : Expr → Nat
  | .int i _ _ | .str i _ _ | .var i _ _ | .binop i _ _ _ _ | .letE i _ _ _ | .assign i _ _ _
  | .update i _ _ _ _ | .ifE i _ _ _ _ | .whileE i _ _ _ | .forE i _ _ _ _ | .matchE i _ _ _
  | .ret i _ _ | .brk i _ | .cont i _ | .list i _ _ | .tuple i _ _ | .call i _ _ _
  | .lambda i _ _ _ | .paren i _ _ | .invalid i _ | .unsup i _ _ => i

def Expr.used : Expr → Bool
  | .int _ u _ | .str _ u _ | .var _ u _ | .binop _ u _ _ _ | .letE _ u _ _ | .assign _ u _ _
  | .update _ u _ _ _ | .ifE _ u _ _ _ | .whileE _ u _ _ | .forE _ u _ _ _ | .matchE _ u _ _
  | .ret _ u _ | .brk _ u | .cont _ u | .list _ u _ | .tuple _ u _ | .call _ u _ _
  | .lambda _ u _ _ | .paren _ u _ | .invalid _ u | .unsup _ u _ => u

def Expr.isLoop : Expr → Bool
  | .whileE .. | .forE .. => true
  | _ => false

/-- Runtime values of the core fragment. A closure captures the binding blocks of
its defining frame (innermost first, as everywhere in this model). -/
inductive Value where
  | int (v : Int64)
  | str (s : String)
  | list (items : List Value)
  | tuple (items : List Value)
  | enumV (ty : String) (idx : Nat) (payload : Option Value)
  | enumC (ty : String) (idx : Nat)
  | closure (env : List (List (String × Value))) (params : List String) (body : List Expr)
  | fn (name : String)
  | builtin (name : String)

instance : Inhabited Value := ⟨.int 0⟩

abbrev Block := List (String × Value)

def vUnit : Value := .enumV "Unit" 0 none
def vBool (b : Bool) : Value := .enumV "Bool" (if b then 0 else 1) none

def Value.asBool : Value → Option Bool
  | .enumV "Bool" 0 none => some true
  | .enumV "Bool" 1 none => some false
  | _ => none

structure FunDef where
  name : String
  params : List String
  body : List Expr

structure EnumDef where
  name : String
  /-- variant name, has payload -/
  variants : List (String × Bool)

structure Program where
  funs : List FunDef
  enums : List EnumDef
  toplevel : List Expr

def preludeEnums : List EnumDef :=
  [⟨"Bool", [("True", false), ("False", false)]⟩, ⟨"Unit", [("Unit", false)]⟩,
   ⟨"Result", [("Ok", true), ("Err", true)]⟩, ⟨"Option", [("Some", true), ("None", false)]⟩]

def builtinNames : List String := ["println", "print", "string_repr"]

def findVariant (enums : List EnumDef) (name : String) : Option Value :=
  enums.findSome? fun e =>
    match e.variants.findIdx? (fun v => v.1 == name) with
    | none => none
    | some i => match e.variants[i]? with
      | some (_, true) => some (.enumC e.name i)
      | some (_, false) => some (.enumV e.name i none)
      | none => none

/-- Namespace lookup (the frame's namespace `values`): user functions, enum
variants / constructors (user enums shadow nothing here: names are assumed
distinct from the prelude's), built-ins. -/
def nsLookup (p : Program) (name : String) : Option Value :=
  match p.funs.find? (fun f => f.name == name) with
  | some f => some (.fn f.name)
  | none =>
    match findVariant (p.enums ++ preludeEnums) name with
    | some v => some v
    | none => if builtinNames.contains name then some (.builtin name) else none

def variantName (p : Program) (ty : String) (idx : Nat) : String :=
  match (p.enums ++ preludeEnums).find? (fun e => e.name == ty) with
  | some e => match e.variants[idx]? with
    | some (n, _) => n
    | none => "?"
  | none => "?"

/-- `escape_string_literal`. -/
def escapeString (s : String) : String :=
  "\"" ++ String.join (s.toList.map fun c =>
    if c == '"' then "\\\"" else if c == '\n' then "\\n" else if c == '\\' then "\\\\"
    else String.singleton c) ++ "\""

mutual
/-- `Value::display` for the fragment (functions are not displayed by the
programs the correspondence generates). -/
def display (p : Program) : Value → String
  | .int v => toString v.toInt
  | .str s => escapeString s
  | .list items => "[" ++ ", ".intercalate (displayList p items) ++ "]"
  | .tuple items =>
      "(" ++ ", ".intercalate (displayList p items) ++ (if items.length == 1 then "," else "") ++ ")"
  | .enumV ty idx none => variantName p ty idx
  | .enumV ty idx (some v) => variantName p ty idx ++ "(" ++ display p v ++ ")"
  | .enumC ty idx => variantName p ty idx
  | .closure .. => "<closure>"
  | .fn n => "<fun " ++ n ++ ">"
  | .builtin n => n
def displayList (p : Program) : List Value → List String
  | [] => []
  | v :: vs => display p v :: displayList p vs
end

mutual
/-- `PartialEq for Value_` on the fragment (functions compare unequal here; the
generator does not compare them). -/
def valueEq : Value → Value → Bool
  | .int a, .int b => a == b
  | .str a, .str b => a == b
  | .list a, .list b => valueEqList a b
  | .tuple a, .tuple b => valueEqList a b
  | .enumV t1 i1 none, .enumV t2 i2 none => t1 == t2 && i1 == i2
  | .enumV t1 i1 (some a), .enumV t2 i2 (some b) => t1 == t2 && i1 == i2 && valueEq a b
  | .enumC t1 i1, .enumC t2 i2 => t1 == t2 && i1 == i2
  | _, _ => false
def valueEqList : List Value → List Value → Bool
  | [], [] => true
  | a :: as, b :: bs => valueEq a b && valueEqList as bs
  | _, _ => false
end

/-- Runtime error kinds (message shapes of src/eval.rs), with the node the
position refers to where the harness compares it. -/
inductive Err where
  | noSuchVar (name : String)
  | notBound (name : String)
  | typeError (expected : String)
  | arity (expected got : Nat)
  | divZero | divOverflow | modZero | negPow | powTooLarge | powOverflow
  | noMatch | badPattern (name : String) | notEnum
  | tupleSize (expected got : Nat)
  | invalidSyntax
  | interrupted | tickLimit | stackLimit
  deriving Repr, Inhabited, DecidableEq

def Err.toString : Err → String
  | .noSuchVar n => s!"no-such-variable {n}"
  | .notBound n => s!"not-bound {n}"
  | .typeError e => s!"type-error {e}"
  | .arity e g => s!"arity {e} {g}"
  | .divZero => "div-zero" | .divOverflow => "div-overflow" | .modZero => "mod-zero" | .negPow => "neg-pow"
  | .powTooLarge => "pow-too-large" | .powOverflow => "pow-overflow"
  | .noMatch => "no-match" | .badPattern n => s!"bad-pattern {n}" | .notEnum => "not-enum"
  | .tupleSize e g => s!"tuple-size {e} {g}"
  | .invalidSyntax => "invalid-syntax"
  | .interrupted => "interrupted" | .tickLimit => "tick-limit" | .stackLimit => "stack-limit"

inductive FrameKind where
  | toplevel | fn (name : String) | closure
  deriving Repr, Inhabited, DecidableEq

/-- `StackFrame`. Lists are stacks with the TOP AT THE HEAD. -/
structure Frame where
  exprs : List (St × Expr)
  values : List Value
  /-- binding blocks, innermost first; never empty -/
  blocks : List Block
  nextBlock : Block
  callerUses : Bool
  kind : FrameKind
  /-- `caller_expr_id`: the call expression that created this frame -/
  callerId : Option Nat := none

structure State where
  prog : Program
  /-- call stack, current frame first; never empty -/
  frames : List Frame
  ticks : Nat
  out : String
  interrupted : Bool
  tickLimit : Option Nat
  stackLimit : Option Nat
  /-- H3: ticks at which the interrupted flag gets set (model of the environment) -/
  interruptAt : List Nat
  /-- `stop_at_expr_id` (eval-up-to): stop when this node has just been evaluated -/
  stopAt : Option Nat := none

inductive StepResult where
  /-- the loop continues -/
  | cont (s : State)
  /-- `eval` returned `Ok(v)` -/
  | done (s : State) (v : Value)
  /-- `eval` returned `Err(e)`; the state has been restored for `:resume` -/
  | error (s : State) (e : Err)
  /-- the Rust would panic here -/
  | panic (site : String)
  /-- the program left the modelled fragment -/
  | unsupported (what : String)

-- ---------------------------------------------------------------- bindings

def blockSet (b : Block) (name : String) (v : Value) : Block :=
  if b.any (fun kv => kv.1 == name) then b.map (fun kv => if kv.1 == name then (name, v) else kv)
  else b ++ [(name, v)]

/-- `Bindings::get`: innermost block first. -/
def lookupBlocks : List Block → String → Option Value
  | [], _ => none
  | b :: rest, name => match b.find? (fun kv => kv.1 == name) with
    | some kv => some kv.2
    | none => lookupBlocks rest name

/-- `Bindings::add_new`: write the innermost block, ignore `_`. -/
def addNew (blocks : List Block) (name : String) (v : Value) : List Block :=
  if name == "_" then blocks else
  match blocks with
  | [] => []   -- unreachable: "Vec of bindings should always be non-empty"
  | b :: rest => blockSet b name v :: rest

/-- `Bindings::set_existing`: write the innermost block that has the key. -/
def setExisting : List Block → String → Value → Option (List Block)
  | [], _, _ => none
  | b :: rest, name, v =>
    if b.any (fun kv => kv.1 == name) then some (blockSet b name v :: rest)
    else (setExisting rest name v).map (b :: ·)

def getVar (p : Program) (f : Frame) (name : String) : Option Value :=
  match lookupBlocks f.blocks name with
  | some v => some v
  | none => nsLookup p name

-- ---------------------------------------------------------------- integer operators

def i64Min : Int64 := Int64.minValue

/-- `checked_pow` by repeated multiplication on mathematical integers. -/
def checkedPow (a : Int64) (n : Nat) : Option Int64 :=
  let r := a.toInt ^ n
  if r < -(2^63) ∨ r ≥ 2^63 then none else some (Int64.ofInt r)

inductive OpResult where
  | ok (v : Value)
  | err (e : Err)
  | panic (site : String)

/-- `eval_int_binop` on two Int operands (`MIN / -1` raises, `checked_div`). -/
def intBinop (op : BinOp) (a b : Int64) : OpResult :=
  match op with
  | .add => .ok (.int (a + b))
  | .sub => .ok (.int (a - b))
  | .mul => .ok (.int (a * b))
  | .div => if b == 0 then .err .divZero
            else if a == i64Min && b == -1 then .err .divOverflow
            else .ok (.int (a / b))
  | .mod => if b == 0 then .err .modZero
            else if a == i64Min && b == -1 then .err .modZero
            else .ok (.int (Int64.ofInt (a.toInt.emod b.toInt)))
  | .pow => if b < 0 then .err .negPow
            else if b.toInt > 4294967295 then .err .powTooLarge
            else match checkedPow a b.toInt.toNat with
              | some v => .ok (.int v)
              | none => .err .powOverflow
  | .bitand => .ok (.int (a &&& b))
  | .bitor => .ok (.int (a ||| b))
  | .lt => .ok (vBool (a < b))
  | .le => .ok (vBool (a ≤ b))
  | .gt => .ok (vBool (a > b))
  | .ge => .ok (vBool (a ≥ b))
  | _ => .panic "unreachable int binop"

-- ---------------------------------------------------------------- frame helpers

def Frame.pushE (f : Frame) (st : St) (e : Expr) : Frame := { f with exprs := (st, e) :: f.exprs }
def Frame.pushV (f : Frame) (v : Value) : Frame := { f with values := v :: f.values }
def Frame.pushVIf (f : Frame) (c : Bool) (v : Value) : Frame := if c then f.pushV v else f

/-- `eval_block`. -/
def evalBlock (f : Frame) (used : Bool) (body : List Expr) : Frame :=
  let blocks := [] :: f.blocks
  let blocks := f.nextBlock.foldl (fun bs kv => addNew bs kv.1 kv.2) blocks
  let f := { f with blocks := blocks, nextBlock := [],
                    exprs := body.map (fun e => (St.N, e)) ++ f.exprs }
  if used && body.isEmpty then f.pushV vUnit else f

/-- `Bindings::pop_block` (asserts the result is non-empty). -/
def popBlock (f : Frame) : Option Frame :=
  match f.blocks with
  | _ :: b :: rest => some { f with blocks := b :: rest }
  | _ => none

/-- `restore_stack_frame`: push the values in list order, then the entry. -/
def restore (f : Frame) (st : St) (e : Expr) (vals : List Value) : Frame :=
  let f := vals.foldl (fun f v => f.pushV v) f
  f.pushE st e

def setTop (s : State) (f : Frame) : State :=
  match s.frames with
  | [] => s
  | _ :: rest => { s with frames := f :: rest }

/-- Result of dispatching one entry, relative to the current frame. -/
inductive Disp where
  | ok (f : Frame)
  | okOut (f : Frame) (out : String)
  | newFrame (f : Frame) (callee : Frame)
  /-- error with the values to restore and the (possibly updated) state of the entry -/
  | err (f : Frame) (st : St) (restoreVals : List Value) (e : Err)
  | panic (site : String)
  | unsupported (what : String)

/-- `pending_expr_owns_block`: `if` / `match` (and `try`, outside the fragment) push
their continuation in state E just before entering a block; that continuation
pops the block. -/
def ownsBlock (st : St) (e : Expr) : Bool :=
  st == St.E && (match e with | .ifE .. => true | .matchE .. => true | _ => false)

/-- Pop one block, failing like `Bindings::pop_block`'s assertion. -/
def popBlocks1 : List Block → Option (List Block)
  | _ :: b :: bs => some (b :: bs)
  | _ => none

/-- `eval_break`: pop entries until the innermost RUNNING loop, popping the binding block
of every block-owning entry discarded and of a running `while` body. A loop entry in state
N is a later statement of a block being left and is skipped; a `for` in state PW is still
evaluating its iterated value: its index value is dropped and it is skipped. -/
def evalBreakLoop : List (St × Expr) → List Value → List Block →
    Option (List (St × Expr) × List Value × List Block)
  | [], vals, blocks => some ([], vals, blocks)
  | (st, e) :: rest, vals, blocks =>
    match e with
    | .whileE .. =>
      if st == St.N then evalBreakLoop rest vals blocks
      else if st == St.PD then (popBlocks1 blocks).map fun bs => ((St.E, e) :: rest, vals, bs)
      else some ((St.E, e) :: rest, vals, blocks)
    | .forE .. =>
      if st == St.N then evalBreakLoop rest vals blocks
      else if st == St.PW then
        match vals with
        | _ :: vals' => evalBreakLoop rest vals' blocks
        | [] => none   -- "Index used by `for` should be present"
      else
        match vals with
        | _ :: _ :: vals' => some ((St.E, e) :: rest, vals', blocks)
        | _ => none   -- "Value used by `for` should be present"
    | _ =>
      if ownsBlock st e then
        match popBlocks1 blocks with
        | some bs => evalBreakLoop rest vals bs
        | none => none
      else evalBreakLoop rest vals blocks

/-- `eval_continue`: pop entries until a running loop entry, which is pushed back
unchanged; block-owning entries discarded on the way pop their block; loops that have
not started are skipped as in `eval_break`. -/
def evalContinueLoop : List (St × Expr) → List Value → List Block →
    Option (List (St × Expr) × List Value × List Block)
  | [], vals, blocks => some ([], vals, blocks)
  | (st, e) :: rest, vals, blocks =>
    if e.isLoop && st == St.N then evalContinueLoop rest vals blocks
    else if (match e with | .forE .. => true | _ => false) && st == St.PW then
      match vals with
      | _ :: vals' => evalContinueLoop rest vals' blocks
      | [] => none
    else if e.isLoop then some ((st, e) :: rest, vals, blocks)
    else if ownsBlock st e then
      match popBlocks1 blocks with
      | some bs => evalContinueLoop rest vals bs
      | none => none
    else evalContinueLoop rest vals blocks

def popN : Nat → List Value → Option (List Value × List Value)
  | 0, vals => some ([], vals)
  | n + 1, v :: vals => (popN n vals).map fun (got, rest) => (v :: got, rest)
  | _ + 1, [] => none

def bindDest (dest : Dest) (v : Value) : Except Err Block :=
  match dest with
  | .sym n => .ok (if n == "_" then [] else [(n, v)])
  | .destr names =>
    match v with
    | .tuple items =>
      if items.length != names.length then .error (.tupleSize names.length items.length)
      else .ok ((names.zip items).filter (fun kv => kv.1 != "_"))
    | _ => .error (.typeError "Tuple")

/-- The (type, variant index) a pattern's variant symbol denotes. -/
def patKey : Value → Option (String × Nat)
  | .enumV t i _ => some (t, i)
  | .enumC t i => some (t, i)
  | _ => none

/-- Bindings a matching case introduces; `none` = "this variant has been redefined
and previously had/didn't have a payload: ignore the case". -/
def bindPayload : Option Value → Option Dest → Option (Except Err Block)
  | some pl, some (.sym n) => some (.ok (if n == "_" then [] else [(n, pl)]))
  | some pl, some (.destr names) =>
    match pl with
    | .tuple items =>
      if items.length != names.length then some (.error (.tupleSize names.length items.length))
      else some (.ok ((names.zip items).filter (fun kv => kv.1 != "_")))
    | _ => some (.error (.typeError "tuple-payload"))
  | none, none => some (.ok [])
  | _, _ => none

/-- `eval_match_cases` after the scrutinee was popped. -/
def matchCases (s : Program) (f : Frame) (used : Bool) (ty : String) (idx : Nat)
    (payload : Option Value) : List Case → Except Err Frame
  | [] => .error .noMatch
  | .mk variant dest body :: rest =>
    if variant == "_" then .ok (evalBlock f used body) else
    match getVar s f variant with
    | none => .error (.badPattern variant)
    | some pv =>
      match patKey pv with
      | none => .error (.badPattern variant)
      | some (pty, pidx) =>
        if ty == pty && idx == pidx then
          match bindPayload payload dest with
          | some (.ok bs) => .ok (evalBlock { f with nextBlock := bs } used body)
          | some (.error e) => .error e
          | none => matchCases s f used ty idx payload rest
        else matchCases s f used ty idx payload rest

/-- A call whose receiver and arguments are on the value stack (`eval_call`). -/
def evalCall (s : Program) (f : Frame) (callId : Nat) (used : Bool) (nargs : Nat) : Disp :=
  match popN nargs f.values with
  | none => .panic "Popped an empty value for stack for call arguments"
  | some (args, vals) =>
    match vals with
    | [] => .panic "Popped an empty value stack for call receiver"
    | recv :: vals =>
      let f := { f with values := vals }
      -- args[0] is the first argument (last evaluated, first popped)
      let recvFirst := recv :: args.reverse
      match recv with
      | .closure env params body =>
        if params.length != args.length then .err f .E recvFirst (.arity params.length args.length)
        else
          let pblock : Block := (params.zip args).foldl
            (fun b kv => if kv.1 == "_" then b else blockSet b kv.1 kv.2) []
          .newFrame f { exprs := body.map (fun x => (St.N, x)), values := [vUnit],
                        blocks := pblock :: env, nextBlock := [], callerUses := used, kind := .closure,
                        callerId := some callId }
      | .fn name =>
        match s.funs.find? (fun d => d.name == name) with
        | none => .panic "function value without definition"
        | some d =>
          if d.params.length != args.length then .err f .E recvFirst (.arity d.params.length args.length)
          else
            let pblock : Block := (d.params.zip args).foldl
              (fun b kv => if kv.1 == "_" then b else blockSet b kv.1 kv.2) []
            .newFrame f { exprs := d.body.map (fun x => (St.N, x)), values := [vUnit],
                          blocks := [pblock], nextBlock := [], callerUses := used, kind := .fn name,
                          callerId := some callId }
      | .builtin name =>
        if args.length != 1 then .err f .E recvFirst (.arity 1 args.length)
        else match name, args with
          | "println", [.str t] => .okOut (f.pushVIf used vUnit) (t ++ "\n")
          | "print", [.str t] => .okOut (f.pushVIf used vUnit) t
          | "println", _ => .err f .E recvFirst (.typeError "String")
          | "print", _ => .err f .E recvFirst (.typeError "String")
          | "string_repr", [v] => .ok (f.pushVIf used (.str (display s v)))
          | _, _ => .unsupported ("builtin " ++ name)
      | .enumC ty idx =>
        if args.length != 1 then .err f .E recvFirst (.arity 1 args.length)
        else match args with
          | [a] => .ok (f.pushVIf used (.enumV ty idx (some a)))
          | _ => .panic "unreachable"
      | _ => .err f .E recvFirst (.typeError "Function")

/-- `eval_expr`: dispatch on the node and its state. `f` is the current frame
after the entry `(st, e)` was popped. -/
def dispatch (s : Program) (f : Frame) (st : St) (e : Expr) : Disp :=
  let used := e.used
  match e with
  | .int _ _ v => .ok (f.pushVIf used (.int v))
  | .str _ _ t => .ok (f.pushVIf used (.str t))
  | .var _ _ name =>
    match getVar s f name with
    | some v => .ok (f.pushVIf used v)
    | none => .err f st [] (.noSuchVar name)   -- `*expr_state` is left untouched on this path
  | .lambda _ _ params body => .ok (f.pushVIf used (.closure f.blocks params body))
  | .paren _ _ inner => .ok (f.pushE .N inner)
  | .invalid .. => .err f st [] .invalidSyntax
  | .unsup _ _ what => .unsupported what
  | .binop _ _ op l r =>
    if st != .E then .ok (((f.pushE .E e).pushE .N r).pushE .N l)
    else match f.values with
      | rv :: lv :: vals =>
        let f := { f with values := vals }
        match op with
        | .eq => .ok (f.pushVIf used (vBool (valueEq lv rv)))
        | .ne => .ok (f.pushVIf used (vBool (!valueEq lv rv)))
        | .and | .or =>
          match lv.asBool, rv.asBool with
          | none, _ => .err f .E [lv, rv] (.typeError "Bool")
          | some _, none => .err f .E [lv, rv] (.typeError "Bool")
          | some a, some b => .ok (f.pushVIf used (vBool (if op == .and then a && b else a || b)))
        | .concat =>
          match lv, rv with
          | .str a, .str b => .ok (f.pushVIf used (.str (a ++ b)))
          | _, _ => .err f .E [lv, rv] (.typeError "String")
        | .floatOp => .unsupported "float operator"
        | _ =>
          match lv, rv with
          | .int a, .int b =>
            match intBinop op a b with
            | .ok v => .ok (f.pushVIf used v)
            | .err er => .err f .E [lv, rv] er
            | .panic site => .panic site
          | _, _ => .err f .E [lv, rv] (.typeError "Int")
      | _ => .panic "Popped an empty value stack for binary operator"
  | .letE _ _ dest inner =>
    if st != .E then .ok ((f.pushE .E e).pushE .N inner)
    else match f.values with
      | v :: vals =>
        let f := { f with values := vals }
        match dest with
        | .sym n => .ok ({ f with blocks := addNew f.blocks n v }.pushVIf used vUnit)
        | .destr names =>
          match v with
          | .tuple items =>
            if items.length != names.length then .err f .E [v] (.tupleSize names.length items.length)
            else .ok ({ f with blocks := (names.zip items).foldl (fun bs (kv : String × Value) => addNew bs kv.1 kv.2) f.blocks }.pushVIf used vUnit)
          | _ => .err f .E [v] (.typeError "Tuple")
      | [] => .panic "Popped an empty value stack for let value"
  | .assign _ _ name inner =>
    if st != .E then .ok ((f.pushE .E e).pushE .N inner)
    else if (lookupBlocks f.blocks name).isNone then .err f .E [] (.notBound name)
    else match f.values with
      | v :: vals =>
        match setExisting f.blocks name v with
        | some bs => .ok ({ f with values := vals, blocks := bs }.pushVIf used vUnit)
        | none => .panic "unreachable set_existing"
      | [] => .panic "Popped an empty value stack for let value"
  | .update _ _ isAdd name inner =>
    if st != .E then .ok ((f.pushE .E e).pushE .N inner)
    else match getVar s f name with
      | none => .err f .E [] (.notBound name)
      | some (.int cur) =>
        match f.values with
        | rv :: vals =>
          let f := { f with values := vals }
          match rv with
          | .int d =>
            let r : Int64 := if isAdd then cur + d else cur - d   -- wrapping_add / wrapping_sub
            match setExisting f.blocks name (.int r) with
              | some bs => .ok ({ f with blocks := bs }.pushVIf used vUnit)
              | none => .panic "unreachable set_existing"
          | _ => .err f .E [rv] (.typeError "Int")
        | [] => .panic "Popped an empty value stack for update"
      | some _ => .err f .E [] (.typeError "Int")
  | .ret _ _ inner =>
    if st == .E then .ok { f with exprs := [] }
    else match inner with
      | some x => .ok ((f.pushE .E e).pushE .N x)
      | none => .ok ((f.pushE .E e).pushV vUnit)
  | .list _ _ items =>
    if st != .E then .ok (items.foldl (fun f x => f.pushE .N x) (f.pushE .E e))
    else match popN items.length f.values with
      | some (got, vals) => .ok ({ f with values := vals }.pushVIf used (.list got))
      | none => .panic "Value stack should have sufficient items for the list literal"
  | .tuple _ _ items =>
    if st != .E then .ok (items.foldl (fun f x => f.pushE .N x) (f.pushE .E e))
    else match popN items.length f.values with
      | some (got, vals) => .ok ({ f with values := vals }.pushVIf used (.tuple got))
      | none => .panic "Value stack should have sufficient items for the tuple literal"
  | .call _ _ recv args =>
    match st with
    | .N => .ok ((f.pushE .PN e).pushE .N recv)
    | .E => evalCall s f e.id used args.length
    | _ => .ok (args.foldl (fun f x => f.pushE .N x) (f.pushE .E e))
  | .ifE _ _ c thn els =>
    match st with
    | .N => .ok ((f.pushE .PW e).pushE .N c)
    | .E =>
      match popBlock f with
      | none => .panic "pop_block: bindings empty"
      | some f => .ok (f.pushVIf (used && els.isNone) vUnit)
    | _ =>
      -- the continuation is pushed before `eval_if`; on an error it is popped again, so the
      -- restored state is the state before the step
      match f.values with
      | cv :: vals =>
        let f0 := { f with values := vals }
        match cv.asBool with
        | none => .err f0 st [cv] (.typeError "Bool")
        | some b =>
          let f := f0.pushE .E e
          let branchUsed := used && els.isSome
          if b then .ok (evalBlock f branchUsed thn)
          else match els with
            | some eb => .ok (evalBlock f branchUsed eb)
            | none => .ok { f with blocks := [] :: f.blocks }
      | [] => .panic "Popped an empty value stack for if condition"
  | .whileE _ _ c body =>
    match st with
    | .N => .ok ((f.pushE .PW e).pushE .N c)
    | .PW =>
      match f.values with
      | cv :: vals =>
        let f := { f with values := vals }
        match cv.asBool with
        | none => .err f st [cv] (.typeError "Bool")
        | some true => .ok (evalBlock (f.pushE .PD e) false body)
        | some false => .ok ((f.pushE .E e).pushVIf used vUnit)
      | [] => .panic "Popped an empty value stack for while loop"
    | .PD =>
      match popBlock f with
      | none => .panic "pop_block: bindings empty"
      | some f => .ok ((f.pushE .PW e).pushE .N c)
    | .PN => .panic "unreachable: While in NotBlock"
    | .E => .ok f
  | .forE _ _ dest iter body =>
    match st with
    | .N => .ok (((f.pushV (.int 0)).pushE .PW e).pushE .N iter)
    | .PW =>
      match f.values with
      | iv :: idxv :: vals =>
        let f := { f with values := vals }
        match idxv with
        | .int idx =>
          match iv with
          | .list items =>
            if idx.toInt.toNat ≥ items.length ∨ idx.toInt < 0 then
              .ok (({ f with blocks := [] :: f.blocks }.pushE .E e).pushVIf used vUnit)
            else
              match items[idx.toInt.toNat]? with
              | none => .panic "unreachable index"
              | some elem =>
                match bindDest dest elem with
                -- `undo_for_in_pushes`: the continuation and the two values pushed for the next
                -- iteration are removed again; index and iterated value are restored
                | .error er => .err f st [idxv, iv] er
                | .ok bs =>
                  let f := f.pushE .PD e
                  let f := (f.pushV (.int (idx + 1))).pushV iv
                  .ok (evalBlock { f with nextBlock := bs } false body)
          | _ => .err f st [idxv, iv] (.typeError "List")
        | _ => .panic "`for` loop index should always be an `Int`"
      | _ => .panic "Popped an empty value stack for `for` loop"
    | .PD =>
      match popBlock f with
      | none => .panic "pop_block: bindings empty"
      | some f => .ok (f.pushE .PW e)
    | .PN => .panic "unreachable: ForIn in NotBlock"
    | .E =>
      match popBlock f with
      | none => .panic "pop_block: bindings empty"
      | some f => .ok f
  | .matchE _ _ scrut cases =>
    match st with
    | .N => .ok ((f.pushE .PW e).pushE .N scrut)
    | .E =>
      match popBlock f with
      | none => .panic "pop_block: bindings empty"
      | some f => .ok f
    | _ =>
      match f.values with
      | sv :: vals =>
        -- on any error of `eval_match_cases` the continuation is popped again and the
        -- scrutinee is put back
        let f0 := { f with values := vals }
        match sv with
        | .enumV ty idx payload =>
          match matchCases s (f0.pushE .E e) used ty idx payload cases with
          | .ok f => .ok f
          | .error er => .err f0 st [sv] er
        | _ => .err f0 st [sv] .notEnum
      | [] => .panic "Popped an empty value stack for match"
  | .brk .. =>
    match evalBreakLoop f.exprs f.values f.blocks with
    | none => .panic "eval_break: value or block stack underflow"
    | some (exprs, vals, blocks) =>
      -- "Loops always evaluate to unit": the value pushed is the LOOP's (re-pushed in state E
      -- at the head by evalBreakLoop), so it is pushed iff the loop's value is used
      let loopUsed := match exprs with | (_, l) :: _ => l.isLoop && l.used | [] => false
      .ok ({ f with exprs := exprs, values := vals, blocks := blocks }.pushVIf loopUsed vUnit)
  | .cont .. =>
    match evalContinueLoop f.exprs f.values f.blocks with
    | none => .panic "eval_continue: value or block stack underflow"
    | some (exprs, vals, blocks) => .ok { f with exprs := exprs, values := vals, blocks := blocks }

def limitReached : Option Nat → Nat → Bool
  | some l, n => decide (n ≥ l)
  | none, _ => false

def limitExceeded : Option Nat → Nat → Bool
  | some l, n => decide (n > l)
  | none, _ => false

/-- Does `eval_expr` leave the entry's state at `EvaluatedSubexpressions`
(`expr_state.done_subexpressions()` after the call)? Leaves set it themselves. -/
def doneSub (st : St) (e : Expr) : Bool :=
  st == St.E || (match e with
    | .int .. | .str .. | .var .. | .lambda .. | .brk .. | .cont .. => true
    | _ => false)

/-- The `stop_at_expr_id` test after a successful `eval_expr`. -/
def stopCheck (s' : State) (f' : Frame) (st : St) (e : Expr) : StepResult :=
  if s'.stopAt == some e.id then
    if doneSub st e then
      match f'.values with
      | v :: _ => .done s' v
      | [] => .done s' (.str "__ERROR: no expressions evaluated. This is a bug.")
    else if (match e with | .forE .. => true | _ => false) && (st == St.PW || st == St.PD || st == St.PN) then
      .done s' vUnit
    else .cont s'
  else .cont s'

/-- One iteration of the loop in `eval`. -/
def step (s : State) : StepResult :=
  match s.frames with
  | [] => .panic "empty call stack"
  | f :: callers =>
    match f.exprs with
    | (st, e) :: restExprs =>
      let f := { f with exprs := restExprs }
      let ticks := s.ticks + 1
      let interrupted := s.interrupted || s.interruptAt.contains ticks
      let s := { s with ticks := ticks, interrupted := interrupted }
      if interrupted then
        .error (setTop { s with interrupted := false } (restore f st e [])) .interrupted
      else if limitReached s.tickLimit ticks then
        .error (setTop s (restore f st e [])) .tickLimit
      else if limitExceeded s.stackLimit s.frames.length then
        .error (setTop s (restore f st e [])) .stackLimit
      else
        match dispatch s.prog f st e with
        | .ok f' => stopCheck (setTop s f') f' st e
        | .okOut f' o => stopCheck (setTop { s with out := s.out ++ o } f') f' st e
        | .newFrame f' callee => .cont { s with frames := callee :: f' :: callers }
        | .err f' st' vals er => .error (setTop s (restore f' st' e vals)) er
        | .panic site => .panic site
        | .unsupported w => .unsupported w
    | [] =>
      match callers with
      | [] =>
        -- the loop ends; `eval` returns `pop_value`
        match f.values with
        | v :: vals => .done (setTop s { f with values := vals }) v
        | [] => .panic "Should have a value from the last expression"
      | caller :: rest =>
        match f.values with
        | [] => .panic "Should have a value"
        | rv :: _ =>
          -- "We've just finished evaluating a call and we were requested to stop at this call"
          if f.callerId.isSome && s.stopAt == f.callerId then .done { s with frames := caller :: rest } rv
          else
          let caller := if f.callerUses then caller.pushV rv else caller
          .cont { s with frames := caller :: rest }

def initFrame (exprs : List Expr) : Frame :=
  { exprs := exprs.map (fun e => (St.N, e)), values := [vUnit], blocks := [[]], nextBlock := [],
    callerUses := true, kind := .toplevel }

def init (p : Program) (interruptAt : List Nat) (tickLimit stackLimit : Option Nat) : State :=
  { prog := p, frames := [initFrame p.toplevel], ticks := 0, out := "", interrupted := false,
    tickLimit := tickLimit, stackLimit := stackLimit, interruptAt := interruptAt }

end Machine
