import GardenVerif.Model.Machine
import GardenVerif.Model.TestRunner
import GardenVerif.Lemmas.TestRunner
/-!
Helper lemmas for C25 (Props/C25.lean): what ONE `Machine.step` does to the tick counter, the
call-stack depth and the configured limits, and the bounded iteration `runN`.

Shape of a continuing step (`step_cont_shape`): either the step popped an entry — then it ticked
(`ticks' = ticks + 1`), the tick limit was not reached (`ticks' < L`), the stack check passed
(`frames.length ≤ D`) and the call stack grew by at most one frame — or it was a frame return:
no tick, one frame fewer. Limits, program, `interruptAt`, `stopAt` never change.
-/
set_option linter.unusedVariables false
set_option linter.unusedSimpArgs false
namespace MachineTicks
open Machine

/-- The run is over: `eval` returned (value or error), or the Rust would panic, or the program left
the modelled fragment. -/
def StepResult.isTerminal : StepResult → Bool
  | .cont _ => false
  | _ => true

/-- Iterate `step` at most `n` times; stop at the first result that is not `cont`. -/
def runN : Nat → State → StepResult
  | 0, s => .cont s
  | n + 1, s =>
    match step s with
    | .cont s' => runN n s'
    | r => r

/-- Fields of the state that no step changes. -/
def SameConfig (s s' : State) : Prop :=
  s'.prog = s.prog ∧ s'.tickLimit = s.tickLimit ∧ s'.stackLimit = s.stackLimit ∧
  s'.interruptAt = s.interruptAt ∧ s'.stopAt = s.stopAt

theorem setTop_config (s : State) (f : Frame) : SameConfig s (setTop s f) := by
  unfold setTop SameConfig; split <;> simp

theorem setTop_ticks (s : State) (f : Frame) : (setTop s f).ticks = s.ticks := by
  unfold setTop; split <;> rfl

theorem setTop_frames_length (s : State) (f : Frame) : (setTop s f).frames.length = s.frames.length := by
  unfold setTop; split <;> simp_all

theorem stopCheck_cont (a s' : State) (f : Frame) (st : St) (e : Expr)
    (h : stopCheck a f st e = .cont s') : s' = a := by
  unfold stopCheck at h
  repeat' split at h
  all_goals simp at h
  all_goals exact h.symm

/-- A ticking step: popped an entry, limits checked; a returning step: no tick, one frame fewer. -/
def ContShape (s s' : State) : Prop :=
  (s'.ticks = s.ticks + 1 ∧ limitReached s.tickLimit (s.ticks + 1) = false ∧
     limitExceeded s.stackLimit s.frames.length = false ∧
     s.frames.length ≤ s'.frames.length ∧ s'.frames.length ≤ s.frames.length + 1) ∨
  (s'.ticks = s.ticks ∧ s'.frames.length + 1 = s.frames.length)

theorem step_cont_shape (s s' : State) (h : step s = .cont s') : SameConfig s s' ∧ ContShape s s' := by
  unfold step at h
  match hf : s.frames with
  | [] => simp [hf] at h
  | f :: callers =>
    simp only [hf] at h
    match he : f.exprs with
    | [] =>
      simp only [he] at h
      match callers with
      | [] => cases hv : f.values <;> simp [hv] at h
      | caller :: rest =>
        cases hv : f.values <;> simp [hv] at h
        split at h
        · simp at h
        · simp at h
          subst h
          exact ⟨by simp [SameConfig], Or.inr (by simp [hf])⟩
    | (st, e) :: restE =>
      simp only [he] at h
      split at h
      · simp at h
      · rename_i hint
        split at h
        · simp at h
        · rename_i htl
          split at h
          · simp at h
          · rename_i hsl
            simp only [Bool.not_eq_true] at htl hsl
            rw [← hf] at hsl
            have key : ∀ (a : State), a.ticks = s.ticks + 1 → a.frames = s.frames → SameConfig s a →
                ∀ f', SameConfig s (setTop a f') ∧ ContShape s (setTop a f') := by
              intro a ht hfr hc f'
              have := setTop_config a f'
              refine ⟨⟨this.1.trans hc.1, this.2.1.trans hc.2.1, this.2.2.1.trans hc.2.2.1,
                this.2.2.2.1.trans hc.2.2.2.1, this.2.2.2.2.trans hc.2.2.2.2⟩, Or.inl ?_⟩
              rw [setTop_ticks, setTop_frames_length, hfr, ht]
              exact ⟨rfl, htl, hsl, Nat.le_refl _, Nat.le_succ _⟩
            split at h
            · have h := stopCheck_cont _ _ _ _ _ h
              subst h
              exact key _ rfl (by simp [hf]) (by simp [SameConfig]) _
            · have h := stopCheck_cont _ _ _ _ _ h
              subst h
              exact key _ rfl (by simp [hf]) (by simp [SameConfig]) _
            · simp at h
              subst h
              refine ⟨by simp [SameConfig], Or.inl ⟨rfl, htl, hsl, ?_, ?_⟩⟩ <;> simp [hf]
            all_goals simp at h

theorem runN_terminal_mono (n : Nat) : ∀ (s : State), StepResult.isTerminal (runN n s) = true →
    StepResult.isTerminal (runN (n + 1) s) = true := by
  induction n with
  | zero => intro s h; simp [runN, StepResult.isTerminal] at h
  | succ n ih =>
    intro s h
    unfold runN at h ⊢
    split
    · rename_i s' hs; simp only [hs] at h; exact ih s' h
    · rename_i r hr
      split at h
      · rename_i s' hs; exact absurd hs (hr s')
      · exact h

theorem runN_terminal_le (n m : Nat) (hnm : n ≤ m) (s : State)
    (h : StepResult.isTerminal (runN n s) = true) : StepResult.isTerminal (runN m s) = true := by
  induction hnm with
  | refl => exact h
  | step _ ih => exact runN_terminal_mono _ _ ih

/-- The potential that every continuing step strictly decreases: two units per remaining tick
(one for the ticking step itself, one to pay for the return of the frame it may push) plus one
unit per frame currently on the call stack. -/
def potential (L : Nat) (s : State) : Nat := 2 * (L - s.ticks) + s.frames.length

theorem potential_decreases (L : Nat) (s s' : State) (hL : s.tickLimit = some L)
    (h : step s = .cont s') : potential L s' < potential L s := by
  obtain ⟨_, hs⟩ := step_cont_shape s s' h
  unfold potential
  rcases hs with ⟨ht, hlim, _, _, hlen⟩ | ⟨ht, hlen⟩
  · simp [hL, limitReached] at hlim
    omega
  · omega

-- ------------------------------------------------------------------ the test runner (many evaluations, ONE budget)

open TestRunner in
/-- One iteration of the evaluator loop with ANY dispatch function: the tick counter grows by at
most one. -/
theorem stepWith_ticks (d : Program → Frame → St → Expr → Disp) (s s' : State)
    (h : stateOf (stepWith d s) = some s') : s'.ticks ≤ s.ticks + 1 := by
  unfold stepWith at h
  match hf : s.frames with
  | [] => simp [hf, stateOf] at h
  | f :: callers =>
    simp only [hf] at h
    match he : f.exprs with
    | [] =>
      simp only [he] at h
      cases callers with
      | nil =>
        cases hv : f.values <;> simp [hv, stateOf] at h
        subst h; simp [setTop_ticks]
      | cons caller rest =>
        cases hv : f.values with
        | nil => simp [hv, stateOf] at h
        | cons v vs =>
          simp only [hv] at h
          split at h <;> simp [stateOf] at h <;> subst h <;> simp
    | (st, e) :: rest =>
      simp only [he] at h
      split at h
      · simp [stateOf] at h; subst h; simp [setTop_ticks]
      · split at h
        · simp [stateOf] at h; subst h; simp [setTop_ticks]
        · split at h
          · simp [stateOf] at h; subst h; simp [setTop_ticks]
          · split at h <;> (try rw [stopCheck_state] at h) <;> simp [stateOf] at h <;> subst h <;>
              simp [setTop_ticks]

open TestRunner in
/-- A continuing iteration either did not tick (frame return) or ticked and stayed below the limit. -/
theorem stepWith_cont_ticks (d : Program → Frame → St → Expr → Disp) (s s' : State)
    (h : stepWith d s = .cont s') : s'.ticks = s.ticks ∨
      (s'.ticks = s.ticks + 1 ∧ limitReached s.tickLimit (s.ticks + 1) = false) := by
  unfold stepWith at h
  match hf : s.frames with
  | [] => simp [hf] at h
  | f :: callers =>
    simp only [hf] at h
    match he : f.exprs with
    | [] =>
      simp only [he] at h
      cases callers with
      | nil => cases hv : f.values <;> simp [hv] at h
      | cons caller rest =>
        cases hv : f.values with
        | nil => simp [hv] at h
        | cons v vs =>
          simp only [hv] at h
          split at h <;> simp at h
          subst h; simp
    | (st, e) :: rest =>
      simp only [he] at h
      split at h
      · simp at h
      · split at h
        · simp at h
        · rename_i hl
          simp only [Bool.not_eq_true] at hl
          split at h
          · simp at h
          · right
            split at h
            · have h := stopCheck_cont _ _ _ _ _ h; subst h; simp [setTop_ticks, hl]
            · have h := stopCheck_cont _ _ _ _ _ h; subst h; simp [setTop_ticks, hl]
            · simp at h; subst h; simp [hl]
            all_goals simp at h

open TestRunner in
/-- A whole evaluation (`eval`: any number of loop iterations) under tick limit `L` ends — or
runs out of the model's fuel — with `ticks ≤ max (ticks₀ + 1) L`, and never changes the limit. -/
theorem runWith_ticks (d : Program → Frame → St → Expr → Disp) (L : Nat) : ∀ (n : Nat) (s : State),
    s.tickLimit = some L →
    match runWith d n s with
    | .done s' _ | .error s' _ | .outOfFuel s' => s'.ticks ≤ max (s.ticks + 1) L ∧ s'.tickLimit = some L
    | _ => True := by
  intro n
  induction n with
  | zero => intro s hL; simp [runWith, hL]; omega
  | succ n ih =>
    intro s hL
    unfold runWith
    cases hstep : stepWith d s with
    | cont s1 =>
      simp only
      have hst := stepWith_static d s s1 (by simp [hstep, stateOf])
      have ht := stepWith_cont_ticks d s s1 hstep
      have hL1 : s1.tickLimit = some L := hst.tl.trans hL
      have := ih s1 hL1
      cases hr : runWith d n s1 <;> simp only [hr] at this ⊢ <;> try trivial
      all_goals (
        refine ⟨?_, this.2⟩
        rcases ht with ht | ⟨ht, hlim⟩
        · rw [ht] at this; exact this.1
        · simp [hL, limitReached] at hlim
          have := this.1
          omega)
    | done s1 v =>
      simp only
      have hst := stepWith_static d s s1 (by simp [hstep, stateOf])
      have ht := stepWith_ticks d s s1 (by simp [hstep, stateOf])
      exact ⟨by omega, hst.tl.trans hL⟩
    | error s1 e =>
      simp only
      have hst := stepWith_static d s s1 (by simp [hstep, stateOf])
      have ht := stepWith_ticks d s s1 (by simp [hstep, stateOf])
      exact ⟨by omega, hst.tl.trans hL⟩
    | panic site => simp
    | unsupported w => simp

open TestRunner in
theorem evalWith_ticks (d : Program → Frame → St → Expr → Disp) (L : Nat) (n : Nat) (s : State)
    (hL : s.tickLimit = some L) :
    match evalWith d n s with
    | .done s' _ | .error s' _ | .outOfFuel s' => s'.ticks ≤ max (s.ticks + 1) L ∧ s'.tickLimit = some L
    | _ => True := by
  have key : evalWith d n s = runWith d n s ∨ evalWith d n s = .done s vUnit := by
    unfold evalWith
    split
    · split
      · exact Or.inr rfl
      · exact Or.inl rfl
    · exact Or.inl rfl
  rcases key with k | k
  · rw [k]; exact runWith_ticks d L n s hL
  · rw [k]; simp only; exact ⟨by omega, hL⟩

open TestRunner in
theorem popToToplevel_ticks (s : State) :
    (popToToplevel s).ticks = s.ticks ∧ (popToToplevel s).tickLimit = s.tickLimit := by
  unfold popToToplevel; split <;> simp

/-- The state `eval_tests` leaves when it returns normally. -/
def finishedState : TestRunner.Outcome → Option State
  | .finished _ s => some s
  | _ => none

open TestRunner in
theorem finishedState_cons (x : String × Verdict) (o : Outcome) :
    finishedState (o.cons x) = finishedState o := by
  cases o <;> rfl

open TestRunner in
/-- **One budget for the whole test run.** `eval_tests` over ANY list of tests, with any dispatch
function, from a state with tick limit `L`: when it returns, the tick counter is at most
`max ticks₀ L + #tests` (each test started after the budget is exhausted costs exactly the one tick
on which the limit check fires), and the limit is still `L`. -/
theorem runTestsWith_ticks (d : Program → Frame → St → Expr → Disp) (fuel L : Nat) :
    ∀ (ts : List TestDef) (s s' : State), s.tickLimit = some L →
    finishedState (runTestsWith d fuel s ts) = some s' →
    s'.ticks ≤ max s.ticks L + ts.length ∧ s'.tickLimit = some L := by
  intro ts
  induction ts with
  | nil => intro s s' hL h; simp [runTestsWith, finishedState] at h; subst h; simp [hL]; omega
  | cons t ts ih =>
    intro s s' hL h
    unfold runTestsWith at h
    have hev := evalWith_ticks d L fuel (pushTestFrame s t) (by simpa [pushTestFrame] using hL)
    have hpt : (pushTestFrame s t).ticks = s.ticks := rfl
    cases hr : evalWith d fuel (pushTestFrame s t) with
    | done s1 v =>
      simp only [hr] at h hev
      rw [finishedState_cons] at h
      have hp := popToToplevel_ticks s1
      have := ih (popToToplevel s1) s' (hp.2.trans hev.2) h
      rw [hp.1] at this
      refine ⟨?_, this.2⟩
      have h1 := this.1; have h2 := hev.1
      simp only [List.length_cons]; omega
    | error s1 e =>
      simp only [hr] at h hev
      have hp := popToToplevel_ticks s1
      cases hc : classifyErr e <;> simp only [hc] at h
      case interrupted =>
        simp [finishedState] at h; subst h
        refine ⟨?_, hev.2⟩
        have h2 := hev.1
        simp only [List.length_cons]; omega
      all_goals (
        rw [finishedState_cons] at h
        have := ih (popToToplevel s1) s' (hp.2.trans hev.2) h
        rw [hp.1] at this
        refine ⟨?_, this.2⟩
        have h1 := this.1; have h2 := hev.1
        simp only [List.length_cons]; omega)
    | panic site => simp [hr, finishedState] at h
    | unsupported w => simp [hr, finishedState] at h
    | outOfFuel s1 => simp [hr, finishedState] at h

end MachineTicks
