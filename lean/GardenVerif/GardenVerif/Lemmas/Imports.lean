import GardenVerif.Model.Imports
/-!
Lemmas about the loader model (M12): the termination measure (project files not yet in
`paths_seen`), the bound on the number of recursive loads, and the visibility invariants.
-/
set_option linter.unusedVariables false

namespace Imports

/-! ## The measure: project entries whose path is not in `paths_seen` -/

def unseen : Project → List String → Nat
  | [], _ => 0
  | (k, _) :: rest, seen => (if seen.contains k then 0 else 1) + unseen rest seen

theorem unseen_nil (proj : Project) : unseen proj [] = proj.length := by
  induction proj with
  | nil => rfl
  | cons kv rest ih => obtain ⟨k, v⟩ := kv; simp [unseen, ih]; omega

theorem unseen_cons_le (proj : Project) (p : String) (s : List String) :
    unseen proj (p :: s) ≤ unseen proj s := by
  induction proj with
  | nil => simp [unseen]
  | cons kv rest ih =>
    obtain ⟨k, v⟩ := kv
    simp only [unseen, List.contains_cons]
    by_cases h1 : s.contains k = true <;> by_cases h2 : (k == p) = true <;> simp_all <;> omega

theorem unseen_cons_lt (proj : Project) (p : String) (s : List String) (v : List Item)
    (hl : alookup proj p = some v) (hs : s.contains p = false) :
    unseen proj (p :: s) + 1 ≤ unseen proj s := by
  induction proj with
  | nil => simp [alookup] at hl
  | cons kv rest ih =>
    obtain ⟨k, w⟩ := kv
    simp only [unseen, List.contains_cons]
    by_cases hk : (k == p) = true
    · have : k = p := by simpa using hk
      subst this
      have := unseen_cons_le rest k s
      rw [hs]; simp; omega
    · have hk' : (k == p) = false := by simpa using hk
      simp only [alookup, hk'] at hl
      have := ih hl
      simp [hk']; omega

/-- The transition measure: the ghost call counter only grows, and every recursive load is paid
for by one project file leaving the unseen set. -/
def Meas (proj : Project) (st st' : St) : Prop :=
  st.calls ≤ st'.calls ∧ unseen proj st'.seen + st'.calls ≤ unseen proj st.seen + st.calls

theorem Meas.refl (proj : Project) (st : St) : Meas proj st st := ⟨Nat.le_refl _, Nat.le_refl _⟩

theorem Meas.trans {proj : Project} {a b c : St} (h1 : Meas proj a b) (h2 : Meas proj b c) :
    Meas proj a c := ⟨Nat.le_trans h1.1 h2.1, by have := h1.2; have := h2.2; omega⟩

theorem Meas.unseen_le {proj : Project} {a b : St} (h : Meas proj a b) :
    unseen proj b.seen ≤ unseen proj a.seen := by have := h.1; have := h.2; omega

/-- Same `paths_seen` and call counter. -/
def SameSC (st st' : St) : Prop := st'.seen = st.seen ∧ st'.calls = st.calls

theorem SameSC.meas {proj : Project} {st st' : St} (h : SameSC st st') : Meas proj st st' := by
  unfold Meas; rw [h.1, h.2]; exact ⟨Nat.le_refl _, Nat.le_refl _⟩

theorem sameSC_setNs (st : St) (p : String) (ns : Ns) : SameSC st (st.setNs p ns) := ⟨rfl, rfl⟩

theorem sameSC_ensureNs (st : St) (p : String) : SameSC st (st.ensureNs p) := by
  unfold St.ensureNs; split
  · exact ⟨rfl, rfl⟩
  · exact ⟨rfl, rfl⟩

theorem sameSC_addType (st : St) (c n : String) (k : TKind) (b : Bool) : SameSC st (st.addType c n k b) :=
  ⟨rfl, rfl⟩

theorem sameSC_addMethod (st : St) (r n : String) (mi : MInfo) : SameSC st (st.addMethod r n mi) := by
  unfold St.addMethod; split
  · exact ⟨rfl, rfl⟩
  · exact ⟨rfl, rfl⟩

theorem sameSC_addFun (st : St) (c : String) (b : Bool) (n : String) (t : Nat) (body : Option Probe) :
    SameSC st (st.addFun c b n t body) := ⟨rfl, rfl⟩

theorem sameSC_insertVariants (c : String) (items : List Item) (st : St) :
    SameSC st (insertVariants c items st) := ⟨rfl, rfl⟩

theorem sameSC_insertPlaceholder (a : Option String) (c p : String) (st : St) :
    SameSC st (insertPlaceholder a c p st) := by
  unfold insertPlaceholder; split
  · exact ⟨rfl, rfl⟩
  · exact ⟨rfl, rfl⟩

theorem insertImported_spec (cfg : Cfg) (a : Option String) (c p : String) (st : St) :
    insertImported cfg a c p st ≠ .outOfFuel ∧
    ∀ st', insertImported cfg a c p st = .ok st' → SameSC st st' := by
  cases a with
  | some a =>
    simp only [insertImported]
    exact ⟨by simp, fun st' h => by cases h; exact ⟨rfl, rfl⟩⟩
  | none =>
    simp only [insertImported]
    split
    · exact ⟨by simp, fun st' h => by cases h⟩
    · exact ⟨by simp, fun st' h => by cases h; exact ⟨rfl, rfl⟩⟩

/-- What the recursion hypothesis says about a loader for nested files. -/
def RecOK (proj : Project) (m : Nat) (recLoad : String → St → Out St) : Prop :=
  ∀ q st, unseen proj st.seen < m →
    recLoad q st ≠ .outOfFuel ∧ ∀ st', recLoad q st = .ok st' → Meas proj st st'

theorem stepItem_spec (cfg : Cfg) (proj : Project) (m : Nat) (recLoad : String → St → Out St)
    (hrec : RecOK proj m recLoad) (cur : String) (it : Item) (st : St)
    (hm : unseen proj st.seen ≤ m) :
    stepItem cfg proj recLoad cur it st ≠ .outOfFuel ∧
    ∀ st', stepItem cfg proj recLoad cur it st = .ok st' → Meas proj st st' := by
  cases it with
  | fn pub name tag body =>
    refine ⟨by simp [stepItem], ?_⟩
    intro st' h; simp only [stepItem] at h; cases h; exact (sameSC_addFun ..).meas
  | meth pub recv name tag =>
    refine ⟨by simp [stepItem], ?_⟩
    intro st' h; simp only [stepItem] at h; cases h; exact (sameSC_addMethod ..).meas
  | struct pub name =>
    refine ⟨by simp [stepItem], ?_⟩
    intro st' h; simp only [stepItem] at h; cases h; exact (sameSC_addType ..).meas
  | «enum» pub name vs =>
    refine ⟨by simp [stepItem], ?_⟩
    intro st' h; simp only [stepItem] at h; cases h; exact (sameSC_addType ..).meas
  | imp path alias =>
    simp only [stepItem]
    by_cases hseen : st.seen.contains path = true
    · simp only [hseen, if_true]
      split
      · have := insertImported_spec cfg alias cur path st
        exact ⟨this.1, fun st' h => (this.2 st' h).meas⟩
      · split
        · refine ⟨by simp, ?_⟩
          intro st' h; cases h
        · refine ⟨by simp, ?_⟩
          intro st' h; cases h; exact (sameSC_insertPlaceholder ..).meas
    · have hseen' : st.seen.contains path = false := by simpa using hseen
      simp only [hseen', Bool.false_eq_true, if_false]
      split
      · -- unreadable file
        refine ⟨by simp, ?_⟩
        intro st' h; cases h
        have hs := sameSC_insertPlaceholder alias cur path
          { st with seen := path :: st.seen, diags := st.diags ++ [path] }
        have hle := unseen_cons_le proj path st.seen
        unfold Meas; rw [hs.1, hs.2]; simp; exact hle
      · rename_i items hl
        have hlt := unseen_cons_lt proj path st.seen items hl hseen'
        have hr := hrec path { st with seen := path :: st.seen, calls := st.calls + 1 }
          (by simp; omega)
        split
        · rename_i st1 h1
          have hm1 := hr.2 st1 h1
          have hi := insertImported_spec cfg alias cur path st1
          refine ⟨hi.1, ?_⟩
          intro st' h
          have hs := hi.2 st' h
          unfold Meas at hm1 ⊢
          simp at hm1
          rw [hs.1, hs.2]; omega
        · refine ⟨by simp, ?_⟩
          intro st' h; cases h
        · rename_i h1
          exact absurd h1 hr.1

theorem loadItems_spec (proj : Project) (m : Nat) (step : Item → St → Out St)
    (hstep : ∀ it st, unseen proj st.seen ≤ m →
      step it st ≠ .outOfFuel ∧ ∀ st', step it st = .ok st' → Meas proj st st') :
    ∀ (items : List Item) (st : St), unseen proj st.seen ≤ m →
      loadItems step items st ≠ .outOfFuel ∧
      ∀ st', loadItems step items st = .ok st' → Meas proj st st' := by
  intro items
  induction items with
  | nil =>
    intro st hm
    refine ⟨by simp [loadItems], ?_⟩
    intro st' h; simp only [loadItems] at h; cases h; exact Meas.refl _ _
  | cons it rest ih =>
    intro st hm
    have hs := hstep it st hm
    simp only [loadItems]
    split
    · rename_i st1 h1
      have hm1 := hs.2 st1 h1
      have hr := ih st1 (Nat.le_trans hm1.unseen_le hm)
      exact ⟨hr.1, fun st' h => hm1.trans (hr.2 st' h)⟩
    · refine ⟨by simp, ?_⟩
      intro st' h; cases h
    · rename_i h1
      exact absurd h1 hs.1

theorem loadFile_spec (cfg : Cfg) (proj : Project) :
    ∀ n, RecOK proj n (loadFile cfg proj n) := by
  intro n
  induction n with
  | zero => intro q st h; omega
  | succ n ih =>
    intro q st hlt
    have hm : unseen proj (st.ensureNs q).seen ≤ n := by
      rw [(sameSC_ensureNs st q).1]; omega
    have hl := loadItems_spec proj n (stepItem cfg proj (loadFile cfg proj n) q)
      (fun it st' h => stepItem_spec cfg proj n _ ih q it st' h)
      (sortItems ((alookup proj q).getD [])) (st.ensureNs q) hm
    simp only [loadFile]
    split
    · rename_i st1 h1
      refine ⟨by simp, ?_⟩
      intro st' h; cases h
      have h2 := hl.2 st1 h1
      have h0 : Meas proj st (st.ensureNs q) := (sameSC_ensureNs st q).meas
      exact (h0.trans h2).trans (sameSC_insertVariants ..).meas
    · refine ⟨by simp, ?_⟩
      intro st' h; cases h
    · rename_i h1
      exact absurd h1 hl.1

end Imports

/-! ## Visibility: `exported_syms(f)` after loading is exactly the public functions of `f`

`R` relates the state before and after a complete load of some file: for every namespace and
name, membership in `exported_syms` is either unchanged or already equal to what the property
demands (`Good`). It is closed under composition, which is what makes re-entrant loads of the
main file in a cycle harmless. -/

namespace Imports

def mem (st : St) (p x : String) : Bool := (st.nsOf p).exported.contains x
def hasVal (st : St) (p x : String) : Bool := (alookup (st.nsOf p).values x).isSome
def itemsOf (proj : Project) (p : String) : List Item := (alookup proj p).getD []

def Good (proj : Project) (st : St) (p x : String) : Prop := mem st p x = proj.publicFun p x

def R (proj : Project) (st st' : St) : Prop :=
  ∀ p x, mem st' p x = mem st p x ∨ Good proj st' p x

def NewSeenGood (proj : Project) (st st' : St) : Prop :=
  ∀ q, st'.seen.contains q = true → st.seen.contains q = false → (alookup proj q).isSome = true →
    ∀ x, Good proj st' q x

def T (proj : Project) (st st' : St) : Prop := R proj st st' ∧ NewSeenGood proj st st' ∧
  ∀ q, st.seen.contains q = true → st'.seen.contains q = true

structure Inv (proj : Project) (st : St) : Prop where
  sub : ∀ p x, mem st p x = true → funFlags x (itemsOf proj p) ≠ []
  val : ∀ p x, mem st p x = true → hasVal st p x = true

/-- Namespaces keep their `exported_syms` and only gain values. -/
def NsRel (st st' : St) : Prop :=
  ∀ p, (st'.nsOf p).exported = (st.nsOf p).exported ∧
    ∀ x, (alookup (st.nsOf p).values x).isSome = true → (alookup (st'.nsOf p).values x).isSome = true

theorem NsRel.refl (st : St) : NsRel st st := fun p => ⟨rfl, fun x h => h⟩

theorem NsRel.trans {a b c : St} (h1 : NsRel a b) (h2 : NsRel b c) : NsRel a c :=
  fun p => ⟨(h2 p).1.trans (h1 p).1, fun x h => (h2 p).2 x ((h1 p).2 x h)⟩

theorem NsRel.mem {st st' : St} (h : NsRel st st') (p x : String) : mem st' p x = mem st p x := by
  unfold Imports.mem; rw [(h p).1]

theorem NsRel.hasVal {st st' : St} (h : NsRel st st') (p x : String)
    (hv : hasVal st p x = true) : hasVal st' p x = true := (h p).2 x hv

theorem nsOf_setNs (st : St) (c : String) (ns : Ns) (p : String) :
    (st.setNs c ns).nsOf p = if c == p then ns else st.nsOf p := by
  simp only [St.nsOf, St.getNs, St.setNs, alookup]
  split <;> simp

theorem alookup_append_isSome {α : Type} (l1 l2 : List (String × α)) (x : String)
    (h : (alookup l2 x).isSome = true) : (alookup (l1 ++ l2) x).isSome = true := by
  induction l1 with
  | nil => simpa using h
  | cons kv rest ih =>
    obtain ⟨k, v⟩ := kv
    simp only [List.cons_append, alookup]
    split
    · simp
    · exact ih

/-- Updating the values of namespace `c` by prepending entries. -/
theorem nsRel_prepend (st : St) (c : String) (extra : List (String × Val)) :
    NsRel st (st.setNs c { st.nsOf c with values := extra ++ (st.nsOf c).values }) := by
  intro p
  rw [nsOf_setNs]
  by_cases h : (c == p) = true
  · have : c = p := by simpa using h
    subst this
    rw [if_pos h]
    exact ⟨rfl, fun x hx => alookup_append_isSome _ _ x hx⟩
  · rw [if_neg h]
    exact ⟨rfl, fun x hx => hx⟩

theorem nsRel_ensureNs (st : St) (q : String) : NsRel st (st.ensureNs q) := by
  unfold St.ensureNs
  split
  · exact NsRel.refl st
  · rename_i hnone
    intro p
    rw [nsOf_setNs]
    by_cases h : (q == p) = true
    · have : q = p := by simpa using h
      subst this
      have : st.nsOf q = freshNs := by simp [St.nsOf, hnone]
      rw [if_pos h, this]
      exact ⟨rfl, fun x hx => hx⟩
    · rw [if_neg h]
      exact ⟨rfl, fun x hx => hx⟩

theorem nsRel_addType (st : St) (c n : String) (k : TKind) (b : Bool) : NsRel st (st.addType c n k b) := by
  intro p
  have : (st.addType c n k b).nsOf p =
      if c == p then { st.nsOf c with types := n :: (st.nsOf c).types } else st.nsOf p := by
    simp only [St.addType, St.nsOf, St.getNs, alookup]
    split <;> simp
  rw [this]
  by_cases h : (c == p) = true
  · have : c = p := by simpa using h
    subst this
    rw [if_pos h]
    exact ⟨rfl, fun x hx => hx⟩
  · rw [if_neg h]
    exact ⟨rfl, fun x hx => hx⟩

theorem nsRel_addMethod (st : St) (r n : String) (mi : MInfo) : NsRel st (st.addMethod r n mi) := by
  unfold St.addMethod
  split
  · exact fun p => ⟨rfl, fun x hx => hx⟩
  · exact NsRel.refl st

theorem nsRel_insertVariants (c : String) (items : List Item) (st : St) :
    NsRel st (insertVariants c items st) := nsRel_prepend st c _

theorem nsRel_insertPlaceholder (a : Option String) (c p : String) (st : St) :
    NsRel st (insertPlaceholder a c p st) := by
  unfold insertPlaceholder
  split
  · rename_i al
    exact nsRel_prepend st c [(al, Val.placeholder p)]
  · exact NsRel.refl st

theorem nsRel_insertImported (cfg : Cfg) (a : Option String) (c p : String) (st st' : St)
    (h : insertImported cfg a c p st = .ok st') : NsRel st st' := by
  cases a with
  | some al =>
    simp only [insertImported] at h
    cases h
    exact nsRel_prepend st c [(al, Val.ns p)]
  | none =>
    simp only [insertImported] at h
    split at h
    · cases h
    · cases h
      exact nsRel_prepend st c _

/-! ### `funFlags` facts -/

theorem funFlags_append (x : String) (l1 l2 : List Item) :
    funFlags x (l1 ++ l2) = funFlags x l1 ++ funFlags x l2 := by
  induction l1 with
  | nil => rfl
  | cons it rest ih =>
    cases it <;> simp only [List.cons_append, funFlags, ih]
    split <;> simp

@[simp] theorem isType_imp (p : String) (a : Option String) : (Item.imp p a).isType = false := rfl
@[simp] theorem isType_fn (b : Bool) (n : String) (t : Nat) (bd : Option Probe) : (Item.fn b n t bd).isType = false := rfl
@[simp] theorem isType_struct (b : Bool) (n : String) : (Item.struct b n).isType = true := rfl
@[simp] theorem isType_enum (b : Bool) (n : String) (vs : List String) : (Item.enum b n vs).isType = true := rfl
@[simp] theorem isType_meth (b : Bool) (r n : String) (t : Nat) : (Item.meth b r n t).isType = false := rfl

theorem funFlags_filter_isType (x : String) (items : List Item) :
    funFlags x (items.filter Item.isType) = [] := by
  induction items with
  | nil => rfl
  | cons it rest ih => cases it <;> simp [List.filter, funFlags, ih]

theorem funFlags_filter_not_isType (x : String) (items : List Item) :
    funFlags x (items.filter (fun i => !i.isType)) = funFlags x items := by
  induction items with
  | nil => rfl
  | cons it rest ih => cases it <;> simp [List.filter, funFlags, ih]

theorem funFlags_sortItems (x : String) (items : List Item) :
    funFlags x (sortItems items) = funFlags x items := by
  unfold sortItems
  rw [funFlags_append, funFlags_filter_isType, funFlags_filter_not_isType]; rfl

theorem funFlags_of_mem (pub : Bool) (name : String) (tag : Nat) (body : Option Probe)
    (items : List Item) (h : Item.fn pub name tag body ∈ items) : funFlags name items ≠ [] := by
  induction items with
  | nil => simp at h
  | cons it rest ih =>
    rcases List.mem_cons.mp h with h | h
    · subst h; simp [funFlags]
    · have := ih h
      cases it <;> simp only [funFlags] <;> try exact this
      split
      · simp
      · exact this

theorem mem_of_mem_sortItems (it : Item) (items : List Item) (h : it ∈ sortItems items) : it ∈ items := by
  unfold sortItems at h
  rcases List.mem_append.mp h with h | h
  · exact (List.mem_filter.mp h).1
  · exact (List.mem_filter.mp h).1

def lastFlagOr (d : Bool) (pre : List Item) (x : String) : Bool := ((funFlags x pre).getLast?).getD d


/-! ### Transitions -/

theorem Good_congr {proj : Project} {st st' : St} {p x : String}
    (h : mem st' p x = mem st p x) (g : Good proj st p x) : Good proj st' p x := by
  unfold Good at *; rw [h]; exact g

theorem T.trans {proj : Project} {a b c : St} (h1 : T proj a b) (h2 : T proj b c) : T proj a c := by
  obtain ⟨r1, n1, s1⟩ := h1
  obtain ⟨r2, n2, s2⟩ := h2
  refine ⟨?_, ?_, fun q hq => s2 q (s1 q hq)⟩
  · intro p x
    rcases r2 p x with e2 | g2
    · rcases r1 p x with e1 | g1
      · exact Or.inl (e2.trans e1)
      · exact Or.inr (Good_congr e2 g1)
    · exact Or.inr g2
  · intro q hc ha hr x
    cases hb : b.seen.contains q with
    | true =>
      have g := n1 q hb ha hr x
      rcases r2 q x with e2 | g2
      · exact Good_congr e2 g
      · exact g2
    | false => exact n2 q hc hb hr x

/-- A step that keeps every `exported_syms` and adds to `paths_seen` only unreadable paths. -/
theorem T_of_nsRel {proj : Project} {st st' : St} (h : NsRel st st')
    (hs : ∀ q, st.seen.contains q = true → st'.seen.contains q = true)
    (hn : ∀ q, st'.seen.contains q = true → st.seen.contains q = false → (alookup proj q).isSome = false) :
    T proj st st' := by
  refine ⟨fun p x => Or.inl (h.mem p x), ?_, hs⟩
  intro q hc ha hr x
  have := hn q hc ha
  rw [this] at hr; cases hr

theorem Inv_of_nsRel {proj : Project} {st st' : St} (hi : Inv proj st) (h : NsRel st st') : Inv proj st' :=
  ⟨fun p x hm => hi.sub p x (by rw [← h.mem p x]; exact hm),
   fun p x hm => h.hasVal p x (hi.val p x (by rw [← h.mem p x]; exact hm))⟩

def RecSpec (proj : Project) (recLoad : String → St → Out St) : Prop :=
  ∀ q st st', recLoad q st = .ok st' → Inv proj st →
    T proj st st' ∧ Inv proj st' ∧ ∀ x, Good proj st' q x

theorem contains_cons_false {q p : String} {s : List String}
    (h : (p :: s).contains q = false) : q ≠ p ∧ s.contains q = false := by
  simp only [List.contains_cons, Bool.or_eq_false_iff] at h
  exact ⟨by intro e; subst e; simp at h, h.2⟩

theorem stepItem_T (cfg : Cfg) (proj : Project) (recLoad : String → St → Out St)
    (hrec : RecSpec proj recLoad) (cur : String) (it : Item) (st st' : St)
    (hnf : ∀ b n t bd, it ≠ .fn b n t bd) (hinv : Inv proj st)
    (h : stepItem cfg proj recLoad cur it st = .ok st') : T proj st st' ∧ Inv proj st' := by
  have same : ∀ {s' : St}, NsRel st s' → s'.seen = st.seen → T proj st s' ∧ Inv proj s' := by
    intro s' hn hs
    refine ⟨T_of_nsRel hn (fun q hq => by rw [hs]; exact hq) ?_, Inv_of_nsRel hinv hn⟩
    intro q hc ha; rw [hs] at hc; rw [hc] at ha; cases ha
  cases it with
  | fn pub name tag body => exact absurd rfl (hnf pub name tag body)
  | meth pub recv name tag =>
    simp only [stepItem] at h; cases h
    exact same (nsRel_addMethod _ _ _ _) (sameSC_addMethod ..).1
  | struct pub name =>
    simp only [stepItem] at h; cases h
    exact same (nsRel_addType _ _ _ _ _) (sameSC_addType ..).1
  | «enum» pub name vs =>
    simp only [stepItem] at h; cases h
    exact same (nsRel_addType _ _ _ _ _) (sameSC_addType ..).1
  | imp path alias =>
    simp only [stepItem] at h
    by_cases hseen : st.seen.contains path = true
    · simp only [hseen, if_true] at h
      split at h
      · exact same (nsRel_insertImported _ _ _ _ _ _ h) ((insertImported_spec cfg alias cur path st).2 st' h).1
      · split at h
        · cases h
        · cases h
          exact same (nsRel_insertPlaceholder _ _ _ _) (sameSC_insertPlaceholder ..).1
    · have hseen' : st.seen.contains path = false := by simpa using hseen
      simp only [hseen', Bool.false_eq_true, if_false] at h
      split at h
      · -- unreadable
        rename_i hl
        cases h
        have hn : NsRel st (insertPlaceholder alias cur path
            { st with seen := path :: st.seen, diags := st.diags ++ [path] }) :=
          NsRel.trans (fun p => ⟨rfl, fun x hx => hx⟩) (nsRel_insertPlaceholder _ _ _ _)
        have hs : (insertPlaceholder alias cur path
            { st with seen := path :: st.seen, diags := st.diags ++ [path] }).seen = path :: st.seen :=
          (sameSC_insertPlaceholder ..).1
        refine ⟨T_of_nsRel hn ?_ ?_, Inv_of_nsRel hinv hn⟩
        · intro q hq; rw [hs]; simp only [List.contains_cons, hq, Bool.or_true]
        · intro q hc ha
          rw [hs] at hc
          simp only [List.contains_cons, Bool.or_eq_true, ha, or_false] at hc
          have : q = path := by simpa using hc
          subst this; rw [hl]; rfl
      · rename_i items hl
        split at h
        · rename_i st1 h1
          have hn2 : NsRel st { st with seen := path :: st.seen, calls := st.calls + 1 } :=
            fun p => ⟨rfl, fun x hx => hx⟩
          obtain ⟨⟨r1, n1, s1⟩, i1, g1⟩ := hrec path _ st1 h1 (Inv_of_nsRel hinv hn2)
          have hn3 := nsRel_insertImported _ _ _ _ _ _ h
          have hs3 : st'.seen = st1.seen := ((insertImported_spec cfg alias cur path st1).2 st' h).1
          refine ⟨⟨?_, ?_, ?_⟩, Inv_of_nsRel i1 hn3⟩
          · intro p x
            rcases r1 p x with e | g
            · exact Or.inl ((hn3.mem p x).trans (e.trans (hn2.mem p x)))
            · exact Or.inr (Good_congr (hn3.mem p x) g)
          · intro q hc ha hr x
            rw [hs3] at hc
            by_cases hq : q = path
            · subst hq; exact Good_congr (hn3.mem q x) (g1 x)
            · have : (path :: st.seen).contains q = false := by
                rw [List.contains_cons, ha, Bool.or_false]
                exact beq_eq_false_iff_ne.mpr hq
              exact Good_congr (hn3.mem q x) (n1 q hc this hr x)
          · intro q hq
            rw [hs3]
            exact s1 q (by simp only [List.contains_cons, hq, Bool.or_true])
        · cases h
        · cases h

/-! ### One pass over the items of a file -/

structure LoopInv (proj : Project) (cur : String) (st0 : St) (pre : List Item) (st : St) : Prop where
  a : ∀ p x, p ≠ cur → mem st p x = mem st0 p x ∨ Good proj st p x
  b : ∀ x, mem st cur x = lastFlagOr (mem st0 cur x) pre x ∨ Good proj st cur x
  c : ∀ q, st.seen.contains q = true → st0.seen.contains q = false → q ≠ cur →
        (alookup proj q).isSome = true → ∀ x, Good proj st q x
  d : ∀ q, st0.seen.contains q = true → st.seen.contains q = true

theorem loopInv_T {proj : Project} {cur : String} {st0 st st' : St} {pre : List Item}
    (h : LoopInv proj cur st0 pre st) (ht : T proj st st') : LoopInv proj cur st0 pre st' := by
  obtain ⟨r, n, s⟩ := ht
  refine ⟨?_, ?_, ?_, fun q hq => s q (h.d q hq)⟩
  · intro p x hp
    rcases r p x with e | g
    · rcases h.a p x hp with e0 | g0
      · exact Or.inl (e.trans e0)
      · exact Or.inr (Good_congr e g0)
    · exact Or.inr g
  · intro x
    rcases r cur x with e | g
    · rcases h.b x with e0 | g0
      · exact Or.inl (e.trans e0)
      · exact Or.inr (Good_congr e g0)
    · exact Or.inr g
  · intro q hc h0 hq hr x
    cases hb : st.seen.contains q with
    | true =>
      have g := h.c q hb h0 hq hr x
      rcases r q x with e | g2
      · exact Good_congr e g
      · exact g2
    | false => exact n q hc hb hr x

theorem lastFlagOr_snoc_other (d : Bool) (pre : List Item) (it : Item) (x : String)
    (h : funFlags x [it] = []) : lastFlagOr d (pre ++ [it]) x = lastFlagOr d pre x := by
  unfold lastFlagOr; rw [funFlags_append, h, List.append_nil]

theorem lastFlagOr_snoc_fn (d : Bool) (pre : List Item) (pub : Bool) (name : String) (tag : Nat)
    (body : Option Probe) : lastFlagOr d (pre ++ [.fn pub name tag body]) name = pub := by
  unfold lastFlagOr; rw [funFlags_append]; simp [funFlags]

theorem mem_addFun (st : St) (cur : String) (pub : Bool) (name : String) (tag : Nat)
    (body : Option Probe) (p x : String) :
    mem (st.addFun cur pub name tag body) p x =
      if p = cur ∧ x = name then pub else mem st p x := by
  unfold mem St.addFun
  rw [nsOf_setNs]
  by_cases hp : p = cur
  · subst hp
    simp only [beq_self_eq_true, if_true, true_and]
    by_cases hx : x = name
    · subst hx
      cases pub <;> simp [List.contains_eq_mem]
    · cases pub <;> simp [hx, List.contains_eq_mem]
  · have : (cur == p) = false := by simp; exact fun e => hp e.symm
    simp [this, hp]

theorem hasVal_addFun (st : St) (cur : String) (pub : Bool) (name : String) (tag : Nat)
    (body : Option Probe) (p x : String) (h : hasVal st p x = true ∨ (p = cur ∧ x = name)) :
    hasVal (st.addFun cur pub name tag body) p x = true := by
  unfold hasVal St.addFun
  rw [nsOf_setNs]
  by_cases hp : (cur == p) = true
  · have : cur = p := by simpa using hp
    subst this
    rw [if_pos hp]
    simp only [alookup]
    split
    · rfl
    · rename_i hne
      rcases h with h | ⟨_, h⟩
      · exact h
      · subst h; simp at hne
  · rw [if_neg hp]
    rcases h with h | ⟨h, _⟩
    · exact h
    · subst h; simp at hp

theorem pass_spec (cfg : Cfg) (proj : Project) (recLoad : String → St → Out St)
    (hrec : RecSpec proj recLoad) (cur : String) (st0 : St) :
    ∀ (suf pre : List Item) (st st' : St), (∀ it, it ∈ suf → it ∈ itemsOf proj cur) →
      Inv proj st → LoopInv proj cur st0 pre st →
      loadItems (stepItem cfg proj recLoad cur) suf st = .ok st' →
      Inv proj st' ∧ LoopInv proj cur st0 (pre ++ suf) st' := by
  intro suf
  induction suf with
  | nil =>
    intro pre st st' _ hinv hl h
    simp only [loadItems] at h; cases h
    rw [List.append_nil]; exact ⟨hinv, hl⟩
  | cons it rest ih =>
    intro pre st st' hmem hinv hl h
    simp only [loadItems] at h
    split at h
    · rename_i st1 h1
      have hrest : ∀ i, i ∈ rest → i ∈ itemsOf proj cur := fun i hi => hmem i (List.mem_cons_of_mem _ hi)
      have key : Inv proj st1 ∧ LoopInv proj cur st0 (pre ++ [it]) st1 := by
        by_cases hf : ∃ b n t bd, it = .fn b n t bd
        · obtain ⟨pub, name, tag, body, rfl⟩ := hf
          simp only [stepItem] at h1; cases h1
          have hdef : funFlags name (itemsOf proj cur) ≠ [] :=
            funFlags_of_mem pub name tag body _ (hmem _ (List.mem_cons_self ..))
          refine ⟨⟨?_, ?_⟩, ⟨?_, ?_, ?_, ?_⟩⟩
          · intro p x hm
            rw [mem_addFun] at hm
            by_cases hc : p = cur ∧ x = name
            · obtain ⟨rfl, rfl⟩ := hc; exact hdef
            · rw [if_neg hc] at hm; exact hinv.sub p x hm
          · intro p x hm
            rw [mem_addFun] at hm
            by_cases hc : p = cur ∧ x = name
            · exact hasVal_addFun _ _ _ _ _ _ _ _ (Or.inr hc)
            · rw [if_neg hc] at hm
              exact hasVal_addFun _ _ _ _ _ _ _ _ (Or.inl (hinv.val p x hm))
          · intro p x hp
            have e : mem (st.addFun cur pub name tag body) p x = mem st p x := by
              rw [mem_addFun, if_neg (fun hc => hp hc.1)]
            rcases hl.a p x hp with e0 | g0
            · exact Or.inl (e.trans e0)
            · exact Or.inr (Good_congr e g0)
          · intro x
            by_cases hx : x = name
            · subst hx
              left
              rw [mem_addFun, if_pos ⟨rfl, rfl⟩, lastFlagOr_snoc_fn]
            · have e : mem (st.addFun cur pub name tag body) cur x = mem st cur x := by
                rw [mem_addFun, if_neg (fun hc => hx hc.2)]
              have e2 : lastFlagOr (mem st0 cur x) (pre ++ [Item.fn pub name tag body]) x
                  = lastFlagOr (mem st0 cur x) pre x := by
                apply lastFlagOr_snoc_other
                have : (name == x) = false := by simp; exact fun e => hx e.symm
                simp [funFlags, this]
              rcases hl.b x with e0 | g0
              · exact Or.inl (by rw [e, e2]; exact e0)
              · exact Or.inr (Good_congr e g0)
          · intro q hc h0 hq hr x
            have e : mem (st.addFun cur pub name tag body) q x = mem st q x := by
              rw [mem_addFun, if_neg (fun hc => hq hc.1)]
            exact Good_congr e (hl.c q hc h0 hq hr x)
          · exact hl.d
        · have hnf : ∀ b n t bd, it ≠ .fn b n t bd := fun b n t bd e => hf ⟨b, n, t, bd, e⟩
          obtain ⟨ht, hi1⟩ := stepItem_T cfg proj recLoad hrec cur it st st1 hnf hinv h1
          have hl1 := loopInv_T hl ht
          refine ⟨hi1, ⟨hl1.a, ?_, hl1.c, hl1.d⟩⟩
          intro x
          have : funFlags x [it] = [] := by
            cases it <;> first | rfl | exact absurd rfl (hnf _ _ _ _)
          rw [lastFlagOr_snoc_other _ _ _ _ this]
          exact hl1.b x
      have := ih (pre ++ [it]) st1 st' hrest key.1 key.2 h
      rw [List.append_assoc] at this
      exact this
    · cases h
    · cases h

theorem publicFun_eq_lastFlagOr (d : Bool) (items : List Item) (x : String)
    (h : d = true → funFlags x items ≠ []) :
    lastFlagOr d (sortItems items) x = publicFun items x := by
  unfold lastFlagOr publicFun
  rw [funFlags_sortItems]
  cases hl : (funFlags x items).getLast? with
  | some b => rfl
  | none =>
    have : funFlags x items = [] := List.getLast?_eq_none_iff.mp hl
    cases d with
    | false => rfl
    | true => exact absurd this (h rfl)

theorem loadFile_T (cfg : Cfg) (proj : Project) : ∀ n, RecSpec proj (loadFile cfg proj n) := by
  intro n
  induction n with
  | zero => intro q st st' h; simp [loadFile] at h
  | succ n ih =>
    intro q st st' h hinv
    simp only [loadFile] at h
    split at h
    · rename_i st1 h1
      cases h
      have hn0 := nsRel_ensureNs st q
      have hs0 : (st.ensureNs q).seen = st.seen := (sameSC_ensureNs st q).1
      have hinv0 := Inv_of_nsRel hinv hn0
      have hl0 : LoopInv proj q (st.ensureNs q) [] (st.ensureNs q) :=
        ⟨fun p x _ => Or.inl rfl, fun x => Or.inl rfl,
         fun q' hc h0 => (by rw [hc] at h0; cases h0), fun q' hq => hq⟩
      obtain ⟨hinv1, hl1⟩ := pass_spec cfg proj _ ih q (st.ensureNs q)
        (sortItems ((alookup proj q).getD [])) [] (st.ensureNs q) st1
        (fun it hit => mem_of_mem_sortItems it _ hit) hinv0 hl0 h1
      rw [List.nil_append] at hl1
      have hnv := nsRel_insertVariants q ((alookup proj q).getD []) st1
      have good1 : ∀ x, Good proj st1 q x := by
        intro x
        rcases hl1.b x with e | g
        · unfold Good Project.publicFun
          rw [e]
          exact publicFun_eq_lastFlagOr _ _ x (fun hd => hinv0.sub q x hd)
        · exact g
      refine ⟨⟨?_, ?_, ?_⟩, Inv_of_nsRel hinv1 hnv, fun x => Good_congr (hnv.mem q x) (good1 x)⟩
      · intro p x
        by_cases hp : p = q
        · subst hp; exact Or.inr (Good_congr (hnv.mem p x) (good1 x))
        · rcases hl1.a p x hp with e | g
          · exact Or.inl ((hnv.mem p x).trans (e.trans (hn0.mem p x)))
          · exact Or.inr (Good_congr (hnv.mem p x) g)
      · intro q' hc ha hr x
        have hc1 : st1.seen.contains q' = true := hc
        by_cases hq : q' = q
        · subst hq; exact Good_congr (hnv.mem q' x) (good1 x)
        · exact Good_congr (hnv.mem q' x) (hl1.c q' hc1 (by rw [hs0]; exact ha) hq hr x)
      · intro q' hq
        show st1.seen.contains q' = true
        exact hl1.d q' (by rw [hs0]; exact hq)
    · cases h
    · cases h

theorem Inv_init (proj : Project) : Inv proj St.init := by
  refine ⟨?_, ?_⟩ <;> intro p x hm <;>
    simp [mem, St.init, St.nsOf, St.getNs, alookup, freshNs] at hm


/-! ## Soundness of what is in scope: nothing private crosses a file boundary (functions)

Unary invariant, so it holds through any import graph: a function value bound in namespace `p`
was defined in `p` itself or by a `public fun`; and an exported function value is public. -/

structure VisInv (st : St) : Prop where
  u : ∀ p x o t b body, alookup (st.nsOf p).values x = some (Val.fn o t b body) → o = p ∨ b = true
  e : ∀ p x o t b body, mem st p x = true →
        alookup (st.nsOf p).values x = some (Val.fn o t b body) → b = true

theorem visInv_of_same {st st' : St}
    (h : ∀ p, (st'.nsOf p).values = (st.nsOf p).values ∧ (st'.nsOf p).exported = (st.nsOf p).exported)
    (hi : VisInv st) : VisInv st' := by
  refine ⟨?_, ?_⟩
  · intro p x o t b body hl
    rw [(h p).1] at hl; exact hi.u p x o t b body hl
  · intro p x o t b body hm hl
    rw [(h p).1] at hl
    unfold mem at hm; rw [(h p).2] at hm
    exact hi.e p x o t b body hm hl

theorem nsOf_ensureNs (st : St) (q p : String) : (st.ensureNs q).nsOf p = st.nsOf p := by
  unfold St.ensureNs
  split
  · rfl
  · rename_i hnone
    rw [nsOf_setNs]
    by_cases h : (q == p) = true
    · have : q = p := by simpa using h
      subst this
      rw [if_pos h]; simp [St.nsOf, hnone]
    · rw [if_neg h]

theorem nsOf_addType (st : St) (c n : String) (k : TKind) (b : Bool) (p : String) :
    (st.addType c n k b).nsOf p =
      if c == p then { st.nsOf c with types := n :: (st.nsOf c).types } else st.nsOf p := by
  simp only [St.addType, St.nsOf, St.getNs, alookup]
  split <;> simp

theorem nsOf_addMethod (st : St) (r n : String) (mi : MInfo) (p : String) :
    (st.addMethod r n mi).nsOf p = st.nsOf p := by
  unfold St.addMethod; split <;> rfl

theorem alookup_append_some {α : Type} (l1 l2 : List (String × α)) (x : String) (v : α)
    (h : alookup l1 x = some v) : alookup (l1 ++ l2) x = some v := by
  induction l1 with
  | nil => simp [alookup] at h
  | cons kv rest ih =>
    obtain ⟨k, w⟩ := kv
    simp only [List.cons_append, alookup] at h ⊢
    split
    · rename_i hk; rw [if_pos hk] at h; exact h
    · rename_i hk; rw [if_neg hk] at h; exact ih h

theorem alookup_append_none {α : Type} (l1 l2 : List (String × α)) (x : String)
    (h : alookup l1 x = none) : alookup (l1 ++ l2) x = alookup l2 x := by
  induction l1 with
  | nil => rfl
  | cons kv rest ih =>
    obtain ⟨k, w⟩ := kv
    simp only [List.cons_append, alookup] at h ⊢
    split
    · rename_i hk; rw [if_pos hk] at h; cases h
    · rename_i hk; rw [if_neg hk] at h; exact ih h

theorem alookup_filter_key {α : Type} (f : String → Bool) (l : List (String × α)) (x : String) (v : α)
    (h : alookup (l.filter (fun kv => f kv.1)) x = some v) : f x = true ∧ alookup l x = some v := by
  induction l with
  | nil => simp [alookup] at h
  | cons kv rest ih =>
    obtain ⟨k, w⟩ := kv
    by_cases hf : f k = true
    · have e : ((k, w) :: rest).filter (fun kv => f kv.1) = (k, w) :: rest.filter (fun kv => f kv.1) := by
        simp [List.filter, hf]
      rw [e] at h
      simp only [alookup] at h ⊢
      by_cases hk : (k == x) = true
      · rw [if_pos hk] at h ⊢
        have : k = x := by simpa using hk
        subst this
        exact ⟨hf, h⟩
      · rw [if_neg hk] at h ⊢
        exact ih h
    · have e : ((k, w) :: rest).filter (fun kv => f kv.1) = rest.filter (fun kv => f kv.1) := by
        simp [List.filter, hf]
      rw [e] at h
      obtain ⟨h1, h2⟩ := ih h
      refine ⟨h1, ?_⟩
      simp only [alookup]
      by_cases hk : (k == x) = true
      · have : k = x := by simpa using hk
        subst this
        exact absurd h1 hf
      · rw [if_neg hk]; exact h2

/-- Prepending entries none of which is a private function keeps the invariant. -/
theorem visInv_prepend (st : St) (c : String) (extra : List (String × Val))
    (hex : ∀ x o t b body, alookup extra x = some (Val.fn o t b body) → b = true)
    (hi : VisInv st) :
    VisInv (st.setNs c { st.nsOf c with values := extra ++ (st.nsOf c).values }) := by
  have hmem : ∀ p x, mem (st.setNs c { st.nsOf c with values := extra ++ (st.nsOf c).values }) p x
      = mem st p x := (nsRel_prepend st c extra).mem
  have key : ∀ p x o t b body,
      alookup ((st.setNs c { st.nsOf c with values := extra ++ (st.nsOf c).values }).nsOf p).values x
        = some (Val.fn o t b body) →
      b = true ∨ alookup (st.nsOf p).values x = some (Val.fn o t b body) := by
    intro p x o t b body hl
    rw [nsOf_setNs] at hl
    by_cases h : (c == p) = true
    · have : c = p := by simpa using h
      subst this
      rw [if_pos h] at hl
      cases he : alookup extra x with
      | some v =>
        rw [alookup_append_some _ _ _ _ he] at hl
        cases hl
        exact Or.inl (hex x o t b body he)
      | none =>
        rw [alookup_append_none _ _ _ he] at hl
        exact Or.inr hl
    · rw [if_neg h] at hl; exact Or.inr hl
  refine ⟨?_, ?_⟩
  · intro p x o t b body hl
    rcases key p x o t b body hl with hb | ho
    · exact Or.inr hb
    · exact hi.u p x o t b body ho
  · intro p x o t b body hm hl
    rcases key p x o t b body hl with hb | ho
    · exact hb
    · rw [hmem] at hm; exact hi.e p x o t b body hm ho

theorem alookup_map_const (vs : List String) (c : Val) (x : String) (v : Val)
    (h : alookup (vs.map fun n => (n, c)) x = some v) : v = c := by
  induction vs with
  | nil => simp [alookup] at h
  | cons n rest ih =>
    simp only [List.map, alookup] at h
    split at h
    · cases h; rfl
    · exact ih h

theorem alookup_variantValues (cur : String) (items : List Item) (x : String) (v : Val)
    (h : alookup (variantValues cur items) x = some v) : ∃ e, v = Val.variant cur e := by
  induction items with
  | nil => simp [variantValues, alookup] at h
  | cons it rest ih =>
    cases it with
    | «enum» pub name vs =>
      simp only [variantValues] at h
      cases he : alookup (variantValues cur rest) x with
      | some w =>
        rw [alookup_append_some _ _ _ _ he] at h
        cases h; exact ih he
      | none =>
        rw [alookup_append_none _ _ _ he] at h
        exact ⟨name, alookup_map_const _ _ _ _ h⟩
    | imp _ _ => exact ih h
    | fn _ _ _ _ => exact ih h
    | struct _ _ => exact ih h
    | meth _ _ _ _ => exact ih h

theorem visInv_addFun (st : St) (cur : String) (pub : Bool) (name : String) (tag : Nat)
    (body : Option Probe) (hi : VisInv st) : VisInv (st.addFun cur pub name tag body) := by
  have key : ∀ p x o t b bd,
      alookup ((st.addFun cur pub name tag body).nsOf p).values x = some (Val.fn o t b bd) →
      (p = cur ∧ x = name ∧ o = cur ∧ b = pub) ∨
      (¬ (p = cur ∧ x = name) ∧ alookup (st.nsOf p).values x = some (Val.fn o t b bd)) := by
    intro p x o t b bd hl
    unfold St.addFun at hl
    rw [nsOf_setNs] at hl
    by_cases h : (cur == p) = true
    · have : cur = p := by simpa using h
      subst this
      rw [if_pos h] at hl
      simp only [alookup] at hl
      by_cases hk : (name == x) = true
      · rw [if_pos hk] at hl
        have : name = x := by simpa using hk
        subst this
        cases hl
        exact Or.inl ⟨rfl, rfl, rfl, rfl⟩
      · rw [if_neg hk] at hl
        refine Or.inr ⟨fun hc => hk (by rw [hc.2]; simp), hl⟩
    · rw [if_neg h] at hl
      refine Or.inr ⟨fun hc => h (by rw [hc.1]; simp), hl⟩
  refine ⟨?_, ?_⟩
  · intro p x o t b bd hl
    rcases key p x o t b bd hl with ⟨hp, _, ho, _⟩ | ⟨_, hold⟩
    · exact Or.inl (ho.trans hp.symm)
    · exact hi.u p x o t b bd hold
  · intro p x o t b bd hm hl
    rw [mem_addFun] at hm
    rcases key p x o t b bd hl with ⟨hp, hx, _, hb⟩ | ⟨hn, hold⟩
    · rw [if_pos ⟨hp, hx⟩] at hm; rw [hb]; exact hm
    · rw [if_neg hn] at hm; exact hi.e p x o t b bd hm hold

theorem visInv_insertImported (cfg : Cfg) (a : Option String) (c p : String) (st st' : St)
    (h : insertImported cfg a c p st = .ok st') (hi : VisInv st) : VisInv st' := by
  cases a with
  | some al =>
    simp only [insertImported] at h
    cases h
    refine visInv_prepend st c [(al, Val.ns p)] ?_ hi
    intro x o t b body hl
    simp only [alookup] at hl
    split at hl <;> cases hl
  | none =>
    simp only [insertImported] at h
    split at h
    · cases h
    · cases h
      refine visInv_prepend st c _ ?_ hi
      intro x o t b body hl
      obtain ⟨hm, hv⟩ := alookup_filter_key (fun k => (st.nsOf p).exported.contains k) _ x _ hl
      exact hi.e p x o t b body hm hv

theorem visInv_insertPlaceholder (a : Option String) (c p : String) (st : St) (hi : VisInv st) :
    VisInv (insertPlaceholder a c p st) := by
  unfold insertPlaceholder
  split
  · rename_i al
    refine visInv_prepend st c [(al, Val.placeholder p)] ?_ hi
    intro x o t b body hl
    simp only [alookup] at hl
    split at hl <;> cases hl
  · exact hi

theorem visInv_insertVariants (c : String) (items : List Item) (st : St) (hi : VisInv st) :
    VisInv (insertVariants c items st) := by
  refine visInv_prepend st c _ ?_ hi
  intro x o t b body hl
  obtain ⟨e, he⟩ := alookup_variantValues c items x _ hl
  cases he

def RecVis (recLoad : String → St → Out St) : Prop :=
  ∀ q st st', recLoad q st = .ok st' → VisInv st → VisInv st'

theorem stepItem_vis (cfg : Cfg) (proj : Project) (recLoad : String → St → Out St)
    (hrec : RecVis recLoad) (cur : String) (it : Item) (st st' : St)
    (h : stepItem cfg proj recLoad cur it st = .ok st') (hi : VisInv st) : VisInv st' := by
  cases it with
  | fn pub name tag body =>
    simp only [stepItem] at h; cases h; exact visInv_addFun _ _ _ _ _ _ hi
  | meth pub recv name tag =>
    simp only [stepItem] at h; cases h
    exact visInv_of_same (fun p => by rw [nsOf_addMethod]; exact ⟨rfl, rfl⟩) hi
  | struct pub name =>
    simp only [stepItem] at h; cases h
    refine visInv_of_same (fun p => ?_) hi
    rw [nsOf_addType]; split
    · rename_i hc; have : cur = p := by simpa using hc
      subst this; exact ⟨rfl, rfl⟩
    · exact ⟨rfl, rfl⟩
  | «enum» pub name vs =>
    simp only [stepItem] at h; cases h
    refine visInv_of_same (fun p => ?_) hi
    rw [nsOf_addType]; split
    · rename_i hc; have : cur = p := by simpa using hc
      subst this; exact ⟨rfl, rfl⟩
    · exact ⟨rfl, rfl⟩
  | imp path alias =>
    simp only [stepItem] at h
    split at h
    · split at h
      · exact visInv_insertImported _ _ _ _ _ _ h hi
      · split at h
        · cases h
        · cases h; exact visInv_insertPlaceholder _ _ _ _ hi
    · split at h
      · cases h
        exact visInv_insertPlaceholder _ _ _ _ (visInv_of_same (st := st) (fun p => ⟨rfl, rfl⟩) hi)
      · split at h
        · rename_i st1 h1
          have h2 := hrec path _ st1 h1 (visInv_of_same (st := st) (fun p => ⟨rfl, rfl⟩) hi)
          exact visInv_insertImported _ _ _ _ _ _ h h2
        · cases h
        · cases h

theorem loadItems_vis (step : Item → St → Out St)
    (hstep : ∀ it st st', step it st = .ok st' → VisInv st → VisInv st') :
    ∀ (items : List Item) (st st' : St), loadItems step items st = .ok st' → VisInv st → VisInv st' := by
  intro items
  induction items with
  | nil => intro st st' h hi; simp only [loadItems] at h; cases h; exact hi
  | cons it rest ih =>
    intro st st' h hi
    simp only [loadItems] at h
    split at h
    · rename_i st1 h1
      exact ih st1 st' h (hstep it st st1 h1 hi)
    · cases h
    · cases h

theorem loadFile_vis (cfg : Cfg) (proj : Project) : ∀ n, RecVis (loadFile cfg proj n) := by
  intro n
  induction n with
  | zero => intro q st st' h; simp [loadFile] at h
  | succ n ih =>
    intro q st st' h hi
    simp only [loadFile] at h
    split at h
    · rename_i st1 h1
      cases h
      have h0 : VisInv (st.ensureNs q) :=
        visInv_of_same (fun p => by rw [nsOf_ensureNs]; exact ⟨rfl, rfl⟩) hi
      exact visInv_insertVariants _ _ _
        (loadItems_vis _ (fun it s s' hs => stepItem_vis cfg proj _ ih q it s s' hs) _ _ _ h1 h0)
    · cases h
    · cases h

theorem alookup_prelude (x : String) (v : Val) (h : alookup freshNs.values x = some v) : v = Val.builtin :=
  alookup_map_const preludeNames Val.builtin x v h

theorem visInv_init : VisInv St.init := by
  have hn : ∀ p, St.init.nsOf p = freshNs := fun p => by simp [St.nsOf, St.getNs, St.init, alookup]
  refine ⟨?_, ?_⟩
  · intro p x o t b body hl
    rw [hn] at hl; have := alookup_prelude x _ hl; cases this
  · intro p x o t b body _ hl
    rw [hn] at hl; have := alookup_prelude x _ hl; cases this

end Imports
