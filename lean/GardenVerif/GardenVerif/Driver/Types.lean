import GardenVerif.Driver.Sexp
import GardenVerif.Model.Types
/-! Driver ops for M7: `subtype`, `subtype_ne`, `unify`, `unify_all`. -/

namespace DriverTypes

def atomOf : Sexp → Option String
  | .atom s => some s
  | _ => none

mutual
def toTy : Sexp → Option Ty
  | .list (.atom "any" :: []) => some .any
  | .list (.atom "tuple" :: items) => (toTys items).map .tuple
  | .list [.atom "fn", .atom name, .list (.atom "tparams" :: tps), .list (.atom "params" :: ps), r] =>
      match tps.mapM atomOf, toTys ps, toTy r with
      | some tps, some ps, some r => some (.fn (if name == "-" then none else some name) tps ps r)
      | _, _, _ => none
  | .list (.atom "user" :: .atom k :: .atom n :: args) =>
      match (if k == "enum" then some Kind.enum else if k == "struct" then some Kind.struct else none),
            toTys args with
      | some k, some args => some (.user k n args)
      | _, _ => none
  | .list [.atom "param", .atom n] => some (.param n)
  | .list [.atom "err"] => some .err
  | _ => none
def toTys : List Sexp → Option (List Ty)
  | [] => some []
  | s :: rest => match toTy s, toTys rest with
    | some t, some ts => some (t :: ts)
    | _, _ => none
end

mutual
def ofTy : Ty → Sexp
  | .any => .list [.atom "any"]
  | .tuple items => .list (.atom "tuple" :: ofTys items)
  | .fn name tps ps r =>
      .list [.atom "fn", .atom (name.getD "-"), .list (.atom "tparams" :: tps.map .atom),
             .list (.atom "params" :: ofTys ps), ofTy r]
  | .user k n args =>
      .list (.atom "user" :: .atom (match k with | .enum => "enum" | .struct => "struct") :: .atom n :: ofTys args)
  | .param n => .list [.atom "param", .atom n]
  | .err => .list [.atom "err"]
def ofTys : List Ty → List Sexp
  | [] => []
  | t :: ts => ofTy t :: ofTys ts
end

def handle (op : String) (rest : String) : Option String :=
  if op != "subtype" && op != "subtype_ne" && op != "unify" && op != "unify_all" then none else
  match Sexp.parseAll rest with
  | none => some "ERR parse"
  | some sexps =>
    match toTys sexps with
    | none => some "ERR type"
    | some tys =>
      match op, tys with
      | "subtype", [a, b] => some s!"OK {Ty.sub a b}"
      | "subtype_ne", [a, b] => some s!"OK {Ty.subNotError a b}"
      | "unify", [a, b] =>
          match Ty.unify a b with
          | some c => some s!"OK (some {(ofTy c).toString})"
          | none => some "OK (none)"
      | "unify_all", ts =>
          match Ty.unifyAll ts with
          | .ok c => some s!"OK (ok {(ofTy c).toString})"
          | .error i => some s!"OK (fail {i})"
      | _, _ => some "ERR arity"

end DriverTypes
