import GardenVerif.Lemmas.Check
/-!
C16 — Programs that pass `check` raise no runtime type errors.

FULL STATEMENT (the target; NOT proved in full — see "MISSING" below):

  theorem check_sound_fragment (P : Check.Program) :
      Check.fullyAnnotated P = true → Check.check P = [] →
      ∀ fuel, (Check.run fuel P).isTypeError = false

where `Check.check` is M8 (Model/Check.lean: all Error diagnostics of `garden check` on the fully
annotated monomorphic first-order core fragment), `Check.run` the typed reference semantics
(Model/TypedSem.lean) and `isTypeError` = wrong operand / argument type, wrong arity, calling a
non-function, unknown variable, failed annotation check (param / let / return), no matching case,
scrutinee not an enum, bad pattern (or leaving the fragment).

PROVED (no sorry; universally quantified over programs, types, environments and fuel):

* The typing invariant `Check.hasTy v T` (deep) and its pillars: `value_subsumption`,
  `annotation_check_passes` (the param / let / return checks of eval.rs cannot fail on a
  well-typed value), `canonical_int/_bool/_string`, environment typing (`Check.envOK`).
* Checker-only invariants for the WHOLE fragment `Check.okE` (all forms incl. loops and match),
  in Lemmas/Check.lean: `Check.tc_inv` (checking an expression leaves the bindings unchanged,
  checking a block only changes its own scope — needed because the checker threads its bindings
  through BOTH branches of an `if` and through arguments left to right, while arguments are
  evaluated right to left), `Check.tc_gi` (inferred types are well-formed fragment types: no
  `Error`, no `Any`), `Check.hasTy_unify` (`unify` / `unify_all` preserve value typing; uses
  C15's `unify_upper`).
* `check_sound_exprs` (THE MINIMUM DELIVERABLE, progress + preservation packaged for the big-step
  semantics): literals, variables, parentheses, all binary operators, `let` with / without hints,
  assignment, `if` with and without `else` in inferred and checked position, list and tuple
  literals, `return`, `break`/`continue`, and calls of annotated first-order named functions
  (recursion included), `Some`, `println`, `print`, `string_repr`: see its docstring.
  `check_sound_program_stage1`: a program built from these forms that `check` accepts never ends
  in a type error, for every fuel. `check_sound_exprs_partial` / `check_sound_toplevel_partial`
  are the earlier straight-line versions (kept).

MISSING for the full statement: `+=`/`-=`, `while`, `for`, `match` (excluded by `Check.s1Diags`,
which returns a marker diagnostic for them). The checker-side lemmas (`tc_inv`, `tc_gi`) already
cover these forms; what remains is their case in the evaluation induction `Check.sound`
(loops: re-evaluation of the body under the same Γ, which `tc_inv` provides; match: exhaustiveness
⇒ some case is reached). The fragment excludes, by `Check.iterOK`, `for` iterables that are not a
variable / call / parenthesised expression (known findings C16/any-from-checked-if and
C16/error-from-checked-list: a list literal / if / match checked against `List<Any>` gets a lossy
type), and the model contains checker-fix-novalue-scrutinee-payload (without it `match (return 1)
{ Some(w) => Some(w) }` has type `Option<Error>`, which unifies with everything: a genuine
unsoundness, replay in patches/).
-/
set_option linter.unusedVariables false
set_option linter.unusedSimpArgs false

namespace C16
open Check

/-- Subsumption for the value typing (pillar 1). -/
theorem value_subsumption (v : Val) (A B : Ty) (hv : hasTy v A = true) (hs : Ty.sub A B = true)
    (hB : good B = true) : hasTy v B = true := hasTy_sub v A B hv hs hB

/-- A well-typed value passes every runtime annotation check against its static type (pillar 2):
`check_type(value, expected)` = `is_subtype(Type::from_value(value), expected)`. -/
theorem annotation_check_passes (v : Val) (T : Ty) (hv : hasTy v T = true) :
    Ty.sub (typeOf v) T = true := hasTy_sub_typeOf v T hv

/-- Hints denote well-formed types. -/
theorem hint_types_good (h : Hint) : good h.toTy = true := Hint.toTy_good h

theorem canonical_int (v : Val) (h : hasTy v tInt = true) : ∃ i, v = .int i := canon_int v h
theorem canonical_bool (v : Val) (h : hasTy v tBool = true) : ∃ b, v = .bool b := canon_bool v h
theorem canonical_string (v : Val) (h : hasTy v tStr = true) : ∃ s, v = .str s := canon_str v h

/-- `[]` has type `List<NoValue>`, which is below every `List<T>` (C14's bottom + covariance), so
an empty list passes the annotation check of any list-typed parameter. -/
theorem empty_list_passes (T : Ty) : Ty.sub (typeOf (.list [])) (tList T) = true := by
  simp [typeOf, typeOfLast, tList, Ty.sub, Ty.subAll, sub_noValue]

example : hasTy (.list [.some (.int 1), .none]) (tList (tOption tInt)) = true := by
  simp [hasTy, hasTyAll, tList, tOption, tInt, isNamed]

/-- Soundness of the checker on straight-line blocks (see the header). `ResOK ret T Γ' r`:
`r` is a value of type `T` in an environment typed by `Γ'`, or a `return` of a value of type
`ret`, or a non-type error, or a timeout. -/
theorem check_sound_exprs_partial (P : Program) (d : Nat) (es : List TExpr) (ret : Ty) (exp : Option Ty)
    (Γ Γ' : Blocks Ty) (ρ : Blocks Val) (T : Ty)
    (hfrag : slL P d es = true)
    (hcheck : tcSeq P ret exp Γ es = (T, Γ', []))
    (hexp : ∀ E, exp = some E → good E = true) (hret : good ret = true)
    (henv : envOK Γ ρ) :
    ∀ fuel, ResOK ret T Γ' (evalSeq P fuel ρ es) :=
  fun fuel => (sound_sl P fuel).2 d es ret exp Γ ρ T Γ' hfrag hcheck hexp hret henv

/-- … in particular the outcome is never one of C16's type errors. -/
theorem check_sound_exprs_no_type_error (P : Program) (d : Nat) (es : List TExpr) (ret : Ty) (exp : Option Ty)
    (Γ Γ' : Blocks Ty) (ρ : Blocks Val) (T : Ty)
    (hfrag : slL P d es = true)
    (hcheck : tcSeq P ret exp Γ es = (T, Γ', []))
    (hexp : ∀ E, exp = some E → good E = true) (hret : good ret = true)
    (henv : envOK Γ ρ) (fuel : Nat) (e : RErr)
    (h : evalSeq P fuel ρ es = .err e) : e.isTypeError = false := by
  have := check_sound_exprs_partial P d es ret exp Γ Γ' ρ T hfrag hcheck hexp hret henv fuel
  rw [h] at this
  simpa [ResOK] using this

-- a concrete block satisfying the hypotheses: `let x: Int = 1 + 2`, `let s = "a" ^ "b"`, `x < 3`
example : slL { funs := [], top := [] } 10
    [.letE "x" (some .int) (.binop .add (.int 1) (.int 2)),
     .letE "s" none (.binop .concat (.str "a") (.str "b")),
     .binop .lt (.var "x") (.int 3)] = true := by
  simp [slL, slE, isGlobalName, isValueGlobal, findFun, reservedNames]

/-- Program level: straight-line toplevel expressions of a program that `check` accepts never
end in a type error. -/
theorem check_sound_toplevel_partial (P : Program) (d : Nat)
    (hfrag : ∀ e ∈ P.top, slE P d e = true) (hcheck : check P = []) :
    ∀ fuel, (run fuel P).isTypeError = false := by
  intro fuel
  have hc : checkTop P [[]] P.top = [] := by
    unfold check at hcheck
    exact (List.append_eq_nil_iff.mp hcheck).2
  have key : ∀ (es : List TExpr) (Γ : Blocks Ty) (ρ : Blocks Val), (∀ e ∈ es, slE P d e = true) →
      checkTop P Γ es = [] → envOK Γ ρ → (runTop P fuel ρ es).isTypeError = false := by
    intro es
    induction es with
    | nil => intros; simp [runTop, Outcome.isTypeError]
    | cons e rest ih =>
      intro Γ ρ hs hck henv
      simp only [checkTop] at hck
      cases h1 : tcExpr P .any none Γ e with
      | mk T1 r1 =>
      cases r1 with
      | mk Γ1 d1 =>
      rw [h1] at hck
      simp at hck
      obtain ⟨hd1, _, hrest⟩ := hck
      subst hd1
      have hres := (sound_sl P fuel).1 d e .any none Γ ρ T1 Γ1 (hs e (by simp)) h1 (by simp)
        (by simp [good]) henv
      simp only [runTop]
      cases hev : eval P fuel ρ e with
      | val v ρ1 =>
        rw [hev] at hres
        simp [ResOK] at hres
        exact ih Γ1 ρ1 (fun e' he' => hs e' (by simp [he'])) hrest hres.2
      | ret v => simp [Outcome.isTypeError]
      | brk ρ1 => rw [hev] at hres; simp [ResOK] at hres
      | cont ρ1 => rw [hev] at hres; simp [ResOK] at hres
      | err er => rw [hev] at hres; simp [ResOK] at hres; simp [Outcome.isTypeError, hres]
      | timeout => simp [Outcome.isTypeError]
  exact key P.top [[]] [[]] hfrag hc (by simp [envOK, blockOK])


-- ------------------------------------------------------------------ the minimum deliverable: expressions + let + if + calls

/-- `check_sound_exprs`: soundness of the checker (M8) w.r.t. the typed reference semantics for
blocks built from literals, variables, parentheses, all binary operators, `let` with / without
hints, assignment, `if` with and without `else` (in inferred AND checked position), list and
tuple literals, `return`, `break` / `continue`, and CALLS of annotated first-order named
functions (incl. recursion), `Some`, `println`, `print`, `string_repr`.

Hypotheses: `ProgOK P D` — every function body of `P` is in the fragment (`okL`, `s1DiagsL`), and
was accepted by the checker against its annotations (this is what `check P = []` gives, see
`progOK_of_check`); the block `es` is in the fragment (`okL`: `let` only as a block statement;
`s1DiagsL`: passes `check_loops` and uses none of the forms not yet covered: `+=`, `while`, `for`,
`match`); it type-checks with NO diagnostic (`tcSeq … = (T, Γ', [])`) in bindings `Γ` of
well-formed types that type the runtime environment `ρ`.

Conclusion, for EVERY fuel: the evaluation yields a value of the inferred type (of the expected type
in checked position) in an environment typed by `Γ'`, or a `return` of a value of the function's
return type, or (inside a loop only) break/continue, or a NON-type error (division by zero,
overflow), or runs out of fuel. In particular the annotation checks on parameters, `let` hints and
return values, the arity checks and the operand checks of the evaluator never fail. -/
theorem check_sound_exprs (P : Program) (D : Nat) (hP : ProgOK P D)
    (d : Nat) (es : List TExpr) (ret : Ty) (exp : Option Ty) (Γ Γ' : Blocks Ty) (ρ : Blocks Val) (T : Ty)
    (il : Bool)
    (hfrag : okL P d es = true) (hfrag' : s1DiagsL il es = [])
    (hcheck : tcSeq P ret exp Γ es = (T, Γ', []))
    (hexp : ∀ E, exp = some E → good E = true) (hret : good ret = true)
    (henv : envOK Γ ρ) (hΓ : GoodEnv Γ) :
    ∀ fuel, R ret (resTy exp T) Γ Γ' il (evalSeq P fuel ρ es) :=
  fun fuel => (sound P D hP fuel).2.1 d es ret exp Γ ρ T Γ' il hfrag hcheck hfrag' hexp hret henv hΓ

/-- … in particular: never one of C16's type errors. -/
theorem check_sound_exprs_no_type_error' (P : Program) (D : Nat) (hP : ProgOK P D)
    (d : Nat) (es : List TExpr) (ret : Ty) (exp : Option Ty) (Γ Γ' : Blocks Ty) (ρ : Blocks Val) (T : Ty)
    (il : Bool)
    (hfrag : okL P d es = true) (hfrag' : s1DiagsL il es = [])
    (hcheck : tcSeq P ret exp Γ es = (T, Γ', []))
    (hexp : ∀ E, exp = some E → good E = true) (hret : good ret = true)
    (henv : envOK Γ ρ) (hΓ : GoodEnv Γ) (fuel : Nat) (e : RErr)
    (h : evalSeq P fuel ρ es = .err e) : e.isTypeError = false := by
  have := check_sound_exprs P D hP d es ret exp Γ Γ' ρ T il hfrag hfrag' hcheck hexp hret henv hΓ fuel
  rw [h] at this
  simpa [R] using this

theorem checkFuns_nil (P : Program) : ∀ fs : List FunDef, checkFuns P fs = [] → ∀ f ∈ fs, checkFun P f = []
  | [], _, f, hf => by simp at hf
  | g :: gs, h, f, hf => by
    simp only [checkFuns] at h
    obtain ⟨h1, h2⟩ := List.append_eq_nil_iff.mp h
    simp at hf
    rcases hf with rfl | hf
    · exact h1
    · exact checkFuns_nil P gs h2 f hf

/-- `check P = []` gives the per-function hypothesis of `check_sound_exprs`. -/
theorem progOK_of_check (P : Program) (D : Nat) (hcheck : check P = [])
    (hfrag : ∀ f ∈ P.funs, okL P D f.body = true ∧ s1DiagsL false f.body = []) : ProgOK P D := by
  intro f hf
  have hc : checkFuns P P.funs = [] := by
    unfold check at hcheck
    exact (List.append_eq_nil_iff.mp hcheck).1
  have := checkFuns_nil P P.funs hc f hf
  unfold checkFun at this
  exact ⟨(hfrag f hf).1, (List.append_eq_nil_iff.mp this).1, (hfrag f hf).2⟩

/-- Program level (stage 1 of `check_sound_fragment`): a fully annotated program whose function
bodies and toplevel expressions use the forms above and which `check` accepts never ends in a
type error, for every fuel. -/
theorem check_sound_program_stage1 (P : Program) (D : Nat)
    (hfuns : ∀ f ∈ P.funs, okL P D f.body = true ∧ s1DiagsL false f.body = [])
    (htop : ∀ e ∈ P.top, okS P D e = true ∧ s1Diags false e = [])
    (hcheck : check P = []) :
    ∀ fuel, (run fuel P).isTypeError = false := by
  intro fuel
  have hP := progOK_of_check P D hcheck hfuns
  have hc : checkTop P [[]] P.top = [] := by
    unfold check at hcheck
    exact (List.append_eq_nil_iff.mp hcheck).2
  have key : ∀ (es : List TExpr) (Γ : Blocks Ty) (ρ : Blocks Val),
      (∀ e ∈ es, okS P D e = true ∧ s1Diags false e = []) →
      checkTop P Γ es = [] → envOK Γ ρ → GoodEnv Γ → (runTop P fuel ρ es).isTypeError = false := by
    intro es
    induction es with
    | nil => intros; simp [runTop, Outcome.isTypeError]
    | cons e rest ih =>
      intro Γ ρ hs hck henv hG
      simp only [checkTop] at hck
      obtain ⟨T1, Γ1, d1, h1⟩ := triple_exists (tcExpr P .any none Γ e)
      rw [h1] at hck
      simp at hck
      obtain ⟨hd1, _, hrest⟩ := hck
      subst hd1
      have he := hs e (by simp)
      have hres := (sound P D hP fuel).1 D e .any none Γ ρ T1 Γ1 false he.1 h1 he.2 (by simp)
        (by simp [good]) henv hG
      have hG1 := stmt_goodenv P D (tc_gi P D).1 e .any none Γ Γ1 T1 he.1 h1 hG
      simp only [runTop]
      cases hev : eval P fuel ρ e with
      | val v ρ1 =>
        rw [hev] at hres
        simp [R] at hres
        exact ih Γ1 ρ1 (fun e' he' => hs e' (by simp [he'])) hrest hres.2 hG1
      | ret v => simp [Outcome.isTypeError]
      | brk ρ1 => rw [hev] at hres; simp [R] at hres
      | cont ρ1 => rw [hev] at hres; simp [R] at hres
      | err er => rw [hev] at hres; simp [R] at hres; simp [Outcome.isTypeError, hres]
      | timeout => simp [Outcome.isTypeError]
  exact key P.top [[]] [[]] htop hc (by simp [envOK, blockOK]) (by intro b hb; simp at hb; subst hb; simp)

-- a program with a recursive annotated function, if/else, a list literal and calls satisfies the
-- fragment hypotheses
def exampleProgram : Program :=
  Program.mk
    [FunDef.mk "f" [("n", Hint.int)] Hint.int
      [TExpr.ifE (.binop .le (.var "n") (.int 0)) [.int 1] true
        [.binop .mul (.var "n") (.call "f" [.binop .sub (.var "n") (.int 1)])]]]
    [TExpr.letE "xs" none (.list [.call "f" [.int 3], .int 2]),
     TExpr.call "println" [.call "string_repr" [.var "xs"]]]

example :
    (∀ f ∈ exampleProgram.funs, okL exampleProgram 12 f.body = true ∧ s1DiagsL false f.body = []) ∧
    (∀ e ∈ exampleProgram.top, okS exampleProgram 12 e = true ∧ s1Diags false e = []) := by
  simp [exampleProgram, okL, okE, okA, okS, s1DiagsL, s1Diags, isGlobalName, isValueGlobal, findFun, reservedNames]

end C16
