"""Shared machinery of the refactoring-tool checks C19–C22 (certified validators, DESIGN §3 (V)).

* `RGen`: generator of core-fragment programs with a SMALL name pool, so that shadowing, sibling scopes
  with the same name, closures capturing a variable, parameters and for / match binders all collide.
* `parse_sexp` / `Tree`: the `astq` dump of the real parser (tree with node ids and byte spans), symbol
  occurrences, and an INDEPENDENT lexical resolver (Python) used as the direct oracle for rename.
* hook helpers: `tool()` lines for the `refactor` op (same functions as the `reftest-*` CLI commands),
  `machine` runs (the real evaluator with captured stdout), CLI re-runs for anything reported.
"""
import os
import re
from . import common
from .common import hexs, unhex
from . import machine_corr as MC

INT, BOOL, LIST, OPT, FUN = "int", "bool", "list", "opt", "fun"
POOL = ["x", "y", "z", "a", "b", "n"]


class RGen:
    def __init__(self, rng, size=28, assign=True, closures=True, lints=False):
        self.rng = rng
        self.budget = size
        self.assign = assign
        self.closures = closures
        self.scopes = [{}]
        self.funs = []            # (name, nparams)
        self.counter = 0
        self.loop = 0
        self.feat = {}

    def f(self, k):
        self.feat[k] = self.feat.get(k, 0) + 1

    def chance(self, p):
        return self.rng.random() < p

    def visible(self):
        out = {}
        for sc in self.scopes:
            out.update(sc)
        return out

    def vars_of(self, ty):
        return sorted(n for n, t in self.visible().items() if t == ty)

    def name(self):
        return self.rng.choice(POOL)

    # ---------------------------------------------------------------- expressions
    def int_expr(self, d=0):
        r = self.rng
        self.budget -= 1
        vs = self.vars_of(INT)
        if d >= 3 or self.budget <= 0 or self.chance(0.35):
            if vs and self.chance(0.75):
                return r.choice(vs)
            return str(r.choice([0, 1, 2, 3, 5, 7, 10]))
        k = r.randrange(12)
        if k < 5:
            op = r.choice(["+", "-", "*", "+", "+"])
            return "%s %s %s" % (self.atom(d + 1), op, self.atom(d + 1))
        if k == 5:
            return "(%s) %s %s" % (self.int_expr(d + 1), r.choice(["/", "%"]), r.choice(["2", "3", self.atom(d + 1)]))
        if k == 6 and self.funs:
            name, n = r.choice(self.funs)
            self.f("call")
            return "%s(%s)" % (name, ", ".join(self.int_expr(d + 1) for _ in range(n)))
        if k == 7:
            fs = self.vars_of(FUN)
            if fs:
                self.f("closure-call")
                return "%s(%s)" % (r.choice(fs), self.int_expr(d + 1))
        if k == 8:
            self.f("if-expr")
            return "if %s { %s } else { %s }" % (self.bool_expr(d + 1), self.int_expr(d + 1), self.int_expr(d + 1))
        if k == 9:
            self.f("match-expr")
            x = self.name()
            scrut = self.opt_expr(d + 1)
            self.scopes.append({x: INT})
            a = self.int_expr(d + 1)
            self.scopes.pop()
            return "match %s { Some(%s) => { %s } None => { %s } }" % (scrut, x, a, self.int_expr(d + 1))
        if k == 10 and self.closures:
            self.f("closure-immediate")
            p = self.name()
            self.scopes.append({p: INT})
            body = self.int_expr(d + 1)
            self.scopes.pop()
            return "(fun(%s) { %s })(%s)" % (p, body, self.int_expr(d + 1))
        return "(%s)" % self.int_expr(d + 1)

    def atom(self, d):
        e = self.int_expr(d)
        if re.fullmatch(r"\w+", e) or (e.startswith("(") and e.endswith(")") and e.count("(") == 1):
            return e
        return "(%s)" % e

    def bool_expr(self, d=0):
        r = self.rng
        self.budget -= 1
        vs = self.vars_of(BOOL)
        if vs and self.chance(0.2):
            return r.choice(vs)
        if d >= 2 or self.chance(0.25):
            return r.choice(["True", "False"])
        if self.chance(0.2):
            return "(%s) %s (%s)" % (self.bool_expr(d + 1), r.choice(["&&", "||"]), self.bool_expr(d + 1))
        return "%s %s %s" % (self.atom(d + 1), r.choice(["<", "<=", ">", ">=", "==", "!="]), self.atom(d + 1))

    def list_expr(self, d=0):
        vs = self.vars_of(LIST)
        if vs and self.chance(0.4):
            return self.rng.choice(vs)
        return "[%s]" % ", ".join(self.int_expr(d + 1) for _ in range(self.rng.randrange(0, 4)))

    def opt_expr(self, d=0):
        vs = self.vars_of(OPT)
        if vs and self.chance(0.4):
            return self.rng.choice(vs)
        return "Some(%s)" % self.int_expr(d + 1) if self.chance(0.7) else "None"

    # ---------------------------------------------------------------- statements
    def block(self, ind, extra=None, n=None):
        self.scopes.append(dict(extra or {}))
        out = []
        for _ in range(n if n is not None else self.rng.randrange(1, 4)):
            if self.budget <= 0 and out:
                break
            out.append(self.stmt(ind))
        self.scopes.pop()
        return out

    def render(self, stmts, ind):
        pad = "  " * ind
        return "{\n" + "".join(pad + "  " + s + "\n" for s in stmts) + pad + "}"

    def stmt(self, ind):
        r = self.rng
        self.budget -= 1
        k = r.randrange(100)
        if k < 26:
            ty = r.choice([INT, INT, INT, INT, BOOL, LIST, OPT])
            e = {INT: self.int_expr, BOOL: self.bool_expr, LIST: self.list_expr, OPT: self.opt_expr}[ty](0)
            nm = self.name()
            if nm in self.visible():
                self.f("shadow")
            self.scopes[-1][nm] = ty
            self.f("let")
            return "let %s = %s" % (nm, e)
        if k < 34 and self.closures:
            self.f("closure-let")
            p = self.name()
            self.scopes.append({p: INT})
            if self.chance(0.4):
                body = self.block(ind + 1, n=1) + [self.int_expr(1)]
                rendered = self.render(body, ind)
            else:
                rendered = "{ %s }" % self.int_expr(1)
            self.scopes.pop()
            nm = self.name()
            self.scopes[-1][nm] = FUN
            return "let %s = fun(%s) %s" % (nm, p, rendered)
        if k < 42 and self.assign:
            vs = self.vars_of(INT)
            if vs:
                self.f("assign")
                v = r.choice(vs)
                if self.chance(0.5):
                    return "%s = %s" % (v, self.int_expr(0))
                return "%s %s %s" % (v, r.choice(["+=", "-="]), self.atom(1))
        if k < 62:
            self.f("print")
            ty = r.choice([INT, INT, INT, BOOL, LIST, OPT])
            e = {INT: self.int_expr, BOOL: self.bool_expr, LIST: self.list_expr, OPT: self.opt_expr}[ty](0)
            return "println(string_repr(%s))" % e
        if k < 72:
            self.f("if")
            c = self.bool_expr(0)
            t = self.render(self.block(ind + 1), ind)
            if self.chance(0.5):
                return "if %s %s else %s" % (c, t, self.render(self.block(ind + 1), ind))
            return "if %s %s" % (c, t)
        if k < 78 and self.assign and self.loop < 2:
            self.f("while")
            self.counter += 1
            i = "i%d" % self.counter
            self.scopes[-1][i] = INT
            self.loop += 1
            body = ["%s += 1" % i] + self.block(ind + 1)
            self.loop -= 1
            return "let %s = 0\n%swhile %s < %d %s" % (i, "  " * ind, i, r.randrange(0, 4), self.render(body, ind))
        if k < 87 and self.loop < 2:
            self.f("for")
            x = self.name()
            it = self.list_expr(1)
            self.loop += 1
            body = self.block(ind + 1, extra={x: INT})
            self.loop -= 1
            return "for %s in %s %s" % (x, it, self.render(body, ind))
        if k < 95:
            self.f("match")
            x = self.name()
            scrut = self.opt_expr(0)
            b1 = self.render(self.block(ind + 1, extra={x: INT}), ind)
            b2 = self.render(self.block(ind + 1), ind)
            return "match %s { Some(%s) => %s None => %s }" % (scrut, x, b1, b2)
        return "println(string_repr(%s))" % self.int_expr(0)

    def fun_def(self):
        r = self.rng
        self.counter += 1
        name = "f%d" % self.counter
        n = r.randrange(0, 3)
        ps = []
        for _ in range(n):
            p = self.name()
            if p not in ps:
                ps.append(p)
        saved, self.scopes = self.scopes, [{p: INT for p in ps}]
        saved_loop, self.loop = self.loop, 0
        self.scopes.append({})
        body = []
        for _ in range(r.randrange(1, 4)):
            body.append(self.stmt(1))
        body.append(self.int_expr(1))
        self.scopes, self.loop = saved, saved_loop
        self.funs.append((name, len(ps)))
        self.f("fun")
        return "fun %s(%s) %s" % (name, ", ".join(ps), self.render(body, 0))


def gen_program(rng, size=28, assign=True, closures=True):
    g = RGen(rng, size=size, assign=assign, closures=closures)
    parts = []
    for _ in range(rng.randrange(0, 3)):
        parts.append(g.fun_def())
    for _ in range(rng.randrange(3, 8)):
        parts.append(g.stmt(0))
        if g.budget <= 0:
            break
    parts.append("println(string_repr(%s))" % g.int_expr(1))
    return "\n".join(parts) + "\n", g.feat


# -------------------------------------------------------------------- S-expressions / astq tree
def parse_sexp(s):
    toks = re.findall(r"\(|\)|[^\s()]+", s)
    stack = [[]]
    for t in toks:
        if t == "(":
            stack.append([])
        elif t == ")":
            x = stack.pop()
            stack[-1].append(x)
        else:
            stack[-1].append(t)
    return stack[0]


EXPR_KINDS = {"int", "str", "var", "binop", "let", "assign", "update", "if", "while", "for", "match", "return",
              "break", "continue", "list", "tuple", "call", "mcall", "lambda", "assert", "paren", "invalid", "unsup"}


def is_expr(x):
    return isinstance(x, list) and x and x[0] in EXPR_KINDS


def dest_syms(d):
    """[(name, start, end)] of a (sym (s …)) / (destr (s …)…) destination."""
    if d[0] == "sym":
        return [(d[1][1], int(d[1][2]), int(d[1][3]))]
    return [(s[1], int(s[2]), int(s[3])) for s in d[1:]]


class Occ:
    __slots__ = ("role", "name", "start", "end", "site", "node")

    def __init__(self, role, name, start, end, site, node):
        self.role, self.name, self.start, self.end, self.site, self.node = role, name, start, end, site, node


def site_str(site):
    return ":".join(str(x) for x in site)


class Tree:
    """The `astq` dump: items, every local binder / use occurrence with the site it resolves to
    (resolver written independently of the Lean one: explicit scope chain, innermost first)."""

    def __init__(self, astq_resp):
        assert astq_resp.startswith("OK (astq "), astq_resp[:80]
        top = parse_sexp(astq_resp[3:])[0]
        self.nerr = int(top[1])
        self.items = top[2:]
        self.occs = []
        self.exprs = []           # (node list) of every expression, preorder
        self.fun_names = [it[1][1] for it in self.items if it[0] == "fun"]
        top_scope = [{}]
        for it in self.items:
            if it[0] == "fun":
                fname = it[1][1]
                frame = {}
                for i, p in enumerate(it[2][1:]):
                    s = p[1]
                    site = ("f", fname, i)
                    self.occs.append(Occ("def", s[1], int(s[2]), int(s[3]), site, None))
                    if s[1] != "_":
                        frame[s[1]] = site
                self.block(it[4], [frame])
            elif it[0] == "expr":
                self.stmt(it[1], top_scope)
            elif it[0] == "blockitem":
                self.block(it[1], top_scope)

    # a scope chain is a list of dicts, innermost LAST
    def lookup(self, scopes, name):
        for fr in reversed(scopes):
            if name in fr:
                return fr[name]
        return None

    def use(self, role, s, node, scopes):
        name = s[1]
        self.occs.append(Occ(role, name, int(s[2]), int(s[3]), self.lookup(scopes, name), node))

    def bind(self, d, node_id, case, frame, node):
        for i, (name, st, en) in enumerate(dest_syms(d)):
            site = ("n", node_id, case, i)
            self.occs.append(Occ("def", name, st, en, site, node))
            if name != "_":
                frame[name] = site

    def block(self, b, scopes):
        scopes = scopes + [{}]
        for e in b[3:]:
            self.stmt(e, scopes)

    def stmt(self, e, scopes):
        """A statement of a block: a `let` binds in the block's own frame, after its value."""
        if e[0] == "let":
            self.exprs.append(e)
            self.expr(e[7], scopes)
            self.bind(e[5], int(e[1]), 0, scopes[-1], e)
        else:
            self.expr(e, scopes)

    def expr(self, e, scopes):
        k = e[0]
        self.exprs.append(e)
        rest = e[5:]
        if k == "var":
            self.use("use", rest[0], e, scopes)
        elif k == "binop":
            self.expr(rest[1], scopes)
            self.expr(rest[2], scopes)
        elif k == "let":
            self.expr(rest[2], scopes)          # a let in expression position binds nothing visible
        elif k == "assign":
            self.use("assign", rest[0], e, scopes)
            self.expr(rest[1], scopes)
        elif k == "update":
            self.use("assign", rest[1], e, scopes)
            self.expr(rest[2], scopes)
        elif k == "if":
            self.expr(rest[0], scopes)
            self.block(rest[1], scopes)
            if rest[2] != "noelse":
                self.block(rest[2], scopes)
        elif k == "while":
            self.expr(rest[0], scopes)
            self.block(rest[1], scopes)
        elif k == "for":
            self.expr(rest[1], scopes)
            fr = {}
            self.bind(rest[0], int(e[1]), 0, fr, e)
            self.block(rest[2], scopes + [fr])
        elif k == "match":
            self.expr(rest[0], scopes)
            for ci, c in enumerate(rest[1:]):
                fr = {}
                if c[2] != "nodest":
                    self.bind(c[2], int(e[1]), ci, fr, e)
                self.block(c[3], scopes + [fr])
        elif k == "return":
            if rest[0] != "none":
                self.expr(rest[0], scopes)
        elif k in ("list", "tuple"):
            for x in rest:
                self.expr(x, scopes)
        elif k == "call":
            for x in rest:
                self.expr(x, scopes)
        elif k == "mcall":
            self.expr(rest[0], scopes)
            for x in rest[2:]:
                self.expr(x, scopes)
        elif k == "lambda":
            fr = {}
            for i, p in enumerate(rest[0][1:]):
                s = p[1]
                site = ("n", int(e[1]), 0, i)
                self.occs.append(Occ("def", s[1], int(s[2]), int(s[3]), site, e))
                if s[1] != "_":
                    fr[s[1]] = site
            self.block(rest[2], scopes + [fr])
        elif k in ("paren", "assert"):
            self.expr(rest[0], scopes)

    def local_occs(self):
        return [o for o in self.occs if o.site is not None]

    def same_binder(self, site):
        return [o for o in self.occs if o.site == site]


def replace_spans(src, spans, new):
    """Text-level expectation: the given (start, end) byte spans replaced by `new` (ASCII sources)."""
    b = src.encode("utf-8")
    out, i = [], 0
    for s, e in sorted(spans):
        out.append(b[i:s])
        out.append(new.encode("utf-8"))
        i = e
    out.append(b[i:])
    return b"".join(out).decode("utf-8")


# -------------------------------------------------------------------- hook helpers
def tool_line(tool, src, start, end, name=""):
    return "refactor %s %s %d %d %s" % (tool, hexs(src), start, end, hexs(name))


def tool_result(resp):
    """-> ('ok', text) | ('err', message) | ('panic', message) | ('died', raw)"""
    if resp is None or resp.startswith("DIED"):
        return "died", str(resp)
    if resp.startswith("PANIC"):
        return "panic", unhex(resp[6:])
    m = re.match(r"^OK \((ok|err) ([0-9a-f]*)\)$", resp)
    if not m:
        return "died", resp[:200]
    return m.group(1), unhex(m.group(2))


def run_line(src, tick_limit=200000):
    return "machine %s - %d - notrace" % (hexs(src), tick_limit)


def run_result(resp):
    """Observable result of a run on the real evaluator: (kind, detail, stdout);
    kind = ok (detail = final value) | error (detail = classified message) | panic | died | …"""
    r = MC.parse_resp(resp)
    kind = r["kind"]
    if kind == "ok":
        return "ok", r.get("outcome", ""), r.get("out", "")
    if kind == "err":
        return "error", r.get("outcome", ""), r.get("out", "")
    return kind, str(r.get("raw", ""))[:200], r.get("out", "")


ARITH = ("div-zero", "div-overflow", "mod-zero", "neg-pow", "pow-too-large", "pow-overflow")


def refsem_class(kind, detail):
    """Map a real run's (kind, detail) to the outcome string of the reference semantics."""
    if kind == "ok":
        return "finished"
    if kind != "error":
        return None
    w = detail.split(" ")[0]
    if w in ARITH:
        return "error arith"
    if w in ("no-such-variable", "not-bound"):
        return "error no-such-variable"
    if w == "type-error":
        return "error type-error"
    if w in ("arity", "no-match", "bad-pattern", "tuple-size", "invalid-syntax"):
        return "error " + w
    if w == "not-enum":
        return "error type-error"
    return None


def err_class(detail, names=()):
    """Error class without the identifiers a refactoring may legitimately change."""
    d = detail
    for n in names:
        d = re.sub(r"\b%s\b" % re.escape(n), "<name>", d)
    return d


def cli_run(ctx, src, d, tag):
    """`garden run` on a scratch file: (rc, stdout, stderr)."""
    path = os.path.join(d, "%s.gdn" % tag)
    with open(path, "w") as f:
        f.write(src)
    return ctx.garden(["run", path], timeout=60)


def cleanup(d):
    import shutil
    shutil.rmtree(d, ignore_errors=True)


def refsem_line(astx_resp, cl=True, fuel=20000):
    return "refsem_run %d %d %s" % (1 if cl else 0, fuel, astx_resp[3:])


def refsem_result(resp):
    m = re.match(r"^OK \(refsem \(([^)]*)\) \(out ([0-9a-f]*)\)\)$", resp or "")
    if not m:
        return None
    return m.group(1), unhex(m.group(2))
