import GardenVerif.Lemmas.ExtractHoist
/-! The simulation between `p` and its let-hoisted version (`H` / `HSeq` / `HR`), closure-free. -/
set_option linter.unusedVariables false
set_option linter.unusedSimpArgs false
set_option maxHeartbeats 400000

namespace Extract
open Machine (Expr Case Dest BinOp Program FunDef EnumDef)
open RefSem Validators

/-- The state right after the hoisted `let n = v`. -/
def pushSt (s' : RefSem.St) (v : Val) : RefSem.St := { s' with store := s'.store ++ [v] }

structure SimH (t : Nat) (n : String) (p p' : Program) (k m : Nat) : Prop where
  ev : ∀ env s env' s' e, Ok n p p' env s env' s' → G t n e = true →
    RelH s s' (eval false p k env s e) (eval false p' m env' s' (H t n e))
  seq : ∀ env s env' s' es, Ok n p p' env s env' s' → GSeq t n es = true →
    RelH s s' (evalSeq false p k env s es) (evalSeq false p' m env' s' (HSeq t n es))
  lst : ∀ env s env' s' es, Ok n p p' env s env' s' → GList t n es = true →
    RelH s s' (evalList false p k env s es) (evalList false p' m env' s' (HList t n es))
  whl : ∀ env s env' s' cnd body, Ok n p p' env s env' s' → G t n cnd = true → GSeq t n body = true →
    RelH s s' (evalWhile false p k env s cnd body) (evalWhile false p' m env' s' (H t n cnd) (HSeq t n body))
  for_ : ∀ env s env' s' dest items body, Ok n p p' env s env' s' → GSeq t n body = true →
    RelH s s' (evalFor false p k env s dest items body) (evalFor false p' m env' s' dest items (HSeq t n body))
  cases : ∀ env s env' s' ty idx pl cs, Ok n p p' env s env' s' → GCases t n cs = true →
    RelH s s' (evalCases false p k env s ty idx pl cs) (evalCases false p' m env' s' ty idx pl (HCases t n cs))
  app : ∀ s s' f args, s.out = s'.out →
    RelH s s' (applyVal false p k s f args) (applyVal false p' m s' f args)
  spine : ∀ env s env' s' e ux v, Ok n p p' env s env' s' → G t n e = true → sp t e = true →
    (findSp t e).map unparen = some ux →
    (∀ j, j ≤ k → RelH s s' (eval false p j env s ux) (.val v, s')) →
    RelH s (pushSt s' v) (eval false p k env s e)
      (eval false p' m ((n, s'.store.length) :: env') (pushSt s' v) (HR t n e))
  spineL : ∀ env s env' s' es ux v, Ok n p p' env s env' s' → GList t n es = true → spL t es = true →
    (findSpL t es).map unparen = some ux →
    (∀ j, j ≤ k → RelH s s' (eval false p j env s ux) (.val v, s')) →
    RelH s (pushSt s' v) (evalList false p k env s es)
      (evalList false p' m ((n, s'.store.length) :: env') (pushSt s' v) (HRList t n es))

theorem simH_zero (t : Nat) (n : String) (p p' : Program) (m : Nat) : SimH t n p p' 0 m := by
  refine ⟨?_, ?_, ?_, ?_, ?_, ?_, ?_, ?_, ?_⟩ <;> intros <;>
    simp only [eval, evalSeq, evalList, evalWhile, evalFor, evalCases, applyVal] <;> exact RelH.bad rfl

theorem Ok.push {n p p' env s env' s'} (h : Ok n p p' env s env' s') (v : Val) :
    Ok n p p' env s ((n, s'.store.length) :: env') (pushSt s' v) :=
  ⟨agree_push h.agree h.wf' v, h.wf, wf_push h.wf' n v, h.out⟩

theorem pushSt_prefix (s' : RefSem.St) (v : Val) : s'.store <+: (pushSt s' v).store := List.prefix_append _ _

/-- Both sides evaluate a pure sub-expression: the states stay, the results agree (or the original is bad). -/
theorem bind_pure {s s' : RefSem.St} {a b : Res × RefSem.St} {k k' : Val → RefSem.St → Res × RefSem.St}
    (h : RelH s s' a b) (ha : a.2 = s) (hb : b.2 = s') (ho : s.out = s'.out)
    (hk : ∀ v, RelH s s' (k v s) (k' v s')) : RelH s s' (RefSem.bind a k) (RefSem.bind b k') := by
  obtain ⟨r, s1⟩ := a
  obtain ⟨r', s1'⟩ := b
  simp only at ha hb; subst ha; subst hb
  rcases h with h | ⟨e1, _, _, _⟩
  · exact Or.inl (bad_bind h)
  · simp only at e1; subst e1
    cases r <;> first | exact hk _ | exact RelH.same _ ho


theorem evalSeq_let (cl : Bool) (p : Program) (f : Nat) (env : Env) (s : RefSem.St) (id : Nat) (u : Bool)
    (d : Dest) (rhs : Expr) (rest : List Expr) :
    evalSeq cl p (f + 1) env s (.letE id u d rhs :: rest) =
      RefSem.bind (eval cl p f env s rhs) fun v s1 =>
        match bindDest d v env s1 with
        | .error k => (.err k, s1)
        | .ok (env', s2) => evalSeq cl p f env' s2 rest := by
  simp only [evalSeq]
  rfl

theorem res_cases (r : Res) : (∃ v, r = .val v) ∨ bad r = true ∨ vb r = false := by
  cases r <;> simp [bad, vb]

theorem simH_succ {t : Nat} {n : String} {p p' : Program} (hc : HCtx t n p p') (k : Nat)
    (ih : ∀ m0, 2 * k ≤ m0 → SimH t n p p' k m0) (m : Nat) (hm : 2 * (k + 1) ≤ m) :
    SimH t n p p' (k + 1) m := by
  obtain ⟨m1, rfl⟩ : ∃ m1, m = m1 + 1 := ⟨m - 1, by omega⟩
  have ih1 := ih m1 (by omega)
  refine ⟨?ev, ?seq, ?lst, ?whl, ?for_, ?cases, ?app, ?spine, ?spineL⟩
  case ev =>
    intro env s env' s' e hk hg
    have ih := ih1
    cases e with
    | int id u v => simp only [H, eval]; exact RelH.same _ hk.out
    | str id u v => simp only [H, eval]; exact RelH.same _ hk.out
    | var id u nm =>
      simp only [G, bne_iff_ne, ne_eq] at hg
      simp only [H, eval, hk.agree nm hg]
      cases lookupVar p' env' s'.store nm <;> exact RelH.same _ hk.out
    | binop id u op l r =>
      simp only [G, Bool.and_eq_true] at hg
      simp only [H, eval]
      refine bindH (ih.ev _ _ _ _ _ hk hg.1) fun lv s1 s1' o1 p1 p1' => ?_
      refine bindH ((ih.ev _ _ _ _ _ (hk.step p1 p1' o1) hg.2).mono p1 p1') fun rv s2 s2' o2 p2 p2' => ?_
      exact Or.inr ⟨rfl, o2, p2, p2'⟩
    | letE id u d r => simp only [H, eval]; exact RelH.bad rfl
    | assign id u nm rhs => simp [G] at hg
    | update id u a nm rhs => simp [G] at hg
    | ifE id u cnd thn els =>
      simp only [G, Bool.and_eq_true] at hg
      simp only [H, eval]
      refine bindH (ih.ev _ _ _ _ _ hk hg.1.1) fun cv s1 s1' o1 p1 p1' => ?_
      have hk1 := hk.step p1 p1' o1
      cases cv.asBool with
      | none => exact RelH.bad rfl
      | some b =>
        cases els with
        | none =>
          simp only [HOpt]
          cases b with
          | false => exact Or.inr ⟨rfl, o1, p1, p1'⟩
          | true =>
            simp only [if_true]
            refine bindH ((ih.seq _ _ _ _ _ hk1 hg.1.2).mono p1 p1') fun _ s2 s2' o2 p2 p2' => ?_
            exact Or.inr ⟨rfl, o2, p2, p2'⟩
        | some eb =>
          simp only [HOpt]
          have hg3 : GSeq t n eb = true := by simpa [GOpt] using hg.2
          cases b with
          | false => exact (ih.seq _ _ _ _ _ hk1 hg3).mono p1 p1'
          | true => exact (ih.seq _ _ _ _ _ hk1 hg.1.2).mono p1 p1'
    | whileE id u cnd body =>
      simp only [G, Bool.and_eq_true] at hg
      simp only [H, eval]
      exact ih.whl _ _ _ _ _ _ hk hg.1 hg.2
    | forE id u dest iter body =>
      simp only [G, Bool.and_eq_true] at hg
      simp only [H, eval]
      refine bindH (ih.ev _ _ _ _ _ hk hg.1.2) fun iv s1 s1' o1 p1 p1' => ?_
      cases iv <;> first | exact RelH.bad rfl | exact (ih.for_ _ _ _ _ _ _ _ (hk.step p1 p1' o1) hg.2).mono p1 p1'
    | matchE id u scrut cs =>
      simp only [G, Bool.and_eq_true] at hg
      simp only [H, eval]
      refine bindH (ih.ev _ _ _ _ _ hk hg.1) fun sv s1 s1' o1 p1 p1' => ?_
      cases sv <;> first | exact RelH.bad rfl | exact (ih.cases _ _ _ _ _ _ _ _ (hk.step p1 p1' o1) hg.2).mono p1 p1'
    | ret id u o =>
      cases o with
      | none => simp only [H, eval]; exact RelH.same _ hk.out
      | some x =>
        simp only [G] at hg
        simp only [H, eval]
        exact bindH (ih.ev _ _ _ _ _ hk hg) fun v s1 s1' o1 p1 p1' => Or.inr ⟨rfl, o1, p1, p1'⟩
    | brk id u => simp only [H, eval]; exact RelH.same _ hk.out
    | cont id u => simp only [H, eval]; exact RelH.same _ hk.out
    | list id u items =>
      simp only [G] at hg
      simp only [H, eval]
      exact ih.lst _ _ _ _ _ hk hg
    | tuple id u items =>
      simp only [G] at hg
      simp only [H, eval]
      refine bindH (ih.lst _ _ _ _ _ hk hg) fun vs s1 s1' o1 p1 p1' => ?_
      cases vs <;> first | exact RelH.bad rfl | exact Or.inr ⟨rfl, o1, p1, p1'⟩
    | call id u recv args =>
      simp only [G, Bool.and_eq_true] at hg
      simp only [H, eval]
      refine bindH (ih.ev _ _ _ _ _ hk hg.1) fun fv s1 s1' o1 p1 p1' => ?_
      refine bindH ((ih.lst _ _ _ _ _ (hk.step p1 p1' o1) hg.2).mono p1 p1') fun vs s2 s2' o2 p2 p2' => ?_
      cases vs <;> first | exact RelH.bad rfl | exact (ih.app _ _ _ _ o2).mono p2 p2'
    | lambda id u ps body => simp only [H, eval, Bool.false_eq_true, if_false]; exact RelH.bad rfl
    | paren id u x =>
      simp only [G] at hg
      simp only [H, eval]
      exact ih.ev _ _ _ _ _ hk hg
    | invalid id u => simp only [H, eval]; exact RelH.bad rfl
    | unsup id u w => simp only [H, eval]; exact RelH.bad rfl
  case lst =>
    intro env s env' s' es hk hg
    have ih := ih1
    cases es with
    | nil => simp only [HList, evalList]; exact RelH.same _ hk.out
    | cons e rest =>
      simp only [GList, Bool.and_eq_true] at hg
      simp only [HList, evalList]
      refine bindH (ih.ev _ _ _ _ _ hk hg.1) fun v s1 s1' o1 p1 p1' => ?_
      refine bindH ((ih.lst _ _ _ _ _ (hk.step p1 p1' o1) hg.2).mono p1 p1') fun vs s2 s2' o2 p2 p2' => ?_
      cases vs <;> first | exact RelH.bad rfl | exact Or.inr ⟨rfl, o2, p2, p2'⟩
  case whl =>
    intro env s env' s' cnd body hk hg1 hg2
    have ih := ih1
    rw [evalWhile_loop, evalWhile_loop]
    refine bindH (ih.ev _ _ _ _ _ hk hg1) fun cv s1 s1' o1 p1 p1' => ?_
    have hk1 := hk.step p1 p1' o1
    cases cv.asBool with
    | none => exact RelH.bad rfl
    | some b =>
      cases b with
      | false => exact Or.inr ⟨rfl, o1, p1, p1'⟩
      | true =>
        refine loopH ((ih.seq _ _ _ _ _ hk1 hg2).mono p1 p1') fun s2 s2' o2 p2 p2' => ?_
        exact (ih.whl _ _ _ _ _ _ (hk.step p2 p2' o2) hg1 hg2).mono p2 p2'
  case for_ =>
    intro env s env' s' dest items body hk hg
    have ih := ih1
    cases items with
    | nil => simp only [evalFor]; exact RelH.same _ hk.out
    | cons it rest =>
      rw [evalFor_loop, evalFor_loop]
      rcases bindDest_both dest it hk.agree hk.wf hk.wf' with ⟨ke, e1, e2⟩ | ⟨e1, t1, e1', t1', b1, b2, ag, w1, w1', oo, oo', q, q'⟩
      · simp only [e1, e2]; exact RelH.bad rfl
      · simp only [b1, b2]
        have hk1 : Ok n p p' e1 t1 e1' t1' := ⟨ag, w1, w1', by rw [oo, oo', hk.out]⟩
        refine loopH ((ih.seq _ _ _ _ _ hk1 hg).mono q q') fun s2 s2' o2 p2 p2' => ?_
        exact (ih.for_ _ _ _ _ _ _ _ (hk.step p2 p2' o2) hg).mono p2 p2'
  case cases =>
    intro env s env' s' ty idx pl cs hk hg
    have ih := ih1
    cases cs with
    | nil => simp only [HCases, evalCases]; exact RelH.bad rfl
    | cons cs0 rest =>
      obtain ⟨variant, dest, body⟩ := cs0
      cases dest with
      | none =>
        simp only [GCases, Bool.and_eq_true] at hg
        have h3 := ih.cases env s env' s' ty idx pl rest hk hg.2
        have h2 := ih.seq env s env' s' body hk hg.1
        simp only [HCases, evalCases, hc.patKey]
        by_cases hv : (variant == "_") = true
        · simp only [hv, if_true]; exact h2
        · simp only [hv, if_false, Bool.false_eq_true]
          cases patKey p variant with
          | none => exact RelH.bad rfl
          | some pk =>
            obtain ⟨pty, pidx⟩ := pk
            by_cases hkk : (ty == pty && idx == pidx) = true
            · simp only [hkk, if_true]
              cases pl with
              | none => exact h2
              | some _ => exact h3
            · simp only [hkk, if_false, Bool.false_eq_true]; exact h3
      | some d =>
        simp only [GCases, Bool.and_eq_true] at hg
        have h3 := ih.cases env s env' s' ty idx pl rest hk hg.2
        simp only [HCases, evalCases, hc.patKey]
        cases patKey p variant with
        | none => exact RelH.bad rfl
        | some pk =>
          obtain ⟨pty, pidx⟩ := pk
          by_cases hkk : (ty == pty && idx == pidx) = true
          · simp only [hkk, if_true]
            cases pl with
            | none => exact h3
            | some v =>
              simp only []
              rcases bindDest_both d v hk.agree hk.wf hk.wf' with ⟨ke, e1, e2⟩ | ⟨e1, t1, e1', t1', b1, b2, ag, w1, w1', oo, oo', q, q'⟩
              · simp only [e1, e2]; exact RelH.bad rfl
              · simp only [b1, b2]
                exact (ih.seq _ _ _ _ _ ⟨ag, w1, w1', by rw [oo, oo', hk.out]⟩ hg.1.2).mono q q'
          · simp only [hkk, if_false, Bool.false_eq_true]; exact h3
  case app =>
    intro s s' f args ho
    have ih := ih1
    cases f with
    | closure cenv ps body => simp only [applyVal, Bool.not_false, if_true]; exact RelH.bad rfl
    | fn name =>
      simp only [applyVal, hc.find]
      cases hfind : p.funs.find? (fun d => d.name == name) with
      | none => exact RelH.bad rfl
      | some d =>
        have hmem : d ∈ p.funs := List.mem_of_find?_eq_some hfind
        have hfr := hc.gfuns d hmem
        simp only [GFun, Bool.and_eq_true] at hfr
        simp only [Option.map_some]
        by_cases hl : (d.params.length != args.length) = true
        · simp only [hl, if_true]; exact RelH.bad rfl
        · simp only [hl, if_false, Bool.false_eq_true]
          have hk1 : Ok n p p' (bindNames d.params args [] s).1 (bindNames d.params args [] s).2
              (bindNames d.params args [] s').1 (bindNames d.params args [] s').2 :=
            ⟨bindNames_agree _ _ _ _ _ _ (hc.agree_nil _ _) WF.nil WF.nil, bindNames_wf _ _ _ _ WF.nil,
              bindNames_wf _ _ _ _ WF.nil, by rw [(bindNames_out _ _ _ _).1, (bindNames_out _ _ _ _).1, ho]⟩
          exact funResultH ((ih.seq _ _ _ _ _ hk1 hfr.2).mono (bindNames_out _ _ _ _).2 (bindNames_out _ _ _ _).2)
    | builtin name => simp only [applyVal]; exact applyBuiltinH hc name args ho
    | int v => simp only [applyVal]; exact RelH.bad rfl
    | str v => simp only [applyVal]; exact RelH.bad rfl
    | list v => simp only [applyVal]; exact RelH.bad rfl
    | tuple v => simp only [applyVal]; exact RelH.bad rfl
    | enumV a b c => simp only [applyVal]; exact RelH.bad rfl
    | enumC a b =>
      simp only [applyVal]
      cases args with
      | nil => exact RelH.bad rfl
      | cons a1 r1 => cases r1 <;> first | exact RelH.same _ ho | exact RelH.bad rfl
  case seq =>
    intro env s env' s' es hk hg
    have ihAll := ih
    have ih := ih1
    cases es with
    | nil => simp only [HSeq, evalSeq]; exact RelH.same _ hk.out
    | cons e rest =>
      simp only [GSeq, Bool.and_eq_true] at hg
      cases hf : findSp t e with
      | none =>
        simp only [HSeq, hf]
        by_cases hl : isLet e = true
        · obtain ⟨id, u, d, r, rfl⟩ := isLet_iff.mp hl
          simp only [G, Bool.and_eq_true] at hg
          simp only [H]
          rw [evalSeq_let, evalSeq_let]
          refine bindH (ih.ev _ _ _ _ _ hk hg.1.1.2) fun v s1 s1' o1 p1 p1' => ?_
          have hk1 := hk.step p1 p1' o1
          rcases bindDest_both d v hk1.agree hk1.wf hk1.wf' with ⟨ke, e1, e2⟩ | ⟨e1, t1, e1', t1', b1, b2, ag, w1, w1', oo, oo', q, q'⟩
          · simp only [e1, e2]; exact RelH.bad rfl
          · simp only [b1, b2]
            exact (ih.seq _ _ _ _ _ ⟨ag, w1, w1', by rw [oo, oo', o1]⟩ hg.2).mono (p1.trans q) (p1'.trans q')
        · have hl' : isLet e = false := by simpa using hl
          have hl2 : isLet (H t n e) = false := by rw [isLet_H]; exact hl'
          rw [evalSeq_cons_nonlet _ _ _ _ _ _ hl2, evalSeq_cons_nonlet _ _ _ _ _ _ hl']
          cases rest with
          | nil => simp only [HSeq]; exact ih.ev _ _ _ _ _ hk hg.1.1
          | cons e2 rest2 =>
            obtain ⟨a, b, hab⟩ := HSeq_cons t n e2 rest2
            have hrest := fun s1 s1' (hk1 : Ok n p p' env s1 env' s1') => ih.seq env s1 env' s1' (e2 :: rest2) hk1 hg.2
            rw [hab] at hrest ⊢
            simp only []
            refine bindH (ih.ev _ _ _ _ _ hk hg.1.1) fun _ s1 s1' o1 p1 p1' => ?_
            exact (hrest s1 s1' (hk.step p1 p1' o1)).mono p1 p1'
      | some x =>
        obtain ⟨m2, rfl⟩ : ∃ m2, m1 = m2 + 1 := ⟨m1 - 1, by omega⟩
        have ih2 := ihAll m2 (by omega)
        simp only [hf, Bool.and_eq_true] at hg
        obtain ⟨⟨hge, ⟨hspe, hux⟩, hfx⟩, hgrest⟩ := hg
        have hgux : G t n (unparen x) = true := G_arith t n _ hux hfx
        have hn' : (n == "_") = false := by simpa using hc.hn
        simp only [HSeq, hf]
        rw [evalSeq_let]
        have hst := (keepsState false p' (m2 + 1)).ev env' s' (unparen x) hux
        have hvb := (arithRes false p' (m2 + 1)).ev env' s' (unparen x) hux
        have R0 := ih.ev env s env' s' (unparen x) hk hgux
        rw [H_arith t n _ hux] at R0
        cases hb : eval false p' (m2 + 1) env' s' (unparen x) with
        | mk rb sb =>
          rw [hb] at hst hvb R0
          simp only at hst hvb
          subst hst
          rcases res_cases rb with ⟨v, rfl⟩ | hbad | hnv
          · have h0 : ∀ j, j ≤ k → RelH s sb (eval false p j env s (unparen x)) (.val v, sb) :=
              fun j hj => RelH.of_le (eval_mono p hj env s _) R0
            have hfm : ∀ {e0 : Expr}, findSp t e0 = some x → (findSp t e0).map unparen = some (unparen x) :=
              fun h => by rw [h]; rfl
            simp only [RefSem.bind, bindDest, bindNames, hn', Bool.false_eq_true, if_false]
            refine RelH.mono (s := s) (s' := pushSt sb v) ?_ (List.prefix_refl _) (pushSt_prefix sb v)
            have hk2 := hk.push v
            by_cases hl : isLet e = true
            · obtain ⟨id, u, d, r, rfl⟩ := isLet_iff.mp hl
              simp only [G, Bool.and_eq_true] at hge
              simp only [sp] at hspe
              simp only [findSp] at hf
              simp only [HR]
              rw [evalSeq_let, evalSeq_let]
              refine bindH (ih2.spine _ _ _ _ _ _ _ hk hge.2 hspe (hfm hf) h0) fun v2 s1 s1' o1 p1 p1' => ?_
              have hk1 := hk2.step p1 p1' o1
              rcases bindDest_both d v2 hk1.agree hk1.wf hk1.wf' with ⟨ke, e1, e2⟩ | ⟨e1, t1, e1', t1', b1, b2, ag, w1, w1', oo, oo', q, q'⟩
              · simp only [e1, e2]; exact RelH.bad rfl
              · simp only [b1, b2]
                exact (ih2.seq _ _ _ _ _ ⟨ag, w1, w1', by rw [oo, oo', o1]⟩ hgrest).mono (p1.trans q) (p1'.trans q')
            · have hl' : isLet e = false := by simpa using hl
              have hl2 : isLet (HR t n e) = false := isLet_HR t n hl'
              rw [evalSeq_cons_nonlet _ _ _ _ _ _ hl2, evalSeq_cons_nonlet _ _ _ _ _ _ hl']
              cases rest with
              | nil => simp only [HSeq]; exact ih2.spine _ _ _ _ _ _ _ hk hge hspe (hfm hf) h0
              | cons e2 rest2 =>
                obtain ⟨a, b, hab⟩ := HSeq_cons t n e2 rest2
                have hrest := fun s1 s1' (hk1 : Ok n p p' env s1 ((n, sb.store.length) :: env') s1') =>
                  ih2.seq env s1 _ s1' (e2 :: rest2) hk1 hgrest
                rw [hab] at hrest ⊢
                simp only []
                refine bindH (ih2.spine _ _ _ _ _ _ _ hk hge hspe (hfm hf) h0) fun _ s1 s1' o1 p1 p1' => ?_
                exact (hrest s1 s1' (hk2.step p1 p1' o1)).mono p1 p1'
          · -- the hoisted expression does not evaluate to a value: then the original is bad as well
            have hb0 : bad (eval false p k env s (unparen x)).1 = true := by
              rcases R0 with h | ⟨e1, _⟩
              · exact h
              · rw [e1]; exact hbad
            have h0b : ∀ j, j ≤ k → bad (eval false p j env s (unparen x)).1 = true :=
              fun j hj => bad_of_le (eval_mono p hj env s _) hb0
            have hfm : ∀ {e0 : Expr}, findSp t e0 = some x → (findSp t e0).map unparen = some (unparen x) :=
              fun h => by rw [h]; rfl
            refine RelH.bad ?_
            by_cases hl : isLet e = true
            · obtain ⟨id, u, d, r, rfl⟩ := isLet_iff.mp hl
              simp only [sp] at hspe
              simp only [findSp] at hf
              rw [evalSeq_let]
              exact bad_bind ((spBad t p k).ev _ _ _ _ hspe (hfm hf) h0b)
            · have hl' : isLet e = false := by simpa using hl
              rw [evalSeq_cons_nonlet _ _ _ _ _ _ hl']
              cases rest with
              | nil => exact (spBad t p k).ev _ _ _ _ hspe (hfm hf) h0b
              | cons e2 rest2 => exact bad_bind ((spBad t p k).ev _ _ _ _ hspe (hfm hf) h0b)
          · rw [hnv] at hvb; cases hvb
  case spine =>
    intro env s env' s' e ux v hk hg hsp hf h0
    have ih := ih1
    have hk2 := hk.push v
    have down : ∀ j, j ≤ k → RelH s s' (eval false p j env s ux) (.val v, s') :=
      fun j hj => h0 j (Nat.le_succ_of_le hj)
    by_cases hl : isLet e = true
    · obtain ⟨id, u, d, r, rfl⟩ := isLet_iff.mp hl
      simp only [eval]; exact RelH.bad rfl
    have hl' : isLet e = false := by simpa using hl
    by_cases hid : (e.id == t) = true
    · rw [findSp_hit hid hl'] at hf
      simp only [Option.map_some, Option.some.injEq] at hf
      rw [HR_hit hid hl']
      obtain ⟨j, hj, he⟩ := eval_unparen false p k env s e
      rw [he, hf]
      have hv : eval false p' (m1 + 1) ((n, s'.store.length) :: env') (pushSt s' v) (.var 0 false n)
          = (.val v, pushSt s' v) := by
        simp [eval, lookupVar, lookup, pushSt]
      rw [hv]
      rcases h0 j hj with h1 | ⟨e1, e2, e3, _⟩
      · exact Or.inl h1
      · exact Or.inr ⟨e1, e2, e3, List.prefix_refl _⟩
    have hid' : (e.id == t) = false := by simpa using hid
    cases e <;> simp only [Expr.id] at hid' <;> (try simp only [sp, hid', Bool.false_or, Bool.false_eq_true] at hsp)
    case binop id u op l r =>
      simp only [findSp, pick, hid', Bool.false_eq_true, if_false] at hf
      simp only [G, Bool.and_eq_true] at hg
      simp only [HR, hid', Bool.false_eq_true, if_false, eval]
      simp only [Bool.or_eq_true, Bool.and_eq_true, noSp, Option.isNone_iff_eq_none] at hsp
      rcases hsp with ⟨h1, h2⟩ | ⟨⟨h1, h2⟩, h3⟩
      · rw [h2, or_none_right] at hf
        rw [HR_noSp t n r h2]
        refine bindH (ih.spine _ _ _ _ _ _ _ hk hg.1 h1 hf down) fun lv s1 s1' o1 p1 p1' => ?_
        refine bindH ((ih.ev _ _ _ _ _ (hk2.step p1 p1' o1) hg.2).mono p1 p1') fun rv s2 s2' o2 p2 p2' => ?_
        exact Or.inr ⟨rfl, o2, p2, p2'⟩
      · rw [h2] at hf
        have hpl := ih.ev _ _ _ _ _ hk2 hg.1
        rw [HR_noSp t n l h2, H_arith t n l h1] at *
        refine bind_pure hpl ((keepsState false p k).ev _ _ _ h1) ((keepsState false p' m1).ev _ _ _ h1) hk2.out fun lv => ?_
        refine bindH (ih.spine _ _ _ _ _ _ _ hk hg.2 h3 hf down) fun rv s2 s2' o2 p2 p2' => ?_
        exact Or.inr ⟨rfl, o2, p2, p2'⟩
    case letE => simp [isLet] at hl'
    case ifE id u c th el =>
      simp only [findSp, pick, hid', Bool.false_eq_true, if_false] at hf
      simp only [G, Bool.and_eq_true] at hg
      simp only [HR, hid', Bool.false_eq_true, if_false, eval]
      refine bindH (ih.spine _ _ _ _ _ _ _ hk hg.1.1 hsp hf down) fun cv s1 s1' o1 p1 p1' => ?_
      have hk1 := hk2.step p1 p1' o1
      cases cv.asBool with
      | none => exact RelH.bad rfl
      | some b =>
        cases el with
        | none =>
          simp only [HOpt]
          cases b with
          | false => exact Or.inr ⟨rfl, o1, p1, p1'⟩
          | true =>
            simp only [if_true]
            refine bindH ((ih.seq _ _ _ _ _ hk1 hg.1.2).mono p1 p1') fun _ s2 s2' o2 p2 p2' => ?_
            exact Or.inr ⟨rfl, o2, p2, p2'⟩
        | some eb =>
          simp only [HOpt]
          have hg3 : GSeq t n eb = true := by simpa [GOpt] using hg.2
          cases b with
          | false => exact (ih.seq _ _ _ _ _ hk1 hg3).mono p1 p1'
          | true => exact (ih.seq _ _ _ _ _ hk1 hg.1.2).mono p1 p1'
    case forE id u d it b =>
      simp only [findSp, pick, hid', Bool.false_eq_true, if_false] at hf
      simp only [G, Bool.and_eq_true] at hg
      simp only [HR, hid', Bool.false_eq_true, if_false, eval]
      refine bindH (ih.spine _ _ _ _ _ _ _ hk hg.1.2 hsp hf down) fun iv s1 s1' o1 p1 p1' => ?_
      cases iv <;> first | exact RelH.bad rfl | exact (ih.for_ _ _ _ _ _ _ _ (hk2.step p1 p1' o1) hg.2).mono p1 p1'
    case matchE id u sc cs =>
      simp only [findSp, pick, hid', Bool.false_eq_true, if_false] at hf
      simp only [G, Bool.and_eq_true] at hg
      simp only [HR, hid', Bool.false_eq_true, if_false, eval]
      refine bindH (ih.spine _ _ _ _ _ _ _ hk hg.1 hsp hf down) fun sv s1 s1' o1 p1 p1' => ?_
      cases sv <;> first | exact RelH.bad rfl | exact (ih.cases _ _ _ _ _ _ _ _ (hk2.step p1 p1' o1) hg.2).mono p1 p1'
    case ret id u o =>
      cases o with
      | none => simp [sp, hid'] at hsp
      | some x =>
        simp only [sp, hid', Bool.false_or] at hsp
        simp only [findSp, pick, hid', Bool.false_eq_true, if_false] at hf
        simp only [G] at hg
        simp only [HR, hid', Bool.false_eq_true, if_false, eval]
        exact bindH (ih.spine _ _ _ _ _ _ _ hk hg hsp hf down) fun v s1 s1' o1 p1 p1' => Or.inr ⟨rfl, o1, p1, p1'⟩
    case list id u es =>
      simp only [findSp, pick, hid', Bool.false_eq_true, if_false] at hf
      simp only [G] at hg
      simp only [HR, hid', Bool.false_eq_true, if_false, eval]
      exact ih.spineL _ _ _ _ _ _ _ hk hg hsp hf down
    case tuple id u es =>
      simp only [findSp, pick, hid', Bool.false_eq_true, if_false] at hf
      simp only [G] at hg
      simp only [HR, hid', Bool.false_eq_true, if_false, eval]
      refine bindH (ih.spineL _ _ _ _ _ _ _ hk hg hsp hf down) fun vs s1 s1' o1 p1 p1' => ?_
      cases vs <;> first | exact RelH.bad rfl | exact Or.inr ⟨rfl, o1, p1, p1'⟩
    case call id u f as =>
      simp only [findSp, pick, hid', Bool.false_eq_true, if_false] at hf
      simp only [G, Bool.and_eq_true] at hg
      simp only [HR, hid', Bool.false_eq_true, if_false, eval]
      simp only [Bool.or_eq_true, Bool.and_eq_true, noSp, noSpL, Option.isNone_iff_eq_none] at hsp
      rcases hsp with ⟨h1, h2⟩ | ⟨⟨h1, h2⟩, h3⟩
      · rw [h2, or_none_right] at hf
        rw [HRList_noSp t n as h2]
        refine bindH (ih.spine _ _ _ _ _ _ _ hk hg.1 h1 hf down) fun fv s1 s1' o1 p1 p1' => ?_
        refine bindH ((ih.lst _ _ _ _ _ (hk2.step p1 p1' o1) hg.2).mono p1 p1') fun vs s2 s2' o2 p2 p2' => ?_
        cases vs <;> first | exact RelH.bad rfl | exact (ih.app _ _ _ _ o2).mono p2 p2'
      · rw [h2] at hf
        have hpl := ih.ev _ _ _ _ _ hk2 hg.1
        rw [HR_noSp t n f h2, H_arith t n f h1] at *
        refine bind_pure hpl ((keepsState false p k).ev _ _ _ h1) ((keepsState false p' m1).ev _ _ _ h1) hk2.out fun fv => ?_
        refine bindH (ih.spineL _ _ _ _ _ _ _ hk hg.2 h3 hf down) fun vs s2 s2' o2 p2 p2' => ?_
        cases vs <;> first | exact RelH.bad rfl | exact (ih.app _ _ _ _ o2).mono p2 p2'
    case paren id u x =>
      simp only [findSp, pick, hid', Bool.false_eq_true, if_false] at hf
      simp only [G] at hg
      simp only [HR, hid', Bool.false_eq_true, if_false, eval]
      exact ih.spine _ _ _ _ _ _ _ hk hg hsp hf down
  case spineL =>
    intro env s env' s' es ux v hk hg hsp hf h0
    have ih := ih1
    have hk2 := hk.push v
    have down : ∀ j, j ≤ k → RelH s s' (eval false p j env s ux) (.val v, s') :=
      fun j hj => h0 j (Nat.le_succ_of_le hj)
    cases es with
    | nil => simp [spL] at hsp
    | cons e rest =>
      simp only [spL, Bool.or_eq_true, Bool.and_eq_true, noSp, noSpL, Option.isNone_iff_eq_none] at hsp
      simp only [findSpL] at hf
      simp only [GList, Bool.and_eq_true] at hg
      simp only [HRList, evalList]
      rcases hsp with ⟨h1, h2⟩ | ⟨⟨h1, h2⟩, h3⟩
      · rw [h2, or_none_right] at hf
        rw [HRList_noSp t n rest h2]
        refine bindH (ih.spine _ _ _ _ _ _ _ hk hg.1 h1 hf down) fun v1 s1 s1' o1 p1 p1' => ?_
        refine bindH ((ih.lst _ _ _ _ _ (hk2.step p1 p1' o1) hg.2).mono p1 p1') fun vs s2 s2' o2 p2 p2' => ?_
        cases vs <;> first | exact RelH.bad rfl | exact Or.inr ⟨rfl, o2, p2, p2'⟩
      · rw [h2] at hf
        have hpl := ih.ev _ _ _ _ _ hk2 hg.1
        rw [HR_noSp t n e h2, H_arith t n e h1] at *
        refine bind_pure hpl ((keepsState false p k).ev _ _ _ h1) ((keepsState false p' m1).ev _ _ _ h1) hk2.out fun v1 => ?_
        refine bindH (ih.spineL _ _ _ _ _ _ _ hk hg.2 h3 hf down) fun vs s2 s2' o2 p2 p2' => ?_
        cases vs <;> first | exact RelH.bad rfl | exact Or.inr ⟨rfl, o2, p2, p2'⟩

end Extract

namespace Extract
open Machine (Expr Case Dest BinOp Program FunDef EnumDef)
open RefSem Validators

theorem simH_all {t : Nat} {n : String} {p p' : Program} (hc : HCtx t n p p') :
    ∀ k m, 2 * k ≤ m → SimH t n p p' k m
  | 0, m, _ => simH_zero t n p p' m
  | k + 1, m, hm => simH_succ hc k (fun m0 h0 => simH_all hc k m0 h0) m hm

end Extract

namespace Extract
open Machine (Expr Case Dest BinOp Program FunDef EnumDef)
open RefSem Validators

/-- Node ids and use flags do not matter (run level; closure-free). -/
theorem strip_run (p : Program) (m : Nat)
    (h : isTO (run false p m).1 = false ∨ isTO (run false (WP stripCfg p) m).1 = false) :
    run false (WP stripCfg p) m = run false p m := by
  have hF : LeX none none (run false p m) (run false (WP stripCfg p) m) :=
    (simF_all (local_strip p) m m (by simp [thr, stripCfg])).seq [] St.init p.toplevel EnvOK.nil (bokSeq_true _)
  have hB : LeX none none (run false (WP stripCfg p) m) (run false p m) :=
    (simB_all (local_strip p) m m (Nat.le_refl _)).seq [] St.init p.toplevel EnvOK.nil (bokSeq_true _)
  rcases h with h | h
  · exact (hF.eq_of_not_to h).symm
  · exact hB.eq_of_not_to h

theorem isTO_bad {r : Res} (h : bad r = false) : isTO r = false := by
  cases r <;> simp [bad, isTO] at h ⊢

theorem hctx_hoist {t : Nat} {n : String} {p : Program} (hs : hoistSafe t n p = true) :
    HCtx t n p (hoistProg t n p) := by
  simp only [hoistSafe, Bool.and_eq_true, bne_iff_ne, ne_eq, List.all_eq_true] at hs
  exact ⟨hs.1.1, rfl, rfl, hs.1.2⟩

/-- The run-level statement for the model transformation `hoistProg`. -/
theorem hoistProg_run {t : Nat} {n : String} {p : Program} (hs : hoistSafe t n p = true) (k : Nat) :
    RelH St.init St.init (run false p k) (run false (hoistProg t n p) (2 * k)) := by
  have hc := hctx_hoist hs
  simp only [hoistSafe, Bool.and_eq_true] at hs
  exact (simH_all hc k (2 * k) (Nat.le_refl _)).seq [] St.init [] St.init p.toplevel
    ⟨hc.agree_nil _ _, WF.nil, WF.nil, rfl⟩ hs.2

end Extract
