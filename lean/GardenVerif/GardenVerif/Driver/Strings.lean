import GardenVerif.Driver.Sexp
import GardenVerif.Model.StringLit
import GardenVerif.Model.Display
/-! Driver ops for C12: `c12_escape`, `c12_unescape`, `c12_strlex`, `c12_strlex_old`, `c12_display`, `c12_read`. -/

namespace DriverStrings
open StringLit Display

/-- Floats travel as their printed text. -/
abbrev FV := DValue (List Char)

def floatOps : FloatOps (List Char) := { shw := id, read := some }

/-- The signature the harness programs declare (plus the prelude). -/
def testSig : Sig where
  variant name :=
    match preludeVariant name with
    | some b => some b
    | none =>
      if name = "Red".toList ∨ name = "Leaf_1".toList then some false
      else if name = "Node".toList ∨ name = "Wrap".toList then some true
      else none
  structFields name :=
    if name = "Foo".toList then some ["x".toList, "y".toList]
    else if name = "Pt".toList then some ["a".toList]
    else if name = "Empty".toList then some []
    else none

def hexToChars (h : String) : Option (List Char) := (Hex.decode h).map String.toList

mutual
def toValue : Sexp → Option FV
  | .list [.atom "int", .atom n] => n.toInt?.map .int
  | .list [.atom "float", .atom h] => (hexToChars h).map .float
  | .list [.atom "str", .atom h] => (hexToChars h).map .str
  | .list [.atom "str"] => some (.str [])
  | .list (.atom "list" :: items) => (toValues items).map .list
  | .list (.atom "tuple" :: items) => (toValues items).map .tuple
  | .list (.atom "dict" :: items) => (toPairs true items).map .dict
  | .list [.atom "e0", .atom n] => some (.enum0 n.toList)
  | .list [.atom "e1", .atom n, p] => (toValue p).map (.enum1 n.toList)
  | .list (.atom "struct" :: .atom n :: fields) => (toPairs false fields).map (.struct n.toList)
  | _ => none
def toValues : List Sexp → Option (List FV)
  | [] => some []
  | s :: rest => match toValue s, toValues rest with
    | some v, some vs => some (v :: vs)
    | _, _ => none
def toPairs (hexKey : Bool) : List Sexp → Option (List (List Char × FV))
  | [] => some []
  | .list [.atom k, v] :: rest =>
    match (if hexKey then (if k = "-" then some [] else hexToChars k) else some k.toList), toValue v, toPairs hexKey rest with
    | some k, some v, some ps => some ((k, v) :: ps)
    | _, _, _ => none
  | _ :: _ => none
end

def hexOf (cs : List Char) : String := Hex.encode (String.ofList cs)

def strlexWith (f : List Char → Option (List Char × Bool)) (rest : String) : String :=
  match hexToChars rest with
  | none => "ERR hex"
  | some cs =>
    match f cs with
    | none => "OK (none)"
    | some (text, unclosed) => s!"OK (tok {hexOf text} {if unclosed then "unclosed" else "closed"})"

def handle (op : String) (rest : String) : Option String :=
  match op with
  | "c12_escape" =>
    some (match hexToChars rest with
      | none => "ERR hex"
      | some cs => s!"OK {hexOf (escapeStringLiteral cs)}")
  | "c12_unescape" =>
    some (match hexToChars rest with
      | none => "ERR hex"
      | some cs =>
        match unescapeString cs with
        | none => "PANIC"
        | some (s, n) => s!"OK (unesc {hexOf s} {n})")
  | "c12_strlex" => some (strlexWith lexString rest)
  | "c12_strlex_old" => some (strlexWith lexStringOld rest)
  | "c12_display" =>
    some (match Sexp.parseAll rest with
      | some [s] =>
        match toValue s with
        | some v => s!"OK {hexOf (display floatOps.shw v)}"
        | none => "ERR value"
      | _ => "ERR parse")
  | "c12_read" =>
    some (match hexToChars rest with
      | none => "ERR hex"
      | some cs =>
        match readTop floatOps testSig cs with
        | none => "OK (none)"
        | some v => s!"OK {hexOf (display floatOps.shw v)}")
  | _ => none

end DriverStrings
