/-
M3 `IntOps`: the integer and float binary operators of src/eval.rs
(`eval_int_binop`, `eval_float_binop`, `eval_assign_update`), transcribed as total
executable functions over Lean's `Int64` with an explicit three-way result.

The model follows the tree that the check builds: the pinned tree plus
patches/arith-fix-int-div-overflow.diff (`/` uses `checked_div`, so `MIN / -1` raises a
Garden exception instead of a Rust panic) and patches/arith-fix-assign-update-wrap.diff
(`+=` / `-=` use `wrapping_add` / `wrapping_sub` like `+` / `-`).  The behaviour of the
unpatched tree is kept as `intBinopPinned` / `assignUpdatePinned` so that the two defects
stay stated (Props/C04.lean proves that they differ exactly at the overflow points).

Library functions of Rust's `core` are modelled by their documented contract, not by
their source: `wrapping_add/sub/mul` = Lean's (wrapping) `Int64` operators, `checked_div`,
`checked_rem_euclid` (None iff `rhs == 0 || (self == MIN && rhs == -1)`, else
`rem_euclid`, which is transcribed), `checked_pow` (Some of the exact power iff it is
representable).

Import-free on purpose (the line-protocol driver links against it).
-/

namespace IntOps

/-- Which operand a type error is reported for. -/
inductive Side where
  | lhs | rhs
  deriving DecidableEq, Repr, Inhabited

/-- The Garden exceptions the operator code can raise (one per `Err(...)` site). -/
inductive ErrKind where
  /-- `format_type_error(expected, value)`; `suggest` = the variant with the
  "Consider using a float/int operator" suffix. -/
  | typeError (expected : String) (side : Side) (suggest : Bool)
  /-- "Tried to divide {} by zero." -/
  | divZero
  /-- "Integer overflow on dividing {} by {}" (fix patch; the pinned tree panics here). -/
  | divOverflow
  /-- "Tried to calculate the remainder of dividing {} by zero." -/
  | remZero
  /-- "Cannot raise an integer to a negative power" -/
  | negExponent
  /-- "Exponent is too large" -/
  | expTooLarge
  /-- "Integer overflow on raising to the power" -/
  | powOverflow
  deriving DecidableEq, Repr, Inhabited

/-- Outcome of one operator evaluation: a value, a Garden exception, or a Rust panic
(named by its source site). -/
inductive Res (α : Type) where
  | ok (v : α)
  | exception (k : ErrKind)
  | panic (site : String)
  deriving DecidableEq, Repr, Inhabited

def Res.isPanic {α : Type} : Res α → Bool
  | .panic _ => true
  | _ => false

/-- The operators dispatched to `eval_int_binop`. -/
inductive IntOp where
  | add | sub | mul | div | mod | pow | band | bor | lt | gt | le | ge
  deriving DecidableEq, Repr, Inhabited

/-- The operators dispatched to `eval_float_binop`. -/
inductive FloatOp where
  | add | sub | mul | div
  deriving DecidableEq, Repr, Inhabited

/-- `AssignUpdateKind`. -/
inductive UpdOp where
  | add | sub
  deriving DecidableEq, Repr, Inhabited

def UpdOp.toIntOp : UpdOp → IntOp
  | .add => .add
  | .sub => .sub

/-- Operand / result values as far as the operator code distinguishes them. `F` is the
float carrier (abstract in theorems, Lean `Float` in the driver); `other` stands for any
value that is neither `Int` nor `Float` (tagged only for printing). -/
inductive AVal (F : Type) where
  | int (i : Int64)
  | float (f : F)
  | bool (b : Bool)
  | other (tag : String)
  deriving Repr, Inhabited

/-! ### `core` integer functions (contract level) -/

/-- Is the mathematical integer `n` an `i64`? -/
def fits (n : Int) : Bool := decide (-2 ^ 63 ≤ n) && decide (n < 2 ^ 63)

/-- `i64::checked_div`: `None` iff `rhs == 0 || (self == MIN && rhs == -1)`. -/
def checkedDiv (a b : Int64) : Option Int64 :=
  if b = 0 then none
  else if a = Int64.minValue ∧ b = -1 then none
  else some (a / b)

/-- `i64::wrapping_abs`. -/
def wrappingAbs (a : Int64) : Int64 := if a < 0 then 0 - a else a

/-- `i64::rem_euclid` (core: `let r = self % rhs; if r < 0 { r.wrapping_add(rhs.wrapping_abs()) } else { r }`),
only called with `rhs ≠ 0` and not `MIN % -1`. -/
def remEuclid (a b : Int64) : Int64 :=
  let r := a % b
  if r < 0 then r + wrappingAbs b else r

/-- `i64::checked_rem_euclid`: `None` iff `rhs == 0 || (self == MIN && rhs == -1)`. -/
def checkedRemEuclid (a b : Int64) : Option Int64 :=
  if b = 0 then none
  else if a = Int64.minValue ∧ b = -1 then none
  else some (remEuclid a b)

/-- `i64::checked_pow(self, exp: u32)` by contract: the exact power when it is representable.
The first test only keeps the function executable (a base of absolute value ≥ 2 to a power
≥ 64 is never representable, `IntOps.pow_not_fits`, and would be a number of up to 2^32 bits);
`IntOps.checkedPow_spec` proves it redundant. -/
def checkedPow (a : Int64) (n : Nat) : Option Int64 :=
  if 64 ≤ n ∧ 2 ≤ a.toInt.natAbs then none
  else if fits (a.toInt ^ n) then some (Int64.ofInt (a.toInt ^ n)) else none

/-- `u32::MAX as i64`. -/
def u32Max : Int64 := 4294967295

/-! ### `eval_int_binop` -/

/-- The arithmetic part of `eval_int_binop` (after both operands were found to be `Int`),
one arm per `BinaryOperatorKind`, as in the tree with the fix patches. -/
def intArith {F : Type} (op : IntOp) (a b : Int64) : Res (AVal F) :=
  match op with
  | .add => .ok (.int (a + b))                       -- wrapping_add
  | .sub => .ok (.int (a - b))                       -- wrapping_sub
  | .mul => .ok (.int (a * b))                       -- wrapping_mul
  | .div =>
      if b = 0 then .exception .divZero
      else match checkedDiv a b with
        | some q => .ok (.int q)
        | none => .exception .divOverflow
  | .mod =>
      match checkedRemEuclid a b with
      | some r => .ok (.int r)
      | none => .exception .remZero
  | .pow =>
      if b < 0 then .exception .negExponent
      else if b > u32Max then .exception .expTooLarge
      else match checkedPow a b.toInt.toNat with
        | some r => .ok (.int r)
        | none => .exception .powOverflow
  | .band => .ok (.int (a &&& b))
  | .bor => .ok (.int (a ||| b))
  | .lt => .ok (.bool (decide (a < b)))
  | .gt => .ok (.bool (decide (a > b)))
  | .le => .ok (.bool (decide (a ≤ b)))
  | .ge => .ok (.bool (decide (a ≥ b)))

/-- `eval_int_binop`: operand type checks (lhs first), then the arithmetic. -/
def intBinop {F : Type} (op : IntOp) (l r : AVal F) : Res (AVal F) :=
  match l with
  | .float _ => .exception (.typeError "Int" .lhs true)
  | .bool _ | .other _ => .exception (.typeError "Int" .lhs false)
  | .int a =>
    match r with
    | .int b => intArith op a b
    | _ => .exception (.typeError "Int" .rhs false)

/-- The pinned tree's `Divide` arm: `lhs_num / rhs_num` after the zero check; Rust's `/`
panics with "attempt to divide with overflow" on `MIN / -1` (in every build profile). -/
def intArithPinned {F : Type} (op : IntOp) (a b : Int64) : Res (AVal F) :=
  match op with
  | .div =>
      if b = 0 then .exception .divZero
      else if a = Int64.minValue ∧ b = -1 then .panic "eval.rs:2242 attempt to divide with overflow"
      else .ok (.int (a / b))
  | op => intArith op a b

/-! ### `eval_assign_update` -/

/-- `eval_assign_update`: `x` holds `xv`, the right-hand side evaluated to `ev`; the result
is the new value stored in `x` (tree with the fix patch: `wrapping_add` / `wrapping_sub`). -/
def assignUpdate {F : Type} (op : UpdOp) (xv ev : AVal F) : Res (AVal F) :=
  match xv with
  | .int a =>
    match ev with
    | .int b =>
      match op with
      | .add => .ok (.int (a + b))
      | .sub => .ok (.int (a - b))
    | _ => .exception (.typeError "Int" .rhs false)
  | _ => .exception (.typeError "Int" .lhs false)

/-- The pinned tree's `eval_assign_update`: unchecked `+` / `-`, which panic on overflow in
a build with overflow checks (the debug profile that `cargo test` and this framework use). -/
def assignUpdatePinned {F : Type} (op : UpdOp) (xv ev : AVal F) : Res (AVal F) :=
  match xv with
  | .int a =>
    match ev with
    | .int b =>
      match op with
      | .add => if fits (a.toInt + b.toInt) then .ok (.int (a + b))
                else .panic "eval.rs:1882 attempt to add with overflow"
      | .sub => if fits (a.toInt - b.toInt) then .ok (.int (a - b))
                else .panic "eval.rs:1883 attempt to subtract with overflow"
    | _ => .exception (.typeError "Int" .rhs false)
  | _ => .exception (.typeError "Int" .lhs false)

/-- `x = x op e` where the right-hand side is the binary operator expression: the value
that `eval_assign` stores is whatever `eval_int_binop` produced. -/
def assignBinop {F : Type} (op : UpdOp) (xv ev : AVal F) : Res (AVal F) :=
  intBinop op.toIntOp xv ev

/-! ### `eval_float_binop` (control logic; the IEEE operations are parameters) -/

/-- The float operations the evaluator uses, as parameters: the theorems never look inside. -/
structure FloatImpl (F : Type) where
  add : F → F → F
  sub : F → F → F
  mul : F → F → F
  div : F → F → F
  /-- `f == 0.0` (IEEE comparison: true for `0.0` and `-0.0`, false for NaN). -/
  isZero : F → Bool

/-- `eval_float_binop`. Note the `rhs: Int` arm reports the *lhs* value and position
(a copy/paste slip in the Rust; it is still a type-error exception). -/
def floatBinop {F : Type} (fi : FloatImpl F) (op : FloatOp) (l r : AVal F) : Res (AVal F) :=
  match l with
  | .int _ => .exception (.typeError "Float" .lhs true)
  | .bool _ | .other _ => .exception (.typeError "Float" .lhs false)
  | .float a =>
    match r with
    | .int _ => .exception (.typeError "Float" .lhs true)
    | .bool _ | .other _ => .exception (.typeError "Float" .rhs false)
    | .float b =>
      match op with
      | .add => .ok (.float (fi.add a b))
      | .sub => .ok (.float (fi.sub a b))
      | .mul => .ok (.float (fi.mul a b))
      | .div => if fi.isZero b then .exception .divZero else .ok (.float (fi.div a b))

end IntOps
