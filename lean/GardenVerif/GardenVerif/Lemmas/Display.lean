import GardenVerif.Model.Display
import GardenVerif.Lemmas.StringLit
/-! Lemmas for C12: the reader reads back what `display` prints. -/
set_option linter.unusedVariables false

namespace Display
open StringLit

/-! ### characters -/

theorem digitChar_isDigit : ∀ d, d < 10 → isDigit (digitChar d) = true := by decide
theorem digitVal_digitChar : ∀ d, d < 10 → digitVal (digitChar d) = d := by decide

theorem isDigit_ne_underscore {c : Char} (h : isDigit c = true) : c ≠ '_' := by
  intro h'; subst h'; revert h; decide
theorem isDigit_ne_minus {c : Char} (h : isDigit c = true) : c ≠ '-' := by
  intro h'; subst h'; revert h; decide
theorem isDigit_not_ws {c : Char} (h : isDigit c = true) : isWs c = false := by
  simp only [isDigit, Bool.and_eq_true, decide_eq_true_eq] at h
  have : c ≠ ' ' := by intro h'; subst h'; revert h; decide
  have : c ≠ '\n' := by intro h'; subst h'; revert h; decide
  have : c ≠ '\t' := by intro h'; subst h'; revert h; decide
  have : c ≠ '\r' := by intro h'; subst h'; revert h; decide
  simp [isWs, *]; omega
theorem isDigit_isDigitU {c : Char} (h : isDigit c = true) : isDigitU c = true := by
  simp [isDigitU, h]

theorem isSymStart_not_ws {c : Char} (h : isSymStart c = true) : isWs c = false := by
  have : c ≠ ' ' := by intro h'; subst h'; revert h; decide
  have : c ≠ '\n' := by intro h'; subst h'; revert h; decide
  have : c ≠ '\t' := by intro h'; subst h'; revert h; decide
  have : c ≠ '\r' := by intro h'; subst h'; revert h; decide
  have h11 : c.toNat ≠ 11 := by
    intro h'; simp [isSymStart, h'] at h; subst h; revert h'; decide
  have h12 : c.toNat ≠ 12 := by
    intro h'; simp [isSymStart, h'] at h; subst h; revert h'; decide
  simp [isWs, *]
theorem isSymStart_not_digit {c : Char} (h : isSymStart c = true) : isDigit c = false := by
  cases hd : isDigit c with
  | false => rfl
  | true =>
    exfalso
    simp only [isDigit, Bool.and_eq_true, decide_eq_true_eq] at hd
    simp only [isSymStart, Bool.or_eq_true, Bool.and_eq_true, decide_eq_true_eq] at h
    rcases h with (h | h) | h
    · omega
    · omega
    · subst h; revert hd; decide

/-! ### `spanChars` -/

/-- The rest is empty or starts with a character outside the class. -/
def stops (p : Char → Bool) : List Char → Bool
  | [] => true
  | c :: _ => !p c

theorem spanChars_append (p : Char → Bool) (a rest : List Char)
    (ha : ∀ c ∈ a, p c = true) (hr : stops p rest = true) :
    spanChars p (a ++ rest) = (a, rest) := by
  induction a with
  | nil =>
    cases rest with
    | nil => simp [spanChars]
    | cons c cs => simp [stops] at hr; simp [spanChars, hr]
  | cons c cs ih =>
    have hc : p c = true := ha c (by simp)
    have := ih (fun d hd => ha d (by simp [hd]))
    simp [spanChars, hc, this]

/-! ### decimal integers -/

theorem natDigits_lt (n : Nat) (h : n < 10) : natDigits n = [digitChar n] := by
  rw [natDigits]; simp [h]
theorem natDigits_ge (n : Nat) (h : ¬ n < 10) :
    natDigits n = natDigits (n / 10) ++ [digitChar (n % 10)] := by
  rw [natDigits]; simp [h]

theorem natDigits_digits (n : Nat) : ∀ c ∈ natDigits n, isDigit c = true := by
  induction n using Nat.strongRecOn with
  | _ n ih =>
    by_cases h : n < 10
    · rw [natDigits_lt n h]; intro c hc; simp at hc; subst hc; exact digitChar_isDigit n h
    · rw [natDigits_ge n h]; intro c hc
      simp at hc
      rcases hc with hc | hc
      · exact ih (n / 10) (by omega) c hc
      · subst hc; exact digitChar_isDigit _ (by omega)

theorem natDigits_ne_nil (n : Nat) : natDigits n ≠ [] := by
  by_cases h : n < 10
  · rw [natDigits_lt n h]; simp
  · rw [natDigits_ge n h]; simp

theorem natDigits_value (n : Nat) : digitsVal (natDigits n) = n := by
  unfold digitsVal
  induction n using Nat.strongRecOn with
  | _ n ih =>
    by_cases h : n < 10
    · rw [natDigits_lt n h]; simp [digitVal_digitChar n h]
    · rw [natDigits_ge n h, List.foldl_append, ih (n / 10) (by omega)]
      simp [digitVal_digitChar (n % 10) (by omega)]; omega

/-- The contexts in which `display` puts a value: end of text, `,`, `]`, `)`, or a space. -/
def okRest : List Char → Bool
  | [] => true
  | c :: _ => c = ',' || c = ']' || c = ')' || c = ' '

theorem okRest_stops_digitU {rest : List Char} (h : okRest rest = true) : stops isDigitU rest = true := by
  cases rest with
  | nil => rfl
  | cons c cs =>
    simp [okRest] at h
    rcases h with ((h | h) | h) | h <;> subst h <;> rfl
theorem okRest_stops_sym {rest : List Char} (h : okRest rest = true) : stops isSymChar rest = true := by
  cases rest with
  | nil => rfl
  | cons c cs =>
    simp [okRest] at h
    rcases h with ((h | h) | h) | h <;> subst h <;> rfl

theorem filter_digits (a : List Char) (ha : ∀ c ∈ a, isDigit c = true) :
    a.filter (· != '_') = a := by
  rw [List.filter_eq_self]
  intro c hc
  have := isDigit_ne_underscore (ha c hc)
  simp [this]

theorem scanInt_digits (a rest : List Char) (ha : ∀ c ∈ a, isDigit c = true) (hne : a ≠ [])
    (hr : stops isDigitU rest = true) : scanInt (a ++ rest) = some (a, rest) := by
  cases a with
  | nil => simp at hne
  | cons d ds =>
    have hd : isDigit d = true := ha d (by simp)
    have hm : d ≠ '-' := isDigit_ne_minus hd
    have hs := spanChars_append isDigitU ds rest
      (fun c hc => isDigit_isDigitU (ha c (by simp [hc]))) hr
    cases hds : ds ++ rest with
    | nil =>
      have h1 : ds = [] := by simpa using (List.append_eq_nil_iff.mp hds).1
      have h2 : rest = [] := by simpa using (List.append_eq_nil_iff.mp hds).2
      subst h1 h2
      unfold scanInt
      split
      · rename_i heq; simp at heq
      · rename_i heq; simp at heq; obtain ⟨rfl, rfl⟩ := heq; simp [hd, spanChars]
      · rename_i heq; simp at heq
    | cons e es =>
      simp only [List.cons_append, hds]
      unfold scanInt
      split
      · rename_i heq; simp at heq; exact absurd heq.1 hm
      · rename_i heq; simp at heq; obtain ⟨rfl, rfl⟩ := heq
        rw [← hds, hs]; simp [hd]
      · rename_i heq; simp at heq

theorem scanInt_neg_digits (a rest : List Char) (ha : ∀ c ∈ a, isDigit c = true) (hne : a ≠ [])
    (hr : stops isDigitU rest = true) : scanInt ('-' :: (a ++ rest)) = some ('-' :: a, rest) := by
  cases a with
  | nil => simp at hne
  | cons d ds =>
    have hd : isDigit d = true := ha d (by simp)
    have hs := spanChars_append isDigitU ds rest
      (fun c hc => isDigit_isDigitU (ha c (by simp [hc]))) hr
    simp [scanInt, hd, hs]

theorem scanInt_showInt (i : Int) (rest : List Char) (hr : stops isDigitU rest = true) :
    scanInt (showInt i ++ rest) = some (showInt i, rest) := by
  unfold showInt
  split
  · exact scanInt_neg_digits _ _ (natDigits_digits _) (natDigits_ne_nil _) hr
  · exact scanInt_digits _ _ (natDigits_digits _) (natDigits_ne_nil _) hr

theorem parseI64_showInt (i : Int) (h1 : -9223372036854775808 ≤ i) (h2 : i < 9223372036854775808) :
    parseI64 (showInt i) = some i := by
  unfold showInt
  split
  · rename_i hneg
    have hf : ('-' :: natDigits i.natAbs).filter (· != '_') = '-' :: natDigits i.natAbs := by
      rw [List.filter_cons]; simp [filter_digits _ (natDigits_digits _)]
    have : -((i.natAbs : Nat) : Int) = i := by omega
    simp [parseI64, hf, natDigits_value, this, h1, h2]
  · rename_i hnn
    have hf := filter_digits _ (natDigits_digits i.toNat)
    have hm : (natDigits i.toNat).head? ≠ some '-' := by
      intro hh
      have := natDigits_digits i.toNat '-' (List.mem_of_mem_head? hh)
      revert this; decide
    have : ((i.toNat : Nat) : Int) = i := by omega
    simp [parseI64, hf, hm, natDigits_value, this, h1, h2]

end Display

namespace Display
open StringLit

/-! ### more scanning facts -/

theorem skipWs_cons {c : Char} {cs : List Char} (h : isWs c = false) : skipWs (c :: cs) = c :: cs := by
  simp [skipWs, h]
theorem skipWs_space (cs : List Char) : skipWs (' ' :: cs) = skipWs cs := by
  simp [skipWs, isWs]

def isSymbol : List Char → Bool
  | [] => false
  | c :: cs => isSymStart c && cs.all isSymChar

theorem scanSymbol_name (n rest : List Char) (hn : isSymbol n = true)
    (hr : stops isSymChar rest = true) : scanSymbol (n ++ rest) = some (n, rest) := by
  cases n with
  | nil => simp [isSymbol] at hn
  | cons c cs =>
    simp only [isSymbol, Bool.and_eq_true, List.all_eq_true] at hn
    have hs := spanChars_append isSymChar cs rest hn.2 hr
    simp [scanSymbol, hn.1, hs]

theorem scanInt_symStart (c : Char) (cs : List Char) (h : isSymStart c = true) :
    scanInt (c :: cs) = none := by
  have hd := isSymStart_not_digit h
  have hm : c ≠ '-' := by intro h'; subst h'; revert h; decide
  unfold scanInt
  split
  · rename_i heq; simp at heq; exact absurd heq.1 hm
  · rename_i heq; simp at heq; obtain ⟨rfl, rfl⟩ := heq; simp [hd]
  · rfl

theorem scanFloat_symStart (c : Char) (cs : List Char) (h : isSymStart c = true) :
    scanFloat (c :: cs) = none := by
  simp [scanFloat, scanInt_symStart c cs h]

theorem scanFloat_showInt (i : Int) (rest : List Char) (hr : okRest rest = true) :
    scanFloat (showInt i ++ rest) = none := by
  simp only [scanFloat, scanInt_showInt i rest (okRest_stops_digitU hr)]
  cases rest with
  | nil => rfl
  | cons c cs =>
    simp [okRest] at hr
    rcases hr with ((h | h) | h) | h <;> subst h <;> rfl

theorem scanFloat_shw {F} (fr : FloatRepr F) (f : F) (rest : List Char)
    (hr : stops isDigitU rest = true) : scanFloat (fr.shw f ++ rest) = some (fr.shw f, rest) := by
  obtain ⟨hin, hid⟩ := fr.ipart_digits f
  obtain ⟨hfn, hfd⟩ := fr.fpart_digits f
  rw [fr.shape f]
  cases hfp : fr.fpart f with
  | nil => exact absurd hfp hfn
  | cons d fs =>
    have hd : isDigit d = true := hfd d (by simp [hfp])
    have hs := spanChars_append isDigitU fs rest
      (fun c hc => isDigit_isDigitU (hfd c (by simp [hfp, hc]))) hr
    have hdot : stops isDigitU ('.' :: d :: (fs ++ rest)) = true := rfl
    cases fr.neg f with
    | false =>
      have h1 := scanInt_digits (fr.ipart f) ('.' :: d :: (fs ++ rest)) hid hin hdot
      simp only [Bool.false_eq_true, if_false, List.nil_append, List.append_assoc, List.cons_append]
      simp [scanFloat, h1, hd, hs]
    | true =>
      have h1 := scanInt_neg_digits (fr.ipart f) ('.' :: d :: (fs ++ rest)) hid hin hdot
      simp only [if_true, List.append_assoc, List.cons_append, List.nil_append]
      simp [scanFloat, h1, hd, hs]

theorem shw_filter {F} (fr : FloatRepr F) (f : F) : (fr.shw f).filter (· != '_') = fr.shw f := by
  obtain ⟨hin, hid⟩ := fr.ipart_digits f
  obtain ⟨hfn, hfd⟩ := fr.fpart_digits f
  rw [fr.shape f, List.filter_eq_self]
  intro c hc
  simp only [List.mem_append, List.mem_cons] at hc
  have : c ≠ '_' := by
    rcases hc with (hc | hc) | hc | hc
    · cases hn : fr.neg f <;> simp [hn] at hc; subst hc; decide
    · exact isDigit_ne_underscore (hid c hc)
    · subst hc; decide
    · exact isDigit_ne_underscore (hfd c hc)
  simp [this]

end Display

namespace Display
open StringLit

/-! ### fuel needed, well-formedness -/

mutual
/-- Fuel that `readValue` needs on `display v`. -/
def need {F} : DValue F → Nat
  | .int _ => 1
  | .float _ => 1
  | .str _ => 1
  | .enum0 _ => 1
  | .list items => 1 + needItems items
  | .tuple items => 1 + needItems items
  | .dict es => 1 + needPairs es
  | .enum1 _ p => 2 + need p
  | .struct _ fs => 1 + needPairs fs
def needItems {F} : List (DValue F) → Nat
  | [] => 1
  | v :: vs => 1 + max (need v) (needItems vs)
def needPairs {F} : List (List Char × DValue F) → Nat
  | [] => 1
  | (_, v) :: rest => 1 + max (need v) (needPairs rest)
end

/-- Keys strictly ascending (what `sort_by_key` on the keys of a map gives). -/
def ascending : List (List Char) → Prop
  | [] => True
  | k :: ks => (∀ k' ∈ ks, strLt k k' = true) ∧ ascending ks

mutual
/-- Values that exist at run time for a program with signature `sig`: integers are `i64`,
dict entries are in ascending key order without duplicates (the order `display` uses), enum
values name a variant of the right kind, struct values have exactly the declared fields. -/
def wf {F} (sig : Sig) : DValue F → Prop
  | .int i => -9223372036854775808 ≤ i ∧ i < 9223372036854775808
  | .float _ => True
  | .str _ => True
  | .list items => wfItems sig items
  | .tuple items => wfItems sig items
  | .dict es => wfPairs sig es ∧ ascending (es.map (·.1))
  | .enum0 n => isSymbol n = true ∧ n ≠ dictKw ∧ sig.variant n = some false
  | .enum1 n p => isSymbol n = true ∧ n ≠ dictKw ∧ sig.variant n = some true ∧ wf sig p
  | .struct n fs => isSymbol n = true ∧ n ≠ dictKw ∧
      (∃ d, sig.structFields n = some d ∧ fieldsOk d (fs.map (·.1)) = true) ∧
      (∀ k ∈ fs.map (·.1), isSymbol k = true) ∧ wfPairs sig fs
def wfItems {F} (sig : Sig) : List (DValue F) → Prop
  | [] => True
  | v :: vs => wf sig v ∧ wfItems sig vs
def wfPairs {F} (sig : Sig) : List (List Char × DValue F) → Prop
  | [] => True
  | (_, v) :: rest => wf sig v ∧ wfPairs sig rest
end

/-! ### first characters -/

/-- A character a number or a symbol can start with. -/
def NumOrSym (c : Char) : Prop := c = '-' ∨ isDigit c = true ∨ isSymStart c = true

theorem numOrSym_facts {c : Char} (h : NumOrSym c) :
    isWs c = false ∧ c ≠ '(' ∧ c ≠ '[' ∧ c ≠ '"' ∧ c ≠ ']' ∧ c ≠ ')' ∧ c ≠ '}' ∧ c ≠ ',' := by
  rcases h with h | h | h
  · subst h; decide
  · refine ⟨isDigit_not_ws h, ?_, ?_, ?_, ?_, ?_, ?_, ?_⟩ <;> (intro h'; subst h'; revert h; decide)
  · refine ⟨isSymStart_not_ws h, ?_, ?_, ?_, ?_, ?_, ?_, ?_⟩ <;> (intro h'; subst h'; revert h; decide)

theorem showInt_start (i : Int) : ∃ c tl, showInt i = c :: tl ∧ NumOrSym c := by
  unfold showInt
  split
  · exact ⟨'-', _, rfl, Or.inl rfl⟩
  · cases h : natDigits i.toNat with
    | nil => exact absurd h (natDigits_ne_nil _)
    | cons c tl =>
      exact ⟨c, tl, rfl, Or.inr (Or.inl (natDigits_digits i.toNat c (by simp [h])))⟩

theorem shw_start {F} (fr : FloatRepr F) (f : F) : ∃ c tl, fr.shw f = c :: tl ∧ NumOrSym c := by
  obtain ⟨hin, hid⟩ := fr.ipart_digits f
  rw [fr.shape f]
  cases hn : fr.neg f with
  | true => exact ⟨'-', fr.ipart f ++ '.' :: fr.fpart f, by simp, Or.inl rfl⟩
  | false =>
    cases hi : fr.ipart f with
    | nil => exact absurd hi hin
    | cons c tl => exact ⟨c, tl ++ '.' :: fr.fpart f, by simp, Or.inr (Or.inl (hid c (by simp [hi])))⟩

theorem symbol_start {n : List Char} (h : isSymbol n = true) : ∃ c tl, n = c :: tl ∧ NumOrSym c := by
  cases n with
  | nil => simp [isSymbol] at h
  | cons c tl =>
    simp only [isSymbol, Bool.and_eq_true] at h
    exact ⟨c, tl, rfl, Or.inr (Or.inr h.1)⟩

/-- The printed form of a value starts with a character that is not whitespace and not a closing
delimiter or comma. -/
def StartsOk (t : List Char) : Prop :=
  ∃ c tl, t = c :: tl ∧ isWs c = false ∧ c ≠ ']' ∧ c ≠ ')' ∧ c ≠ '}' ∧ c ≠ ','

theorem startsOk_of_numOrSym {t : List Char} (h : ∃ c tl, t = c :: tl ∧ NumOrSym c) : StartsOk t := by
  obtain ⟨c, tl, hc, hn⟩ := h
  obtain ⟨h0, -, -, -, h4, h5, h6, h7⟩ := numOrSym_facts hn
  exact ⟨c, tl, hc, h0, h4, h5, h6, h7⟩

theorem display_startsOk {F} (fr : FloatRepr F) (sig : Sig) (v : DValue F) (hw : wf sig v) :
    StartsOk (display fr.shw v) := by
  cases v with
  | int i => exact startsOk_of_numOrSym (by simpa [display] using showInt_start i)
  | float f => exact startsOk_of_numOrSym (by simpa [display] using shw_start fr f)
  | str s => exact ⟨'"', _, rfl, by decide⟩
  | list items => exact ⟨'[', _, rfl, by decide⟩
  | tuple items => exact ⟨'(', _, rfl, by decide⟩
  | dict es => exact ⟨'D', _, rfl, by decide⟩
  | enum0 n =>
    simp only [wf] at hw
    exact startsOk_of_numOrSym (by simpa [display] using symbol_start hw.1)
  | enum1 n p =>
    simp only [wf] at hw
    obtain ⟨c, tl, hc, hn⟩ := symbol_start hw.1
    exact startsOk_of_numOrSym ⟨c, tl ++ '(' :: (display fr.shw p ++ [')']), by simp [display, hc], hn⟩
  | struct n fs =>
    simp only [wf] at hw
    obtain ⟨c, tl, hc, hn⟩ := symbol_start hw.1
    exact startsOk_of_numOrSym
      ⟨c, tl ++ '{' :: ' ' :: (displayFields fr.shw fs ++ [' ', '}']), by simp [display, hc], hn⟩

theorem StartsOk.skip {t : List Char} (h : StartsOk t) (r : List Char) : skipWs (t ++ r) = t ++ r := by
  obtain ⟨c, tl, hc, hws, -⟩ := h
  subst hc; exact skipWs_cons hws

theorem StartsOk.head {t : List Char} (h : StartsOk t) (r : List Char) :
    ∃ c, (t ++ r).head? = some c ∧ c ≠ ']' ∧ c ≠ ')' ∧ c ≠ '}' ∧ c ≠ ',' := by
  obtain ⟨c, tl, hc, hws, h1, h2, h3, h4⟩ := h
  subst hc; exact ⟨c, rfl, h1, h2, h3, h4⟩

end Display

/-! ### the reader reads back what `display` prints -/

namespace Display
open StringLit

theorem readItems_space {F} (ops : FloatOps F) (sig : Sig) (fuel : Nat) (term : Char) (cs : List Char) :
    readItems ops sig fuel term (' ' :: cs) = readItems ops sig fuel term cs := by
  cases fuel with
  | zero => simp [readItems]
  | succ f => rw [readItems, readItems]; simp only [skipWs_space]

theorem readValue_space {F} (ops : FloatOps F) (sig : Sig) (fuel : Nat) (cs : List Char) :
    readValue ops sig fuel (' ' :: cs) = readValue ops sig fuel cs := by
  cases fuel with
  | zero => simp [readValue]
  | succ f => rw [readValue, readValue]; simp only [skipWs_space]

theorem readEntries_space {F} (ops : FloatOps F) (sig : Sig) (fuel : Nat) (cs : List Char) :
    readEntries ops sig fuel (' ' :: cs) = readEntries ops sig fuel cs := by
  cases fuel with
  | zero => simp [readEntries]
  | succ f => rw [readEntries, readEntries]; simp only [skipWs_space]

theorem readFields_space {F} (ops : FloatOps F) (sig : Sig) (fuel : Nat) (cs : List Char) :
    readFields ops sig fuel (' ' :: cs) = readFields ops sig fuel cs := by
  cases fuel with
  | zero => simp [readFields]
  | succ f => rw [readFields, readFields]; simp only [skipWs_space]

theorem readValue_int {F} (fr : FloatRepr F) (sig : Sig) (i : Int) (f : Nat) (rest : List Char)
    (hw : -9223372036854775808 ≤ i ∧ i < 9223372036854775808) (hr : okRest rest = true) :
    readValue fr.toFloatOps sig (f + 1) (showInt i ++ rest) = some (.int i, rest) := by
  obtain ⟨c, tl, hc, hcls⟩ := showInt_start i
  obtain ⟨hws, h1, h2, h3, -⟩ := numOrSym_facts hcls
  have hX : showInt i ++ rest = c :: (tl ++ rest) := by simp [hc]
  have hskip : skipWs (showInt i ++ rest) = showInt i ++ rest := by rw [hX]; exact skipWs_cons hws
  have hhead : (showInt i ++ rest).head? = some c := by rw [hX]; rfl
  rw [readValue]
  simp only [hskip, hhead, Option.some.injEq, h1, h2, h3, if_false,
    scanFloat_showInt i rest hr, scanInt_showInt i rest (okRest_stops_digitU hr),
    parseI64_showInt i hw.1 hw.2]


theorem okRest_head {rest : List Char} (h : okRest rest = true) :
    ¬ rest.head? = some '{' ∧ ¬ rest.head? = some '(' := by
  cases rest with
  | nil => simp
  | cons c cs =>
    simp [okRest] at h
    rcases h with ((h | h) | h) | h <;> subst h <;> simp

theorem readValue_float {F} (fr : FloatRepr F) (sig : Sig) (x : F) (f : Nat) (rest : List Char)
    (hr : okRest rest = true) :
    readValue fr.toFloatOps sig (f + 1) (fr.shw x ++ rest) = some (.float x, rest) := by
  obtain ⟨c, tl, hc, hcls⟩ := shw_start fr x
  obtain ⟨hws, h1, h2, h3, -⟩ := numOrSym_facts hcls
  have hX : fr.shw x ++ rest = c :: (tl ++ rest) := by simp [hc]
  have hskip : skipWs (fr.shw x ++ rest) = fr.shw x ++ rest := by rw [hX]; exact skipWs_cons hws
  have hhead : (fr.shw x ++ rest).head? = some c := by rw [hX]; rfl
  rw [readValue]
  simp only [hskip, hhead, Option.some.injEq, h1, h2, h3, if_false,
    scanFloat_shw fr x rest (okRest_stops_digitU hr), shw_filter, fr.read_shw]

theorem readValue_str {F} (ops : FloatOps F) (sig : Sig) (s : List Char) (f : Nat) (rest : List Char) :
    readValue ops sig (f + 1) (escapeStringLiteral s ++ rest) = some (.str s, rest) := by
  have hX : escapeStringLiteral s ++ rest = '"' :: (escapeBody s ++ '"' :: rest) := by
    simp [escapeStringLiteral]
  have hskip : skipWs (escapeStringLiteral s ++ rest) = escapeStringLiteral s ++ rest := by
    rw [hX]; exact skipWs_cons (by decide)
  have hhead : (escapeStringLiteral s ++ rest).head? = some '"' := by rw [hX]; rfl
  rw [readValue]
  simp only [hskip, hhead, lexString_escape, unescapeString_escape]
  simp

theorem readValue_enum0 {F} (ops : FloatOps F) (sig : Sig) (n : List Char) (f : Nat) (rest : List Char)
    (hn : isSymbol n = true) (hd : n ≠ dictKw) (hv : sig.variant n = some false)
    (hr : okRest rest = true) :
    readValue ops sig (f + 1) (n ++ rest) = some (.enum0 n, rest) := by
  obtain ⟨c, tl, hc, hcls⟩ := symbol_start hn
  have hsym : isSymStart c = true := by
    subst hc; simp only [isSymbol, Bool.and_eq_true] at hn; exact hn.1
  obtain ⟨hws, h1, h2, h3, -⟩ := numOrSym_facts hcls
  have hX : n ++ rest = c :: (tl ++ rest) := by simp [hc]
  have hskip : skipWs (n ++ rest) = n ++ rest := by rw [hX]; exact skipWs_cons hws
  have hhead : (n ++ rest).head? = some c := by rw [hX]; rfl
  have hF : scanFloat (n ++ rest) = none := by rw [hX]; exact scanFloat_symStart _ _ hsym
  have hI : scanInt (n ++ rest) = none := by rw [hX]; exact scanInt_symStart _ _ hsym
  obtain ⟨hb, hp⟩ := okRest_head hr
  rw [readValue]
  simp only [hskip, hhead, Option.some.injEq, h1, h2, h3, if_false, hF, hI,
    scanSymbol_name n rest hn (okRest_stops_sym hr), hd, hb, hp, hv]


theorem need_pos {F} (v : DValue F) : 1 ≤ need v := by
  cases v <;> simp [need] <;> omega

theorem strLt_irrefl (k : List Char) : strLt k k = false := by
  induction k with
  | nil => rfl
  | cons c cs ih => simp [strLt, ih]

/-- One item followed directly by the terminator. -/
theorem readItems_one {F} (ops : FloatOps F) (sig : Sig) (f : Nat) (term : Char) (X rest : List Char)
    (v : DValue F) (hskip : skipWs X = X) (hhead : ¬ X.head? = some term)
    (hterm : isWs term = false) (hcomma : term ≠ ',')
    (hv : readValue ops sig f X = some (v, term :: rest)) :
    readItems ops sig (f + 1) term X = some ([v], rest) := by
  rw [readItems]
  simp only [hskip, hhead, if_false, hv, skipWs_cons hterm, List.head?_cons, Option.some.injEq,
    hcomma, List.tail_cons, if_true]

mutual
theorem readValue_display {F} (fr : FloatRepr F) (sig : Sig) : ∀ (v : DValue F), wf sig v →
    ∀ (fuel : Nat) (rest : List Char), need v ≤ fuel → okRest rest = true →
    readValue fr.toFloatOps sig fuel (display fr.shw v ++ rest) = some (v, rest)
  | .int i, hw, fuel, rest, hf, hr => by
    obtain ⟨f, rfl⟩ : ∃ f, fuel = f + 1 := ⟨fuel - 1, by simp only [need] at hf; omega⟩
    simp only [wf] at hw
    simpa [display] using readValue_int fr sig i f rest hw hr
  | .float x, hw, fuel, rest, hf, hr => by
    obtain ⟨f, rfl⟩ : ∃ f, fuel = f + 1 := ⟨fuel - 1, by simp only [need] at hf; omega⟩
    simpa [display] using readValue_float fr sig x f rest hr
  | .str s, hw, fuel, rest, hf, hr => by
    obtain ⟨f, rfl⟩ : ∃ f, fuel = f + 1 := ⟨fuel - 1, by simp only [need] at hf; omega⟩
    simpa [display] using readValue_str fr.toFloatOps sig s f rest
  | .enum0 n, hw, fuel, rest, hf, hr => by
    obtain ⟨f, rfl⟩ : ∃ f, fuel = f + 1 := ⟨fuel - 1, by simp only [need] at hf; omega⟩
    simp only [wf] at hw
    simpa [display] using readValue_enum0 fr.toFloatOps sig n f rest hw.1 hw.2.1 hw.2.2 hr
  | .list items, hw, fuel, rest, hf, hr => by
    obtain ⟨f, rfl⟩ : ∃ f, fuel = f + 1 := ⟨fuel - 1, by simp only [need] at hf; omega⟩
    simp only [wf] at hw
    simp only [need] at hf
    have ih := readItems_display fr sig items hw f ']' rest (by omega) (Or.inl rfl)
    have hX : display fr.shw (.list items) ++ rest = '[' :: (displayItems fr.shw items ++ ']' :: rest) := by
      simp [display]
    rw [hX, readValue]
    simp [skipWs_cons, isWs, ih]
  | .tuple items, hw, fuel, rest, hf, hr => by
    obtain ⟨f, rfl⟩ : ∃ f, fuel = f + 1 := ⟨fuel - 1, by simp only [need] at hf; omega⟩
    simp only [wf] at hw
    simp only [need] at hf
    match items, hw, hf with
    | [], hw, hf =>
      have hX : display fr.shw (.tuple ([] : List (DValue F))) ++ rest = '(' :: ')' :: rest := by
        simp [display, displayItems]
      rw [hX, readValue]
      simp [skipWs_cons, isWs]
    | v :: vs, hw, hf =>
      simp only [wfItems] at hw
      simp only [needItems] at hf
      have hso := display_startsOk fr sig v hw.1
      -- the text after the first item
      obtain ⟨R, hR, hRok, hRskip, hRhead, hRitems⟩ : ∃ R : List Char,
          display fr.shw (.tuple (v :: vs)) ++ rest = '(' :: (display fr.shw v ++ R) ∧
          okRest R = true ∧ skipWs R = R ∧ R.head? = some ',' ∧
          readItems fr.toFloatOps sig f ')' R.tail = some (vs, rest) := by
        match vs, hw, hf with
        | [], hw, hf =>
          refine ⟨',' :: ')' :: rest, by simp [display, displayItems], rfl, rfl, rfl, ?_⟩
          have := readItems_display fr sig [] (by simp [wfItems]) f ')' rest (by simp [needItems]; omega) (Or.inr rfl)
          simpa [displayItems] using this
        | w :: ws, hw, hf =>
          refine ⟨',' :: ' ' :: (displayItems fr.shw (w :: ws) ++ ')' :: rest),
            by simp [display, displayItems], rfl, rfl, rfl, ?_⟩
          have := readItems_display fr sig (w :: ws) hw.2 f ')' rest (by omega) (Or.inr rfl)
          simpa [readItems_space] using this
      have ihv := readValue_display fr sig v hw.1 f R (by omega) hRok
      obtain ⟨c, hc, -, hc2, -, -⟩ := hso.head R
      rw [hR, readValue]
      simp [skipWs_cons, isWs, hso.skip R, hc, hc2, ihv, hRskip, hRhead, hRitems]
  | .enum1 n p, hw, fuel, rest, hf, hr => by
    obtain ⟨f, rfl⟩ : ∃ f, fuel = f + 1 := ⟨fuel - 1, by simp only [need] at hf; omega⟩
    simp only [wf] at hw
    simp only [need] at hf
    obtain ⟨hn, hd, hv, hwp⟩ := hw
    obtain ⟨g, rfl⟩ : ∃ g, f = g + 1 := ⟨f - 1, by have := need_pos p; omega⟩
    have ihp := readValue_display fr sig p hwp g (')' :: rest) (by omega) rfl
    have hso := display_startsOk fr sig p hwp
    obtain ⟨c0, hc0, -, hc02, -, -⟩ := hso.head (')' :: rest)
    have hitems := readItems_one fr.toFloatOps sig g ')' (display fr.shw p ++ ')' :: rest) rest p
      (hso.skip _) (by rw [hc0]; simpa using hc02) (by decide) (by decide) ihp
    obtain ⟨c, tl, hc, hcls⟩ := symbol_start hn
    have hsym : isSymStart c = true := by
      subst hc; simp only [isSymbol, Bool.and_eq_true] at hn; exact hn.1
    obtain ⟨hws, h1, h2, h3, -⟩ := numOrSym_facts hcls
    have hT : display fr.shw (.enum1 n p) ++ rest = n ++ ('(' :: (display fr.shw p ++ ')' :: rest)) := by
      simp [display]
    have hX : n ++ ('(' :: (display fr.shw p ++ ')' :: rest)) = c :: (tl ++ ('(' :: (display fr.shw p ++ ')' :: rest))) := by
      simp [hc]
    have hskip : skipWs (n ++ ('(' :: (display fr.shw p ++ ')' :: rest))) = n ++ ('(' :: (display fr.shw p ++ ')' :: rest)) := by
      rw [hX]; exact skipWs_cons hws
    have hhead : (n ++ ('(' :: (display fr.shw p ++ ')' :: rest))).head? = some c := by rw [hX]; rfl
    have hF : scanFloat (n ++ ('(' :: (display fr.shw p ++ ')' :: rest))) = none := by
      rw [hX]; exact scanFloat_symStart _ _ hsym
    have hI : scanInt (n ++ ('(' :: (display fr.shw p ++ ')' :: rest))) = none := by
      rw [hX]; exact scanInt_symStart _ _ hsym
    rw [hT, readValue]
    simp only [hskip, hhead, Option.some.injEq, h1, h2, h3, if_false, hF, hI,
      scanSymbol_name n _ hn (show stops isSymChar ('(' :: (display fr.shw p ++ ')' :: rest)) = true from rfl),
      hd, List.head?_cons, List.tail_cons, hv, hitems]
    simp
  | .dict es, hw, fuel, rest, hf, hr => by
    obtain ⟨f, rfl⟩ : ∃ f, fuel = f + 1 := ⟨fuel - 1, by simp only [need] at hf; omega⟩
    simp only [wf] at hw
    simp only [need] at hf
    have ih := readEntries_display fr sig es hw.1 hw.2 f rest (by omega)
    have hT : display fr.shw (.dict es) ++ rest = dictKw ++ ('[' :: (displayEntries fr.shw es ++ ']' :: rest)) := by
      simp [display, dictKw]
    have hF : scanFloat (dictKw ++ ('[' :: (displayEntries fr.shw es ++ ']' :: rest))) = none :=
      scanFloat_symStart _ _ (by decide)
    have hI : scanInt (dictKw ++ ('[' :: (displayEntries fr.shw es ++ ']' :: rest))) = none :=
      scanInt_symStart _ _ (by decide)
    have hS := scanSymbol_name dictKw ('[' :: (displayEntries fr.shw es ++ ']' :: rest)) (by decide) rfl
    have hskip : skipWs (dictKw ++ ('[' :: (displayEntries fr.shw es ++ ']' :: rest))) = dictKw ++ ('[' :: (displayEntries fr.shw es ++ ']' :: rest)) :=
      skipWs_cons (by decide)
    have hhead : (dictKw ++ ('[' :: (displayEntries fr.shw es ++ ']' :: rest))).head? = some 'D' := rfl
    rw [hT, readValue]
    simp only [hskip, hhead, hF, hI, hS]
    simp [skipWs_cons, isWs, ih]
  | .struct n fs, hw, fuel, rest, hf, hr => by
    obtain ⟨f, rfl⟩ : ∃ f, fuel = f + 1 := ⟨fuel - 1, by simp only [need] at hf; omega⟩
    simp only [wf] at hw
    simp only [need] at hf
    obtain ⟨hn, hd, ⟨decl, hdecl, hok⟩, hsyms, hwf⟩ := hw
    have ih := readFields_display fr sig fs hwf hsyms f rest (by omega)
    obtain ⟨c, tl, hc, hcls⟩ := symbol_start hn
    have hsym : isSymStart c = true := by
      subst hc; simp only [isSymbol, Bool.and_eq_true] at hn; exact hn.1
    obtain ⟨hws, h1, h2, h3, -⟩ := numOrSym_facts hcls
    have hT : display fr.shw (.struct n fs) ++ rest = n ++ ('{' :: ' ' :: (displayFields fr.shw fs ++ ' ' :: '}' :: rest)) := by
      simp [display]
    generalize hY : '{' :: ' ' :: (displayFields fr.shw fs ++ ' ' :: '}' :: rest) = Y at hT
    have hX : n ++ Y = c :: (tl ++ Y) := by simp [hc]
    have hskip : skipWs (n ++ Y) = n ++ Y := by rw [hX]; exact skipWs_cons hws
    have hhead : (n ++ Y).head? = some c := by rw [hX]; rfl
    have hF : scanFloat (n ++ Y) = none := by rw [hX]; exact scanFloat_symStart _ _ hsym
    have hI : scanInt (n ++ Y) = none := by rw [hX]; exact scanInt_symStart _ _ hsym
    have hS := scanSymbol_name n Y hn (by subst hY; rfl)
    rw [hT, readValue]
    simp only [hskip, hhead, Option.some.injEq, h1, h2, h3, if_false, hF, hI, hS, hd]
    subst hY
    simp [readFields_space, ih, hdecl, hok]
theorem readItems_display {F} (fr : FloatRepr F) (sig : Sig) : ∀ (items : List (DValue F)), wfItems sig items →
    ∀ (fuel : Nat) (term : Char) (rest : List Char), needItems items ≤ fuel → (term = ']' ∨ term = ')') →
    readItems fr.toFloatOps sig fuel term (displayItems fr.shw items ++ term :: rest) = some (items, rest)
  | [], hw, fuel, term, rest, hf, ht => by
    obtain ⟨f, rfl⟩ : ∃ f, fuel = f + 1 := ⟨fuel - 1, by simp only [needItems] at hf; omega⟩
    have hws : isWs term = false := by rcases ht with rfl | rfl <;> decide
    rw [readItems]
    simp [displayItems, skipWs_cons hws]
  | v :: vs, hw, fuel, term, rest, hf, ht => by
    obtain ⟨f, rfl⟩ : ∃ f, fuel = f + 1 := ⟨fuel - 1, by simp only [needItems] at hf; omega⟩
    simp only [wfItems] at hw
    simp only [needItems] at hf
    have hws : isWs term = false := by rcases ht with rfl | rfl <;> decide
    have hcomma : term ≠ ',' := by rcases ht with rfl | rfl <;> decide
    have hso := display_startsOk fr sig v hw.1
    match vs, hw, hf with
    | [], hw, hf =>
      have ihv := readValue_display fr sig v hw.1 f (term :: rest) (by omega)
        (by rcases ht with rfl | rfl <;> rfl)
      obtain ⟨c, hc, hc1, hc2, -, -⟩ := hso.head (term :: rest)
      have := readItems_one fr.toFloatOps sig f term (display fr.shw v ++ term :: rest) rest v
        (hso.skip _) (by rw [hc]; rcases ht with rfl | rfl <;> simpa using (by assumption)) hws hcomma ihv
      simpa [displayItems] using this
    | w :: ws, hw, hf =>
      have ihv := readValue_display fr sig v hw.1 f
        (',' :: ' ' :: (displayItems fr.shw (w :: ws) ++ term :: rest)) (by omega) rfl
      have ihr := readItems_display fr sig (w :: ws) hw.2 f term rest (by omega) ht
      obtain ⟨c, hc, hc1, hc2, -, -⟩ := hso.head (',' :: ' ' :: (displayItems fr.shw (w :: ws) ++ term :: rest))
      have hne : ¬ (display fr.shw v ++ ',' :: ' ' :: (displayItems fr.shw (w :: ws) ++ term :: rest)).head? = some term := by
        rw [hc]; rcases ht with rfl | rfl <;> simpa using (by assumption)
      have hT : displayItems fr.shw (v :: w :: ws) ++ term :: rest =
          display fr.shw v ++ ',' :: ' ' :: (displayItems fr.shw (w :: ws) ++ term :: rest) := by
        simp [displayItems]
      rw [hT, readItems]
      simp only [hso.skip _, hne, if_false, ihv, skipWs_cons (show isWs ',' = false by decide),
        List.head?_cons, List.tail_cons, if_true, readItems_space, ihr]
theorem readEntries_display {F} (fr : FloatRepr F) (sig : Sig) : ∀ (es : List (List Char × DValue F)), wfPairs sig es →
    ascending (es.map (·.1)) →
    ∀ (fuel : Nat) (rest : List Char), needPairs es ≤ fuel →
    readEntries fr.toFloatOps sig fuel (displayEntries fr.shw es ++ ']' :: rest) = some (es, rest)
  | [], hw, ha, fuel, rest, hf => by
    obtain ⟨f, rfl⟩ : ∃ f, fuel = f + 1 := ⟨fuel - 1, by simp only [needPairs] at hf; omega⟩
    rw [readEntries]
    simp [displayEntries, skipWs_cons, isWs]
  | (k, v) :: es', hw, ha, fuel, rest, hf => by
    obtain ⟨f, rfl⟩ : ∃ f, fuel = f + 1 := ⟨fuel - 1, by simp only [needPairs] at hf; omega⟩
    simp only [wfPairs] at hw
    simp only [needPairs] at hf
    obtain ⟨g, rfl⟩ : ∃ g, f = g + 1 := ⟨f - 1, by have := need_pos v; omega⟩
    simp only [List.map_cons, ascending] at ha
    -- the text after the value
    obtain ⟨R, hR, hRok, hRes⟩ : ∃ R : List Char,
        displayEntries fr.shw ((k, v) :: es') ++ ']' :: rest =
          escapeStringLiteral k ++ (' ' :: '=' :: '>' :: ' ' :: (display fr.shw v ++ R)) ∧
        okRest R = true ∧
        (let r3 := skipWs R
         (if r3.head? = some ',' then
            match readEntries fr.toFloatOps sig (g + 1) r3.tail with
            | none => none
            | some (es, r4) => some (if es.any (·.1 = k) then es else dictInsert k v es, r4)
          else if r3.head? = some ']' then some ([(k, v)], r3.tail)
          else none) = some ((k, v) :: es', rest)) := by
      match es', hw, hf, ha with
      | [], hw, hf, ha =>
        exact ⟨']' :: rest, by simp [displayEntries], rfl, by simp [skipWs_cons, isWs]⟩
      | (k2, v2) :: es2, hw, hf, ha =>
        have ihr := readEntries_display fr sig ((k2, v2) :: es2) hw.2 ha.2 (g + 1) rest (by omega)
        refine ⟨',' :: ' ' :: (displayEntries fr.shw ((k2, v2) :: es2) ++ ']' :: rest),
          by simp [displayEntries], rfl, ?_⟩
        have hlt : strLt k k2 = true := ha.1 k2 (by simp)
        have hne : k ≠ k2 := by intro h; subst h; rw [strLt_irrefl] at hlt; exact absurd hlt (by decide)
        have hany : (((k2, v2) :: es2).any (·.1 = k)) = false := by
          rw [List.any_eq_false]
          intro e he
          have hl := ha.1 e.1 (List.mem_map_of_mem he)
          intro heq
          simp at heq
          rw [heq, strLt_irrefl] at hl; exact absurd hl (by decide)
        simp only [skipWs_cons (show isWs ',' = false by decide), List.head?_cons, List.tail_cons,
          if_true, readEntries_space, ihr, hany]
        simp [dictInsert, hne, hlt]
    have ihv := readValue_display fr sig v hw.1 (g + 1) R (by omega) hRok
    have hkey := readValue_str fr.toFloatOps sig k g (' ' :: '=' :: '>' :: ' ' :: (display fr.shw v ++ R))
    have hX : escapeStringLiteral k ++ (' ' :: '=' :: '>' :: ' ' :: (display fr.shw v ++ R)) =
        '"' :: (escapeBody k ++ '"' :: ' ' :: '=' :: '>' :: ' ' :: (display fr.shw v ++ R)) := by
      simp [escapeStringLiteral]
    have hskip : skipWs (escapeStringLiteral k ++ (' ' :: '=' :: '>' :: ' ' :: (display fr.shw v ++ R))) =
        escapeStringLiteral k ++ (' ' :: '=' :: '>' :: ' ' :: (display fr.shw v ++ R)) := by
      rw [hX]; exact skipWs_cons (by decide)
    have hhead : (escapeStringLiteral k ++ (' ' :: '=' :: '>' :: ' ' :: (display fr.shw v ++ R))).head? = some '"' := by
      rw [hX]; rfl
    rw [hR, readEntries]
    simp only [hskip, hhead, Option.some.injEq, (by decide : ¬ ('"' : Char) = ']'), if_false, hkey,
      skipWs_space, skipWs_cons (show isWs '=' = false by decide), List.head?_cons, List.tail_cons,
      and_self, if_true, readValue_space, ihv]
    exact hRes
theorem readFields_display {F} (fr : FloatRepr F) (sig : Sig) : ∀ (fs : List (List Char × DValue F)), wfPairs sig fs →
    (∀ k ∈ fs.map (·.1), isSymbol k = true) →
    ∀ (fuel : Nat) (rest : List Char), needPairs fs ≤ fuel →
    readFields fr.toFloatOps sig fuel (displayFields fr.shw fs ++ ' ' :: '}' :: rest) = some (fs, rest)
  | [], hw, hs, fuel, rest, hf => by
    obtain ⟨f, rfl⟩ : ∃ f, fuel = f + 1 := ⟨fuel - 1, by simp only [needPairs] at hf; omega⟩
    rw [readFields]
    simp [displayFields, skipWs_space, skipWs_cons, isWs]
  | (k, v) :: fs', hw, hs, fuel, rest, hf => by
    obtain ⟨f, rfl⟩ : ∃ f, fuel = f + 1 := ⟨fuel - 1, by simp only [needPairs] at hf; omega⟩
    simp only [wfPairs] at hw
    simp only [needPairs] at hf
    have hk : isSymbol k = true := hs k (by simp)
    obtain ⟨R, hR, hRok, hRes⟩ : ∃ R : List Char,
        displayFields fr.shw ((k, v) :: fs') ++ ' ' :: '}' :: rest =
          k ++ (':' :: ' ' :: (display fr.shw v ++ R)) ∧
        okRest R = true ∧
        (let r3 := skipWs R
         (if r3.head? = some ',' then
            match readFields fr.toFloatOps sig f r3.tail with
            | none => none
            | some (fs, r4) => some ((k, v) :: fs, r4)
          else if r3.head? = some '}' then some ([(k, v)], r3.tail)
          else none) = some ((k, v) :: fs', rest)) := by
      match fs', hw, hf, hs with
      | [], hw, hf, hs =>
        exact ⟨' ' :: '}' :: rest, by simp [displayFields], rfl, by simp [skipWs_space, skipWs_cons, isWs]⟩
      | (k2, v2) :: fs2, hw, hf, hs =>
        have ihr := readFields_display fr sig ((k2, v2) :: fs2) hw.2
          (fun k' hk' => hs k' (by simp at hk' ⊢; exact Or.inr hk')) f rest (by omega)
        refine ⟨',' :: ' ' :: (displayFields fr.shw ((k2, v2) :: fs2) ++ ' ' :: '}' :: rest),
          by simp [displayFields], rfl, ?_⟩
        simp only [skipWs_cons (show isWs ',' = false by decide), List.head?_cons, List.tail_cons,
          if_true, readFields_space, ihr]
    have ihv := readValue_display fr sig v hw.1 f R (by omega) hRok
    obtain ⟨c, tl, hc, hcls⟩ := symbol_start hk
    obtain ⟨hws, -, -, -, -, -, h6, -⟩ := numOrSym_facts hcls
    generalize hY : ':' :: ' ' :: (display fr.shw v ++ R) = Y at hR
    have hX : k ++ Y = c :: (tl ++ Y) := by simp [hc]
    have hskip : skipWs (k ++ Y) = k ++ Y := by rw [hX]; exact skipWs_cons hws
    have hhead : (k ++ Y).head? = some c := by rw [hX]; rfl
    have hS := scanSymbol_name k Y hk (by subst hY; rfl)
    rw [hR, readFields]
    simp only [hskip, hhead, Option.some.injEq, h6, if_false, hS]
    subst hY
    simp only [skipWs_cons (show isWs ':' = false by decide), List.head?_cons, List.tail_cons,
      if_true, readValue_space, ihv]
    exact hRes
end

end Display

/-! ### `length + 1` fuel suffices -/

namespace Display
open StringLit

theorem symbol_length {n : List Char} (h : isSymbol n = true) : 1 ≤ n.length := by
  cases n with
  | nil => simp [isSymbol] at h
  | cons c tl => simp

mutual
theorem need_le_length {F} (fr : FloatRepr F) (sig : Sig) : ∀ (v : DValue F), wf sig v →
    need v ≤ (display fr.shw v).length
  | .int i, hw => by
    obtain ⟨c, tl, hc, -⟩ := showInt_start i
    simp [need, display, hc]
  | .float x, hw => by
    obtain ⟨c, tl, hc, -⟩ := shw_start fr x
    simp [need, display, hc]
  | .str s, hw => by simp [need, display, escapeStringLiteral]
  | .enum0 n, hw => by
    simp only [wf] at hw
    simpa [need, display] using symbol_length hw.1
  | .list items, hw => by
    simp only [wf] at hw
    have := needItems_le_length fr sig items hw
    simp [need, display]; omega
  | .tuple items, hw => by
    simp only [wf] at hw
    have := needItems_le_length fr sig items hw
    simp only [need, display, List.length_cons, List.length_append]
    split <;> simp <;> omega
  | .dict es, hw => by
    simp only [wf] at hw
    have := needEntries_le_length fr sig es hw.1
    simp [need, display]; omega
  | .enum1 n p, hw => by
    simp only [wf] at hw
    have := need_le_length fr sig p hw.2.2.2
    have := symbol_length hw.1
    simp [need, display]; omega
  | .struct n fs, hw => by
    simp only [wf] at hw
    have := needFields_le_length fr sig fs hw.2.2.2.2
    simp [need, display]; omega
theorem needItems_le_length {F} (fr : FloatRepr F) (sig : Sig) : ∀ (items : List (DValue F)), wfItems sig items →
    needItems items ≤ (displayItems fr.shw items).length + 1
  | [], hw => by simp [needItems, displayItems]
  | [v], hw => by
    simp only [wfItems] at hw
    have := need_le_length fr sig v hw.1
    have := need_pos v
    simp [needItems, displayItems]; omega
  | v :: w :: ws, hw => by
    simp only [wfItems] at hw
    have := need_le_length fr sig v hw.1
    have := needItems_le_length fr sig (w :: ws) ⟨hw.2.1, hw.2.2⟩
    simp only [needItems] at this ⊢
    simp [displayItems]; omega
theorem needEntries_le_length {F} (fr : FloatRepr F) (sig : Sig) : ∀ (es : List (List Char × DValue F)), wfPairs sig es →
    needPairs es ≤ (displayEntries fr.shw es).length + 1
  | [], hw => by simp [needPairs, displayEntries]
  | [(k, v)], hw => by
    simp only [wfPairs] at hw
    have := need_le_length fr sig v hw.1
    simp [needPairs, displayEntries]; omega
  | (k, v) :: e :: es, hw => by
    simp only [wfPairs] at hw
    have := need_le_length fr sig v hw.1
    have := needEntries_le_length fr sig (e :: es) hw.2
    simp only [needPairs] at this ⊢
    simp [displayEntries]; omega
theorem needFields_le_length {F} (fr : FloatRepr F) (sig : Sig) : ∀ (fs : List (List Char × DValue F)), wfPairs sig fs →
    needPairs fs ≤ (displayFields fr.shw fs).length + 1
  | [], hw => by simp [needPairs, displayFields]
  | [(k, v)], hw => by
    simp only [wfPairs] at hw
    have := need_le_length fr sig v hw.1
    simp [needPairs, displayFields]; omega
  | (k, v) :: e :: fs, hw => by
    simp only [wfPairs] at hw
    have := need_le_length fr sig v hw.1
    have := needFields_le_length fr sig (e :: fs) hw.2
    simp only [needPairs] at this ⊢
    simp [displayFields]; omega
end

theorem readTop_display {F} (fr : FloatRepr F) (sig : Sig) (v : DValue F) (hw : wf sig v) :
    readTop fr.toFloatOps sig (display fr.shw v) = some v := by
  have h := readValue_display fr sig v hw ((display fr.shw v).length + 1) [] 
    (by have := need_le_length fr sig v hw; omega) rfl
  simp only [List.append_nil] at h
  simp [readTop, h, skipWs]

end Display
