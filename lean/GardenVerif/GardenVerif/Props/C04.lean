import GardenVerif.Lemmas.IntOps
/-!
C04 — Integer and float operators follow the documented arithmetic.

All statements are over the model of Model/IntOps.lean (`intArith` = the arithmetic arms of
`eval_int_binop`, `intBinop` = the whole function, `assignUpdate` = `eval_assign_update`,
`floatBinop` = `eval_float_binop`) and quantify over ALL `a b : Int64`.
`x.toInt` is the mathematical integer an `i64` denotes.

Two places where the code (and therefore the model) is *stricter* than the property text,
stated as theorems below and reported as known findings by harness/c04.py:
* `mod_min_neg_one`: `MIN % -1` raises ("… by zero") although the Euclidean remainder 0 is
  representable (`i64::checked_rem_euclid` returns `None` there);
* `pow_exponent_too_large`: an exponent above `u32::MAX` raises even for the bases -1, 0, 1,
  whose powers are representable (`pow_guard_only_units` shows these are the only bases
  affected).
The two defects of the pinned tree (Rust panics) are `pinned_div_panics` and
`pinned_assign_update_panics`; the model of the patched tree never panics (`never_panics`).
-/

namespace C04
open IntOps

/-- Two's-complement wrap of a mathematical integer to 64 bits. -/
def wrap (n : Int) : Int := Int.bmod n (2 ^ 64)

/-- The mathematical integer of an `ok (Int …)` outcome. -/
def resInt {F : Type} : Res (AVal F) → Option Int
  | .ok (.int r) => some r.toInt
  | _ => none

/-- The boolean of an `ok (Bool …)` outcome. -/
def resBool {F : Type} : Res (AVal F) → Option Bool
  | .ok (.bool b) => some b
  | _ => none

/-- `wrap n` is the unique representable integer congruent to `n` modulo `2^64`. -/
theorem wrap_spec (n : Int) :
    -2 ^ 63 ≤ wrap n ∧ wrap n < 2 ^ 63 ∧ (wrap n - n) % 2 ^ 64 = 0 ∧
    ∀ m : Int, -2 ^ 63 ≤ m → m < 2 ^ 63 → (m - n) % 2 ^ 64 = 0 → m = wrap n := by
  unfold wrap
  rw [bmod64]
  refine ⟨?_, ?_, ?_, ?_⟩
  · split <;> omega
  · split <;> omega
  · split <;> omega
  · intro m h1 h2 h3
    split <;> omega

example : wrap (2 ^ 63) = -2 ^ 63 := by decide

/-! ### `+`, `-`, `*` wrap -/

theorem add_wraps {F : Type} (a b : Int64) :
    resInt (intArith (F := F) .add a b) = some (wrap (a.toInt + b.toInt)) := by
  simp [intArith, resInt, wrap, Int64.toInt_add]

theorem sub_wraps {F : Type} (a b : Int64) :
    resInt (intArith (F := F) .sub a b) = some (wrap (a.toInt - b.toInt)) := by
  simp [intArith, resInt, wrap, Int64.toInt_sub]

theorem mul_wraps {F : Type} (a b : Int64) :
    resInt (intArith (F := F) .mul a b) = some (wrap (a.toInt * b.toInt)) := by
  simp [intArith, resInt, wrap, Int64.toInt_mul]

example : resInt (intArith (F := Unit) .add Int64.maxValue 1) = some (-2 ^ 63) := by decide

/-! ### `/` truncates toward zero; zero divisor and unrepresentable quotient raise -/

/-- The quotient is unrepresentable exactly for `MIN / -1`. -/
theorem div_overflow_iff (a b : Int64) (hb : b ≠ 0) :
    fits (a.toInt.tdiv b.toInt) = false ↔ (a = Int64.minValue ∧ b = -1) := by
  constructor
  · intro h
    apply Classical.byContradiction
    intro hc
    have := tdiv_bounds a.toInt b.toInt (Int64.le_toInt a) (Int64.toInt_lt a) (Int64.le_toInt b)
      (Int64.toInt_lt b) (toInt_ne_zero hb) (by rw [eq_min_iff, eq_neg_one_iff] at hc; exact hc)
    have hf : fits (a.toInt.tdiv b.toInt) = true := by rw [fits_iff]; exact this
    rw [hf] at h
    cases h
  · rintro ⟨rfl, rfl⟩
    decide

theorem div_truncates {F : Type} (a b : Int64) (hb : b ≠ 0)
    (hfit : fits (a.toInt.tdiv b.toInt) = true) :
    resInt (intArith (F := F) .div a b) = some (a.toInt.tdiv b.toInt) := by
  have hno : ¬(a = Int64.minValue ∧ b = -1) := by
    intro h
    have := (div_overflow_iff a b hb).mpr h
    rw [hfit] at this
    cases this
  simp [intArith, checkedDiv, hb, hno, resInt, toInt_div_of_no_overflow a b hb hno]

theorem div_by_zero {F : Type} (a : Int64) :
    intArith (F := F) .div a 0 = .exception .divZero := by
  simp [intArith]

theorem div_unrepresentable {F : Type} (a b : Int64) (hb : b ≠ 0)
    (hfit : fits (a.toInt.tdiv b.toInt) = false) :
    intArith (F := F) .div a b = .exception .divOverflow := by
  have h := (div_overflow_iff a b hb).mp hfit
  simp [intArith, checkedDiv, h]

example : resInt (intArith (F := Unit) .div (-7) 2) = some (-3) := by decide

/-! ### `%` is the Euclidean remainder -/

theorem mod_euclidean {F : Type} (a b : Int64) (hb : b ≠ 0)
    (hno : ¬(a = Int64.minValue ∧ b = -1)) :
    resInt (intArith (F := F) .mod a b) = some (a.toInt % b.toInt) := by
  simp [intArith, checkedRemEuclid, hb, hno, resInt, toInt_remEuclid a b hb]

/-- Lean's `Int.emod` is the Euclidean remainder: in `[0, |b|)` and congruent to `a`. -/
theorem mod_range (a b : Int64) (hb : b ≠ 0) :
    0 ≤ a.toInt % b.toInt ∧ a.toInt % b.toInt < b.toInt.natAbs ∧
    b.toInt ∣ (a.toInt - a.toInt % b.toInt) := by
  refine ⟨Int.emod_nonneg _ (toInt_ne_zero hb), Int.emod_lt _ (toInt_ne_zero hb), ?_⟩
  exact ⟨a.toInt / b.toInt, by rw [Int.emod_def]; exact Int.sub_sub_self _ _⟩

theorem mod_by_zero {F : Type} (a : Int64) :
    intArith (F := F) .mod a 0 = .exception .remZero := by
  simp [intArith, checkedRemEuclid]

/-- Deviation: `MIN % -1` raises (with the "by zero" message) although the Euclidean
remainder, 0, is representable. -/
theorem mod_min_neg_one {F : Type} :
    intArith (F := F) .mod Int64.minValue (-1) = .exception .remZero ∧
    Int64.minValue.toInt % (-1 : Int64).toInt = 0 := by
  constructor
  · simp [intArith, checkedRemEuclid]
  · decide

example : resInt (intArith (F := Unit) .mod (-4) 3) = some 2 := by decide

/-! ### `**` is exact; negative exponent and overflow raise -/

theorem pow_exact {F : Type} (a n : Int64) (v : Int) :
    resInt (intArith (F := F) .pow a n) = some v ↔
      (0 ≤ n.toInt ∧ n.toInt ≤ 4294967295 ∧ fits (a.toInt ^ n.toInt.toNat) = true ∧
        v = a.toInt ^ n.toInt.toNat) := by
  unfold intArith
  simp only [Int64.lt_iff_toInt_lt, GT.gt, toInt_u32Max, Int64.toInt_zero]
  by_cases h1 : n.toInt < 0
  · simp [h1, resInt]; omega
  · by_cases h2 : 4294967295 < n.toInt
    · simp [h1, h2, resInt]; omega
    · simp only [h1, h2, if_false, checkedPow_spec]
      cases hf : fits (a.toInt ^ n.toInt.toNat) with
      | false => simp [resInt]
      | true =>
        simp only [if_true, resInt, toInt_ofInt_of_fits _ hf]
        constructor
        · intro h; injection h with h; exact ⟨by omega, by omega, trivial, h.symm⟩
        · rintro ⟨_, _, _, h⟩; rw [h]

/-- Outside the representable cases `**` raises a Garden exception of the stated kind. -/
theorem pow_exception {F : Type} (a n : Int64) :
    (n.toInt < 0 → intArith (F := F) .pow a n = .exception .negExponent) ∧
    (4294967295 < n.toInt → intArith (F := F) .pow a n = .exception .expTooLarge) ∧
    (0 ≤ n.toInt → n.toInt ≤ 4294967295 → fits (a.toInt ^ n.toInt.toNat) = false →
      intArith (F := F) .pow a n = .exception .powOverflow) := by
  unfold intArith
  simp only [Int64.lt_iff_toInt_lt, GT.gt, toInt_u32Max, Int64.toInt_zero]
  refine ⟨?_, ?_, ?_⟩
  · intro h; simp [h]
  · intro h
    have : ¬ n.toInt < 0 := by omega
    simp [h, this]
  · intro h1 h2 h3
    have h1' : ¬ n.toInt < 0 := by omega
    have h2' : ¬ 4294967295 < n.toInt := by omega
    simp only [h1', h2', if_false, checkedPow_spec, h3]
    rfl

/-- The "exponent is too large" guard only changes the outcome for the bases -1, 0, 1:
for every other base such a power is not representable anyway. -/
theorem pow_guard_only_units (a n : Int64) (ha : 2 ≤ a.toInt.natAbs) (hn : 4294967295 < n.toInt) :
    fits (a.toInt ^ n.toInt.toNat) = false :=
  pow_not_fits _ _ ha (by omega)

/-- Deviation: for a base in {-1, 0, 1} and an exponent above `u32::MAX` the exact power is
representable, yet the operator raises. -/
theorem pow_exponent_too_large {F : Type} :
    intArith (F := F) .pow 1 4294967296 = .exception .expTooLarge := by
  rfl

example : resInt (intArith (F := Unit) .pow 2 62) = some (2 ^ 62) := by
  rw [pow_exact]; decide

/-! ### comparisons are the integer order -/

theorem lt_is_int_order {F : Type} (a b : Int64) :
    resBool (intArith (F := F) .lt a b) = some (decide (a.toInt < b.toInt)) := by
  simp [intArith, resBool, Int64.lt_iff_toInt_lt]

theorem le_is_int_order {F : Type} (a b : Int64) :
    resBool (intArith (F := F) .le a b) = some (decide (a.toInt ≤ b.toInt)) := by
  simp [intArith, resBool, Int64.le_iff_toInt_le]

theorem gt_is_int_order {F : Type} (a b : Int64) :
    resBool (intArith (F := F) .gt a b) = some (decide (a.toInt > b.toInt)) := by
  simp [intArith, resBool, Int64.lt_iff_toInt_lt]

theorem ge_is_int_order {F : Type} (a b : Int64) :
    resBool (intArith (F := F) .ge a b) = some (decide (a.toInt ≥ b.toInt)) := by
  simp [intArith, resBool, Int64.le_iff_toInt_le]

/-! ### no Rust panic; every failure is a Garden exception -/

theorem intArith_never_panics {F : Type} (op : IntOp) (a b : Int64) :
    (intArith (F := F) op a b).isPanic = false := by
  cases op <;> simp only [intArith] <;> (repeat' split) <;> rfl

theorem never_panics {F : Type} (fi : FloatImpl F) (l r : AVal F) :
    (∀ op, (intBinop op l r).isPanic = false) ∧
    (∀ op, (assignUpdate op l r).isPanic = false) ∧
    (∀ op, (floatBinop fi op l r).isPanic = false) := by
  refine ⟨?_, ?_, ?_⟩
  · intro op
    cases l <;> cases r <;> first | exact intArith_never_panics op _ _ | rfl
  · intro op
    cases l <;> cases r <;> cases op <;> simp [assignUpdate, Res.isPanic]
  · intro op
    cases l <;> cases r <;> cases op <;> (try rfl)
    simp only [floatBinop]; split <;> rfl

/-- A non-`Int` operand of an integer operator raises a type error (lhs checked first). -/
theorem int_operand_type_errors {F : Type} (op : IntOp) (l r : AVal F) :
    (∀ a b, l = .int a → r = .int b → intBinop op l r = intArith op a b) ∧
    ((∀ a, l ≠ .int a) → ∃ s, intBinop op l r = .exception (.typeError "Int" .lhs s)) ∧
    (∀ a, l = .int a → (∀ b, r ≠ .int b) → intBinop op l r = .exception (.typeError "Int" .rhs false)) := by
  refine ⟨?_, ?_, ?_⟩
  · rintro a b rfl rfl; rfl
  · intro h
    cases l with
    | int a => exact absurd rfl (h a)
    | float f => exact ⟨true, rfl⟩
    | bool b => exact ⟨false, rfl⟩
    | other t => exact ⟨false, rfl⟩
  · rintro a rfl h
    cases r with
    | int b => exact absurd rfl (h b)
    | float f => rfl
    | bool b => rfl
    | other t => rfl

/-! ### `x += e` / `x -= e` agree with `x = x + e` / `x = x - e` -/

/-- On integers (every pair, including the overflowing ones) the stored value is the same. -/
theorem assign_update_agrees {F : Type} (op : UpdOp) (a b : Int64) :
    assignUpdate (F := F) op (.int a) (.int b) = assignBinop op (.int a) (.int b) := by
  cases op <;> rfl

/-- Outcomes up to the wording of a type error (`+` adds a "use a float operator" hint). -/
def sameOutcome {F : Type} : Res (AVal F) → Res (AVal F) → Prop
  | .ok (.int a), .ok (.int b) => a = b
  | .exception (.typeError e1 s1 _), .exception (.typeError e2 s2 _) => e1 = e2 ∧ s1 = s2
  | _, _ => False

/-- For arbitrary operand values both forms raise the same type error or store the same Int. -/
theorem assign_update_agrees_all {F : Type} (op : UpdOp) (xv ev : AVal F) :
    sameOutcome (assignUpdate op xv ev) (assignBinop op xv ev) := by
  cases xv <;> cases ev <;> cases op <;> simp [assignUpdate, assignBinop, intBinop, intArith,
    UpdOp.toIntOp, sameOutcome]

example : assignUpdate (F := Unit) .add (.int Int64.maxValue) (.int 1) = .ok (.int Int64.minValue) := by
  rfl

/-! ### the two defects of the pinned tree (what the fix patches remove) -/

theorem pinned_div_panics {F : Type} :
    (intArithPinned (F := F) .div Int64.minValue (-1)).isPanic = true := by
  rfl

/-- The pinned `/` differs from the patched one only at `MIN / -1`. -/
theorem pinned_div_differs_only_at_overflow {F : Type} (op : IntOp) (a b : Int64)
    (h : ¬(op = .div ∧ a = Int64.minValue ∧ b = -1)) :
    intArithPinned (F := F) op a b = intArith op a b := by
  cases op <;> try rfl
  simp only [intArithPinned, intArith, checkedDiv]
  by_cases hb : b = 0
  · simp [hb]
  · have : ¬(a = Int64.minValue ∧ b = -1) := fun hh => h ⟨rfl, hh⟩
    simp [hb, this]

/-- The pinned `+=` / `-=` agree with `+` / `-` exactly when the exact result is
representable; otherwise they panic. -/
theorem pinned_assign_update_panics {F : Type} (a b : Int64) :
    (assignUpdatePinned (F := F) .add (.int a) (.int b) = assignBinop .add (.int a) (.int b) ↔
      fits (a.toInt + b.toInt) = true) ∧
    (assignUpdatePinned (F := F) .sub (.int a) (.int b) = assignBinop .sub (.int a) (.int b) ↔
      fits (a.toInt - b.toInt) = true) ∧
    (fits (a.toInt + b.toInt) = false →
      (assignUpdatePinned (F := F) .add (.int a) (.int b)).isPanic = true) ∧
    (fits (a.toInt - b.toInt) = false →
      (assignUpdatePinned (F := F) .sub (.int a) (.int b)).isPanic = true) := by
  refine ⟨?_, ?_, ?_, ?_⟩
  · cases h : fits (a.toInt + b.toInt) <;>
      simp [assignUpdatePinned, assignBinop, intBinop, intArith, UpdOp.toIntOp, h]
  · cases h : fits (a.toInt - b.toInt) <;>
      simp [assignUpdatePinned, assignBinop, intBinop, intArith, UpdOp.toIntOp, h]
  · intro h; simp [assignUpdatePinned, h, Res.isPanic]
  · intro h; simp [assignUpdatePinned, h, Res.isPanic]

/-! ### float operators: control logic only (the IEEE operations are parameters) -/

/-- Two floats: `+.`, `-.`, `*.` always produce the parameter operation's result; `/.`
raises exactly when the divisor compares equal to zero. -/
theorem float_control {F : Type} (fi : FloatImpl F) (a b : F) :
    floatBinop fi .add (.float a) (.float b) = .ok (.float (fi.add a b)) ∧
    floatBinop fi .sub (.float a) (.float b) = .ok (.float (fi.sub a b)) ∧
    floatBinop fi .mul (.float a) (.float b) = .ok (.float (fi.mul a b)) ∧
    (fi.isZero b = true → floatBinop fi .div (.float a) (.float b) = .exception .divZero) ∧
    (fi.isZero b = false → floatBinop fi .div (.float a) (.float b) = .ok (.float (fi.div a b))) := by
  refine ⟨rfl, rfl, rfl, ?_, ?_⟩ <;> intro h <;> simp [floatBinop, h]

/-- A non-`Float` operand of a float operator raises a type error. -/
theorem float_operand_type_errors {F : Type} (fi : FloatImpl F) (op : FloatOp) (l r : AVal F)
    (h : (∀ a, l ≠ .float a) ∨ (∀ b, r ≠ .float b)) :
    ∃ side s, floatBinop fi op l r = .exception (.typeError "Float" side s) := by
  cases l with
  | int a => exact ⟨.lhs, true, rfl⟩
  | bool b => exact ⟨.lhs, false, rfl⟩
  | other t => exact ⟨.lhs, false, rfl⟩
  | float a =>
    cases r with
    | int b => exact ⟨.lhs, true, rfl⟩
    | bool b => exact ⟨.rhs, false, rfl⟩
    | other t => exact ⟨.rhs, false, rfl⟩
    | float b =>
      rcases h with h | h
      · exact absurd rfl (h a)
      · exact absurd rfl (h b)

end C04
