#!/bin/sh
# usage: tools/seed_sweep.sh Cxx seed1 seed2 ...   — runs the quick check with each seed against /repo
cd /verif
C=$1; shift
for s in "$@"; do
  VERIF_SEED=$s ./check $C --tier quick > .build/logs/${C}_seed$s.log 2>&1
  echo "$C seed=$s rc=$? $(grep -c '^KNOWN-FINDING' .build/logs/${C}_seed$s.log) known; $(grep -E '^VIOLATION|oracle violation' .build/logs/${C}_seed$s.log | cut -c1-200 | head -3 | tr '\n' '|')"
done
