import GardenVerif.Lemmas.RefSem
/-!
# C22 — `check --fix` edits are safe

(V) certified validator + exact model of the decisive phase.

* `apply_fixes_disjoint`: exact model `applyFixes` of `apply_fixes` (src/syntax_check.rs 40-54: stable sort by
  start offset descending, sequential splice, explicit panic when a slice bound is beyond the current text). For
  fixes that are the pairwise-disjoint, in-bounds ranges of a segmented text — given in ANY order — the result is
  the simultaneous substitution and there is no panic. Whether the real fix list satisfies the precondition is
  evaluated per input by the driver (`fixes_check`), which also compares the model's output with the real one.
  `apply_fixes_skip_disjoint` is the same statement for the repaired `apply_fixes` (a fix that overlaps an already
  applied one is skipped; no panic outcome); the harness picks the model variant that matches the source it builds.
* per-lint schema soundness on `RefSem` (what each fix CLAIMS to do), exact in fuel:
  `unused_literal_stmt_sound` (a literal statement that is not the last of its block can be dropped),
  `unnecessary_let_sound` (`let x = e; x` at the end of a block has the value and output of `e`),
  `repeated_bool_sound` (`(a op b) op a = a op b` on Bool values for `&&` / `||`, garden's operators being strict).
  NOT PROVED (full statement): the lift of these local equalities through arbitrary program contexts
  (`fix_schema_sound : IsFixSchema p p' → ∀ r, Terminates p r ↔ Terminates p' r`); it needs fuel monotonicity of
  `RefSem` plus a congruence argument per node kind. Per input the direct oracle runs the real evaluator on the
  program before and after `--fix`.
-/
set_option linter.unusedVariables false
set_option linter.unusedSimpArgs false

namespace C22
open Validators RefSem
open Machine (Program Expr Dest BinOp)

/-- Disjoint in-bounds fixes, in any order: `apply_fixes` computes the simultaneous substitution, no panic. -/
theorem apply_fixes_disjoint {α} (segs : List (List α × List α × List α)) (last : List α) (fixes : List (Fix α))
    (h : fixes.mergeSort (fun a b => decide (b.start ≤ a.start)) = (fixesOf 0 segs).reverse) :
    applyFixes (buildText3 segs last) fixes = some (buildFixed segs last) := by
  unfold applyFixes applyFixesSorted
  rw [h, List.foldl_reverse]
  have := applyFixes_foldr segs [] last
  simpa using this

/-- The same for `apply_fixes` with the repair that skips a fix overlapping an already applied one
(`applyFixesSkip`): on disjoint in-bounds fixes nothing is skipped and the result is the simultaneous
substitution; this variant has no panic outcome at all. -/
theorem apply_fixes_skip_disjoint {α} (segs : List (List α × List α × List α)) (last : List α)
    (fixes : List (Fix α))
    (h : fixes.mergeSort (fun a b => decide (b.start ≤ a.start)) = (fixesOf 0 segs).reverse) :
    applyFixesSkip (buildText3 segs last) fixes = buildFixed segs last := by
  unfold applyFixesSkip
  rw [h]
  obtain ⟨b', _, hh⟩ := applyFixesSkipGo_spec segs [] last [] (buildText3 segs last).length (by simp)
  simpa [applyFixesSkipGo] using hh

/-- With the repair, overlapping fixes no longer corrupt the text: the later (stale) one is skipped. -/
example : applyFixesSkipGo [⟨2, 3, [7, 7, 7]⟩, ⟨1, 4, []⟩] [0, 1, 2, 3, 4, 5] 6 = [0, 1, 7, 7, 7, 3, 4, 5] := by
  decide

/-- The ranges `fixesOf` produces are pairwise disjoint, ascending and in bounds. -/
theorem fixesOf_disjoint {α} : ∀ (segs : List (List α × List α × List α)) (last : List α) (i : Nat),
    fixesDisjointSorted (i + (buildText3 segs last).length) i (fixesOf i segs) = true
  | [], last, i => by simp [fixesOf, fixesDisjointSorted]
  | (g, t, nw) :: rest, last, i => by
      have ih := fixesOf_disjoint rest last (i + g.length + t.length)
      simp only [fixesOf, fixesDisjointSorted, buildText3, List.length_append, Bool.and_eq_true, decide_eq_true_eq]
      refine ⟨⟨by omega, by omega⟩, ?_⟩
      have e : i + (g.length + t.length + (buildText3 rest last).length)
          = i + g.length + t.length + (buildText3 rest last).length := by omega
      rw [e]; exact ih

/-- Non-trivial instance: two fixes given in ascending order (the Rust sorts them descending). -/
example : applyFixesSorted [0, 1, 2, 3, 4, 5, 6] [⟨4, 6, [9, 9, 9]⟩, ⟨1, 2, []⟩] = some [0, 2, 3, 9, 9, 9, 6] := by
  decide

/-- Overlapping fixes are NOT the simultaneous substitution (why the precondition matters):
deleting 1..4 and replacing 2..3 leaves a stale offset. -/
example : applyFixesSorted [0, 1, 2, 3, 4, 5] [⟨2, 3, [7, 7, 7]⟩, ⟨1, 4, []⟩] = some [0, 7, 3, 4, 5] := by decide

/-- Removing an unused INT literal statement (not the last statement of its block). -/
theorem unused_literal_stmt_sound (cl : Bool) (p : Program) (n : Nat) (env : Env) (s : RefSem.St)
    (id : Nat) (u : Bool) (v : Int64) (e2 : Expr) (rest : List Expr) :
    evalSeq cl p (n + 2) env s (.int id u v :: e2 :: rest) = evalSeq cl p (n + 1) env s (e2 :: rest) := by
  rw [evalSeq_cons_nonlet cl p (n + 1) env s (e2 :: rest) (by simp [isLet])]
  simp only [eval, RefSem.bind]

/-- Removing an unused STRING literal statement. -/
theorem unused_string_stmt_sound (cl : Bool) (p : Program) (n : Nat) (env : Env) (s : RefSem.St)
    (id : Nat) (u : Bool) (v : String) (e2 : Expr) (rest : List Expr) :
    evalSeq cl p (n + 2) env s (.str id u v :: e2 :: rest) = evalSeq cl p (n + 1) env s (e2 :: rest) := by
  rw [evalSeq_cons_nonlet cl p (n + 1) env s (e2 :: rest) (by simp [isLet])]
  simp only [eval, RefSem.bind]

/-- `let x = e; x` as the end of a block has the result and the output of `e`. -/
theorem unnecessary_let_sound (cl : Bool) (p : Program) (n : Nat) (env : Env) (s : RefSem.St)
    (id id2 : Nat) (u u2 : Bool) (x : String) (e : Expr) (hx : x ≠ "_") :
    (evalSeq cl p (n + 3) env s [.letE id u (.sym x) e, .var id2 u2 x]).1 = (eval cl p (n + 2) env s e).1 ∧
    (evalSeq cl p (n + 3) env s [.letE id u (.sym x) e, .var id2 u2 x]).2.out = (eval cl p (n + 2) env s e).2.out := by
  have hx' : (x == "_") = false := by simpa using hx
  simp only [evalSeq]
  cases h : eval cl p (n + 2) env s e with
  | mk r s1 =>
    cases r <;> simp only [RefSem.bind, and_self]
    simp only [RefSem.bindDest, RefSem.bindNames, hx', Bool.false_eq_true, if_false, evalSeq, eval,
      RefSem.lookupVar, RefSem.lookup, beq_self_eq_true, if_true]
    simp

/-- `(a op b) op a = a op b` on Bool values for the strict operators `&&`, `||`. -/
theorem repeated_bool_sound (a b : Bool) :
    RefSem.binop .or (vBool (a || b)) (vBool a) = RefSem.binop .or (vBool a) (vBool b) ∧
    RefSem.binop .and (vBool (a && b)) (vBool a) = RefSem.binop .and (vBool a) (vBool b) := by
  cases a <;> cases b <;> simp [RefSem.binop, vBool, Val.asBool]

end C22
