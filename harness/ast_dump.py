"""Rust pretty-Debug (`{:#?}`) reader and the canonical position-free S-expression of Garden ASTs.

API (shared by the parser / formatter / refactoring checks):

    parse_debug(text)        -> tree        one value
    parse_debug_items(text)  -> [tree]      a sequence of values (the `ast` hook dumps one per item)
    to_sexpr(tree)           -> str         canonical S-expression of an item or expression tree
    items_to_sexprs(text)    -> [str]       parse_debug_items + to_sexpr
    decode_ast_response(line)-> (dump_text, [(kind, message, posstr)])   for the hook's `ast` op
    canon_sexpr(s)           -> str         normal form of an S-expression string produced by the Lean
                                            driver (floats to the same form as to_sexpr)

Generic trees:
    ("struct", Name, {field: tree})      Name { f: v, .. }      (`Position { ... }` -> fields {})
    ("tuple",  Name, [tree])             Name(v, ..)  / plain tuple with Name == ""
    ("list",   [tree])                   [v, ..]
    ("str",    s)                        "…" with Rust escapes decoded
    ("num",    text)                     integers / floats as printed
    ("unit",   Name)                     bare identifier: None, CurrentFile, Add, true, false
    ("sym",    Kind, name)               Garden's custom Debug: Symbol"x", TypeSymbol"T"

The S-expression format is DESIGN.md Appendix E without the `#n` preorder tags: positions, syntax
ids, interned ids, item ids, commas and `value_is_used` are dropped (`to_sexpr(tree, used=True)`
keeps the use flag as a `u`/`n` suffix on expression heads, for checks that need it).
"""
import re

_TOK = re.compile(r'''
    (?P<ws>\s+)
  | (?P<elided>\{\s*\.\.\.\s*\})
  | (?P<str>"(?:\\.|[^"\\])*")
  | (?P<num>-?[0-9][0-9_]*(?:\.[0-9]+)?(?:e[+-]?[0-9]+)?)
  | (?P<id>[A-Za-z_][A-Za-z0-9_]*(?:::[A-Za-z_][A-Za-z0-9_]*)*)
  | (?P<punct>[{}()\[\],:])
''', re.X)


class DebugParseError(Exception):
    pass


def _tokenize(text):
    out = []
    i = 0
    n = len(text)
    while i < n:
        m = _TOK.match(text, i)
        if not m:
            raise DebugParseError("cannot tokenize at %d: %r" % (i, text[i:i + 40]))
        i = m.end()
        k = m.lastgroup
        if k != "ws":
            out.append((k, m.group(k)))
    return out


_ESC = {"n": "\n", "t": "\t", "r": "\r", "0": "\0", "\\": "\\", '"': '"', "'": "'"}


def _unescape(lit):
    s = lit[1:-1]
    out = []
    i = 0
    while i < len(s):
        c = s[i]
        if c != "\\":
            out.append(c)
            i += 1
            continue
        d = s[i + 1]
        if d == "u":
            j = s.index("}", i)
            out.append(chr(int(s[i + 3:j], 16)))
            i = j + 1
        elif d == "x":
            out.append(chr(int(s[i + 2:i + 4], 16)))
            i += 4
        else:
            out.append(_ESC.get(d, d))
            i += 2
    return "".join(out)


class _P:
    def __init__(self, toks):
        self.t = toks
        self.i = 0

    def peek(self):
        return self.t[self.i] if self.i < len(self.t) else (None, None)

    def next(self):
        x = self.peek()
        self.i += 1
        return x

    def expect(self, val):
        k, v = self.next()
        if v != val:
            raise DebugParseError("expected %r, got %r at token %d" % (val, v, self.i - 1))

    def seq(self, close):
        items = []
        while self.peek()[1] != close:
            items.append(self.value())
            if self.peek()[1] == ",":
                self.next()
        self.expect(close)
        return items

    def value(self):
        k, v = self.next()
        if k == "str":
            return ("str", _unescape(v))
        if k == "num":
            return ("num", v)
        if k == "punct" and v == "[":
            return ("list", self.seq("]"))
        if k == "punct" and v == "(":
            return ("tuple", "", self.seq(")"))
        if k == "id":
            k2, v2 = self.peek()
            if k2 == "str":          # Symbol"foo"
                self.next()
                return ("sym", v, _unescape(v2))
            if k2 == "elided":       # Position { ... }
                self.next()
                return ("struct", v, {})
            if v2 == "(":
                self.next()
                return ("tuple", v, self.seq(")"))
            if v2 == "{":
                self.next()
                fields = {}
                while self.peek()[1] != "}":
                    fk, fv = self.next()
                    if fk != "id":
                        raise DebugParseError("field name expected, got %r" % (fv,))
                    self.expect(":")
                    fields[fv] = self.value()
                    if self.peek()[1] == ",":
                        self.next()
                self.expect("}")
                return ("struct", v, fields)
            return ("unit", v)
        raise DebugParseError("unexpected token %r" % (v,))


def parse_debug_items(text):
    p = _P(_tokenize(text))
    items = []
    while p.peek()[0] is not None:
        items.append(p.value())
    return items


def parse_debug(text):
    items = parse_debug_items(text)
    if len(items) != 1:
        raise DebugParseError("expected one value, got %d" % len(items))
    return items[0]


# ------------------------------------------------------------------ canonical S-expressions

def hexs(s):
    return s.encode("utf-8").hex()


def canon_float_text(text):
    """Common normal form for a float literal's text (Rust's Debug output or source digits)."""
    return repr(float(text.replace("_", "")))


BINOPS = {
    "Add": "+", "AddFloat": "+.", "Subtract": "-", "SubtractFloat": "-.", "Multiply": "*",
    "MultiplyFloat": "*.", "Divide": "/", "DivideFloat": "/.", "Modulo": "%", "Exponent": "**",
    "Equal": "==", "NotEqual": "!=", "And": "&&", "Or": "||", "BitwiseAnd": "&", "BitwiseOr": "|",
    "LessThan": "<", "LessThanOrEqual": "<=", "GreaterThan": ">", "GreaterThanOrEqual": ">=",
    "StringConcat": "^",
}


def _name(t):
    if t[0] == "sym":
        return t[2]
    raise DebugParseError("symbol expected: %r" % (t,))


def _opt(t):
    """Option<T> -> None | tree"""
    if t[0] == "unit" and t[1] == "None":
        return None
    if t[0] == "tuple" and t[1] == "Some":
        return t[2][0]
    raise DebugParseError("Option expected: %r" % (t,))


def _hint(t):
    f = t[2]
    return "(hint %s%s)" % (_name(f["sym"]), "".join(" " + _hint(a) for a in f["args"][1]))


def _hint_opt(t):
    o = _opt(t)
    return "nohint" if o is None else _hint(o)


def _dest(t):
    if t[1] == "Symbol":
        return "(sym %s)" % _name(t[2][0])
    if t[1] == "Destructure":
        return "(destr%s)" % "".join(" " + _name(x) for x in t[2][0][1])
    raise DebugParseError("LetDestination expected: %r" % (t,))


def _block(t, used):
    return "(block%s)" % "".join(" " + _expr(e, used) for e in t[2]["exprs"][1])


def _args(t, used):
    return "".join(" " + _expr(a[2]["expr"], used) for a in t[2]["arguments"][1])


def _fun(t, used):
    f = t[2]
    tps = "".join(" " + _name(x) for x in f["type_params"][1])
    ps = "".join(" (p %s %s)" % (_name(p[2]["symbol"]), _hint_opt(p[2]["hint"]))
                 for p in f["params"][2]["params"][1])
    return "(tparams%s) (params%s) %s %s" % (tps, ps, _hint_opt(f["return_hint"]), _block(f["body"], used))


def _expr(t, used=False):
    f = t[2]
    e = f["expr_"]
    tag = ""
    if used:
        tag = "u" if f["value_is_used"][1] == "true" else "n"
    k = e[1]
    a = e[2] if e[0] == "tuple" else []

    def X(x):
        return _expr(x, used)

    def h(name):
        return name + tag
    if k == "IntLiteral":
        return "(%s i:%s)" % (h("int"), a[0][1])
    if k == "FloatLiteral":
        return "(%s %s)" % (h("float"), canon_float_text(a[0][2][0][1]))
    if k == "StringLiteral":
        return "(%s s:%s)" % (h("str"), hexs(a[0][1]))
    if k == "Variable":
        return "(%s %s)" % (h("var"), _name(a[0]))
    if k == "BinaryOperator":
        return "(%s %s %s %s)" % (h("binop"), BINOPS[a[1][2]["kind"][1]], X(a[0]), X(a[2]))
    if k == "Call":
        return "(%s %s%s)" % (h("call"), X(a[0]), _args(a[1], used))
    if k == "MethodCall":
        return "(%s %s %s%s)" % (h("mcall"), X(a[0]), _name(a[1]), _args(a[2], used))
    if k == "DotAccess":
        return "(%s %s %s)" % (h("dot"), X(a[0]), _name(a[1]))
    if k == "NamespaceAccess":
        return "(%s %s %s)" % (h("ns"), X(a[0]), _name(a[1]))
    if k == "Let":
        return "(%s %s %s %s)" % (h("let"), _dest(a[0]), _hint_opt(a[1]), X(a[2]))
    if k == "Assign":
        return "(%s %s %s)" % (h("assign"), _name(a[0]), X(a[1]))
    if k == "AssignUpdate":
        return "(%s %s %s %s)" % (h("update"), {"Add": "+=", "Subtract": "-="}[a[1][1]], _name(a[0]), X(a[2]))
    if k == "If":
        o = _opt(a[2])
        return "(%s %s %s %s)" % (h("if"), X(a[0]), _block(a[1], used), "noelse" if o is None else _block(o, used))
    if k == "While":
        return "(%s %s %s)" % (h("while"), X(a[0]), _block(a[1], used))
    if k == "ForIn":
        return "(%s %s %s %s)" % (h("for"), _dest(a[0]), X(a[1]), _block(a[2], used))
    if k == "Match":
        cases = ""
        for c in a[1][1]:
            pat, blk = c[2]
            d = _opt(pat[2]["payload"])
            cases += " (case %s %s %s)" % (_name(pat[2]["variant_sym"]), "nodest" if d is None else _dest(d),
                                           _block(blk, used))
        return "(%s %s%s)" % (h("match"), X(a[0]), cases)
    if k == "Try":
        return "(%s %s %s %s)" % (h("try"), _block(a[0], used), _name(a[1]), _block(a[2], used))
    if k == "Return":
        o = _opt(a[0])
        return "(%s %s)" % (h("return"), "none" if o is None else X(o))
    if k == "Break":
        return "(%s)" % h("break")
    if k == "Continue":
        return "(%s)" % h("continue")
    if k == "ListLiteral":
        return "(%s%s)" % (h("list"), "".join(" " + X(i[2]["expr"]) for i in a[0][1]))
    if k == "TupleLiteral":
        return "(%s%s)" % (h("tuple"), "".join(" " + X(i) for i in a[0][1]))
    if k == "DictLiteral":
        return "(%s%s)" % (h("dict"), "".join(" (kv %s %s)" % (X(i[2]["key"]), X(i[2]["value"])) for i in a[0][1]))
    if k == "StructLiteral":
        return "(%s %s%s)" % (h("structlit"), _name(a[0]),
                              "".join(" (field %s %s)" % (_name(fl[2][0]), X(fl[2][1])) for fl in a[1][1]))
    if k == "FunLiteral":
        return "(%s %s)" % (h("lambda"), _fun(a[0], used))
    if k == "Assert":
        return "(%s %s)" % (h("assert"), X(a[0]))
    if k == "Parentheses":
        return "(%s %s)" % (h("paren"), X(a[0][2]["expr"]))
    if k == "Invalid":
        return "(%s)" % h("invalid")
    raise DebugParseError("unknown expression kind %r" % (k,))


def _vis(t):
    return "pub" if t[1] == "Public" else "priv"


def to_sexpr(t, used=False):
    """Canonical S-expression of a ToplevelItem or Expression tree."""
    if t[0] == "struct" and t[1] == "Expression":
        return _expr(t, used)
    if t[0] == "struct" and t[1] == "Block":
        return _block(t, used)
    k, a = t[1], t[2]
    if k == "Fun":
        return "(fun %s %s %s)" % (_vis(a[2]), _name(a[0]), _fun(a[1], used))
    if k == "Method":
        m = a[0][2]
        kind = m["kind"]
        if kind[1] != "UserDefinedMethod":
            raise DebugParseError("built-in method in a parsed tree")
        return "(method %s %s (recv %s %s) %s)" % (_vis(a[1]), _name(m["name_sym"]), _name(m["receiver_sym"]),
                                                   _hint(m["receiver_hint"]), _fun(kind[2][0], used))
    if k == "Test":
        i = a[0][2]
        return "(test %s %s)" % (_name(i["name_sym"]), _block(i["body"], used))
    if k == "Enum":
        i = a[0][2]
        vs = "".join(" (variant %s %s)" % (_name(v[2]["name_sym"]), _hint_opt(v[2]["payload_hint"]))
                     for v in i["variants"][1])
        return "(enum %s %s (tparams%s)%s)" % (_vis(i["visibility"]), _name(i["name_sym"]),
                                               "".join(" " + _name(x) for x in i["type_params"][1]), vs)
    if k == "Struct":
        i = a[0][2]
        fs = "".join(" (field %s %s)" % (_name(fl[2]["sym"]), _hint(fl[2]["hint"])) for fl in i["fields"][1])
        return "(struct %s %s (tparams%s)%s)" % (_vis(i["visibility"]), _name(i["name_sym"]),
                                                 "".join(" " + _name(x) for x in i["type_params"][1]), fs)
    if k == "Import":
        i = a[0][2]
        o = _opt(i["namespace_sym"])
        return "(import s:%s %s)" % (hexs(i["path"][1]), "noalias" if o is None else "(alias %s)" % _name(o))
    if k == "Expr":
        return "(expr %s)" % _expr(a[0][2][0], used)
    if k == "Block":
        return _block(a[0], used)
    raise DebugParseError("unknown item kind %r" % (k,))


def items_to_sexprs(text, used=False):
    return [to_sexpr(t, used) for t in parse_debug_items(text)]


_AST_RE = re.compile(r"^OK \(ast ([0-9a-f]*)\)\s*(.*)$")
_PERR_RE = re.compile(r"\(perr (invalid|incomplete) ([0-9a-f]*) ([0-9:]+)\)")


def decode_ast_response(line):
    """`OK (ast <hex>) (perr kind <hexmsg> pos)…` -> (dump text, [(kind, message, pos)]); None if not OK."""
    m = _AST_RE.match(line or "")
    if not m:
        return None
    dump = bytes.fromhex(m.group(1)).decode("utf-8")
    errs = [(k, bytes.fromhex(h).decode("utf-8", "replace"), p) for k, h, p in _PERR_RE.findall(m.group(2))]
    return dump, errs


_FLOAT_SEXP = re.compile(r"\(float s:([0-9a-f]*)\)")


def canon_sexpr(s):
    """Normal form of a driver-produced tree: `(float s:<hex text>)` -> `(float <repr>)`."""
    return _FLOAT_SEXP.sub(lambda m: "(float %s)" % canon_float_text(bytes.fromhex(m.group(1)).decode()), s)


def split_top(s):
    """Split a string of concatenated S-expressions into its top-level items."""
    out, depth, start = [], 0, None
    for i, c in enumerate(s):
        if c == "(":
            if depth == 0:
                start = i
            depth += 1
        elif c == ")":
            depth -= 1
            if depth == 0:
                out.append(s[start:i + 1])
        elif depth == 0 and not c.isspace() and start is None:
            pass
    return out


_PARSE_RE = re.compile(r"^OK \(parse \(items ?(.*)\) \(diags ?([a-z ]*)\)\)$")


def decode_model_parse(line):
    """Driver `parse_tokens` answer -> ([item sexpr], [diag kinds]) | ("PANIC", site) | None."""
    if line is None:
        return None
    if line.startswith("PANIC s:"):
        return ("PANIC", bytes.fromhex(line[8:]).decode())
    m = _PARSE_RE.match(line)
    if not m:
        return None
    return [canon_sexpr(x) for x in split_top(m.group(1))], m.group(2).split()


# ------------------------------------------------------------------ real parser vs model on sources

def count_lex_errors(lex_line):
    return len(re.findall(r"\(err ", lex_line or ""))


_PRIVATE_DRIVER = {}


def model_batch(ctx, lines):
    """ctx.model_batch on a private copy of the driver binary taken once per run: other checks running
    concurrently re-link `gvdriver` (lake removes the file while doing so)."""
    import os
    import shutil
    import time
    from . import common
    key = os.getpid()
    if key not in _PRIVATE_DRIVER:
        dst = os.path.join(ctx.scratch("driver"), "gvdriver")
        for _ in range(120):
            try:
                shutil.copy2(common.DRIVER, dst)
                break
            except (FileNotFoundError, OSError):
                time.sleep(1)
        _PRIVATE_DRIVER[key] = dst
    return common.batch([_PRIVATE_DRIVER[key]], lines)


def parse_both(ctx, sources, pinned=False):
    """For each source text: run the real lexer and parser (hook ops `lex`, `ast`) and the Lean parser
    model on the REAL token list. Returns a list of dicts:
      src, impl: {"items": [sexpr], "diags": [kind]} | {"panic": msg} | {"error": raw},
      model: same shape, lex: raw lex answer."""
    lex = ctx.garden_batch(["lex " + hexs(s) for s in sources])
    ast = ctx.garden_batch(["ast " + hexs(s) for s in sources])
    op = "parse_tokens_pinned " if pinned else "parse_tokens "
    model = model_batch(ctx, [op + (l[3:] if l and l.startswith("OK ") else "") for l in lex])
    out = []
    for s, l, a, m in zip(sources, lex, ast, model):
        r = {"src": s, "lex": l}
        d = decode_ast_response(a)
        if d is None:
            if a and a.startswith("PANIC "):
                try:
                    r["impl"] = {"panic": bytes.fromhex(a[6:].split()[0].replace("s:", "")).decode("utf-8", "replace")}
                except ValueError:
                    r["impl"] = {"panic": a}
            else:
                r["impl"] = {"error": a}
        else:
            dump, errs = d
            try:
                items = items_to_sexprs(dump)
            except (DebugParseError, KeyError, IndexError) as ex:
                r["impl"] = {"error": "ast_dump: %r" % (ex,)}
                items = None
            if items is not None:
                kinds = [k for k, _, _ in errs][count_lex_errors(l):]
                r["impl"] = {"items": items, "diags": kinds}
        dm = decode_model_parse(m)
        if dm is None:
            r["model"] = {"error": m}
        elif dm[0] == "PANIC":
            r["model"] = {"panic": dm[1]}
        else:
            r["model"] = {"items": dm[0], "diags": dm[1]}
        out.append(r)
    return out


def same_outcome(r):
    """Model and implementation agree: same trees and diagnostics kinds, or both panic at the same
    parser.rs line."""
    i, m = r["impl"], r["model"]
    if "panic" in i or "panic" in m:
        if "panic" in i and "panic" in m:
            site = re.search(r"parser\.rs:(\d+)", m["panic"])
            return bool(site) and ("parser.rs:%s" % site.group(1)) in i["panic"] or m["panic"] in i["panic"]
        return False
    if "error" in i or "error" in m:
        return False
    return i["items"] == m["items"] and i["diags"] == m["diags"]
