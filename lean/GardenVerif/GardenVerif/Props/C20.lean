import GardenVerif.Lemmas.Extract
/-!
# C20 — Extract variable and extract function preserve behaviour

(V) certified validator, built on Model/Extract.lean part 2.

Relations, decided by the driver on the two trees of the REAL parser (`hoist_check`, `funext_check`):
* `IsLetHoist p p' t n`: up to node ids / use flags, `p'` is `p` with `let n = e` (`e` = the node `t`,
  one layer of parentheses dropped, as the tool does) inserted as a statement IMMEDIATELY BEFORE the
  statement on whose block-free spine the node lies — i.e. in the same block, never outside a branch
  of `if`, a loop body, a `match` arm or a closure body — and exactly that occurrence replaced by the
  variable `n`; `n` occurs nowhere in `p`.
* `IsFunExtract p p' t n`: `p'` has one more toplevel function `n` whose body is exactly `e`; `p'`
  without it is `p` with the node replaced by the call `n(params…)`, the arguments being the new
  function's parameter names in the same order; `n` is fresh.

Proved here:
* `hoistCheck_sound`, `funextCheck_sound` — the decision procedures imply the relations;
* `pure_keeps_state_partial` — the `Pure` ingredient: an expression built from literals, variables,
  operators, parentheses and list / tuple literals never changes the store or the output, in any
  state, with or without closures, for any fuel (it may still raise an error);
* `hoisted_use_partial` — the local step of `let_hoist_sound`: right after `let n = e` has run in a
  state where `e` has the value `v`, the use `n` evaluates to `v` like `e` did, without touching the state.

NOT PROVED (the full statements, kept here):
  `let_hoist_sound : IsLetHoist p p' t n → Pure e → (e raises no error in the state in which the
     enclosing statement starts) → assignment-free p → ∀ fuel, behaviour p fuel ≠ timeout →
     ∃ fuel', behaviour p' fuel' = behaviour p fuel`
  `fun_extract_sound : IsFunExtract p p' t n → (the parameters contain the free local variables of e)
     → Pure e → … same conclusion`.
What is missing is the lift of the local step through the statement's context: the two runs differ by
one extra store cell / environment entry (the hoisted variable; the call's parameter cells), so it
needs a simulation up to a store injection instead of the state EQUALITY that `eval_congr_partial`
(Props/C21) is built on. The hypothesis "`e` raises no error where the statement starts" is exactly
what excludes the evaluation-ORDER change (the hoisted `e` runs before the sub-expressions to its
left in the statement); hoisting out of an untaken branch / loop / arm is excluded by the relation
itself (block-free spine). Per input the direct oracle decides: the output parses, and where the
original ran without error the result prints the same and ends the same way.
-/
set_option linter.unusedVariables false

namespace C20
open Extract RefSem Validators
open Machine (Program Expr)

theorem hoistCheck_sound (p p' : Program) (t : Nat) (n : String) (h : hoistCheck p p' t n = true) :
    IsLetHoist p p' t n := by
  simp only [hoistCheck, Bool.and_eq_true, beq_iff_eq] at h
  exact ⟨progEq_sound _ _ h.1.1, h.1.2, h.2⟩

theorem funextCheck_sound (p p' : Program) (t : Nat) (n : String) (h : funextCheck p p' t n = true) :
    IsFunExtract p p' t n := by
  unfold funextCheck at h
  split at h
  · cases h
  · rename_i d hd
    split at h
    · rename_i b hb
      simp only [Bool.and_eq_true, beq_iff_eq, Bool.not_eq_true'] at h
      exact ⟨d, b, hd, hb, progEq_sound _ _ h.1.1.1, h.1.1.2, h.1.2, h.2⟩
    · cases h

/-- A pure (call-free) expression never changes the store or the printed output. -/
theorem pure_keeps_state_partial (cl : Bool) (p : Program) (n : Nat) (env : Env) (s : RefSem.St) (e : Expr)
    (h : arithE e = true) : (eval cl p n env s e).2 = s :=
  (keepsState cl p n).ev env s e h

/-- The local step of let-hoisting: if `e` has the value `v` in state `s` (and, being pure, leaves
`s` alone), then after `let n = e` the variable `n` evaluates to `v` in the extended environment
and leaves the new state alone, as `e` does. -/
theorem hoisted_use_partial (cl : Bool) (p : Program) (m : Nat) (env : Env) (s : RefSem.St) (e : Expr)
    (n : String) (v : Val) (hn : n ≠ "_") (he : eval cl p (m + 1) env s e = (.val v, s)) (id : Nat) (u : Bool) :
    let r := bindDest (.sym n) v env s
    ∃ env' s', r = .ok (env', s') ∧ eval cl p (m + 1) env' s' (.var id u n) = (.val v, s') := by
  have hn' : (n == "_") = false := by simpa using hn
  refine ⟨(n, s.store.length) :: env, { s with store := s.store ++ [v] }, ?_, ?_⟩
  · simp [bindDest, bindNames, hn']
  · simp [eval, lookupVar, lookup]

/-- Non-trivial instance of the relation: `println(string_repr((1 + 2) * 3))`, extracting `1 + 2`
(node 7, inside parentheses 6) as `nv`: `let nv = 1 + 2` before the statement, `nv * 3` in it. -/
example :
    let p : Program := ⟨[], [], [.call 1 false (.var 2 true "println")
      [.call 3 true (.var 4 true "string_repr") [.binop 5 true .mul
        (.paren 6 true (.binop 7 true .add (.int 8 true 1) (.int 9 true 2))) (.int 10 true 3)]]]⟩
    let p' : Program := ⟨[], [], [.letE 20 false (.sym "nv") (.binop 21 true .add (.int 22 true 1) (.int 23 true 2)),
      .call 24 false (.var 25 true "println")
      [.call 26 true (.var 27 true "string_repr") [.binop 28 true .mul (.var 29 true "nv") (.int 30 true 3)]]]⟩
    hoistCheck p p' 6 "nv" = true := by
  simp [hoistCheck, progEq, WP, WSeq, W, fin, stripCfg, WCfg.i, WCfg.u, seqEq, exprEq, funsEq, enumsEq, hitsProg,
    hitsSeq, hits, hitsOf, hoistProg, HSeq, findSp, findSpL, pick, replSp, replSpL, unparen, freshProg, freshSeq,
    fresh, destEq]

end C20
